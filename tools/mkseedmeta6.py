#!/usr/bin/env python3
"""Writes seeded/<id>-6/meta.json for the sixth wave.  result.txt = the matrix of all 20 quick checks as the checks were
when the seed came back (first run); final.txt = the property's own check after the checks were strengthened."""
import json, os, re
ROOT = os.path.dirname(os.path.dirname(os.path.abspath(__file__)))
T = {
 'C01-6': ('C01', 'json_unescape: before writing the result of a \\uXXXX escape it requires room for three bytes ("a BMP character never needs more"), then calls encode_utf8 as before',
           'a content string ending in a \\uXXXX escape that decodes to one or two bytes (\\u00e9, \\u0007), parsed into a buffer of exactly the size of the event\'s binary form (or 1-2 bytes more): a valid text with a sufficient buffer is refused'),
 'C02-6': ('C02', 'Tags::as_json: the two comma flags (outer array / inner array) merged into one; the reset after a tag\'s closing bracket dropped as redundant',
           'an empty tag [] followed by at least one more tag: the comma between them is not written ([[]["t","x"]]); as_json of a held event is not JSON and does not read back'),
 'C03-6': ('C03', 'encode_utf8: the four per-branch room checks hoisted into one up-front check whose needed length comes from a code.leading_zeros() table that is off by one row',
           'a \\u escape of U+0800..U+0FFF decoded with exactly 2 bytes of output room left: 3 bytes are written through get_unchecked_mut, one past the buffer (debug: abort; release: out-of-bounds write, later a slice panic)'),
 'C04-6': ('C04', 'store_event hands ephemeral events to a fast path that takes a read transaction instead of the write transaction ("never indexed, need not hold the writer lock")',
           'an ephemeral store and an ordinary store that both must grow the map, the ordinary one paused between computing the new length and set_len while the ephemeral one grows twice: set_len truncates the file under the ephemeral event'),
 'C05-6': ('C05', 'find_events, tags-only plan: the per-hit event_matches is skipped when the filter is a single tag constraint whose value is at most 182 bytes (new Lmdb::tc_range_is_exact)',
           'a single-constraint tag filter and a stored event whose value for that letter differs from the filter\'s only by trailing NUL bytes (same zero-padded key): the non-matching event is returned, and under limit 1 displaces the matching one'),
 'C06-6': ('C06', 'Filter::event_matches: a fast reject at the top of the per-constraint loop: if event_tags.get_value(letter).is_none() return false',
           'an event with two tags of one name, the first with no value ([["e"],["e","x"]]), and a filter listing the later tag\'s value: false although NIP-01 says true'),
 'C07-6': ('C07', 'parse_json_filter: the HAVE_* flags moved into the u64 of tag-letter bits ("above the 52 letters") and the letter-to-bit mapping simplified to letter - b\'A\' (a-z -> 32..57): u..z collide with the six flags',
           'a filter with one of the six pairs #u+ids, #v+authors, #w+kinds, #x+limit, #y+since, #z+until, in either order: a valid filter is refused as a duplicate'),
 'C08-6': ('C08', 'next_code_point gains overlong-sequence checks that compare with the exclusive class bounds using <= instead of <',
           'content or a tag string containing U+0080, U+0800 or U+10000 (the first code point of each UTF-8 length): verify refuses a correctly signed event, sign_new fails or panics'),
 'C09-6': ('C09', 'store_event skips the "anything left => Replaced" scan when the event\'s created_at is not before Time::now() ("nothing can be newer than now")',
           'a holder dated after the relay\'s clock and a second version dated between now and the holder: the older one is stored next to the newer one, two events at one address'),
 'C10-6': ('C10', 'new Kind::has_address() = (10000..20000) || (30000..40000); handle_deletion_event does the author comparison and the marking of an a target only if has_address(), while the removal below still goes by is_replaceable()',
           'a request naming another author\'s address of kind 0 or 3 (0:<other>:), dated at or after the victim\'s event: accepted, the foreign profile / contact list is removed'),
 'C11-6': ('C11', 'handle_deletion_event: the nested if-lets over a tag\'s name and first value became tags.iter().map_while(...): the loop ENDS at the first tag with fewer than two strings',
           'a deletion request with a one-string or empty tag (["-"], []) before an e or a tag: accepted and stored, the later targets neither removed nor marked'),
 'C12-6': ('C12', 'store_event calls a new EventStore::reserve(len) after txn.commit() ("grow the map outside the write lock") and propagates its error with ?',
           'growing event.map fails (file-size limit / full disk) right after a store whose event still fitted but left less room than its own size: the call returns an error although the event is stored and indexed'),
 'C13-6': ('C13', 'EventStore::new: "was the end offset ever written" became !(HEADER_SIZE..len).contains(&end) (the same edit as C16-4, given to the C13 agent without that history)',
           'the map full to its last byte (an event ending on a multiple of the chunk) when the process is killed or the store reopened: the end marker is reset to 8, every committed event unreadable, later stores overwrite them'),
 'C14-6': ('C14', 'Store::store_event calls a new EventStore::reserve(event.len()) BEFORE taking the write transaction; the growth step (read remembered length, set_len, resize) now also runs outside the writer lock',
           'a store stalled in the pre-lock growth between reading the length and set_len while other stores grow the map twice and commit: its set_len truncates the file; committed events read back as zeros'),
 'C15-6': ('C15', 'EventStore::new, brand-new-file branch: len = EVENT_MAP_CHUNK moved out of the "if len < EVENT_MAP_CHUNK" guard',
           'an event.map that exists before the first open, judged new and longer than one chunk (pre-sized), then filled: the first growth computes 2 chunks, truncates the file, earlier events read back as zeros'),
 'C16-6': ('C16', 'rebuild pre-sizes the new event map with a new EventStore::reserve(old end) that grows file and mapping but does not record the new length in event_map_file_len',
           'a rebuild with more than two chunks of live events, the returned store used further (no reopen) until the map must grow: the growth computes a length below the real one and truncates'),
 'C17-6': ('C17', 'index() and deindex() share one tag walker built with iter::from_fn whose second ? (on the tag\'s value) ends the whole iteration instead of skipping the tag',
           'an event with a one-byte-named tag without value (["-"], ["t"]) before ordinary tags: the later tags are not in the tag indexes; #x queries miss the event, a newer parameterized version does not replace it'),
 'C18-6': ('C18', 'an id -> offset cache in Lmdb consulted by get_event_by_id / has_event, invalidated in deindex_id inside the still-open write transaction',
           'a lookup of the very id being removed, between deindex_id and the remover\'s commit: the reader re-fills the cache from the committed state; after remove_event / vanish returned the event is still found by id'),
 'C19-6': ('C19', 'read_kind: the in-loop "value > 65535" check removed as a duplicate of the one after the loop; the u32 accumulator can now wrap',
           'an event text whose kind has ten or more digits and is >= 2^32: debug builds panic on overflow; release builds accept k + n*2^32 as kind k'),
 'C20-6': ('C20', 'Hll8 += rewritten as a branch-free merge of eight registers per step with the SWAR "a >= b" test that borrows bit 7 of each lane',
           'a register value of 128..255 in either sketch (reachable by import, or add_element on an element with 127+ zero bits): merge is no longer the register-wise maximum'),
}
final = {}
fp = os.path.join(ROOT, 'seeded', 'wave6-final.txt')
if os.path.exists(fp):
    for l in open(fp):
        m = re.search(r'seeded/(C\d\d-6)/patch.diff", "tier": "quick", "flagged": (\[.*?\])', l)
        if m:
            final[m.group(1)] = json.loads(m.group(2))
for sid, (prop, what, needs) in sorted(T.items()):
    d = os.path.join(ROOT, 'seeded', sid)
    res = open(os.path.join(d, 'result.txt')).read() if os.path.exists(os.path.join(d, 'result.txt')) else ''
    det = []
    for l in res.splitlines():
        m = re.match(r'^(C\d\d) exit (\d) VIOLATIONS (\d+) ?(.*)$', l)
        if m and m.group(2) != '0':
            rest = m.group(4)
            kind = 'failing input found by the direct oracle' if '# oracle' in rest and 'no-failing-input-found' not in rest else 'correspondence/proof broke (no-failing-input-found)'
            why = rest.split('# ', 1)[1][:220] if '# ' in rest else ''
            det.append({'check': m.group(1), 'kind': kind, 'first_report': why})
    first = [x['check'] for x in det]
    own_first = any(x['check'] == prop and x['kind'].startswith('failing') for x in det)
    meta = {
        'seed': sid, 'breaks_property': prop, 'change': what, 'needs_to_manifest': needs,
        'origin': 'written by a sub-agent that saw only the text of property %s, one of the mechanisms its record names, one-line summaries of the changes already tried for it, and a scratch git worktree of /repo (/tmp/seed6/%s); nothing from /verif (prompt: seeded/prompts-wave6/%s.txt)' % (prop, prop, prop),
        'confirmed_by_me': {'where': 'the scratch worktree /tmp/seed6/%s (removed afterwards)' % prop,
                            'commands': ['tools/take_seed.sh /tmp/seed6/%s %s   (confirm_seed.sh; output kept as confirm.txt)' % (prop, sid)],
                            'observed': 'with the patch: the repository\'s own 58 tests pass and the demonstration (seed_demo.rs) fails; without the patch the demonstration passes'
                                        + (' (demonstration gated on --features verif; run by hand with the feature, see confirm.txt)' if sid in ('C04-6', 'C14-6', 'C18-6') else '')
                                        },
        'run_against_checks': {
            'first_matrix': {'command': 'tools/try_seed.py seeded/%s/patch.diff   (git -C /repo apply; all 20 quick checks; git -C /repo checkout -- .)' % sid,
                             'flagged_by': first, 'own_property_check_found_a_failing_input': own_first, 'details': det},
            'after_strengthening': {'command': 'tools/try_seed.py seeded/%s/patch.diff %s' % (sid, prop),
                                    'own_property_check_flags_it': prop in final.get(sid, [])},
        },
    }
    json.dump(meta, open(os.path.join(d, 'meta.json'), 'w'), indent=1)
    print(sid, 'first:', first, 'own-first:', own_first, 'final:', final.get(sid))
