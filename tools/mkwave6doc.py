#!/usr/bin/env python3
"""Prints the sixth-wave table rows of DESIGN.md section 12 from seeded/Cxx-6/meta.json."""
import json
PRE = {'C01', 'C09', 'C12', 'C13', 'C15', 'C18', 'C19'}
for i in range(1, 21):
    s = 'C%02d' % i
    m = json.load(open('/verif/seeded/%s-6/meta.json' % s))
    fm = m['run_against_checks']['first_matrix']
    own = m['breaks_property']
    others = [x for x in fm['flagged_by'] if x != own]
    if fm['own_property_check_found_a_failing_input']:
        o = 'own check: failing input'
    elif own in fm['flagged_by']:
        o = 'own check: correspondence only'
    else:
        o = 'own check: **missed**'
    if s in PRE:
        o += ' (own check strengthened from the agent\'s description before this run)'
    if others:
        o += '; also flagged by ' + ' '.join(others)
    print('| %s-6 | %s | %s | %s |' % (s, m['change'].replace('|', '\\|'), m['needs_to_manifest'].replace('|', '\\|'), o))
