#!/usr/bin/env python3
"""Regenerates MANIFEST.json from the table below (keeps it valid and in one place)."""
import json, os, subprocess
ROOT = os.path.dirname(os.path.dirname(os.path.abspath(__file__)))
props = [json.loads(l) for l in open(os.path.join(ROOT, 'properties.jsonl'))]
hook_commits = subprocess.run(['git', '-C', '/repo', 'log', '--format=%H', '--grep=^verif:'], capture_output=True, text=True).stdout.split()

PROOF_NOTE = ("Trusted: Lean 4.33 kernel; axioms limited to propext/Classical.choice/Quot.sound (audited per theorem on every run); "
              "the hand-written model is tied to /repo only by the correspondence check (worker built from the working tree vs the model's "
              "executable definitions, same requests), sampled except on the finite sub-domains it enumerates; Python json/hashlib oracles. ")

CLAIMS = {
 'C06': dict(
   text="Lean theorem eventMatches_iff_spec: for every filter with named tag constraints and every event, the model of Filter::event_matches "
        "is true exactly when the NIP-01 predicate (written from the property text) holds - all list sizes, times, tag shapes, no bound. "
        "The model is tied to the code by running Filter::event_matches (owned values and raw bytes), the model and an independent Python "
        "NIP-01 implementation on the same thousands of structured pairs.",
   note=PROOF_NOTE + "Unnamed tag constraints (only constructible with from_parts) are outside the theorem and reported as an excluded point.",
   technique="Lean 4 proof (induction over the constraint list) + differential correspondence with a direct NIP-01 oracle",
   design="6/C06"),
 'C20': dict(
   text="Lean theorems on the register model: merge is commutative/associative/idempotent, add_element (a max-update of one register) is "
        "idempotent and order-independent, never overflows its u8 zero count (rho <= 249) for offsets < 24 and is rejected for offsets >= 24, "
        "the sketch of any list whose members are exactly those of A or B equals merge(sketch A, sketch B) (set semantics: order and "
        "multiplicity irrelevant), hex export/import is the identity on all 256-register byte states and import is case-insensitive. "
        "Correspondence: import/add/merge/export/estimate on the real Hll8 vs the model incl. every register extreme 0..255; laws re-evaluated "
        "on the real code. The floating-point estimate is compared, not proved; the 40% envelope is a labelled statistical test.",
   note=PROOF_NOTE + "PARTIAL: IEEE-754 evaluation of estimate_count and the statistical accuracy of HyperLogLog are outside the kernel's reach.",
   technique="Lean 4 proof (list induction, max-semilattice laws) + differential correspondence; labelled statistical test",
   design="6/C20"),
}

checks = []
for p in props:
    c = CLAIMS.get(p['id'])
    if not c:
        continue
    checks.append({
        'property_id': p['id'],
        'quick_cmd': './check %s --tier quick' % p['id'],
        'thorough_cmd': './check %s --tier thorough' % p['id'],
        'evidence_file': 'evidence/%s.json' % p['id'],
        'replay_cmd_template': './check %s --replay {path}' % p['id'],
        'engine': 'pocket-lean',
        'level_claimed': {'category': 'proof', 'text': c['text'], 'design_ref': 'DESIGN.md section ' + c['design']},
        'level_note': c['note'],
        'technique': c['technique'],
    })
m = {
 'version': 1,
 'setup_cmd': './setup.sh',
 'hooks': {'guard': "cargo feature `verif` of pocket-db (pocket_db::verif::point)",
           'enable': "the worker crate /verif/harness depends on pocket-db with features = [\"verif\"]",
           'baseline_off_cmd': 'cd /repo && cargo test --workspace --no-fail-fast --offline',
           'source_commits': hook_commits, 'add_only': True},
 'engines': [{'name': 'pocket-lean', 'path': 'lean/ + harness/ + lib/ + check',
              'serves_properties': [c['property_id'] for c in checks],
              'kind_free_text': 'Lean 4 model + theorems (lake project Pocket), Rust worker over the real crates, Python orchestrator running the correspondence check and direct oracles'}],
 'checks': checks,
 'notes': 'See DESIGN.md. Known findings and fixed defects: known_findings.json.',
 'not_applicable': [{'property_id': p['id'], 'reason': 'check not built yet (work in progress; DESIGN.md section 6 describes the plan)'}
                    for p in props if p['id'] not in CLAIMS],
}
json.dump(m, open(os.path.join(ROOT, 'MANIFEST.json'), 'w'), indent=1)
print('claimed', [c['property_id'] for c in checks])
