#!/usr/bin/env python3
"""Regenerates MANIFEST.json from the table below (keeps it valid and in one place)."""
import json, os, subprocess
ROOT = os.path.dirname(os.path.dirname(os.path.abspath(__file__)))
props = [json.loads(l) for l in open(os.path.join(ROOT, 'properties.jsonl'))]
hook_commits = subprocess.run(['git', '-C', '/repo', 'log', '--format=%H', '--grep=^verif:'], capture_output=True, text=True).stdout.split()

PROOF_NOTE = ("Trusted: Lean 4.33 kernel; axioms limited to propext/Classical.choice/Quot.sound (audited per theorem on every run); "
              "the hand-written model is tied to /repo only by the correspondence check (worker built from the working tree vs the model's "
              "executable definitions, same requests), sampled except on the finite sub-domains it enumerates; Python json/hashlib oracles. "
              "A small translator (lib/srcfacts.py) re-reads, on every run, the parts of the source that are plain facts - the three kind predicates, HEX_INVERSE, "
              "is_safe_char, the tag-member letter test, every integer constant - into lean/Pocket/Src/*.lean, and the *_from_source theorems prove the model "
              "agrees with what the source says now (trusted: that translator's ~300 lines). ")

CLAIMS = {
 'C06': dict(
   text="Lean theorem eventMatches_iff_spec: for every filter with named tag constraints and every event, the model of Filter::event_matches "
        "is true exactly when the NIP-01 predicate (written from the property text) holds - all list sizes, times, tag shapes, no bound. "
        "The model is tied to the code by running Filter::event_matches (owned values and raw bytes), the model and an independent Python "
        "NIP-01 implementation on the same thousands of structured pairs.",
   note=PROOF_NOTE + "Unnamed tag constraints (only constructible with from_parts) are outside the theorem and reported as an excluded point.",
   technique="Lean 4 proof (induction over the constraint list) + differential correspondence with a direct NIP-01 oracle",
   design="6/C06"),
 'C20': dict(
   text="Lean theorems on the register model: merge is commutative/associative/idempotent, add_element (a max-update of one register) is "
        "idempotent and order-independent, never overflows its u8 zero count (rho <= 249) for offsets < 24 and is rejected for offsets >= 24, "
        "the sketch of any list whose members are exactly those of A or B equals merge(sketch A, sketch B) (set semantics: order and "
        "multiplicity irrelevant), hex export/import is the identity on all 256-register byte states and import is case-insensitive. "
        "Correspondence: import/add/merge/export/estimate on the real Hll8 vs the model incl. every register extreme 0..255; laws re-evaluated "
        "on the real code. The floating-point estimate is compared, not proved; the 40% envelope is a labelled statistical test.",
   note=PROOF_NOTE + "PARTIAL: IEEE-754 evaluation of estimate_count and the statistical accuracy of HyperLogLog are outside the kernel's reach.",
   technique="Lean 4 proof (list induction, max-semilattice laws) + differential correspondence; labelled statistical test",
   design="6/C20"),
 'C19': dict(
   text="Lean theorems: for all part lists and all buffers, Tags::from_parts / Event::from_parts / Filter::from_parts (and the owned "
        "constructors) either fail or return a value whose every accessor and iterator (modelled byte-for-byte: offset table, counts, "
        "length-prefixed strings) reproduces exactly the parts (decode(encode x) = x), leave the rest of the buffer untouched, refuse "
        "sections over 65,535 bytes / more than 65,535 tags, ids, authors, kinds / events over u32, return an error for every too-small "
        "buffer, and never panic. Correspondence: constructors and all accessors on the real values vs the model, on part lists around "
        "every u16 boundary (65,535/65,536 tags, 65,531..70,000-byte strings) and buffer lengths need-8..need+8 and 0..200. Integer members 0..10^30 around every power-of-two width through Event::from_json (the value or an error, never another value); the same parts through from_parts and through a JSON text give byte-identical filters (lists with repeated elements included); event_layout_from_source / utf8_constants_from_source tie writer, readers and the UTF-8 length classes to the source. tags_layout_from_source: Tags::output_size_needed (its additions translated into two folds on every run), the two rejections and the header of Tags::from_parts, and the read offsets of delineate / count / TagsIter / TagsStringIter are the model's, for every list of tags and every input. tags_writer_from_source: the header writes and the two write loops of Tags::from_parts, translated statement by statement into random-access buffer writes with the moving p, are the model's tagsFromParts for every list of tags and every buffer (loop invariant, unbounded). rejections_from_source: the tests Event::from_parts and Filter::from_parts make before their first write (size > u32::MAX, a count > u16::MAX, buffer shorter than the value), read from the source on every run, are exactly when the model's constructors refuse. filter_header_from_source / filter_arrays_from_source: the 32-byte header of Filter::from_parts and its copy loops over ids, authors, kinds and the tag section, translated on every run (the loops as random-access writes through the moving p), yield the model's encodeFilterWith for all 32-byte ids and authors, all kinds and every tag section, leaving the rest of the buffer alone.",
   note=PROOF_NOTE + "The JSON constructors are decided under C01/C07/C03 (parseEvent_wf: a successful parse wrote the encoding of a sized event).",
   technique="Lean 4 proof (layout lemmas: decode-after-encode by induction over tags/strings) + differential correspondence with a direct oracle on accessor values",
   design="6/C19"),
 'C03': dict(
   text="Lean theorems: for every input byte string and every output-buffer length, the models of Event/Filter/Tags::from_json, json_unescape, "
        "json_escape and read_hex return ok or err, never panic (every index, slice, checked-arithmetic and unwrap site of the Rust is an explicit "
        "guard in the model); json_unescape writes only inside its buffer and consumes no more than its input; the skip family refuses nesting "
        "beyond 64 levels instead of recursing; a successful event / tags / FILTER parse wrote, inside the buffer, the encoding of a value whose parts, "
        "counts, lengths and offsets fit every field, so that all accessors read it back (parseEvent_wellformed, tagsFromJson_wellformed, "
        "parseFilter_wellformed). Direct oracle on the real code, in a debug (overflow-checked) and "
        "a release build: no panic/abort/hang, guard bytes intact, consumed <= input, all accessors/serializers total on every Ok, over every prefix "
        "of valid texts, single-byte corruptions incl. bytes >= 0x80, texts on which the skipping pass and the decoding pass disagree about where a string ends "
        "(UTF-8 lead byte before a closing quote), NIP-45 count filters with every byte class at the probed position, deep nesting to 200,000, 400-digit numbers, "
        "every buffer length. Every \\uXXXX class (first, last and inner code point of each UTF-8 length) as the last thing written with 0..5 bytes of room through json_unescape and Tags::from_json, guard bytes checked; parser_bounds_from_source / unescape_hex_table_from_source tie the nesting bound, the 52-slot table and the hex table to the source.",
   note=PROOF_NOTE + "Stack exhaustion depends on the platform stack size (the worker exhibits aborts; the model bounds depth). Addr::try_from_bytes is modelled (parseAddr, used by the deletion model) and compared on valid, malformed and mutated inputs; it has no theorem of its own.",
   technique="Lean 4 proof (totality by induction on fuel/structure; invariant over the member loop) + direct no-panic/guard-byte oracle in two build modes + differential correspondence",
   design="6/C03"),
 'C01': dict(
   text="Lean theorems (all inputs): whatever text Event::from_json accepts, the bytes written are exactly the encoding of an event whose seven "
        "parts are within their fields and which every accessor reads back; consumed <= input; integer literals are read exactly and "
        "created_at >= 2^64 / kind > 65535 with any number of digits are rejected, never wrapped. COMPLETENESS FOR EVERY JSON SPELLING "
        "(complete_any_json_spelling): the seven NIP-01 members in ANY order, interleaved with ANY number of unknown members (any other JSON string as key; as value "
        "any JSON value nested at most 64 deep - an inductive grammar of strings with any escapes, numbers, literals, arrays, objects, any whitespace), with ANY "
        "whitespace at every token boundary; the tags array in ANY JSON spelling (whitespace after every '[', before every ']', round every comma; every string "
        "written with any legal escapes: raw UTF-8, the short escapes incl. \\/, \\uXXXX in either hex case for every non-surrogate code point below 0x10000) and "
        "the content likewise; id/pubkey/sig as lower-case hex, kind/created_at as decimal integers; after any leading whitespace and followed by anything: "
        "accepted into any sufficient buffer, consuming up to the closing brace, with exactly the bytes from_parts writes for the event, so every accessor returns "
        "the event's value (incl. content before tags: skipped, then read once the tags are in place). The grammar is given as inductive relations (JT, TagsText, "
        "Spells) and read_tags_array (both passes), json_unescape, burn_value/array/object/string are proved to read every text of it. Correspondence + direct oracle: "
        "CST-generated texts, Python json as the independent parser on text[:consumed], implementation vs model on whole buffers; all 5040 orders in the thorough tier; "
        "exhaustive \\uXXXX sweep. Fourth session: every accepted valid text is parsed again into a buffer of EXACTLY its binary size (+1..3); a stream of id / pubkey / sig strings of the right byte length that alias hex digits only when bits are masked off (U+00B0..B9, bytes with bit 7 set, neighbours of the digit and letter ranges) must be refused, and an accepted text that is valid JSON with every member once but denotes no event is a violation; hex_table_from_source ties the hex decoding to the source table on all 256 byte values.",
   note=PROOF_NOTE + "Outside the theorems, decided by correspondence only: upper-case hex in id/pubkey/sig, integer members written with fraction or exponent, unknown values nested deeper than 64 (refused by the code: depth limit of the C03 repair). Duplicate known keys / escaped spellings of known keys are outside the soundness clause (RFC 8259 s.4).",
   technique="Lean 4 proof (member-loop invariant over any member order with unknown members; inductive JSON grammars for skipped values, tags arrays and string spellings; two-pass tag reader and unescaper lemmas) + differential correspondence with Python json as independent parser",
   design="6/C01"),
 'C02': dict(
   text="Lean theorems: for every accepted text and every prior buffer content, Event::from_json writes exactly the bytes Event::from_parts writes "
        "from the decoded values (from_json_is_from_parts), so two accepted texts that decode to the same seven values give byte-identical "
        "events whatever the buffers held (canonical_any_buffer). CANONICAL OVER EVERY SPELLING (canonical_any_spelling): two texts denoting the same event - any "
        "member order, any whitespace (also inside the tags array), any legal escapes in tag strings and content, any unknown members - parsed into two buffers with "
        "any prior contents are byte-identical and identical to from_parts of the seven values. THE ROUND TRIP (round_trip, round_trip_values): for every event whose fields fit the "
        "format and whose strings are UTF-8 - any sizes, tag shapes and code points, incl. everything as_json escapes - as_json succeeds and from_json of "
        "its text (with any trailing input, into any sufficient buffer with any prior contents) consumes exactly the text and yields exactly the bytes of "
        "from_parts, whose accessors return the original event; underneath json_unescape(json_escape s) = s for every UTF-8 s (unescape_escape_id), so "
        "escaping is injective. Correspondence + direct oracle: from_parts -> as_json -> Python json (same seven "
        "values) -> from_json into dirty buffers, plus 4 alternative renderings per event, all byte-identical to from_parts; ==, Hash and the owned event agree (EQL). event_layout_from_source / escape_constants_from_source / safe_char_from_source: the writer of Event::from_parts (translated statement by statement), the accessor offsets, the escaper's named characters and is_safe_char as the source spells them on this run are the model's. tags_layout_from_source: the same for the tag section (size fold, rejections, header, first offset, reader offsets of tags.rs). tags_writer_from_source: the translated write loops of Tags::from_parts produce encodeTags for every list of tags and leave the rest of the buffer alone.",
   note=PROOF_NOTE + "The theorems are about the model's as_json/from_json; that the Rust functions are these is the correspondence (incl. the exhaustive \\uXXXX sweep). That == and Hash are byte-wise is checked on the real values only (EQL request). Non-UTF-8 strings (constructible only with from_parts) are outside round_trip: as_json refuses or mangles them, as the property allows.",
   technique="Lean 4 proof (parse well-formedness + decode-after-encode; completeness over inductive JSON grammars) + differential correspondence with Python json",
   design="6/C02"),
 'C07': dict(
   text="Lean theorems. ANY ORDER, ANY SEPARATORS, UNKNOWN MEMBERS (any_order_any_whitespace_unknown_members): a filter text that is a list of members - the six "
        "NIP-01 members with values written as as_json writes them, tag members for letters, and unknown members whose value is ANY JSON value nested at most 64 deep "
        "(an inductive grammar of strings with any escapes, numbers, literals, arrays, objects, any whitespace) - in ANY order, separated by any mix of whitespace and "
        "commas, any whitespace round each colon, after any leading whitespace and followed by anything, with each NIP-01 member at most once and distinct tag letters "
        "(all 52 allowed), is accepted into any buffer that holds the result, consumes up to the closing brace, and yields exactly the bytes of from_parts for the filter "
        "the members denote (limit saturated at 2^32-1). ORDER INDEPENDENCE (order_independent, acceptance_order_independent, accepts_characterised, "
        "repeated_member_refused): two texts whose member lists are permutations of each other are both accepted or both refused - the acceptance condition is 'values "
        "well-formed, no NIP-01 member and no tag letter twice', which mentions no position, and a repeated member is refused wherever it stands - and when accepted they "
        "denote the same ids, authors, kinds, since, until, limit and the same tag constraints up to their order. THE ROUND TRIP (round_trip, round_trip_values): for every "
        "canonical filter as_json succeeds and from_json of its text consumes exactly the text and yields exactly the bytes of from_parts, whose accessors return the filter; "
        "both passes of the parser are covered. Also: the parser is total; whatever text it accepts, the bytes written are exactly the encoding of a sized filter which every "
        "accessor reads back (accepted_is_wellformed); since/until literals are read exactly and rejected from 2^64 up; every stored kind is < 65536. Correspondence + direct "
        "oracle: CST filter texts vs Python json, member permutations (same acceptance and meaning, also for ill-formed member lists), all 52x52 ordered letter pairs "
        "exhaustively, 33..52 distinct letters, integer boundaries, parse(as_json(f)) byte-identical. filter_header_from_source / filter_arrays_from_source: the 32-byte header of Filter::from_parts and its copy loops over ids, authors, kinds and the tag section, translated on every run (the loops as random-access writes through the moving p), yield the model's encodeFilterWith for all 32-byte ids and authors, all kinds and every tag section, leaving the rest of the buffer alone.",
   note=PROOF_NOTE + "PARTIAL: other spellings of the NIP-01 member VALUES (whitespace inside the id/kind/value arrays, upper-case hex, escapes in tag values other than those as_json writes) and order independence for member lists with ill-formed values are not theorems; they rest on the correspondence (exhaustive over letter pairs, sampled elsewhere). Unknown values nested deeper than 64 are refused by the code (depth limit of the C03 repair).",
   technique="Lean 4 proof (member-loop invariant against an abstract filter state over any member order; inductive JSON grammar for skipped values; permutation invariance; two-pass parser lemmas) + differential correspondence with Python json; exhaustive letter-pair enumeration",
   design="6/C07"),
 'C08': dict(
   text="Lean theorems with SHA-256 (H) and BIP-340 verification (SV) as parameters: verify succeeds iff id = H(canon e) and SV pubkey id sig; every event "
        "of the signing constructor verifies for any signer whose signatures verify; a changed id is always rejected; the canonical serialization determines pubkey, "
        "created_at, kind, tags and content of every well-formed UTF-8 event (canon_determines_fields: injectivity, with the parsers as inverse), hence ANY change "
        "to a hashed field of a verifying event is rejected given H does not collide on the two serializations (field_tamper_detected). Correspondence: events over every character class signed by "
        "the real sign_new must verify, their id must equal hashlib.sha256 of the MODEL's canonical serialization, and every single-field mutant "
        "(bits of id/pubkey/sig, created_at, kind, tag strings, tag structure, content) must fail the real verify.",
   note=PROOF_NOTE + "SHA-256 and BIP-340 are parameters of the theorems (secp256k1 and the sha2 crate are trusted); collision-freeness is a stated hypothesis.",
   technique="Lean 4 proof (parametric in hash and signature scheme) + differential correspondence with hashlib.sha256 and mutation testing of the real verify",
   design="6/C08"),
 'C04': dict(
   text="Lean theorems over ALL histories of store/remove/vanish/deletion/reopen (induction over the operation list, any events, any sizes): the store "
        "invariant (everything indexed is in the map; offsets strictly increasing, 8-aligned, past the header, each event within the end marker; ids "
        "unique) holds in every reachable state; a successful store's offset reads back the stored event immediately and after any continuation "
        "without rebuild (refused stores, file growth, removals included); every retrievable event reads back by id and by offset as itself; a "
        "new offset is beyond all earlier ones (never reused); reopen is the identity. THE MAP FILE (map_store, map_reopen; Model/EventMap.lean: file length, persisted end "
        "marker, remembered length and mapping length, the alignment padding, the grow-and-retry loop, set_len modelled as setting the length EXACTLY, i.e. truncating when smaller): "
        "on a consistent map an append never fails, returns the 8-aligned old end, advances the end by exactly the event's size and leaves the file at least as long as before; "
        "reopening finds the same end and the real length, also when the map is full to its last byte. event_map_from_source: EventStore::new (what counts as a new file, its initial length, the length it remembers), the padding of store_event and one round of its grow path (file, mapping and remembered length := remembered length + one chunk, in that order), matched against event_store.rs and translated on every run, are the model's emOpen / emPad / emGrow. DELINEATION ON READ (delineate_ignores_what_follows): the event is cut "
        "out exactly however many bytes (4 GiB and more) of later events lie behind it. Correspondence: histories with event sizes 0 B..3 map chunks and exact-fit events, "
        "every returned offset and every id re-read after every step on the real store vs model, the map file's length vs the model's after every step incl. reopen and rebuild; "
        "Event::delineate on slices continuing 0..3x4 GiB behind the event; direct oracle: bytes equal an independent Python encoding of what was submitted; the file never shrinks. Forced two-thread schedules: two stores of ONE id Histories that start in a pre-sized event.map (PRE: 1..5 chunks, odd lengths), file length vs the model at every step; growth-step races (a store growing the map paused at every point while another thread stores chunk-sized events: whatever returned an offset reads back whole). (same bytes, or different bytes under one id) through every yield point - exactly one offset, the other duplicate, the stored one reads back by id.",
   note=PROOF_NOTE + 'Modelled, not verified: LMDB (ordered maps, snapshot reads inside a write transaction, atomic commit), the mmap-append event map; the seven index tables are modelled as functions of the set of indexed events with range scans as filter+key-order sort. ' + "'Forever' across process restarts relies on the kernel keeping file contents (modelled).",
   technique="Lean 4 proof (invariant by induction over operation sequences) + differential correspondence with a byte-level direct oracle",
   design="6/C04"),
 'C12': dict(
   text="Lean theorem: for every state and event, if store_event returns anything but Ok, every table (index, id markers, address markers, extra) is exactly "
        "what it was, hence every lookup, marker query, find_events answer and entry count is unchanged; earlier offsets still read back. Direct, model-free "
        "oracle on the real store: the whole probe battery before a failing store equals the battery after it, over histories aimed at failures after "
        "effects (k-th foreign tag after k-1 own ones, replaced after pre-removal, LMDB key-size error after earlier tags). FAULT INJECTION for the any-other-error clause: newer/older versions of an address, deletion requests by id and by address, regular events and duplicates stored while all LMDB reader slots are taken (RDF): whenever the call returns an error the battery is unchanged. REFINEMENT (store_refines_abstract error_before_commit_noop: in the micro-step model every state a call passes through before its commit has the tables of the state before; second fault FSZ (the map file cannot grow: file-size limit) - forty stores until the map is full, every failing call leaves the battery unchanged., every_history_refines_abstract): on every reachable state the concrete model computes exactly the abstract store of Spec/AbsStore.lean, for every history incl. vanish and rebuild; on the abstract side the property is three lines (abstract_failed_store). The Lean abstract store follows every history in the driver and is compared with the independently written Python specification after every step (SPC).",
   note=PROOF_NOTE + 'Modelled, not verified: LMDB (ordered maps, snapshot reads inside a write transaction, atomic commit), the mmap-append event map; the seven index tables are modelled as functions of the set of indexed events with range scans as filter+key-order sort. ' + "The bytes of a refused event stay in the map (not an observable of this property; rebuild reclaims them).",
   technique="Lean 4 proof (case analysis of the transaction discipline) + model-free before/after battery oracle + differential correspondence",
   design="6/C12"),
 'C16': dict(
   text="Lean theorems: reopen is the identity; rebuild keeps id markers, address markers with times and extra tables verbatim, keeps exactly the retrievable "
        "events (permutation), answers every lookup by id identically, re-establishes the invariant, holds only the retrievable events in the new map "
        "and uses at most 8 + sum(len+7) bytes. Direct model-free oracle: battery before = battery after reopen/rebuild at every position of histories with "
        "removed/replaced/deleted/ephemeral/failed leftovers, long and binary identifiers, repeated rebuilds, extra tables; exact event-space accounting; both "
        "backup files exist. Every fifth history starts in a pre-sized event.map (PRE); episode 'several chunks of live events, rebuild, keep storing on the same handle until the compacted map grows'; spec_rebuild_preserves: on the abstract store a rebuild keeps exactly the retrievable events and both marker tables.",
   note=PROOF_NOTE + 'Modelled, not verified: LMDB (ordered maps, snapshot reads inside a write transaction, atomic commit), the mmap-append event map; the seven index tables are modelled as functions of the set of indexed events with range scans as filter+key-order sort. ' + "Invariance of find_events answers under rebuild is established by the battery oracle (query results before = after), not by a theorem.",
   technique="Lean 4 proof (permutation/invariant lemmas) + model-free before/after battery oracle + differential correspondence",
   design="6/C16"),
 'C18': dict(
   text="Lean theorems: remove_event makes exactly the event with that id unretrievable (filter), leaves markers, extra tables and the map untouched, leaves every "
        "other event readable, and leaves no marker (a removed event is not refused as duplicate/deleted because of the removal); vanish only removes index "
        "entries and touches nothing else; storing an ephemeral event succeeds and leaves the retrievable set unchanged. In every reachable state vanish removes exactly the events authored by the key plus the "
        "kind-1059 events with a p tag whose value is the key's lower-case hex, and nothing else (vanish_exact, from the completeness of the author and "
        "kind+tag plans). Correspondence + the abstract specification after every step (gift wraps naming the author first / later / as a non-first value / "
        "in upper case; keys with gift wraps but no events of their own). Gift wraps whose p value is NOT the key's hex but shares its padded index key or a prefix with it (trailing NULs up to and beyond 182 bytes, one digit short/long, leading space) must survive vanish; episodes wrap + near-miss wraps + own event + vanish. Removal races: remove_event / vanish paused at each of its points while another thread looks the very event up by id; after the removal returned the event is gone by every path, unmarked and storable again. spec_remove_vanish_exact: the statement on the abstract store.",
   note=PROOF_NOTE + 'Modelled, not verified: LMDB (ordered maps, snapshot reads inside a write transaction, atomic commit), the mmap-append event map; the seven index tables are modelled as functions of the set of indexed events with range scans as filter+key-order sort. ' + "vanish_exact assumes fewer retrievable events than u32::MAX (the two internal queries run without a limit).",
   technique="Lean 4 proof + differential correspondence with the abstract specification as direct oracle",
   design="6/C18"),
 'C05': dict(
   text="Lean theorems for every store state, filter, screening function and EVERY index plan of find_events (ids, author+kind, author+tag, kind+tag, tag, "
        "author, scrape; moving since; early exits): every returned event is currently retrievable, matches the filter (with C06: under NIP-01 semantics) "
        "and passed the screen; no duplicates; newest first; at most limit; the redacted flag implies a retrievable matching event screened redacted; "
        "refused as scraping iff the filter names no ids/authors/tags and no allowance covers it (span saturating); never panics. Completeness, in every "
        "reachable state, for every NIP-01 filter (tag constraints named by one letter), through whichever plan: a retrievable, matching, screened-in event "
        "that is missing from the answer implies that exactly limit events were returned and none of them is older (newest_under_limit: the moving since and "
        "the early range exits never lose a newer event; equal times may fall either side of the cut); hence with a non-binding limit the answer is exactly "
        "the qualifying set and does not depend on the plan (findEvents_exact, plan_independent, answer_characterised). THE BYTE KEYS (index_key_order, index_range_bounds, "
        "tag_index_range_bounds, time/author/author_kind_index_scan): the model's range scans are what a bytewise-ordered table returns between the bounds the *_iter functions "
        "build over the keys key_*_index builds (prefix, big-endian u64::MAX - created_at, id; both bounds inclusive, all-zero and all-ones ids included). Correspondence: ~40 "
        "filters after every step of every history on the real store vs the model (exact answer) and vs ValidAnswer of the abstract specification; the keys the six index tables "
        "really hold, read back from LMDB in its iteration order through a verif hook, equal the model's keys byte for byte after every step. THE TAG TABLES ROW BY ROW (tag_index_scan, author_tag_index_scan, kind_tag_index_scan, tag_rows_are_dumped_keys): a tag table holds one row per distinct (letter, 182-byte padded value) of each event; a range read over those rows with the bounds tc_iter / atc_iter / ktc_iter compute is exactly the model's scan (each event once, however many of its tags fall on the key), and the rows are the keys the hook dumps. keys_from_source / iter_bounds_from_source / scrape_gate_from_source: the six key builders, the two ends and inclusiveness of every range read, and the scraping allowance, translated from lmdb/mod.rs and lib.rs on every run, are the model's. Spanning queries (shared with C14): a query paused in its screening callback while two stores commit answers from ONE committed state, for every multi-range plan incl. the (author, replaceable kind) pairs of the authors+kinds plan.",
   note=PROOF_NOTE + 'Modelled, not verified: LMDB (ordered maps, snapshot reads inside a write transaction, atomic commit), the mmap-append event map; the seven index tables are modelled as functions of the set of indexed events with range scans as filter+key-order sort. ' + "Filters with multi-byte tag names (constructible only with from_parts) are outside the completeness theorems (the tag plans probe by first byte only) and are covered by the correspondence. Of LMDB's ordering only 'a range is iterated in bytewise key order' is assumed (and observed on every step); the list-level scan equality is proved for the time, author and author-kind tables, the range/order facts at key level for the three tag tables.",
   technique="Lean 4 proof (loop invariant over all seven query plans) + differential correspondence + ValidAnswer oracle from the abstract specification",
   design="6/C05"),
 'C09': dict(
   text="Lean theorems over ALL histories: at most one retrievable event per replaceable address in every reachable state (one_per_address, by induction over "
        "operations incl. deletion requests, removal, vanish, rebuild); an event strictly older than the holder of its address is refused (replaced, or "
        "deleted/duplicate) and changes nothing; a stored non-deletion event leaves every event of a different address (differing in author, kind, any byte "
        "or the length of d) and every address-less event in place; the kind classes are exactly the NIP-01 ranges for every kind. Correspondence: histories "
        "concentrated on one or two addresses and their neighbours (kind +-1 across every boundary, d values sharing 182-byte prefixes, NUL-padded, two d "
        "tags), all 65,536 kinds exhaustively through the classifiers. Versions dated after the relay's clock (created_at comes from the author) in address families; classification_from_source: the three kind predicates translated from kind.rs on every run equal the model's for every kind (by arithmetic); spec_one_per_address: the invariant on the abstract store, by refinement.",
   note=PROOF_NOTE + 'Modelled, not verified: LMDB (ordered maps, snapshot reads inside a write transaction, atomic commit), the mmap-append event map; the seven index tables are modelled as functions of the set of indexed events with range scans as filter+key-order sort. ' + "An event of a parameterized kind without a d value has no address (the code's reading; NIP-01's 'missing = empty' is noted in DESIGN.md).",
   technique="Lean 4 proof (address-uniqueness invariant by induction over histories) + differential correspondence + exhaustive kind enumeration",
   design="6/C09"),
 'C10': dict(
   text="Lean theorems for every reachable state and EVERY stored event (any kind, any tag list in any order, whatever it returns): an event of another key "
        "that was retrievable stays retrievable and reads back unchanged; no deletion marker appears on another key's stored event; no address marker of "
        "another key changes; over whole histories of events by other keys the victim stays. Correspondence + direct oracle: requests with 0-5 e/a tags "
        "mixing own/foreign/absent/malformed targets at random points of histories; every foreign event retrievable and unmarked afterwards; plus forced "
        "two-thread schedules: another author's request (by id and by address) overlapping the victim's store at every yield point - a victim stored successfully stays retrievable and unmarked. FAULT INJECTION: ON THE SPECIFICATION (spec_foreign_history_harmless): the same over whole histories of the abstract store, by refinement. the request arrives while all 126 LMDB reader slots are taken (worker request RDF), so target lookups fail instead of answering - whatever it replies, the victim stays retrievable and unmarked.",
   note=PROOF_NOTE + 'Modelled, not verified: LMDB (ordered maps, snapshot reads inside a write transaction, atomic commit), the mmap-append event map; the seven index tables are modelled as functions of the set of indexed events with range scans as filter+key-order sort. ' + "Victims are retrievable events; a marker placed on an id that is not stored is the code's documented choice and outside the property.",
   technique="Lean 4 proof (induction over the request's tag list with a confinement invariant) + differential correspondence + direct oracle",
   design="6/C10"),
 'C11': dict(
   text="Lean theorems over all continuations (stores, further requests in any timestamp order, removal, vanish, reopen, rebuild): an id marker once set "
        "stays set; the deletion time of an address never decreases; storing an event whose id is marked never succeeds, now or later; an event at a "
        "deleted address not newer than the deletion time is refused, now and after any continuation; an event newer than every deletion of its address "
        "(and not marked by id) is never refused as deleted; an accepted request marks every id it names and every address it names with a time >= its own; in "
        "EVERY reachable state a marked id is not retrievable and every retrievable event is newer than the deletion time of its address (invariant "
        "Covered, by induction over histories incl. rebuild) - so everything an accepted deletion covers is unretrievable in every continuation. "
        "Correspondence + abstract specification after every step: reply classes, the retrievable set and both marker tables with their times; plus forced "
        "two-thread schedules (a deletion request racing with the event it covers, by id and by address, paused at every yield point, both directions) judged "
        "by the property text: an accepted request leaves the covered event unretrievable and refused on resubmission. Identifiers containing the separator ON THE SPECIFICATION (spec_covered): in every state the abstract store reaches a marked id is not retrievable and every retrievable event is newer than the deletion time of its address. of the kind:author:identifier notation (app:settings, a:b:c, a relay URL) in families, address episodes and requests.",
   note=PROOF_NOTE + 'Modelled, not verified: LMDB (ordered maps, snapshot reads inside a write transaction, atomic commit), the mmap-append event map; the seven index tables are modelled as functions of the set of indexed events with range scans as filter+key-order sort. ' + "Marker placed on an id that is not stored yet: the code's documented choice.",
   technique="Lean 4 proof (marker monotonicity and the Covered invariant by induction over histories) + differential correspondence with the abstract specification",
   design="6/C11"),
 'C17': dict(
   text="Lean theorems: an unretrievable event is returned by no filter through any of the seven plans; a retrievable event is returned by the filter of its "
        "own id; in every reachable state a retrievable event is returned by EVERY filter (single-letter tag names, limit not binding) that its own fields "
        "satisfy - id, author, author+kind, each tag value alone / with author / with kind, a time window - whichever of the seven plans serves it "
        "(self_findable, from find_events completeness); the tag-index entry count is a function of what remains indexed and is zero when nothing is. The four "
        "entry counts = number of retrievable events are decided by correspondence after every step (stats on the real store), as is the self-filter family "
        "per event seen vs the specification. keys_from_source / index_padding_from_source: the key builders of all six query indexes as lmdb/mod.rs spells them on this run produce the model's byte keys. index_walk_from_source: Lmdb::index and Lmdb::deindex, translated statement by statement on every run, put / delete exactly the (table, key) pairs of the model's eventKeys.",
   note=PROOF_NOTE + 'Modelled, not verified: LMDB (ordered maps, snapshot reads inside a write transaction, atomic commit), the mmap-append event map; the seven index tables are modelled as functions of the set of indexed events with range scans as filter+key-order sort. ' + "PARTIAL: the model derives all index tables from the set of indexed events; that the real index/deindex pairs keep the tables in that relation is exactly what the per-step stats and self-filter comparison checks, not a theorem about the Rust.",
   technique="Lean 4 proof (corollaries of the find_events loop invariant) + differential correspondence on entry counts and the self-filter family",
   design="6/C17"),
 'C13': dict(
   text="Lean theorems on the micro-step crash model: every durable state a store_event call passes through (txn open, padding appended, bytes in place with the "
        "marker moved, index committed) satisfies the store invariant (every index entry leads to a complete event inside the end marker), keeps every earlier "
        "offset readable, and has tables equal to those before or after the call - never in between; likewise remove_event; a killed vanish leaves a subset of "
        "its targets gone and nothing else; whatever state store creation is killed in (absent / empty / sized without header / initialised) the next open "
        "starts from an empty initialised map. THE MAP FILE THROUGH A KILL (store_kill_map_states, creation_map_states): whatever durable (file length, end marker) pair a kill "
        "inside store_event leaves - before/after the padding, after any number of set_len growth rounds, after the append - the file is at least as long as before, the marker is the "
        "old, the aligned or the final one and lies inside the file; the next open succeeds with that marker and the real length, and every later store can only extend the file. event_map_from_source ties emOpen / emPad / emGrow to event_store.rs as it reads on this run. "
        "Fault enumeration on the real code through the verif hooks: for each step of each history and each named point "
        "and occurrence a child dies there by _exit (incl. mid-copy and during file growth), the parent reopens, compares the battery with the model's "
        "before/after states, and continues the history (after a kill in the growth path long enough for two more growth rounds); the (file length, end) pair found after the reopen "
        "must be one of the model's durable states; the points hit per call are compared with the model's micro-step list. A killed vanish is judged exactly: the ids gone after the reopen are removed one by one from an uninterrupted real store, and the WHOLE battery (entry counts of all tables, author/kind/tag queries, address lookups) and the continuation must equal that reference; every history ends with a vanish of a key that has several targets. Every history contains an event ending on the last byte of the map file, and the call after it is interrupted (reopen of an exactly full map).",
   note=PROOF_NOTE + 'Modelled, not verified: LMDB (ordered maps, snapshot reads inside a write transaction, atomic commit), the mmap-append event map; the seven index tables are modelled as functions of the set of indexed events with range scans as filter+key-order sort. ' + "PARTIAL: process kill only (page cache survives); LMDB's commit atomicity, the kernel and the absence of compiler/CPU reordering across the SeqCst fence are trusted; torn 8-byte marker stores are not modelled.",
   technique="Lean 4 proof (invariant over micro-step prefixes) + fault enumeration at named kill points with reopen-and-compare",
   design="6/C13"),
 'C14': dict(
   text="Lean theorems on the small-step scheduler model (threads: waiting for the writer lock / inside the write transaction / done), for EVERY schedule: the "
        "committed state equals the serial execution of the finished store calls in the order their transactions ended (linearizability); at most one thread is "
        "inside a write transaction and it holds the lock; every state a reader can snapshot satisfies the store invariant (no index entry without complete "
        "bytes: the append precedes the commit); a successfully stored non-ephemeral event is retrievable afterwards, so a second submission of the same event "
        "in either serial order is refused as duplicate (exactly one winner). Correspondence: a schedule controller pauses thread A at each verif yield point "
        "while thread B runs (pairs of fresh / duplicate / replaceable / deletion / removal operations, always incl. a deletion racing with the event it "
        "names); replies, blocking behaviour and the battery afterwards must equal the serial order run on the real store, which in turn is compared with the "
        "model's serial execution; SPANNING QUERIES: a query paused inside the caller's screening callback at the first event it examines while two further events are stored (one in "
        "the index range it has entered, one in a range it has not reached), for every multi-range plan - its answer must be the answer of one committed state "
        "(before, between, after), never the later store without the earlier; plus 16-thread stress runs judged by 'some serial order explains it' invariants. Growth-step races (shared with C04/C15): a store that must grow the map paused at every point of the append/growth path while another thread stores chunk-sized events; whatever returned Ok reads back whole.",
   note=PROOF_NOTE + 'Modelled, not verified: LMDB (ordered maps, snapshot reads inside a write transaction, atomic commit), the mmap-append event map; the seven index tables are modelled as functions of the set of indexed events with range scans as filter+key-order sort. ' + "PARTIAL: the model has the lock, snapshots and atomic commit by construction; LMDB's writer mutex, NO_TLS read transactions, the RwLock/Mutex in mmap-append and the memory model are trusted; a reordering bug inside one yield-free region is out of reach. For ephemeral kinds every submission succeeds (they are never indexed): 'exactly one succeeds' is stated for non-ephemeral events.",
   technique="Lean 4 proof (induction over schedules of a lock-based small-step model) + forced-schedule correspondence through yield points + stress",
   design="6/C14"),
 'C15': dict(
   text="Lean theorems: the bytes an offset denotes are stable in every continuation (from C04); on the model in which a growth step may move the mapping's base to "
        "any address, references stay valid iff the base stayed, in particular across any number of non-growing stores; a concrete execution in which one growth "
        "step leaves an earlier reference dangling (growth_may_move_witness): the property as stated is FALSE of the code. Check on the real store: addresses and "
        "bytes of all earlier events re-read after every store across growth steps; an address change at a growth step is the recorded KNOWN FINDING (printed, "
        "exit 0); changed bytes or an address change without growth are violations. Forced two-thread schedules: an event stored while another thread's store "
        "fails (duplicate / invalid deletion / replaced) at every yield point, both directions, must read back whole by id and offset before and after a further store. written_region_survives_store: in the event-map model no store (padding, growth rounds, append) shortens the file or moves the end marker backwards, so the written region [8, end) stays inside the file. Stores that start in a pre-sized event.map (worker request PRE: several chunks, odd lengths) so that the first growth comes late; growth-step races shared with C04/C14.",
   note=PROOF_NOTE + 'Modelled, not verified: LMDB (ordered maps, snapshot reads inside a write transaction, atomic commit), the mmap-append event map; the seven index tables are modelled as functions of the set of indexed events with range scans as filter+key-order sort. ' + "PARTIAL / open finding: where the OS places the new mapping is not determined by the program; no small safe repair exists inside pocket (mmap-append maps anew and unmaps the old mapping).",
   technique="Lean 4 proof (validity-iff-base-unchanged, negation witness) + address/byte comparison on the real store with known-findings matching",
   design="6/C15"),
}

checks = []
for p in props:
    c = CLAIMS.get(p['id'])
    if not c:
        continue
    checks.append({
        'property_id': p['id'],
        'quick_cmd': './check %s --tier quick' % p['id'],
        'thorough_cmd': './check %s --tier thorough' % p['id'],
        'evidence_file': 'evidence/%s.json' % p['id'],
        'replay_cmd_template': './check %s --replay {path}' % p['id'],
        'engine': 'pocket-lean',
        'level_claimed': {'category': 'proof', 'text': c['text'], 'design_ref': 'DESIGN.md section ' + c['design']},
        'level_note': c['note'],
        'technique': c['technique'],
    })
m = {
 'version': 1,
 'setup_cmd': './setup.sh',
 'hooks': {'guard': "cargo feature `verif` of pocket-db (pocket_db::verif::point)",
           'enable': "the worker crate /verif/harness depends on pocket-db with features = [\"verif\"]",
           'baseline_off_cmd': 'cd /repo && cargo test --workspace --no-fail-fast --offline',
           'source_commits': hook_commits, 'add_only': True},
 'engines': [{'name': 'pocket-lean', 'path': 'lean/ + harness/ + lib/ + check',
              'serves_properties': [c['property_id'] for c in checks],
              'kind_free_text': 'Lean 4 model + theorems (lake project Pocket), Rust worker over the real crates, Python orchestrator running the correspondence check and direct oracles'}],
 'checks': checks,
 'notes': 'See DESIGN.md. Known findings and fixed defects: known_findings.json.',
 'not_applicable': [{'property_id': p['id'], 'reason': 'check not built yet (work in progress; DESIGN.md section 6 describes the plan)'}
                    for p in props if p['id'] not in CLAIMS],
}
json.dump(m, open(os.path.join(ROOT, 'MANIFEST.json'), 'w'), indent=1)
print('claimed', [c['property_id'] for c in checks])
