#!/usr/bin/env python3
"""Replays the DESIGN.md section-7 witnesses for pocket-types against the worker (real code).
Used once on the pinned tree to demonstrate each defect before its `fix:` commit, and kept as a
regression corpus (the per-property checks run the same inputs from corpus/)."""
import subprocess, sys
W='/verif/.cache/cargo-target/debug/pocket-worker'
def hx(b): return b.hex() if b else '-'
ev=b'{"id":"a9663055164ab8b30d9524656370c4bf93393bb051b7edf4556f40c5298dc0c7","pubkey":"ee11a5dff40c19a555f41fe42b48f00e618c91225622ae37b6c2bb67b76c4e49","created_at":1681778790,"kind":1,"sig":"4dfea1a6f73141d5691e43afc3234dbe73016db0fb207cf247e0127cc2591ee6b4be5b462272030a9bde75882aae810f359682b1b6ce6cbb97201141c576db42","content":"He got snowed in","tags":[["client","gossip"],["p","e2ccf7cf20403f3f2a4a55b328f0de3be38558a7d5f33632fdaaefc726c1c8eb"]]}'
reqs=[]
def evj(name,b,n=4096): reqs.append((name,'EVJ %s %d 1'%(hx(b),n)))
def flj(name,b,n=256): reqs.append((name,'FLJ %s %d 1'%(hx(b),n)))
def raw(name,l): reqs.append((name,l))
evj('ev-ok',ev)
evj('ev-unknown-member',ev[:1]+b'"foo":1,'+ev[1:])
evj('ev-trailing-short-unknown',ev[:-1]+b',"x":1}')
evj('ev-unknown-zero-number',ev[:-1]+b',"xxxxxxxx":0}')
evj('ev-created_at-2^64',ev.replace(b'1681778790',b'18446744073709551616'))
evj('ev-kind-11digits',ev.replace(b'"kind":1,',b'"kind":99999999999,'))
for i in (250,300,420,len(ev)-1): evj('ev-prefix-%d'%i,ev[:i])
evj('ev-highbyte-in-hex',ev.replace(b'"a966',b'"\xc3\xa9'))
evj('ev-buf-160',ev,160)
evj('ev-padding-dirty',ev,4096)
flj('fl-kinds-unterminated',b'{"kinds":[1]')
flj('fl-brace-space',b'{ ')
flj('fl-e-then-a',b'{"#e":["x"],"#a":["y"]}')
flj('fl-a-then-e',b'{"#a":["x"],"#e":["y"]}')
flj('fl-A',b'{"#A":["x"]}')
flj('fl-search',b'{"search":"x","kinds":[1]}')
flj('fl-limit-2^32',b'{"limit":4294967296}')
flj('fl-since-2^64',b'{"since":18446744073709551616}')
flj('fl-33-tags',b'{'+b','.join(b'"#a":[]' for _ in range(33))+b'}',4096)
raw('esc-f7bfbfbf','ESC f7bfbfbf')
raw('tg-invalid-utf8','TGJ %s 256 1'%hx(b'[["\xc3"],["a"]]'))
raw('tgp-70000','TGP 61,%s 80000 1'%('62'*70000))
raw('hll-40','HEX hll '+hx(b'40'*256))
raw('hll-ff','HEX hll '+hx(b'ff'*256))
raw('hll-28','HEX hll '+hx(b'28'*256))
raw('flp-quote','FLP _ _ _ 74,612262 - - - 256 1')
p=subprocess.run([W],input='\n'.join(l for _,l in reqs)+'\n',capture_output=True,text=True)
outs=p.stdout.splitlines()
for (n,l),o in zip(reqs,outs):
    print(n,'=>',o[:100])
print('rc',p.returncode, len(outs), len(reqs))
# deep nesting aborts the process: run separately
deep=b'{"#e":'+b'['*20000
p=subprocess.run([W],input='FLJ %s 256 1\n'%hx(deep),capture_output=True,text=True)
print('fl-deep-nesting => rc',p.returncode,p.stdout[:40])
