#!/usr/bin/env python3
"""DESIGN.md section-7 witnesses for pocket-db, replayed against the worker (real code)."""
import subprocess, sys, os
W='/verif/.cache/cargo-target/debug/pocket-worker'
def hx(b): return b.hex() if b else '-'
def I(n): return bytes([n])*32
A,B,C=I(0xa1),I(0xb2),I(0xc3)
def tags(ts):
    if not ts: return '_'
    return ';'.join('.' if not t else ','.join(hx(s) for s in t) for t in ts)
def sto(id,pk,kind,t,tg=(),content=b''):
    return 'STO %s %s %d %d %s %s'%(hx(id),hx(pk),kind,t,tags(tg),hx(content))
def fnd(ids=(),authors=(),kinds=(),tg=(),since=None,until=None,limit=None,allow=1,lim=0,secs=0,screen='m'):
    j=lambda l: ','.join(hx(x) for x in l) if l else '_'
    k=','.join(str(x) for x in kinds) if kinds else '_'
    o=lambda v: '-' if v is None else str(v)
    return 'FND %s %s %s %s %s %s %s %d %d %d %s'%(j(ids),j(authors),k,tags(tg),o(since),o(until),o(limit),allow,lim,secs,screen)
def run(name,lines):
    d='/tmp/pw-wit'
    p=subprocess.run([W],input='\n'.join(['NEW %s -'%d]+lines+['RMD'])+'\n',capture_output=True,text=True)
    outs=p.stdout.splitlines()
    print('==',name)
    for l,o in zip(lines,outs[1:]):
        print('   ',l[:70].ljust(70),'=>',o[:90])
run('#8 tag second value never scanned',[
  sto(I(1),A,1,100,[[b't',b'a']]), sto(I(2),A,1,101,[[b't',b'b']]),
  fnd(tg=[[b't',b'a',b'b']])])
run('#9 ids plan keeps first listed, not newest',[
  sto(I(1),A,1,100), sto(I(2),A,1,200), sto(I(3),A,1,300),
  fnd(ids=[I(1),I(2),I(3)],limit=1)])
run('#10 scrape gate underflow',[
  sto(I(1),A,1,100),
  fnd(since=200,until=100,allow=0,lim=0,secs=10,limit=5),
  fnd(since=99999999999,allow=0,lim=0,secs=10,limit=5)])
run('#11 id ff..ff at created_at == since',[
  sto(I(0xff),A,1,100), sto(I(0xfe),A,1,100),
  fnd(since=100), fnd(authors=[A],since=100), fnd(authors=[A],kinds=[1],since=100)])
run('#17 d through padded key: x vs x\\0',[
  sto(I(1),A,30000,100,[[b'd',b'x']]), sto(I(2),A,30000,200,[[b'd',b'x\0']]),
  'HAS '+hx(I(1)),'HAS '+hx(I(2))])
run('#17 d sharing 182 bytes',[
  sto(I(1),A,30000,200,[[b'd',b'p'*182+b'A']]), sto(I(2),A,30000,100,[[b'd',b'p'*182+b'B']]),
  'HAS '+hx(I(1)),'HAS '+hx(I(2))])
run('#17 second d tag',[
  sto(I(1),A,30000,100,[[b'd',b'x'],[b'd',b'y']]), sto(I(2),A,30000,200,[[b'd',b'y']]),
  'HAS '+hx(I(1)),'HAS '+hx(I(2))])
addr=lambda k,pk,d: ('%d:%s:'%(k,pk.hex())).encode()+d
run('#18 older request overwrites newer deletion time',[
  sto(I(1),A,5,200,[[b'a',addr(30000,A,b'x')]]), sto(I(2),A,5,100,[[b'a',addr(30000,A,b'x')]]),
  'NAD 30000 %s %s'%(hx(A),hx(b'x')), sto(I(3),A,30000,150,[[b'd',b'x']])])
run('#19 a-tag 10000:pk:junk',[
  sto(I(1),A,10000,100), sto(I(2),A,5,200,[[b'a',addr(10000,A,b'junk')]]),
  'HAS '+hx(I(1)), 'NAD 10000 %s -'%hx(A), 'NAD 10000 %s %s'%(hx(A),hx(b'junk')), sto(I(1),A,10000,100)])
run('#20 request naming its own id',[
  sto(I(1),A,5,100,[[b'e',I(1).hex().encode()]]), 'HAS '+hx(I(1)), 'DEL '+hx(I(1))])
run('#23 rebuild re-cuts marker d',[
  sto(I(2),A,5,200,[[b'a',addr(30000,A,b'q'*200)]]), 'NAD 30000 %s %s'%(hx(A),hx(b'q'*200)), 'RBD', 'NAD 30000 %s %s'%(hx(A),hx(b'q'*200))])
run('#28 empty tag name in filter',[
  sto(I(1),A,1,100,[[b't',b'a']]), fnd(tg=[[b'',b'a']])])
