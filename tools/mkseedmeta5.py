#!/usr/bin/env python3
"""Writes seeded/<id>-5/meta.json for the fifth wave.  result.txt = the matrix of all 20 quick checks as the checks were
when the seed came back (first run); final.txt = the property's own check after the checks were strengthened."""
import json, os, re
ROOT = os.path.dirname(os.path.dirname(os.path.abspath(__file__)))
T = {
 'C01-5': ('C01', 'read_hex! macro: the two hex digits of a byte are looked up after masking bit 7 off (byte & 0x7F, "keeps the table index in range")',
           'an id / pubkey / sig string of exactly the right BYTE length containing non-ASCII bytes whose low 7 bits are hex digits (U+00B0..B9 = C2 B0..B9 reads as "B0".."B9"): a text that is valid JSON but no event is accepted'),
 'C03-5': ('C03', 'json_unescape: the four digits of a \\u escape index the 256-entry HEX_INVERSE table by code point instead of by byte after a "cleanup" of the char/byte conversion',
           'a \\u escape one of whose four "digits" is a character U+0080..U+00FF (or above): index out of bounds, panic'),
 'C04-5': ('C04', 'store_event answers Duplicate from a read snapshot taken BEFORE the write transaction (new Lmdb::has_id) instead of inside it',
           'two threads storing events with one id (ids are not validated, so the bytes may differ): both return an offset, the id index keeps the later one; the first no longer reads back by id'),
 'C05-5': ('C05', 'find_events, authors+kinds plan: the early exit after the first hit (replaceable kinds) extended to parameterized kinds when the filter has a single #d value',
           'two retrievable events of one author and parameterized kind that both carry ["d", v], for at least one of them as a second d tag (different addresses), and a filter authors+kinds+#d=[v]: only the newer one is returned'),
 'C06-5': ('C06', 'Tags::matches rewritten as an iterator chain with map_while instead of filter_map: iteration ends at the first tag with fewer than two strings',
           'an event with an empty or one-string tag BEFORE the tag that satisfies the constraint: no match'),
 'C07-5': ('C07', 'Filter::as_json copies #e / #p values of exactly 64 bytes raw ("they are hex ids / keys"), without escaping',
           'a tag constraint #e or #p with a 64-byte value containing a quote, backslash or control character: as_json is not valid JSON / re-parses differently'),
 'C08-5': ('C08', 'json_escape gets an 8-bytes-at-a-time fast path that copies a clean prefix of whole words; the code-point loop then starts at a byte offset that may be inside a multi-byte character',
           'content or tag string whose first character needing an escape follows a multi-byte character straddling an 8-byte boundary: wrong canonical serialization, sign_new events fail verify'),
 'C09-5': ('C09', 'Kind classification through a 4-entry table indexed by (kind / 10000) & 3: blocks 5 and 6 alias blocks 1 and 2',
           'kinds 50000..59999 (treated as replaceable) and 60000..65535 (treated as ephemeral)'),
 'C10-5': ('C10', 'handle_deletion_event: "if let Ok(Some(target)) = self.get_event_by_id(id)" - a FAILED lookup of an e target is treated like an absent target, removal and marking go ahead',
           'a lookup that fails: the request arrives while all 126 LMDB reader slots are taken (get_event_by_id opens its own read transaction): another author\'s event is removed and marked'),
 'C11-5': ('C11', 'Addr::try_from_bytes: splitn(3, \':\') became split(\':\') in a let-else rewrite: the identifier is cut at its first colon',
           'an address deletion whose identifier contains a colon (app:settings, a relay URL): marker and removal go to the address "app"; the named address stays live and unmarked'),
 'C12-5': ('C12', 'store_event: a parameterized event refused as Replaced whose identifier is longer than 182 bytes first gets its id marked deleted, committed, "so the id check answers next time"',
           'a refused (replaced) store of a parameterized event with an identifier longer than 182 bytes: event_is_deleted flips for its id although the call failed'),
 'C13-5': ('C13', 'vanish first range-deletes all of the author\'s keys from the ac / akc / atc indexes in one committed transaction ("bulk"), then removes event by event',
           'a kill between the bulk commit and the last per-event removal: the author\'s events are still found by id / time / tag but not by author, author+kind, author+tag; a second vanish finds nothing'),
 'C14-5': ('C14', 'a one-entry memo (last committed id -> offset) consulted by get_offset_by_id before the caller\'s snapshot; set after commit, cleared by deindex',
           'a query listing several ids paused in its screen callback while a later-listed id is stored; or a storing thread held between commit and return while another removes the event: it is resurrected'),
 'C15-5': ('C15', 'EventStore::store_event: a fast path grows the file once for events larger than a chunk but does not record the new length in event_map_file_len',
           'an event larger than two chunks followed by further growth: the grow loop computes a length below the real one, set_len truncates; events read back as zeros'),
 'C16-5': ('C16', 'Lmdb::dump_naddr_deleted decodes the identifier only for parameterized kinds; every other kind gets an empty identifier',
           'an address marker of a kind that is neither replaceable nor parameterized (1, 1059, 20000, 40000) with a non-empty identifier, then rebuild: the marker moves to the empty identifier'),
 'C17-5': ('C17', 'the three tag key builders share one reusable 182-byte field that is cleared only up to the previous value\'s length; the long-value branch forgets to record its length',
           'one event with a tag value of 182 bytes or more followed by a shorter indexed tag: the shorter value is keyed with the tail of the long one; tag queries miss the event'),
 'C18-5': ('C18', 'vanish walks the kind+tag index range of (1059, p, hex(P)) directly instead of running the filter: no re-match of the real tag value',
           'a gift wrap whose p value is hex(P) followed by NUL bytes (same 182-byte padded key): removed by vanish(P) although it does not name P'),
 'C19-5': ('C19', 'parse_json_filter skips an id / author equal to the one just before it ("keep a single copy")',
           'a JSON filter listing the same id or author twice in a row: fewer elements than given; differs byte for byte from from_parts of the same parts'),
 'C20-5': ('C20', 'estimate_count tidy-up: the small-range branch always uses linear counting, the guard for "no empty register" became a debug_assert (re-based on fix 4d01830)',
           'a sketch with no empty register whose raw estimate is at most 640 (reachable by merging / import): debug builds panic, release builds return infinity cast to usize::MAX'),
}
final = {}
fp = os.path.join(ROOT, 'seeded', 'wave5-final.txt')
if os.path.exists(fp):
    for l in open(fp):
        m = re.search(r'seeded/(C\d\d-5)/patch.diff", "tier": "quick", "flagged": (\[.*?\])', l)
        if m:
            final[m.group(1)] = json.loads(m.group(2))
for sid, (prop, what, needs) in sorted(T.items()):
    d = os.path.join(ROOT, 'seeded', sid)
    res = open(os.path.join(d, 'result.txt')).read() if os.path.exists(os.path.join(d, 'result.txt')) else ''
    det = []
    for l in res.splitlines():
        m = re.match(r'^(C\d\d) exit (\d) VIOLATIONS (\d+) ?(.*)$', l)
        if m and m.group(2) != '0':
            rest = m.group(4)
            kind = 'failing input found by the direct oracle' if '# oracle' in rest and 'no-failing-input-found' not in rest else 'correspondence/proof broke (no-failing-input-found)'
            why = rest.split('# ', 1)[1][:220] if '# ' in rest else ''
            det.append({'check': m.group(1), 'kind': kind, 'first_report': why})
    first = [x['check'] for x in det]
    own_first = any(x['check'] == prop and x['kind'].startswith('failing') for x in det)
    meta = {
        'seed': sid, 'breaks_property': prop, 'change': what, 'needs_to_manifest': needs,
        'origin': 'written by a sub-agent that saw only the text of property %s, one of the mechanisms its record names, one-line summaries of the changes already tried for it, and a scratch git worktree of /repo (/tmp/seed5/%s); nothing from /verif (prompt: seeded/prompts-wave5/%s.txt)' % (prop, prop, prop),
        'confirmed_by_me': {'where': 'the scratch worktree /tmp/seed5/%s (removed afterwards)' % prop,
                            'commands': ['tools/take_seed.sh /tmp/seed5/%s %s   (confirm_seed.sh; output kept as confirm.txt)' % (prop, sid)],
                            'observed': 'with the patch: the repository\'s own 58 tests pass and the demonstration (seed_demo.rs) fails; without the patch the demonstration passes'
                                        + (' (demonstration gated on --features verif; run by hand with the feature, see confirm.txt)' if sid in ('C13-5',) else '')
                                        + (' (patch re-based on fix 4d01830, see patch.as-delivered.diff)' if sid == 'C20-5' else '')},
        'run_against_checks': {
            'first_matrix': {'command': 'tools/try_seed.py seeded/%s/patch.diff   (git -C /repo apply; all 20 quick checks; git -C /repo checkout -- .)' % sid,
                             'flagged_by': first, 'own_property_check_found_a_failing_input': own_first, 'details': det},
            'after_strengthening': {'command': 'tools/try_seed.py seeded/%s/patch.diff %s' % (sid, prop),
                                    'own_property_check_flags_it': prop in final.get(sid, [])},
        },
    }
    json.dump(meta, open(os.path.join(d, 'meta.json'), 'w'), indent=1)
    print(sid, 'first:', first, 'own-first:', own_first, 'final:', final.get(sid))
