#!/bin/sh
# take_seed.sh <worktree> <seed id>: confirm a sub-agent's change in its worktree, keep it under seeded/<id>, remove the worktree
W=$1; ID=$2
cd /verif
mkdir -p seeded/$ID
sh tools/confirm_seed.sh $W > seeded/$ID/confirm.txt 2>&1
cat seeded/$ID/confirm.txt
cp $W/SEED/patch.diff $W/SEED/README.md seeded/$ID/ 2>/dev/null
cp $W/SEED/*.rs seeded/$ID/ 2>/dev/null
git -C /repo worktree remove --force $W
git -C /repo worktree prune
