#!/usr/bin/env python3
"""Writes seeded/<id>-4/meta.json for the fourth wave.  result.txt = the matrix of all 20 quick checks as the checks were
when the seed came back (first run); final.txt = the property's own check after the checks were strengthened."""
import json, os, re
ROOT = os.path.dirname(os.path.dirname(os.path.abspath(__file__)))
T = {
 'C01-4': ('C01', 'burn_number: the set of characters skipped as part of a number shrunk to 0-9 - . e E (dropping + among the "non-JSON" ones)',
           'an unknown member whose value is, or contains at any depth, a number with an explicit plus sign in its exponent (1e+5, 6.02E+23): a valid event text is rejected'),
 'C02-4': ('C02', 'encode_utf8: the length-class constants changed from one-past-the-end to last-of-class values while the middle comparison stayed strict: U+07FF is written as an overlong 3-byte sequence',
           'the single code point U+07FF written as a \\u escape in content or a tag string (same effect as C01-1, at another site)'),
 'C03-4': ('C03', 'parse_json_filter: the "too many tag fields" guard in front of the table of tag-member positions dropped with the argument that 52 slots cannot fill up (re-based on the 52-slot table of fix 2607d86; as delivered it also enlarged the table from 32 to 52)',
           'a filter text with all 52 letters A-Z a-z each once followed by one more tag member: index out of bounds, panic'),
 'C04-4': ('C04', 'Event::delineate compares the length prefix with the input length cast to u32 ("in the prefix\'s own width")',
           'more than 4 GiB of later events behind a stored event, the end of the used region resting within the event\'s own length past offset + k*4 GiB: the event is unreadable by offset, by id and by query'),
 'C05-4': ('C05', 'find_events scrape gate: the end of the window measured against the time allowance is now() only when until is absent (u64::MAX), otherwise until itself',
           'a filter naming no ids/authors/tags with a finite until in the future, since recent, limit above the allowance: refused as scraping although now - since is within the allowance'),
 'C06-4': ('C06', 'Filter::event_matches tests ids/authors/kinds membership on the packed bytes with windows() (overlapping, stride 1) instead of record-wise',
           'a list of two or more elements and an event value that straddles two adjacent elements (kinds [1,256] match kind 0): false positives'),
 'C07-4': ('C07', 'parse_json_filter: the two letter ranges of the tag-member test collapsed into (b\'A\'..=b\'z\'), which admits [ \\ ] ^ _ `',
           'an unknown member whose key is # followed by one of [ ] ^ _ `: treated as a tag constraint (or the text rejected) instead of skipped'),
 'C08-4': ('C08', 'Event::verify hashes the canonical serialization piecewise, escaping the content 16 KiB block at a time (content.chunks(16384))',
           'content longer than 16 KiB with a multi-byte character straddling a multiple of 16384: an event straight from sign_new is refused'),
 'C09-4': ('C09', 'store_event decides its refusals (duplicate, deleted, replaced) under a read transaction before taking the write transaction; inside it only the duplicate check is repeated',
           'two threads storing two versions of one address: the older is screened while the address is vacant, the newer commits, the older then stores: two events at one address'),
 'C10-4': ('C10', 'Addr::is_authored_by compares the decoded 32-byte author with eq_ignore_ascii_case ("hex is not always lower case"); handle_deletion_event uses it for a tags',
           'a requester whose key equals the victim\'s except for bit 0x20 of letter-valued bytes, naming the victim\'s address: accepted, victim\'s events removed and marked'),
 'C11-4': ('C11', 'Lmdb::dump_naddr_deleted folds markers of non-parameterized replaceable kinds into one per (kind, author) starting from Time::default(), which is now()',
           'an address deletion of a replaceable kind, then rebuild: the deletion time jumps to the time of the rebuild; newer events are refused as deleted'),
 'C12-4': ('C12', 'handle_deletion_event commits and reopens the write transaction every 64 effective targets ("keep dirty pages low")',
           'a deletion request with at least 65 tags whose first 64 are effective and which fails at a later tag: the first 64 targets and the request itself stay applied although the call failed'),
 'C13-4': ('C13', 'EventStore::new takes the remembered file length from event_map.len() (the used part) instead of the file metadata',
           'a kill during file growth, reopen, then about one more chunk of stores: the next growth computes a length below the real one and truncates committed events'),
 'C14-4': ('C14', 'store_event commits the (empty) transaction of an ephemeral event before the append; EventStore::store_event returns the locally computed end instead of the offset append returned',
           'an ephemeral store running concurrently with a regular one: the regular event is indexed under the ephemeral event\'s offset'),
 'C15-4': ('C15', 'store_event lets ephemeral events bypass the write transaction altogether',
           'an ephemeral store that runs out of space, overtaken by two growth steps of another thread: its stale set_len shrinks the file; the other thread\'s events read back as zeros'),
 'C16-4': ('C16', 'EventStore::new: "was the end offset ever written" became !(HEADER_SIZE..len).contains(&end): an exactly full map counts as unwritten',
           'the used bytes equal the file length exactly (an event ending on a multiple of the chunk) at reopen or rebuild: the map is re-initialised, rebuild fails'),
 'C17-4': ('C17', 'Lmdb::index indexes one-byte tag names that are ascii alphanumeric, Lmdb::deindex removes those that are ascii alphabetic',
           'an event with a tag whose name is one digit, later removed by any path: stale tag-index entries; a from_parts filter naming the digit returns the unretrievable event'),
 'C18-4': ('C18', 'Kind::is_ephemeral respelt as (20000..29999) - exclusive upper bound',
           'an event of kind exactly 29999: indexed and retrievable by every path'),
 'C19-4': ('C19', 'encode_utf8 rewritten without unsafe as a match on slice patterns, widest first with lower-bound guards: a 3-byte code point with exactly 2 bytes of room falls through to the 2-byte arm',
           'a \\uXXXX escape of a code point >= U+0800 as the last character written, into a buffer exactly one byte short: Ok with a truncated value'),
 'C20-4': ('C20', 'Hll8::from_hex_string refuses sketches whose raw estimate is 2^32 or more ("hardening")',
           'a sketch with every register 25 or more (reachable by merging or add_element_inner): exports but no longer imports'),
}
final = {}
fp = os.path.join(ROOT, 'seeded', 'wave4-final.txt')
if os.path.exists(fp):
    for l in open(fp):
        m = re.search(r'seeded/(C\d\d-4)/patch.diff", "tier": "quick", "flagged": (\[.*?\])', l)
        if m:
            final[m.group(1)] = json.loads(m.group(2))
for sid, (prop, what, needs) in sorted(T.items()):
    d = os.path.join(ROOT, 'seeded', sid)
    res = open(os.path.join(d, 'result.txt')).read() if os.path.exists(os.path.join(d, 'result.txt')) else ''
    det = []
    for l in res.splitlines():
        m = re.match(r'^(C\d\d) exit (\d) VIOLATIONS (\d+) ?(.*)$', l)
        if m and m.group(2) != '0':
            rest = m.group(4)
            kind = 'failing input found by the direct oracle' if '# oracle' in rest and 'no-failing-input-found' not in rest else 'correspondence/proof broke (no-failing-input-found)'
            why = rest.split('# ', 1)[1][:220] if '# ' in rest else ''
            det.append({'check': m.group(1), 'kind': kind, 'first_report': why})
    first = [x['check'] for x in det]
    own_first = any(x['check'] == prop and x['kind'].startswith('failing') for x in det)
    meta = {
        'seed': sid, 'breaks_property': prop, 'change': what, 'needs_to_manifest': needs,
        'origin': 'written by a sub-agent that saw only the text of property %s, one of the mechanisms its record names, one-line summaries of the changes already tried for it, and a scratch git worktree of /repo (/tmp/seed4/%s); nothing from /verif (prompt: seeded/prompts-wave4/%s.txt)' % (prop, prop, prop),
        'confirmed_by_me': {'where': 'the scratch worktree /tmp/seed4/%s (removed afterwards)' % prop,
                            'commands': ['tools/take_seed.sh /tmp/seed4/%s %s   (confirm_seed.sh; output kept as confirm.txt)' % (prop, sid)],
                            'observed': 'with the patch: the repository\'s own 58 tests pass and the demonstration (seed_demo.rs) fails; without the patch the demonstration passes'
                                        + (' (demonstration gated on --features verif; run by hand with the feature)' if sid == 'C15-4' else '')
                                        + (' (patch re-based on the 52-slot table, see patch.as-delivered.diff)' if sid == 'C03-4' else '')},
        'run_against_checks': {
            'first_matrix': {'command': 'tools/try_seed.py seeded/%s/patch.diff   (git -C /repo apply; all 20 quick checks; git -C /repo checkout -- .)' % sid,
                             'flagged_by': first, 'own_property_check_found_a_failing_input': own_first, 'details': det},
            'after_strengthening': {'command': 'tools/try_seed.py seeded/%s/patch.diff %s' % (sid, prop),
                                    'own_property_check_flags_it': prop in final.get(sid, [])},
        },
    }
    json.dump(meta, open(os.path.join(d, 'meta.json'), 'w'), indent=1)
    print(sid, 'first:', first, 'own-first:', own_first, 'final:', final.get(sid))
