#!/usr/bin/env python3
"""Apply a seeded change to /repo, run checks, undo it.   tools/try_seed.py <patch.diff> [C01 C05 ...] [--tier quick|thorough]
Prints which checks raise a VIOLATION on the changed tree.  The patch is always reverted."""
import subprocess, sys, os, json, time
ROOT = os.path.dirname(os.path.dirname(os.path.abspath(__file__)))
patch = os.path.abspath(sys.argv[1])
args = sys.argv[2:]
tier = 'quick'
if '--tier' in args:
    tier = args[args.index('--tier') + 1]
    args = [a for a in args if a not in ('--tier', tier)]
props = args or ['C%02d' % i for i in range(1, 21)]
st = subprocess.run(['git', '-C', '/repo', 'status', '--porcelain'], capture_output=True, text=True).stdout.strip()
if st:
    print('refusing: /repo working tree is not clean:\n' + st)
    sys.exit(2)
r = subprocess.run(['git', '-C', '/repo', 'apply', patch], capture_output=True, text=True)
if r.returncode != 0:
    print('patch does not apply:', r.stderr)
    sys.exit(2)
res = {}
try:
    # build once (worker against the changed tree), then the checks five at a time
    subprocess.run([os.path.join(ROOT, 'check'), '--setup'], capture_output=True, text=True, cwd=ROOT)
    from concurrent.futures import ThreadPoolExecutor

    def one(p):
        t0 = time.time()
        q = subprocess.run([os.path.join(ROOT, 'check'), p, '--tier', tier], capture_output=True, text=True, cwd=ROOT)
        vio = [l for l in q.stdout.splitlines() if l.startswith('VIOLATION')]
        why = ''
        if vio:
            f = os.path.join(ROOT, vio[0].split('replay=')[1].split(' ')[0])
            try:
                why = [l for l in open(f).read().splitlines()[:6] if l.startswith('# ') and ':' in l and not l.startswith(('# property', '# seed', '# tier'))][0][:200]
            except Exception:
                pass
        return p, {'exit': q.returncode, 'violations': len(vio), 'first': vio[:2], 'why': why, 'wall_s': round(time.time() - t0, 1)}
    with ThreadPoolExecutor(5) as ex:
        for p, r in ex.map(one, props):
            res[p] = r
            print(p, 'exit', r['exit'], 'VIOLATIONS', r['violations'], r['first'][0] if r['first'] else '', r['why'], flush=True)
finally:
    subprocess.run(['git', '-C', '/repo', 'checkout', '--', '.'])
    subprocess.run(['git', '-C', '/repo', 'clean', '-fdq', '--', 'pocket-db/tests', 'pocket-types/tests'])
print(json.dumps({'patch': patch, 'tier': tier, 'flagged': [p for p in res if res[p]['exit'] != 0]}))
