#!/usr/bin/env python3
"""Apply a seeded change to /repo, run checks, undo it.   tools/try_seed.py <patch.diff> [C01 C05 ...] [--tier quick|thorough]
Prints which checks raise a VIOLATION on the changed tree.  The patch is always reverted."""
import subprocess, sys, os, json, time
ROOT = os.path.dirname(os.path.dirname(os.path.abspath(__file__)))
patch = os.path.abspath(sys.argv[1])
args = sys.argv[2:]
tier = 'quick'
if '--tier' in args:
    tier = args[args.index('--tier') + 1]
    args = [a for a in args if a not in ('--tier', tier)]
props = args or ['C%02d' % i for i in range(1, 21)]
st = subprocess.run(['git', '-C', '/repo', 'status', '--porcelain'], capture_output=True, text=True).stdout.strip()
if st:
    print('refusing: /repo working tree is not clean:\n' + st)
    sys.exit(2)
r = subprocess.run(['git', '-C', '/repo', 'apply', patch], capture_output=True, text=True)
if r.returncode != 0:
    print('patch does not apply:', r.stderr)
    sys.exit(2)
res = {}
try:
    for p in props:
        t0 = time.time()
        q = subprocess.run([os.path.join(ROOT, 'check'), p, '--tier', tier], capture_output=True, text=True, cwd=ROOT)
        vio = [l for l in q.stdout.splitlines() if l.startswith('VIOLATION')]
        res[p] = {'exit': q.returncode, 'violations': len(vio), 'first': vio[:2], 'wall_s': round(time.time() - t0, 1)}
        print(p, 'exit', q.returncode, 'VIOLATIONS', len(vio), vio[0] if vio else '', flush=True)
finally:
    subprocess.run(['git', '-C', '/repo', 'checkout', '--', '.'])
    subprocess.run(['git', '-C', '/repo', 'clean', '-fdq', '--', 'pocket-db/tests', 'pocket-types/tests'])
print(json.dumps({'patch': patch, 'tier': tier, 'flagged': [p for p in res if res[p]['exit'] != 0]}))
