#!/usr/bin/env python3
"""Writes the prompts of a seeded-change wave:  tools/mkprompts.py <wave> <base dir> [mechanism index offset]
One prompt per property under seeded/prompts-wave<wave>/Cxx.txt.  A prompt contains only the property's own record
(statement, quantifier, one named mechanism) and one-line summaries of the changes already tried for it — nothing
about how /verif checks anything."""
import json, os, sys, glob
ROOT = os.path.dirname(os.path.dirname(os.path.abspath(__file__)))
wave = sys.argv[1]
base = sys.argv[2]
moff = int(sys.argv[3]) if len(sys.argv) > 3 else 0
out = os.path.join(ROOT, 'seeded', 'prompts-wave' + wave)
os.makedirs(out, exist_ok=True)
for line in open(os.path.join(ROOT, 'properties.jsonl')):
    p = json.loads(line)
    pid = p['id']
    W = '%s/%s' % (base, pid)
    mechs = p['anchors'].get('mechanism') or []
    m = mechs[(len(mechs) - 1 - moff) % len(mechs)] if mechs else None
    tried = []
    for mf in sorted(glob.glob(os.path.join(ROOT, 'seeded', pid + '-*', 'meta.json'))):
        tried.append(json.load(open(mf))['change'])
    txt = f"""You are working in a scratch git worktree of a Rust repository at {W} (mikedilger/pocket: the crates `pocket-types` — zero-copy binary nostr event/filter/tag types with a hand-written JSON parser — and `pocket-db` — an mmap-append event store indexed in LMDB). Work ONLY inside {W}; do not read or touch anything outside it (in particular not /repo itself and not /verif).

Here is a semantic property the code is supposed to satisfy:

Property {pid}: {p['title']}

{p['statement']}

It must hold: {p['quantifier']['text'] if isinstance(p['quantifier'], dict) else p['quantifier']}
"""
    if m:
        txt += f"""
The property's own record names, among the mechanisms it rests on: "{m['name']}" ({m['where']}). Prefer a change at THIS mechanism, or at code it depends on, or a pair of changes one of which is there.
"""
    txt += f"""
Your task: make a SMALL, plausible-looking change to the library source (under pocket-types/src or pocket-db/src) that BREAKS this property, such that
 (a) the workspace still compiles (also with `--features pocket-db/verif`),
 (b) the repository's existing test suite still passes unchanged: `cd {W} && CARGO_NET_OFFLINE=true cargo test --workspace --offline`,
 (c) the breakage needs something specific to manifest — a multi-step sequence of operations, a particular interleaving of two threads, a crash at a particular point, an unusual input (a boundary size or value, a rare byte, an odd shape), or TWO cooperating edits at different sites that each look fine alone — not something ordinary use would expose at once.
Make it the kind of change a reviewer could wave through (an optimisation, a cache, a refactor, a tidy-up, a moved line, a fast path, a changed constant, a "simplified" condition). Pick something a second reader would not think of first.
"""
    if tried:
        txt += "\nThese changes have ALREADY been tried for this property; do something of a different kind, at a different place:\n"
        for t in tried:
            txt += "  - " + t + "\n"
    txt += f"""
Do not weaken or delete functionality wholesale, and do not touch tests.

Deliver, in {W}/SEED/:
  - patch.diff   : `git diff` of the library change only (must apply with `git apply` at the repository root on a clean tree);
  - seed_demo.rs : an integration test (to be placed in the crate's tests/ directory as tests/seed_demo.rs) that FAILS with your patch and PASSES without it, demonstrating the property violation against the real code;
  - README.md    : what you changed, why it breaks the property, exactly what it needs to manifest, and the commands to run the demo both ways.
Verify both directions yourself (with the patch: existing suite passes, demo fails; without: demo passes). Leave the worktree with the patch applied and the demo in place. The cargo feature `verif` of pocket-db adds named hook points (`pocket_db::verif::set_hook`, `verif::point("...")` calls inside the store) that a demo may use to force a schedule or a kill point; leave those calls intact and in order. A `target/` directory with the dependencies already compiled is present in the worktree. There is no network; everything needed builds offline. Report briefly what you did, and mention separately anything you noticed in the UNCHANGED code that already seems to violate the property."""
    open(os.path.join(out, pid + '.txt'), 'w').write(txt)
print('wrote', out)
