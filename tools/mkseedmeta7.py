#!/usr/bin/env python3
"""Writes seeded/<id>-7/meta.json for the seventh wave.  result.txt = the matrix of all 20 quick checks as the checks were
when the seed came back (first run); final.txt = the property's own check after the checks were strengthened."""
import json, os, re
ROOT = os.path.dirname(os.path.dirname(os.path.abspath(__file__)))
T = {
 'C04-7': ('C04', 'EventStore::get_event_by_offset: the bound check offset >= end became offset >= end.saturating_sub(MIN_EVENT_SIZE) with MIN_EVENT_SIZE = 152 ("nothing that close to the end can be a whole event") - off by one',
           'an event of exactly 152 bytes (no tags, empty content) while it is the newest thing in the map: stored successfully, unreadable by offset and by id until the next store'),
 'C05-7': ('C05', 'find_events, authors+kinds plan: replaceable kinds answered through the public find_replaceable_event, which opens its own read transaction, instead of the query\'s snapshot',
           'a query over authors and kinds containing a replaceable kind, paused after an earlier pair, while a writer commits two changes (one to that pair, one to the replaceable address): the answer mixes two committed states'),
 'C09-7': ('C09', 'Lmdb::akc_iter builds both range bounds from the 42-byte prefix (author, kind, reversed time) instead of full keys padded with the all-zero / all-ones id: the inclusive upper bound excludes every key extending the prefix',
           'a holder of a replaceable address (kinds 0, 3, 10000-19999) created at time 0 exactly (both scans run from Time::min()): invisible to the pre-removal and refusal scans, a newer version is stored beside it'),
 'C10-7': ('C10', 'Pubkey: PartialEq hand-written as four u64 words whose differences are folded with ^= instead of |= ("optimisation of author matching")',
           'a requester whose key differs from the victim\'s by differences that cancel across the four words (the same bits flipped in byte k and k+8; two words swapped): both author checks of a deletion request pass'),
 'C11-7': ('C11', 'an in-memory "newest address deletion" time lets store_event skip the marker lookup for events newer than it; mark_naddr_deleted updates it with store(when) instead of fetch_max(when)',
           'an address deleted at T1, then an accepted deletion of a DIFFERENT address with an older time T2 (or a rebuild, which re-marks in key order), then an event at the first address with T2 < created_at <= T1: accepted instead of refused as deleted'),
 'C12-7': ('C12', 'the deleted-address key is built in a per-thread scratch buffer that is cleared after the closure using it - but not when the closure returns an error',
           'a deletion request that fails with the LMDB key-size error (identifier of 477 bytes or more), then a marker lookup on the same thread: naddr_is_deleted_asof answers None where it answered Some before; an older version of a deleted address is accepted'),
 'C13-7': ('C13', 'EventStore::new creates the file with set_len(HEADER_SIZE), writes the end offset, then grows to a chunk; the "sized but never initialised" check now runs only for files of at least a chunk',
           'a kill at es_new:sized during the first creation (an 8-byte file of zeros), reopen, store: the map is taken as initialised with end 0, the first event is appended over the header and stays corrupt'),
 'C14-7': ('C14', 'get_event_by_offset refuses offsets beyond a new published_end, advanced by Store::store_event only after txn.commit() and outside the writer lock',
           'a reader (or a second writer that must deindex the event) arriving between a store\'s commit and its publish: the index entry is visible, its bytes are "End of input"'),
 'C16-7': ('C16', 'Lmdb caches "a deletion marker was ever recorded" in an AtomicBool guarding BOTH marker tables, seeded at open from the id-marker table only',
           'a store that holds address markers but no id marker, closed and reopened: naddr_is_deleted_asof answers None, covered versions are accepted again'),
 'C17-7': ('C17', 'the id-index write split out of Lmdb::index into index_id ("mirror of deindex_id"); in store_event the new call sits outside the is_ephemeral guard',
           'an event of an ephemeral kind: found by id (has_event, get_event_by_id, ids filter), by no other path; the id index holds one entry more than the others'),
}
final = {}
fp = os.path.join(ROOT, 'seeded', 'wave7-final.txt')
if os.path.exists(fp):
    for l in open(fp):
        m = re.search(r'seeded/(C\d\d-7)/patch.diff", "tier": "quick", "flagged": (\[.*?\])', l)
        if m:
            final[m.group(1)] = json.loads(m.group(2))
for sid, (prop, what, needs) in sorted(T.items()):
    d = os.path.join(ROOT, 'seeded', sid)
    res = open(os.path.join(d, 'result.txt')).read() if os.path.exists(os.path.join(d, 'result.txt')) else ''
    det = []
    for l in res.splitlines():
        m = re.match(r'^(C\d\d) exit (\d) VIOLATIONS (\d+) ?(.*)$', l)
        if m and m.group(2) != '0':
            rest = m.group(4)
            kind = 'failing input found by the direct oracle' if '# oracle' in rest and 'no-failing-input-found' not in rest else 'correspondence/proof broke (no-failing-input-found)'
            why = rest.split('# ', 1)[1][:220] if '# ' in rest else ''
            det.append({'check': m.group(1), 'kind': kind, 'first_report': why})
    first = [x['check'] for x in det]
    own_first = any(x['check'] == prop and x['kind'].startswith('failing') for x in det)
    meta = {
        'seed': sid, 'breaks_property': prop, 'change': what, 'needs_to_manifest': needs,
        'origin': 'written by a sub-agent that saw only the text of property %s, one of the mechanisms its record names, one-line summaries of the changes already tried for it, and a scratch git worktree of /repo (/tmp/seed7/%s); nothing from /verif (prompt: seeded/prompts-wave7/%s.txt)' % (prop, prop, prop),
        'confirmed_by_me': {'where': 'the scratch worktree /tmp/seed7/%s (removed afterwards)' % prop,
                            'commands': ['tools/take_seed.sh /tmp/seed7/%s %s   (confirm_seed.sh; output kept as confirm.txt)' % (prop, sid)],
                            'observed': 'with the patch: the repository\'s own 58 tests pass and the demonstration (seed_demo.rs) fails; without the patch the demonstration passes'
                                        + (' (demonstration gated on --features verif; run by hand with the feature, see confirm.txt)' if sid in ('C14-7',) else '')
                                        },
        'run_against_checks': {
            'first_matrix': {'command': 'tools/try_seed.py seeded/%s/patch.diff   (git -C /repo apply; all 20 quick checks; git -C /repo checkout -- .)' % sid,
                             'flagged_by': first, 'own_property_check_found_a_failing_input': own_first, 'details': det},
            'after_strengthening': {'command': 'tools/try_seed.py seeded/%s/patch.diff %s' % (sid, prop),
                                    'own_property_check_flags_it': prop in final.get(sid, [])},
        },
    }
    json.dump(meta, open(os.path.join(d, 'meta.json'), 'w'), indent=1)
    print(sid, 'first:', first, 'own-first:', own_first, 'final:', final.get(sid))
