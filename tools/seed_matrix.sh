#!/bin/sh
# run every check against every seeded change; writes seeded/<id>/result.json
cd /verif
for d in seeded/*/; do
  id=$(basename $d)
  [ -f $d/patch.diff ] || continue
  echo "=== $id"
  tools/try_seed.py $d/patch.diff "$@" > $d/result.txt 2>&1
  tail -1 $d/result.txt
done
