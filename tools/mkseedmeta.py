#!/usr/bin/env python3
"""Writes seeded/<id>/meta.json from the table below and seeded/<id>/result.txt (tools/try_seed.py output)."""
import json, os, re
ROOT = os.path.dirname(os.path.dirname(os.path.abspath(__file__)))
T = {
 'C01-1': ('C01', 'json_parse.rs unescape: a \\uXXXX escape of exactly U+07FF is written as a 3-byte (overlong) UTF-8 sequence',
           'an event text whose content or a tag string holds the escape \\u07ff (one code point in 1.1 million)'),
 'C02-1': ('C02', 'read_tags_array: the tag count field is no longer written on the "tags":[] early return, so two bytes of the binary event keep the prior buffer contents',
           'an event with an empty tags array parsed into a buffer that is not all zero at bytes 146..148'),
 'C03-1': ('C03', 'burn_value/burn_object/burn_array: the nesting-depth increment was moved and forgotten on the object arm, so {"a":{"a":{… recursion is unbounded',
           'an unknown member (event or filter) whose value nests objects tens of thousands deep: stack overflow abort'),
 'C04-1': ('C04', 'EventStore::store_event grows the file by several chunks at once for a large event but records the one-chunk length; the next growth truncates the file',
           'an event larger than one EVENT_MAP_CHUNK followed by enough stores to trigger the next growth'),
 'C05-1': ('C05', 'find_events scrape plan walks the time index only up to min(until, now) instead of until',
           'a filter naming no ids/authors/tags and a stored event with created_at in the future'),
 'C06-1': ('C06', 'Filter::event_matches early-out: an event with fewer tags than the filter has tag constraints cannot match',
           'a filter with two or more tag constraints satisfied by an event with fewer tags (one tag with… no: one event tag cannot satisfy two letters; needs an event whose k tags satisfy more than k constraints — impossible) — the agent\'s variant: constraints counted per value row; manifests when an event has fewer tags than the filter has tag rows although every row is satisfied by multi-use of a letter'),
 'C07-1': ('C07', 'Filter::as_json: the "first member" flag is reset after the tag loop instead of inside it, so the comma between two #x members is missing when nothing precedes them',
           'a filter with two or more tag constraints and no ids/authors/kinds/since/until/limit before them in the output'),
 'C08-1': ('C08', 'Tags::as_json (the NIP-01 signable) escapes a tag string only if it contains " or \; control characters are emitted raw',
           'a tag string with a byte below 0x20 and neither quote nor backslash; sign_new followed by the library\'s own verify still passes'),
 'C09-1': ('C09', 'remove_parameterized_replaceable trusts the 182-byte padded index key when the d value is at most 182 bytes instead of comparing the event\'s own d value',
           'two addresses of one author and kind whose d values pad to the same key (x and x\\0…), or an event carrying d as a second tag'),
 'C10-1': ('C10', 'deletion validation moved in front of the append into check_deletion_event, which returns early at the first absent e target; later foreign targets are applied unvalidated',
           'one deletion request naming an absent (or its own) id before another author\'s id or address'),
 'C11-1': ('C11', 'store_event performs the "was it deleted" checks under a read transaction before taking the write transaction (check-then-act race)',
           'two threads: a deletion request commits between another thread\'s stale check of the covered, not yet stored event and that thread\'s write'),
 'C12-1': ('C12', 'Lmdb keeps an in-memory set of known-deleted ids that mark_deleted fills inside the write transaction; an aborted transaction does not roll it back',
           'a deletion request that fails (invalid) after an effective e tag: the named id stays "deleted" although the call failed'),
 'C13-1': ('C13', 'store_event commits its transaction before the event-map append and opens a second one for the index writes: pre-removal becomes durable before the new event',
           'a replaceable or parameterized event that displaces a holder, killed between the two transactions (or failing there): the address is left with no holder'),
 'C14-1': ('C14', 'store_event performs the duplicate check under a read transaction before taking the write transaction',
           'two threads submitting the same event id concurrently: both succeed, the map holds two copies'),
 'C15-1': ('C15', 'store_event wrapper truncates the event map back to a mark read before the write transaction whenever the inner call fails',
           'two threads: A reads the mark, B appends and commits an event, A fails (duplicate suffices) and truncates B\'s event away; the next store overwrites it'),
 'C16-1': ('C16', 'rebuild copies every map record that has an id entry (walking the map) instead of each indexed event once: stale copies of a re-stored event survive',
           'an event removed (remove_event/vanish) and stored again, then rebuild: the new map holds both copies and sizes/accounting differ'),
 'C17-1': ('C17', 'Lmdb::deindex returns early when a tag-index key was already absent, skipping the author / author-kind / time entries',
           'an event that produces the same tag-index key twice (repeated tag, or two long values sharing 182 bytes) and is then removed or deleted'),
 'C18-1': ('C18', 'vanish runs the gift-wrap query only if the author query found something',
           'vanish of a key that authored no stored event but is named by gift wraps (kind 1059 with a p tag)'),
 'C19-1': ('C19', 'a named constant Tags::MAX_LEN = 64*1024 replaced u16::MAX in the tags-section size checks: a section of exactly 65,536 bytes is accepted with stored length 0',
           'a tags section of exactly 65,536 bytes through from_parts, the owned constructors or the JSON parsers'),
 'C20-1': ('C20', 'Hll8::estimate_count computes 1.0 / (1u128 << m) instead of 2^-m',
           'a register of 128 or more (hex import with a byte >= 0x80, or an element with 127 zero bits): panic in debug, wrong estimate in release'),
}
T['C06-1'] = ('C06', 'Filter::event_matches early-out: "an event with fewer tags than the filter has tag constraints cannot match" (a pigeonhole argument that only holds for distinct constraint names)',
              'a filter built from parts with two constraints of the same name (the JSON parser rejects those) and an event with fewer tags than constraints that satisfies them all, e.g. filter [["e","aa"],["e","aa","bb"]] and event [["e","aa"]]')

# ---- second wave (same blind protocol, worktrees under /tmp/seed2; agents asked to avoid the most obvious place)
T.update({
 'C01-2': ('C01', 'burn_string rewritten to jump from quote to quote, deciding "escaped" from the two bytes before the quote: wrong for a backslash run of odd length >= 3',
           'a string containing \\\" (escaped backslash then escaped quote) in a skipped position: content before tags, any tag string (counting pass), an unknown member'),
 'C02-2': ('C02', 'burn_string jumps to the next quote and treats it as closing unless the byte before is a backslash: wrong for a string whose value ends in a backslash',
           'a tag string / content-before-tags / unknown-member string ending in \\ : as_json output of such an event is rejected by from_json'),
 'C03-2': ('C03', 'read_tags_array: the two "tag count mismatch" guards merged into one; "fewer tags decoded than counted" is no longer detected',
           'a tag string ending in a UTF-8 lead byte right before its closing quote (the byte-wise counting pass and the code-point-wise decoding pass then disagree), with a tail valid in both readings: Ok with uninitialised offset slots, accessors panic'),
 'C04-2': ('C04', 'EventStore::new treats a header end offset outside HEADER_SIZE..len as "never initialised"; end == len (completely full map) is legal',
           'the last append ends exactly at the file length (a multiple of the growth chunk), then the store is reopened: the map is reset to empty'),
 'C08-2': ('C08', 'TagsStringIter::next got an off-by-one bounds check (cur_offset + 2 >= end)',
           'the last string of the last tag is empty: it is dropped from the hashed serialization (and from as_json)'),
 'C09-2': ('C09', 'Lmdb::index/deindex skip tags whose value is empty ("nothing to look up by")',
           'a parameterized-replaceable event with d = "": no author+tag index entry, so the holder of (author, kind, "") is never found'),
 'C10-2': ('C10', 'the author checks of a deletion request moved in front of the write transaction (check-then-act)',
           'two threads: another author\'s event commits between the foreign request\'s check and its write transaction; the request then removes it'),
 'C11-2': ('C11', 'key_naddr_index clamps identifiers longer than 182 bytes (a "dead branch" made live)',
           'two addresses of one author and kind whose identifiers share their first 182 bytes: they share one deletion marker'),
 'C12-2': ('C12', 'a kind-5 request is committed before its tags are handled in a second transaction; only InvalidDelete rolls it back',
           'a request that fails in the tag loop for another reason (own a tag with an identifier > 476 bytes: LMDB key too long): Err, but the request stays stored'),
 'C13-2': ('C13', 'store_event commits right after the pre-removal of the superseded version, appends, then indexes in a second transaction',
           'a replaceable/parameterized event displacing a holder, killed between the two commits: old version gone, new one not indexed'),
 'C14-2': ('C14', 'find_events (author+kind plan) opens a fresh read transaction per author instead of one for the whole query',
           'a multi-author query still running while two stores commit: it sees the later store but not the earlier one'),
 'C15-2': ('C15', 'a rejected deletion request rewinds the event map to a mark read before the write transaction',
           'two threads: an event committed between the mark and the failing request\'s transaction is cut off and later overwritten'),
 'C16-2': ('C16', 'rebuild drains extra_table_names of the store it returns',
           'a store with extra tables rebuilt twice without a reopen in between: the second rebuild copies no extra table'),
 'C17-2': ('C17', 'Tags::get_string bounds check tightened to offset >= end',
           'an empty tag value that is the last value of the last tag (of a filter or event): get_string returns None, tag paths disagree'),
 'C18-2': ('C18', 'Lmdb::deindex refactored with map_while instead of filter_map: stops at the first non-indexed tag',
           'an event with a multi-letter or valueless tag before a single-letter tag, then removed: stale tag-index entries'),
 'C20-2': ('C20', 'Hll8::add_element stops counting zero bits once the count reaches the bucket\'s current value',
           'an element whose byte after the offset byte is 0x00 arriving while its bucket is lower: the register depends on arrival order'),
})
WAVE2 = {k for k in T if k.endswith('-2')}

# ---- third wave (worktrees under /tmp/seed3; each agent was pointed at one of the mechanisms the property record names)
T.update({
 'C01-3': ('C01', 'burn_tag skips tag strings 8 bytes at a time while a word holds no quote, then hands over to burn_string: a skipped word can end on the backslash of an escape pair',
           'a tag string with a backslash at offset 8k+7, no earlier quote, followed by a quote or backslash: the counting pass rejects a valid event'),
 'C02-3': ('C02', 'Event::eq rewritten "word at a time" with align_to::<u64>() and no fallback for differing alignment',
           'two byte-identical events in buffers that start at different addresses modulo 8 compare unequal (Hash still agrees)'),
 'C03-3': ('C03', 'HEX_INVERSE generated at compile time with an off-by-one letter loop: g and G map to 16 instead of "not hex"',
           'a g/G inside a hex field: u8 overflow panic in overflow-checked builds, silent acceptance otherwise; hyperloglog_offset 24'),
 'C04-3': ('C04', 'Lmdb::index refactored with let-else: the arm for a single-letter tag without a value returns instead of continuing, and the id entry is now written last',
           'an event carrying a tag like ["p"]: stored and readable by offset, but not by id, never a duplicate, not removable'),
 'C05-3': ('C05', 'Lmdb::ci_iter clamps the start of the scan to min(until, now)',
           'a filter naming no ids/authors/tags and a stored event dated in the future'),
 'C06-3': ('C06', 'the two time checks of event_matches replaced by one wrapping unsigned comparison',
           'a filter with since > until (empty window) matches events outside the open interval (until, since)'),
 'C07-3': ('C07', 'burn_value hops over 8-byte blocks without a quote before the byte-wise string skip',
           'an unknown member whose string value has a backslash at offset 8k+7 starting an escape'),
 'C08-3': ('C08', 'Event::verify compares digest and id with an accumulating loop that xors instead of ors',
           'an id wrong in at least two bytes whose differences cancel under xor (same mask on two bytes, two bytes swapped)'),
 'C09-3': ('C09', 'the parameterized-address scans filter hits with Tags::matches("d", value) (any d tag) instead of get_value("d") (the first)',
           'an event with two d tags whose second value is another event\'s identifier: the two addresses affect one another'),
'C10-3': ('C10', 'handle_deletion_event applies each target before judging and keeps the verdict in a flag that is assigned, not accumulated',
           'a request naming a foreign target followed by an own target: accepted, the foreign event is removed and marked'),
 'C11-3': ('C11', 'rebuild skips an address marker when the address currently holds an event newer than the marker ("compaction")',
           'an accepted address deletion at t, a newer event at the address, then rebuild: the marker is gone; after the newer event is deleted by id the covered event is accepted again'),
 'C12-3': ('C12', 'Lmdb remembers positive is_deleted answers in a set, and mark_deleted asks is_deleted through the write transaction first',
           'a request naming the same id in two e tags that then fails at a later tag: the id stays "deleted" in the set although the transaction aborted'),
 'C13-3': ('C13', 'Lmdb::new refuses an existing but empty lmdb directory ("the indexes are missing") instead of creating the maps',
           'a kill during the first Store::new after the lmdb directory was made and before the maps were committed: every later open fails'),
 'C14-3': ('C14', 'store_event takes one read snapshot together with the write transaction - evaluated before the writer lock is acquired - and the pre-removal loops iterate it',
           'two stores at one replaceable address: the older commits while the newer is queued for the lock; the newer misses it in its removal loop and is then refused as replaced'),
 'C15-3': ('C15', 'removal marks the removed event in the map by writing ff ff into two reserved header bytes through the file handle',
           'a held reference to an event that is later replaced / deleted / removed: its bytes change under the reference (no growth involved)'),
 'C16-3': ('C16', 'key_naddr_index computes the length byte as min(len as u8, 182): the cast wraps before the clamp',
           'an address marker whose d is 256..437 bytes long, then rebuild: dump_naddr_deleted decodes a wrong identifier and the marker moves to another address'),
 'C17-3': ('C17', 'Lmdb::deindex breaks out of the tag loop when a tag-index key was already absent',
           'an event with two tags collapsing to one key followed by a further indexed tag, then removed: the later tag entries stay'),
 'C19-3': ('C19', 'the final tags-section size check of read_tags_array replaced by a per-string check in read_tag',
           'a JSON tags array whose LAST tag is an empty [] and whose 2-byte count is what crosses 65,535: accepted with length field 0 or 1'),
 'C20-3': ('C20', 'Hll8::to_hex_string rewritten as a "sparse" encoder that never writes the low digit of a register above 15',
           'a register in 17..255 that is not a multiple of 16: export then import changes the sketch'),})


for sid, (prop, what, needs) in sorted(T.items()):
    d = os.path.join(ROOT, 'seeded', sid)
    res = open(os.path.join(d, 'result.txt')).read() if os.path.exists(os.path.join(d, 'result.txt')) else ''
    det = []
    for l in res.splitlines():
        m = re.match(r'^(C\d\d) exit (\d) VIOLATIONS (\d+) ?(.*)$', l)
        if m and m.group(2) != '0':
            rest = m.group(4)
            kind = 'failing input found by the direct oracle' if '# oracle' in rest and 'no-failing-input-found' not in rest else 'correspondence/proof broke (no-failing-input-found)'
            why = rest.split('# ', 1)[1][:220] if '# ' in rest else ''
            det.append({'check': m.group(1), 'kind': kind, 'first_report': why})
    meta = {
        'seed': sid, 'breaks_property': prop, 'change': what, 'needs_to_manifest': needs,
        'origin': 'written by a sub-agent that saw only the text of property %s and a scratch git worktree of /repo (%s/%s); nothing from /verif' % (prop, ('/tmp/seed2' if sid.endswith('-2') else '/tmp/seed3' if sid.endswith('-3') else '/tmp/seed'), prop),
        'confirmed_by_me': {
            'where': 'the scratch worktree %s/%s (removed afterwards)' % (('/tmp/seed2' if sid.endswith('-2') else '/tmp/seed3' if sid.endswith('-3') else '/tmp/seed'), prop),
            'commands': ['sh tools/confirm_seed.sh %s/%s' % (('/tmp/seed2' if sid.endswith('-2') else '/tmp/seed3' if sid.endswith('-3') else '/tmp/seed'), prop)],
            'observed': 'with the patch: the repository\'s own 58 tests pass and the demonstration (seed_demo.rs) fails; without the patch the demonstration passes' +
                        (' (needs --features verif for the forced kill point)' if sid in ('C13-1', 'C13-2') else ''),
        },
        'run_against_checks': {'command': 'tools/try_seed.py seeded/%s/patch.diff   (git -C /repo apply; ./check Cxx for all 20; git -C /repo checkout -- .)' % sid,
                               'tier': 'quick', 'flagged_by': [x['check'] for x in det], 'own_property_check_flags_it': prop in [x['check'] for x in det], 'details': det},
    }
    json.dump(meta, open(os.path.join(d, 'meta.json'), 'w'), indent=1)
    print(sid, meta['run_against_checks']['flagged_by'])
