#!/bin/sh
# confirm a seeded change in its scratch worktree: usage confirm_seed.sh /tmp/seed/Cxx
# 1. with the patch: existing suite passes (demo excluded), demo FAILS; 2. without: demo PASSES.
W=$1
cd $W || exit 2
export CARGO_NET_OFFLINE=true
DEMO=$(ls SEED/*.rs | head -1); DEMONAME=$(basename $DEMO .rs)
CRATE=$(ls pocket-db/tests/$DEMONAME.rs >/dev/null 2>&1 && echo pocket-db || echo pocket-types)
git diff --quiet -- pocket-types/src pocket-db/src && { echo "patch not applied in worktree; applying"; git apply SEED/patch.diff || exit 2; }
echo "== existing suite with the patch (demo test target excluded)"
cargo test --workspace --offline --lib --tests 2>&1 | grep -E "^test result|Running|FAILED|failed" | grep -v "$DEMONAME" | awk '/Running/{r=$0} /test result/{print r" -> "$0}' | grep -v "$DEMONAME" | sed 's/finished in.*//' 
echo "== demo with the patch (must fail)"
cargo test --offline -p $CRATE --test $DEMONAME 2>&1 | grep -E "^test result|^test .*FAILED" | head -5
git apply -R SEED/patch.diff || exit 2
echo "== demo without the patch (must pass)"
cargo test --offline -p $CRATE --test $DEMONAME 2>&1 | grep -E "^test result" | head -3
git apply SEED/patch.diff
