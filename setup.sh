#!/bin/sh
# MANIFEST.setup_cmd: build the Lean project and the Rust worker, offline.
set -e
cd "$(dirname "$0")"
exec python3 ./check --setup
