"""C20 — HyperLogLog sketches merge like sets and estimate without failing."""
from ..common import Check, hx

THEOREMS = ['merge_comm', 'merge_assoc', 'merge_idem', 'add_ok', 'add_rejects_offset_ge_24', 'add_idem',
            'add_comm', 'sketch_append', 'sketch_set_ext', 'sketch_union', 'hex_roundtrip',
            'hex_import_export', 'zeroCount_new', 'countZeros_le', 'filter_offset_in_range']

ZERO = '00' * 256


def rand_state(rng):
    mode = rng.choice(['small', 'small', 'any', 'sparse'])
    if mode == 'small':
        return ''.join('%02x' % rng.choice([0, 0, 1, 2, 3, 5, 8, 13]) for _ in range(256))
    if mode == 'any':
        return ''.join('%02x' % rng.randrange(256) for _ in range(256))
    s = ['00'] * 256
    for _ in range(rng.randrange(1, 6)):
        s[rng.randrange(256)] = '%02x' % rng.randrange(256)
    return ''.join(s)


def rand_elem(rng):
    mode = rng.choice(['rand', 'zeros', 'lowbits'])
    if mode == 'rand':
        return bytes(rng.randrange(256) for _ in range(32))
    if mode == 'zeros':
        k = rng.randrange(0, 32)
        return bytes(rng.randrange(256) for _ in range(k)) + bytes(32 - k)
    b = bytearray(32)
    for i in range(32):
        b[i] = rng.choice([0, 0, 0, 1, 2, 4, 0x80, 0xff])
    return bytes(b)


def run():
    c = Check('C20', THEOREMS, assumptions=[
        'IEEE-754 evaluation of estimate_count is opaque to the kernel: its value is compared between implementation and the model\'s Float evaluation (tolerance 1), not proved',
        'the 40% error envelope is a statistical test over seeded random elements, labelled as a test'])
    c.rule = ('register states (small / arbitrary / sparse, plus every single-register extreme 0..255 at sampled positions) through '
              'hex import, add_element at every offset 0..23 and rejected offsets, +=, export and estimate_count on the real Hll8 and '
              'on the model; algebraic laws evaluated on the real code directly; non-trivial = distinct (operation, operands) whose '
              'result differs from its first operand or is an error')
    c.setup()
    c.prove()
    rng = c.rng
    N = 300 if c.tier == 'quick' else 5000
    lines, meta = [], []
    # single-register extremes, exhaustive over the value
    for v in range(256):
        for pos in ([0, 255, rng.randrange(256)] if c.tier == 'quick' else range(0, 256, 5)):
            s = ['00'] * 256
            s[pos] = '%02x' % v
            txt = ''.join(s)
            lines.append('HEX hll ' + hx(txt.encode()))
            meta.append(('import', txt))
    for v in range(256):
        txt = ('%02x' % v) * 256
        lines.append('HEX hll ' + hx(txt.encode()))
        meta.append(('import', txt))
    # upper-case and malformed imports
    for _ in range(N // 3):
        txt = rand_state(rng)
        t2 = ''.join(ch.upper() if rng.random() < 0.5 else ch for ch in txt)
        lines.append('HEX hll ' + hx(t2.encode()))
        meta.append(('import', t2))
        bad = bytearray(t2.encode())
        k = rng.randrange(len(bad))
        bad[k] = rng.choice([0x67, 0x20, 0x80, 0xff, 0x2f, 0x3a, 0x40, 0x47, 0x60])
        cut = rng.choice([len(bad), len(bad), len(bad) - 1, len(bad) + 1, 0, 511])
        bad = bytes(bad[:cut]) + (b'0' if cut > len(bad) else b'')
        try:
            bad.decode('utf8')
            lines.append('HEX hll ' + hx(bad))
            meta.append(('import-bad', None))
        except UnicodeDecodeError:
            pass
    # adds
    for _ in range(N):
        st, el = rand_state(rng), rand_elem(rng)
        off = rng.choice(list(range(24)) + [24, 25, 31, 32, 1000])
        lines.append('HLA %s %s %d' % (st, hx(el), off))
        meta.append(('add', (st, el, off)))
    # merges
    triples = []
    for _ in range(N):
        a, b, d = rand_state(rng), rand_state(rng), rand_state(rng)
        triples.append((a, b, d))
        lines.append('HLM %s %s' % (a, b))
        meta.append(('merge', (a, b)))
    # estimates
    for _ in range(N):
        st = rand_state(rng)
        lines.append('HLE ' + st)
        meta.append(('est', st))
    lines.append('HLE ' + ZERO)
    meta.append(('est', ZERO))
    w, m = c.run_both(lines)
    c.evaluations += len(lines)
    est_off = 0
    for l, (kind, arg), a, b in zip(lines, meta, w, m):
        c.count(kind)
        if a.startswith('panic') or a.startswith('ABORT') or a.startswith('HANG'):
            c.violation('oracle', 'Hll8 %s did not return: %s' % (kind, a), [l])
            continue
        if a != b:
            if kind in ('est', 'import') and a.split(' ')[:2] == b.split(' ')[:2] or kind == 'est':
                # only the float estimate differs: accept a rounding difference of 1
                try:
                    ea, eb = int(a.split(' ')[-1]), int(b.split(' ')[-1])
                    if abs(ea - eb) <= 1:
                        est_off += 1
                        continue
                except ValueError:
                    pass
            c.violation('corr', '%s: impl %s.. model %s..' % (kind, a[:60], b[:60]), [l], found=False)
        if kind == 'import':
            if not a.startswith('ok'):
                c.violation('oracle', 'valid hex import rejected', [l])
            elif a.split(' ')[1] != arg.lower():
                c.violation('oracle', 'export(import(s)) != lower(s)', [l])
            else:
                c.nontriv(('import', arg[:16], arg[-16:]))
        if kind == 'add' and a.startswith('ok'):
            if arg[2] >= 24:
                c.violation('oracle', 'offset >= 24 accepted', [l])
            if a.split(' ')[1] != arg[0]:
                c.nontriv(('add', l[-80:]))
        if kind == 'add' and a == 'err' and arg[2] < 24:
            c.violation('oracle', 'offset < 24 rejected', [l])
        if kind == 'est' and arg == ZERO and a != 'ok 0':
            c.violation('oracle', 'estimate of the empty sketch is %s' % a, [l])
    c.extra['estimate_rounding_differences_le_1'] = est_off
    c.sample({'request': lines[0][:120] + '...', 'impl': w[0][:80], 'model': m[0][:80]})
    # ---- algebraic laws on the real code (direct oracle, no model)
    laws = []
    for a, b, d in triples[: N // 2]:
        laws += ['HLM %s %s' % (a, b), 'HLM %s %s' % (b, a), 'HLM %s %s' % (a, a), 'HLM %s %s' % (b, d)]
    r = c.worker.run(laws)
    c.evaluations += len(laws)
    second = []
    for k, (a, b, d) in enumerate(triples[: N // 2]):
        ab, ba, aa, bd = [x.split(' ')[-1] for x in r[4 * k: 4 * k + 4]]
        if ab != ba:
            c.violation('oracle', 'merge not commutative', [laws[4 * k], laws[4 * k + 1]])
        if aa != a:
            c.violation('oracle', 'merge not idempotent', [laws[4 * k + 2]])
        second += ['HLM %s %s' % (ab, d), 'HLM %s %s' % (a, bd)]
        c.nontriv(('merge', a[:24], b[:24]))
    r2 = c.worker.run(second)
    for k in range(0, len(second), 2):
        if r2[k] != r2[k + 1]:
            c.violation('oracle', 'merge not associative', [second[k], second[k + 1]])
    # add: idempotent, order independent, union = merge   (sequences through the real code)
    seqs = 60 if c.tier == 'quick' else 1000
    for _ in range(seqs):
        off = rng.randrange(24)
        A = [rand_elem(rng) for _ in range(rng.randrange(1, 6))]
        B = [rand_elem(rng) for _ in range(rng.randrange(0, 6))] + [rng.choice(A)]
        def fold(els, start=ZERO):
            st = start
            for e in els:
                rr = c.worker.run(['HLA %s %s %d' % (st, hx(e), off)])[0]
                if not rr.startswith('ok'):
                    c.violation('oracle', 'add_element failed: %s' % rr, ['HLA %s %s %d' % (st, hx(e), off)])
                    return st
                st = rr.split(' ')[1]
            return st
        sa, sb = fold(A), fold(B)
        U = A + B
        rng.shuffle(U)
        su = fold(U + [U[0]])
        mg = c.worker.run(['HLM %s %s' % (sa, sb)])[0].split(' ')[-1]
        c.evaluations += len(A) + len(B) + len(U) + 2
        if su != mg:
            c.violation('oracle', 'sketch(A ∪ B) != merge(sketch A, sketch B)',
                        ['# offset %d' % off] + ['# A ' + hx(e) for e in A] + ['# B ' + hx(e) for e in B])
        if fold(A, sa) != sa:
            c.violation('oracle', 'add_element not idempotent', ['# A ' + hx(e) for e in A])
        c.nontriv(('union', hx(A[0]), len(A), len(B)))
    # ---- statistical envelope: a TEST, not a theorem
    trials = 12 if c.tier == 'quick' else 200
    worst = 0.0
    st_lines = []
    for card in (100, 1000, 10000, 100000 if c.tier == 'thorough' else 20000):
        for _ in range(trials):
            st_lines.append((card, 'HLS %d %d %d' % (card, rng.randrange(1, 1 << 62), rng.randrange(24))))
    rs = c.worker.run([l for _, l in st_lines])
    c.evaluations += len(st_lines)
    for (card, l), a in zip(st_lines, rs):
        if not a.startswith('ok'):
            c.violation('oracle', 'estimate did not return: %s' % a, [l])
            continue
        est = int(a.split(' ')[1])
        rel = abs(est - card) / card
        worst = max(worst, rel)
        if rel >= 0.40:
            c.violation('oracle', 'estimate %d for cardinality %d (%.0f%% off)' % (est, card, rel * 100), [l])
    # ... and for LARGE cardinalities ("from 100 upward" has no upper end): elements generated on the fly in the release
    # worker (about 7 ns per element), around and beyond the estimator's large-range switch at 2^32/30 = 143,165,576
    big = [150_000_000, 400_000_000] if c.tier == 'quick' else [120_000_000, 150_000_000, 300_000_000, 1_000_000_000, 3_000_000_000, 6_000_000_000]
    try:
        from ..common import Proc, build_worker
        rel_worker = Proc(build_worker(release=True), timeout=900)
        bl = ['HLB %d %d %d' % (n, rng.randrange(1, 1 << 62), rng.randrange(24)) for n in big for _ in range(2)]
        br = rel_worker.run(bl)
        c.evaluations += len(bl)
        worst_big = 0.0
        for l, a in zip(bl, br):
            n = int(l.split(' ')[1])
            if not a.startswith('ok'):
                c.violation('oracle', 'estimate of a large sketch did not return: %s' % a[:60], [l])
                continue
            est = int(a.split(' ')[1])
            rel = abs(est - n) / n
            worst_big = max(worst_big, rel)
            c.count('large_cardinality_trials')
            if rel >= 0.40:
                c.violation('oracle', 'estimate %d for %d uniformly random elements (%.0f%% off)' % (est, n, rel * 100), [l])
        c.extra['statistical_test_large'] = {'label': 'test, not a theorem', 'cardinalities': big, 'worst_relative_error': round(worst_big, 4)}
    except Exception as ex:
        c.violation('oracle', 'the large-cardinality envelope test could not run: %s' % str(ex)[:80], ['# release worker'], found=False)
    c.extra['statistical_test'] = {'label': 'test, not a theorem', 'trials': len(st_lines), 'worst_relative_error': round(worst, 4)}
    c.finish()
