"""C02 — binary <-> JSON round trip is lossless and the binary form is canonical."""
import json
from .. import sweeps
from ..common import Check, hx, tags_tok
from .. import jsongen, gen

THEOREMS = ['from_json_is_from_parts', 'canonical_any_buffer', 'serialize_total_on_valid', 'unescape_escape_id', 'escape_injective', 'round_trip', 'round_trip_values', 'canonical_any_spelling', 'escape_constants_from_source', 'safe_char_from_source', 'event_layout_from_source', 'tags_layout_from_source', 'tags_writer_from_source']


def run():
    c = Check('C02', THEOREMS, assumptions=[
        'events whose strings are valid UTF-8 (the property\'s scope); others are run for totality only',
        'upper-case hex, integers with exponent or fraction, duplicate members and unknown values nested deeper than 64 are outside the theorems'])
    c.rule = ('random events (all tag shapes incl. empty tags and empty strings; every code-point class incl. NUL, DEL, U+2028, astral) '
              'built with from_parts; as_json must parse in Python to the same seven values; parsing it back, and parsing 4 further '
              'renderings of the same tree (member order, whitespace, escape spelling, hex case, unknown members) into buffers with '
              'different dirty contents, must all give bytes identical to from_parts. non-trivial = distinct event for which all '
              'renderings were compared')
    c.setup()
    c.prove()
    rng = c.rng
    N = 500 if c.tier == 'quick' else 8000
    vals = [jsongen.rand_event_values(rng) for _ in range(N)]
    sig_lines = []
    for v in vals:
        ev = dict(id=v['id'], pk=v['pubkey'], kind=v['kind'], t=v['created_at'],
                  tags=[[s.encode() for s in t] for t in v['tags']], content=v['content'].encode(), sig=v['sig'])
        need = 144 + 4 + 2 * len(ev['tags']) + sum(2 + sum(2 + len(s) for s in t) for t in ev['tags']) + 4 + len(ev['content'])
        sig_lines.append('EVP %s %d %d' % (gen.ev_tok(ev), need + rng.choice([0, 0, 7, 100]), rng.randrange(1, 1 << 40)))
    w, m = c.run_both(sig_lines)
    c.evaluations += len(sig_lines)
    stage2 = []
    for v, l, a, b in zip(vals, sig_lines, w, m):
        if a != b:
            c.violation('corr', 'from_parts: impl %s model %s' % (a[:60], b[:60]), [l[:2000]], found=False)
        if not a.startswith('ok'):
            c.violation('oracle', 'from_parts failed on a representable event: %s' % a[:60], [l[:2000]])
            continue
        n = int(a.split(' ')[1])
        stage2.append((v, a.split(' ')[2][:2 * n], l))
    wa, ma = c.run_both(['EVA ' + b for _, b, _ in stage2])
    c.evaluations += len(stage2)
    stage3 = []
    for (v, bts, l), a, b in zip(stage2, wa, ma):
        if a != b:
            c.violation('corr', 'as_json/accessors: impl %s model %s' % (a[:80], b[:80]), ['EVA ' + bts[:2000]], found=False)
        t = a.split(' ')
        if t[0] != 'ok' or t[8] in ('jsonerr', 'panic'):
            c.violation('oracle', 'as_json failed on a valid-UTF-8 event: %s' % a[:60], ['EVA ' + bts[:2000]])
            continue
        js = bytes.fromhex(t[8])
        got = jsongen.py_event(js)
        want = dict(id=v['id'], pubkey=v['pubkey'], sig=v['sig'], kind=v['kind'], created_at=v['created_at'],
                    tags=[[s.encode() for s in tg] for tg in v['tags']], content=v['content'].encode())
        if got != want:
            c.violation('oracle', 'as_json output does not read back (independent parser) to the same seven values',
                        ['EVA ' + bts[:2000], '# json: ' + repr(js[:400])])
            continue
        texts = [js] + [jsongen.render_event(rng, v, unknown=rng.choice([0, 1, 2])) for _ in range(4)]
        stage3.append((v, bts, texts))
    # equality as the library defines it (==, Hash, tag sections, owned values) across buffers at different addresses
    # modulo 8 with different prior contents: denotations of one event compare equal
    eq_lines = []
    for v, bts, texts in stage3:
        for tx in texts[1:3]:
            eq_lines.append('EQL %s %s %d' % (hx(texts[0]), hx(tx), rng.randrange(1, 1 << 40)))
    for l, a in zip(eq_lines, c.worker.run(eq_lines)):
        c.evaluations += 1
        if a != 'ok eq=1 hash=1 teq=1 own=1 bytes=1':
            c.violation('oracle', 'two texts denoting one event, parsed into differently placed buffers, do not compare equal: %s' % a[:60], [l[:3000]])
    lines3 = []
    for v, bts, texts in stage3:
        for tx in texts:
            lines3.append('EVJ %s %d %d' % (hx(tx), len(bts) // 2 + rng.choice([0, 1, 64, 1000]), rng.randrange(1, 1 << 40)))
    w3, m3 = c.run_both(lines3)
    c.evaluations += len(lines3)
    k = 0
    for v, bts, texts in stage3:
        okall = True
        for tx in texts:
            l, a, b = lines3[k], w3[k], m3[k]
            k += 1
            if a != b:
                c.violation('corr', 'from_json: impl %s model %s' % (a[:60], b[:60]), [l[:3000]], found=False)
            if not a.startswith('ok'):
                c.violation('oracle', 'a rendering of a held event was rejected: %s' % a[:40], [l[:3000]])
                okall = False
                continue
            n = int(a.split(' ')[2])
            if a.split(' ')[3][:2 * n] != bts or 2 * n != len(bts):
                c.violation('oracle', 'binary form is not canonical: parse result differs from from_parts bytes',
                            [l[:3000], '# from_parts: ' + bts[:600]])
                okall = False
        if okall:
            c.nontriv(bts[:300])
    if stage3:
        c.sample({'event_bytes': stage3[0][1][:200], 'renderings': [repr(t[:120]) for t in stage3[0][2][:3]]})
    # invalid UTF-8 content: serializer must return (value or error), never panic
    bad = []
    for raw in (b'\xc3', b'\xe2\x82', b'\xf0\x9f', b'\xf7\xbf\xbf\xbf', b'\xff', b'a\xc3', b'\x80', b'\xf4\x90\x80\x80'):
        ev = dict(id=gen.ID(1), pk=gen.ID(2), kind=1, t=1, tags=[], content=raw, sig=bytes(64))
        bad.append('EVP %s 400 3' % gen.ev_tok(ev))
    wb, mb = c.run_both(bad)
    acc = ['EVA ' + a.split(' ')[2][:2 * int(a.split(' ')[1])] for a in wb if a.startswith('ok')]
    wa, ma = c.run_both(acc)
    c.evaluations += len(bad) + len(acc)
    for l, a, b in zip(acc, wa, ma):
        c.count('invalid_utf8_content:' + ('jsonerr' if 'jsonerr' in a else a.split(' ')[0]))
        if a.split(' ')[0] in ('panic', 'ABORT', 'HANG'):
            c.violation('oracle', 'serializer did not return on invalid UTF-8 content', [l])
        if a != b:
            c.violation('corr', 'invalid-utf8 serializer: impl %s model %s' % (a[-40:], b[-40:]), [l], found=False)
    sweeps.cpt_sweep(c)
    c.finish()
