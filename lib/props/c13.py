"""C13 — killing the process at any instant leaves a consistent, reopenable store."""
import os, shutil, subprocess, time
from concurrent.futures import ThreadPoolExecutor
from ..common import Check, hx, RUNDIR, build_worker, build_model, Proc
from .. import storecheck
from ..storecheck import HistGen, Runner, strip_now
from ..absstore import Abs
from ..gen import ID, ev_tok, AUTHORS

THEOREMS = ['event_map_from_source', 'store_crash_consistent', 'remove_crash_consistent', 'vanish_crash_subset', 'creation_crash_consistent', 'reopen_end', 'store_kill_map_states', 'creation_map_states', 'map_chunks_from_source']

GROW = ('es_store:grow', 'es_store:grow_setlen', 'es_store:grow_resized')


def expected_trace(op, reply):
    if op['op'] == 'store':
        pre = ['store:txn', 'store:checked', 'store:preremoved', 'es_store:start', 'es_store:padded', 'es_store:half_copied',
               'es_store:appended', 'store:appended', 'store:indexed']
        cls = reply.split(' ')[0]
        if cls in ('dup', 'deleted'):
            return ['store:txn']
        if cls == 'replaced':
            return ['store:txn', 'store:checked']
        if cls in ('invalid', 'err'):
            return pre
        return pre + ['store:before_commit', 'store:committed']
    if op['op'] == 'remove':
        return ['remove:txn', 'remove:before_commit', 'remove:committed']
    return None


def battery_lines(ids, offs, tables):
    ls = []
    for i in ids:
        ls += ['HAS ' + hx(i), 'GID ' + hx(i), 'DEL ' + hx(i)]
    for o in offs:
        ls.append('OFF %d' % o)
    ls.append('STA')
    ls.append('FND _ _ _ _ - - - 1 0 0 m')
    for pk in AUTHORS:
        ls.append('FND _ %s _ _ - - - 1 0 0 m' % hx(pk))
    for t in tables:
        ls.append('XDP ' + t)
    ls.append('MLN')      # the length of the map file: judged separately (see map_state), never line-wise
    return ls


def norm(line, reply):
    """observables: everything except the map's end marker (orphan bytes of an interrupted append)"""
    r = strip_now(reply)
    if line == 'MLN':
        return 'mln'
    if line == 'STA':
        r = ' '.join(x for x in r.split(' ') if not x.startswith('end='))
    return r


def run():
    c = Check('C13', THEOREMS, assumptions=[
        'PARTIAL: process kill only (the page cache survives); LMDB commit atomicity, the kernel and the absence of reordering across the SeqCst fence are trusted; torn 8-byte marker stores are not modelled',
        'the child dies by _exit inside pocket_db::verif::point at the named point (incl. a half-copied append): no destructors, no flushes'])
    c.rule = ('fault enumeration through the verif hooks: for each step of each history, the step is first traced (which named points it '
              'hits, how often), then for every (point, occurrence) a child worker replays the history and dies there; the parent reopens '
              'the directory with the real code, reads the battery and continues with further operations. The recovered observables must '
              'equal the model\'s state before or after the interrupted call (vanish: line-wise between), earlier offsets must read back, and '
              'the continuation must behave as on the uninterrupted state (reply classes and battery, offsets aside). Creation and reopen '
              'are killed at every point too. non-trivial = distinct (history step, point, occurrence) whose child really died there')
    c.setup()
    c.prove()
    rng = c.rng
    Q = c.tier == 'quick'
    W = build_worker()
    base = os.path.join(RUNDIR, 'C13-%d' % os.getpid())
    os.makedirs(base, exist_ok=True)
    nh = 10 if Q else 120
    jobs = []     # (tag, setup_lines(dir), kill_line, after_lines, meta)
    hist_models = []
    try:
        # ---- store creation / reopen killed at every point
        for point in ('new:start', 'new:dirs', 'es_new:opened', 'es_new:sized', 'es_new:mapped', 'new:events', 'new:lmdb'):
            jobs.append(dict(kind='create', point=point, n=1))
            jobs.append(dict(kind='reopen', point=point, n=1))
        # ---- histories
        for h in range(nh):
            g = HistGen(rng, 'C13')
            g.tables = rng.choice([[], ['t1']])
            ab = Abs(g.tables)
            ops = []
            for _ in range(rng.randrange(3, 9 if Q else 14)):
                op = g.next_op(ab)
                if op['op'] in ('rebuild', 'reopen', 'xput'):
                    continue
                if op['op'] == 'store':
                    ab.store(op['ev'])
                elif op['op'] == 'remove':
                    ab.remove(op['id'])
                else:
                    ab.vanish(op['pk'])
                ops.append(op)
            # always: a replaceable (or parameterized) event and the newer / same-time version that displaces it - the
            # call whose interruption may lose the old version without the new one having arrived
            rk = rng.choice([10003, 0, 30023])
            rpk = rng.choice(AUTHORS)
            rtags = [[b'd', rng.choice([b'', b'x'])]] if rk == 30023 else []
            v1 = g.new_event(kind=rk, pk=rpk, t=100, tags=rtags, content=b'v1')
            v2 = g.new_event(kind=rk, pk=rpk, t=rng.choice([100, 200]), tags=rtags, content=b'v2' * rng.choice([1, 400]))
            for ev in (v1, v2):
                ab.store(ev)
                ops.append({'op': 'store', 'ev': ev})
            iv2 = len(ops) - 1
            # always: an event that ends EXACTLY on the last byte of the map file (a multiple of the growth chunk), so that the calls
            # interrupted next are interrupted - and the store reopened - while the map is full to its last byte
            from ..absstore import align8
            fstart = align8(ab.end)
            ftarget = ((fstart + 152) // 2048 + 1) * 2048
            full = g.new_event(kind=1, pk=rng.choice(AUTHORS), t=77, tags=[], content=b'F' * (ftarget - fstart - 152))
            ab.store(full)
            ops.append({'op': 'store', 'ev': full})
            ifull = len(ops)          # the op AFTER the filling store
            # always: a vanish that has several targets - events by the key (the replaceable one just stored among them), a gift
            # wrap naming it - so that every kill point between its per-event removals is really visited
            wrap = g.new_event(kind=1059, pk=ID(0xe1), t=300, tags=[[b'p', rpk.hex().encode()]], content=b'wrap')
            n1 = g.new_event(kind=1, pk=rpk, t=rng.choice([100, 300]), tags=[[b't', b'a'], [b'p', AUTHORS[0].hex().encode()]], content=b'note')
            n2 = g.new_event(kind=rng.choice([1, 30023]), pk=rpk, t=301, tags=[[b'd', b'vz'], [b't', b'a']], content=b'note2')
            for ev in (wrap, n1, n2):
                ab.store(ev)
                ops.append({'op': 'store', 'ev': ev})
            ab.vanish(rpk)
            ops.append({'op': 'vanish', 'pk': rpk})
            # choose the steps to interrupt
            if Q:
                special = [i for i, o in enumerate(ops) if o['op'] in ('vanish', 'remove') or (o['op'] == 'store' and o['ev']['kind'] == 5)][:2]
                special.append(iv2)
                special.append(ifull)
                if h % 2 == 0:
                    special.append(len(ops) - 1)
                ks = sorted(set(special + rng.sample(range(len(ops)), min(2, len(ops)))))
            else:
                ks = list(range(len(ops)))
            for k in ks:
                jobs.append(dict(kind='hist', h=h, ops=ops, k=k, tables=g.tables))
        # ---- phase 1: trace the step to interrupt
        def trace(job):
            d = os.path.join(base, 'tr-%d' % id(job))
            if job['kind'] == 'hist':
                lines = ['NEW %s %s' % (d, ','.join(job['tables']) or '-')] + [Runner.op_line(o) for o in job['ops'][:job['k']]]
                lines.append('TRC ' + Runner.op_line(job['ops'][job['k']]))
                out = subprocess.run([W], input='\n'.join(lines) + '\nRMD\n', capture_output=True, text=True).stdout.split('\n')
                r = out[len(lines) - 1]
                job['trace_reply'], _, tr = r.partition(' | ')
                job['trace'] = [] if tr.strip() in ('-', '') else tr.strip().split(',')
                job['pre_replies'] = out[1:len(lines) - 1]
            return job
        with ThreadPoolExecutor(16) as ex:
            list(ex.map(trace, [j for j in jobs if j['kind'] == 'hist']))
        # ---- expand into kill tests
        tests = []
        for j in jobs:
            if j['kind'] != 'hist':
                tests.append(j)
                continue
            seen = {}
            for p in j['trace']:
                seen[p] = seen.get(p, 0) + 1
                if Q and seen[p] > 2:
                    continue
                tests.append(dict(j, point=p, n=seen[p]))
            want = expected_trace(j['ops'][j['k']], j['trace_reply'])
            got = [p for p in j['trace'] if p not in GROW]
            if want is not None:
                c.traces_validated += 1
                if got != want:
                    c.violation('corr', 'points hit by %s (%s) differ from the model\'s micro-steps: %s vs %s' % (
                        j['ops'][j['k']]['op'], j['trace_reply'], got, want), [Runner.op_line(o) for o in j['ops'][:j['k'] + 1]], found=False)
        # ---- phase 2: kill, reopen, battery, continuation
        def kill_test(t):
            d = os.path.join(base, 'k-%d' % id(t))
            if t['kind'] == 'create':
                lines = ['KIL %s %d NEW %s -' % (t['point'], t['n'], d)]
                cont = ['STO %s' % ev_tok(dict(id=bytes([7]) * 32, pk=AUTHORS[0], kind=1, t=5, tags=[], content=b'hi')), 'GID ' + hx(bytes([7]) * 32), 'OFF 8']
                bat = ['STA']
            elif t['kind'] == 'reopen':
                ev = dict(id=bytes([7]) * 32, pk=AUTHORS[0], kind=1, t=5, tags=[], content=b'hi')
                lines = ['NEW %s -' % d, 'STO ' + ev_tok(ev), 'CLS', 'KIL %s %d OPN %s -' % (t['point'], t['n'], d)]
                bat = ['HAS ' + hx(ev['id']), 'GID ' + hx(ev['id']), 'OFF 8', 'STA']
                cont = ['STO ' + ev_tok(dict(ev, id=bytes([8]) * 32)), 'HAS ' + hx(bytes([8]) * 32)]
            else:
                ops, k = t['ops'], t['k']
                lines = ['NEW %s %s' % (d, ','.join(t['tables']) or '-')] + [Runner.op_line(o) for o in ops[:k]]
                lines.append('KIL %s %d %s' % (t['point'], t['n'], Runner.op_line(ops[k])))
                ids = []
                for o in ops:
                    i = o['ev']['id'] if o['op'] == 'store' else o.get('id')
                    if i and i not in ids:
                        ids.append(i)
                offs = [int(r.split(' ')[1]) for r in t['pre_replies'] if r.startswith('ok ') and len(r.split(' ')) == 2]
                bat = battery_lines(ids, offs, t['tables'])
                cont = [Runner.op_line(o) for o in ops[k + 1:k + 3]]
                if t['point'] in GROW or t['point'].startswith('es_store:half') or t['n'] % 5 == 0:
                    # an interrupted file growth (or append) must not come back later: keep storing after the reopen until
                    # the map has grown at least twice more, then read everything again
                    for i in range(9):
                        xid = bytes([0xc0 + i]) * 31 + b'\x01'
                        cont.append('STO ' + ev_tok(dict(id=xid, pk=AUTHORS[i % 2], kind=1, t=7 + i, tags=[], content=b'g' * 640)))
                        ids.append(xid)
                    bat = battery_lines(ids, offs, t['tables'])
                t['ids'], t['offs'] = ids, offs
            p = subprocess.run([W], input='\n'.join(lines) + '\n', capture_output=True, text=True)
            t['rc'] = p.returncode
            t['kill_out'] = p.stdout.split('\n')
            tables = t.get('tables') or []
            after = ['OPN %s %s' % (d, ','.join(tables) or '-')] + bat + cont + bat
            p2 = subprocess.run([W], input='\n'.join(after) + '\nRMD\n', capture_output=True, text=True)
            t['after'] = after
            t['after_out'] = p2.stdout.split('\n')
            t['lines'] = lines
            t['bat'], t['cont'] = bat, cont
            shutil.rmtree(d, ignore_errors=True)
            return t
        with ThreadPoolExecutor(16) as ex:
            tests = list(ex.map(kill_test, tests))
        c.evaluations += len(tests)
        # ---- model: states before / after the interrupted call, and their continuations
        M = Proc(build_model(), big_stack=True)
        refs = {}
        for t in tests:
            c.count('point:' + t['point'])
            rep = t['lines'] + ['# after the kill:'] + t['after']
            if t['rc'] != 77:
                c.count('not_reached')
                continue
            out = t['after_out']
            if not out[0].startswith('ok'):
                c.violation('oracle', 'reopen after a kill at %s failed: %s' % (t['point'], out[0][:60]), rep)
                continue
            nb, nc = len(t['bat']), len(t['cont'])
            R1 = [norm(l, r) for l, r in zip(t['bat'], out[1:1 + nb])]
            RC = [r.split(' ')[0] if l.startswith('STO') else norm(l, r) for l, r in zip(t['cont'], out[1 + nb:1 + nb + nc])]
            R2 = [norm(l, r) for l, r in zip(t['bat'], out[1 + nb + nc:1 + 2 * nb + nc])]
            if any(x.split(' ')[0] in ('panic', 'ABORT', 'HANG', 'bad-request') for x in R1 + RC + R2):
                c.violation('oracle', 'an operation after reopening (kill at %s) did not return normally' % t['point'], rep)
                continue
            if t['kind'] in ('create', 'reopen'):
                pre = [] if t['kind'] == 'create' else [t['lines'][1]]
                ml = ['NEW x -'] + pre + t['bat'] + t['cont'] + t['bat']
                mo = M.run(ml)
                o = mo[1 + len(pre):]
                A1 = [norm(l, r) for l, r in zip(t['bat'], o[:nb])]
                AC = [r.split(' ')[0] if l.startswith('STO') else norm(l, r) for l, r in zip(t['cont'], o[nb:nb + nc])]
                if R1 != A1 or RC != AC:
                    c.violation('oracle', 'store %s killed at %s: the reopened store is not the expected %s store' % (
                        t['kind'], t['point'], 'empty' if t['kind'] == 'create' else 'unchanged'), rep)
                else:
                    c.nontriv((t['kind'], t['point']))
                continue
            ops, k = t['ops'], t['k']
            pre = [Runner.op_line(o) for o in ops[:k]]
            opl = Runner.op_line(ops[k])
            def ref_run(exe, with_op, tag):
                """the uninterrupted run: battery, continuation, battery — on the real code (reference
                for 'completely or not at all') and on the model (correspondence)"""
                d = os.path.join(base, 'ref-%d-%s' % (id(t), tag))
                ml = ['NEW %s %s' % (d, ','.join(t['tables']) or '-')] + pre + ([opl] if with_op else []) + t['bat'] + t['cont'] + t['bat'] + ['RMD']
                mo = exe.run(ml)[1 + len(pre) + (1 if with_op else 0):]
                b1 = [norm(l, r) for l, r in zip(t['bat'], mo[:nb])]
                cc = [r.split(' ')[0] if l.startswith('STO') else norm(l, r) for l, r in zip(t['cont'], mo[nb:nb + nc])]
                b2 = [norm(l, r) for l, r in zip(t['bat'], mo[nb + nc:2 * nb + nc])]
                raw.append(mo[:nb])
                return b1, cc, b2
            key = (t['h'], k, len(t['cont']))
            if key not in refs:
                raw = []
                refs[key] = (ref_run(c.worker, False, 'a'), ref_run(c.worker, True, 'b'), ref_run(M, False, 'ma'), ref_run(M, True, 'mb'), None)
                refs[key] = refs[key][:4] + (raw[0],)
                # correspondence of the uninterrupted states (lookups, markers, counts; queries are C05's business)
                for which, wi, mi in (('before', 0, 2), ('after', 1, 3)):
                    for l, x, y in zip(t['bat'], refs[key][wi][0], refs[key][mi][0]):
                        if x != y and not l.startswith('FND') and not (l.startswith('OFF') and y == 'unknown'):
                            c.violation('corr', 'state %s the interrupted call: %s: impl %s model %s' % (which, l[:30], x[:40], y[:40]),
                                        ['NEW x -'] + pre + ([opl] if which == 'after' else []) + [l], found=False)
                            break
            A, B = refs[key][0], refs[key][1]
            # OFF lines: offsets of completed stores must read back; the model's 'unknown' for orphan offsets is not compared
            def same(x, y):
                return all(a == b or (l.startswith('OFF') and b == 'unknown') for l, a, b in zip(t['bat'], x, y))
            if ops[k]['op'] == 'vanish':
                # a killed vanish leaves a subset of its targets gone and nothing else: every per-id / per-address /
                # per-offset line equals the state before or the state after; aggregate lines (entry counts, query
                # answers) of a half-done vanish are legitimately in between and are not compared line-wise
                ok1 = all(r == a or r == b for l, r, a, b in zip(t['bat'], R1, A[0], B[0])
                          if l.split(' ')[0] not in ('STA', 'FND', 'FRP', 'FPR'))
                if not ok1:
                    c.violation('oracle', 'vanish killed at %s #%d: the reopened store is not between the states before and after' % (t['point'], t['n']), rep)
                    continue
                # ... and the WHOLE state (every index: entry counts, queries by author / kind / tag, address lookups) is the state
                # before the call with exactly that subset of targets removed - the uninterrupted real store, the gone ids
                # removed one by one, is the reference; the continuation behaves as on it
                gone = [l.split(' ')[1] for l, r, a in zip(t['bat'], R1, A[0]) if l.startswith('HAS ') and a == '1' and r == '0']
                d3 = os.path.join(base, 'ref-%d-v' % id(t))
                rem = ['REM ' + x for x in gone]
                ml = ['NEW %s %s' % (d3, ','.join(t['tables']) or '-')] + pre + rem + t['bat'] + t['cont'] + t['bat'] + ['RMD']
                mo = c.worker.run(ml)[1 + len(pre) + len(rem):]
                C1 = [norm(l, r) for l, r in zip(t['bat'], mo[:nb])]
                CC = [r.split(' ')[0] if l.startswith('STO') else norm(l, r) for l, r in zip(t['cont'], mo[nb:nb + nc])]
                C2 = [norm(l, r) for l, r in zip(t['bat'], mo[nb + nc:2 * nb + nc])]
                c.count('vanish_killed_with_%s_gone' % ('none' if not gone else 'some'))
                if R1 != C1:
                    diff = [(l[:40], r[:50], x[:50]) for l, r, x in zip(t['bat'], R1, C1) if r != x][:2]
                    c.violation('oracle', 'vanish killed at %s #%d: %d of its targets are gone, but the reopened store is not the store before the call '
                                'with those removed (half-removed events?): %s' % (t['point'], t['n'], len(gone), diff), rep)
                    continue
                if RC != CC or R2 != C2:
                    c.violation('oracle', 'after a vanish killed at %s #%d the continuation does not behave as on an uninterrupted store: %s vs %s' % (
                        t['point'], t['n'], RC, CC), rep)
                    continue
                c.nontriv((t['h'], k, t['point'], t['n']))
                continue
            if same(R1, A[0]):
                which, exp = 'before', A
            elif same(R1, B[0]):
                which, exp = 'after', B
            else:
                diff = [(l, r, a, b) for l, r, a, b in zip(t['bat'], R1, A[0], B[0]) if r != a and r != b][:2]
                c.violation('oracle', '%s killed at %s #%d: the reopened store reflects the call neither completely nor not at all: %s' % (
                    ops[k]['op'], t['point'], t['n'], [(l[:20], r[:30], a[:30], b[:30]) for l, r, a, b in diff]), rep)
                continue
            c.count('recovered:' + which)
            # ---- the map file itself: (file length, end marker) after the reopen must be one of the durable states the
            # model says the interrupted append can leave (as the next open sees them), and the file must not have shrunk
            if ops[k]['op'] == 'store' and t['point'].startswith('es_store'):
                def map_state(batlines, replies):
                    fl = end = None
                    for l_, r_ in zip(batlines, replies):
                        if l_ == 'MLN' and r_.strip().isdigit():
                            fl = int(r_)
                        if l_ == 'STA':
                            kv = dict(x.split('=') for x in strip_now(r_).split(' ') if '=' in x)
                            end = int(kv['end']) if kv.get('end', '').isdigit() else None
                    return fl, end
                got = map_state(t['bat'], out[1:1 + nb])
                before = map_state(t['bat'], refs[key][4])
                if None not in got and None not in before:
                    from ..storecheck import encode_event
                    size = len(encode_event(ops[k]['ev']))
                    mr = M.run(['EMX %d %d %d' % (before[0], before[1], size)])[0]
                    allowed = {tuple(int(y) for y in x.split(':')) for x in mr[3:].split(',')} if mr.startswith('ok ') else set()
                    c.count('map_state_checked')
                    if got[0] < before[0]:
                        c.violation('oracle', 'store killed at %s #%d: after the reopen the map file is shorter (%d bytes) than before the call (%d)' % (
                            t['point'], t['n'], got[0], before[0]), rep)
                        continue
                    if got not in allowed:
                        c.violation('corr', 'store killed at %s #%d: map file (length, end) = %s after the reopen; the model allows %s' % (
                            t['point'], t['n'], got, sorted(allowed)), rep, found=False)
            if RC != exp[1] or not same(R2, exp[2]):
                c.violation('oracle', 'after a kill at %s #%d the continuation does not behave as on the uninterrupted (%s) state: %s vs %s' % (
                    t['point'], t['n'], which, RC, exp[1]), rep)
                continue
            c.nontriv((t['h'], k, t['point'], t['n']))
            c.sample({'history': [l[:90] for l in t['lines'][-3:]], 'killed_at': '%s #%d' % (t['point'], t['n']), 'recovered_as': which}, limit=4)
    finally:
        shutil.rmtree(base, ignore_errors=True)
    c.extra['kill_tests'] = len(tests)
    c.finish()
