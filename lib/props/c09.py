"""C09 — At most one event per replaceable address."""
from ._store import run_store

THEOREMS = ['classify', 'one_per_address', 'store_older', 'frame', 'step_addrUniq']


def run():
    run_store('C09', THEOREMS, """Focus: stores at the same and at neighbouring addresses (kind +-1 across every class boundary, the three authors, the d set, events with two d tags, a d tag without value) in every timestamp order, resubmission, removal in between; oracle: reply class, retrievable set, and find_replaceable / find_parameterized return the single holder.""", {'reply', 'live', 'address'}, relevant={'STO', 'HAS', 'GID', 'FRP', 'FPR'})
