"""C09 — At most one event per replaceable address."""
import os, shutil
from ._store import run_store
from ..common import hx, RUNDIR
from ..gen import ev_tok, AUTHORS
from ..storecheck import HistGen
from ..conc import forced, STORE_POINTS

THEOREMS = ['classify', 'one_per_address', 'store_older', 'frame', 'step_addrUniq', 'classification_from_source', 'address_padding_from_source', 'spec_one_per_address']


def races(c, runner):
    """two versions of one address submitted by two threads: the store of one version is paused at each yield point of its
    write transaction while the other version is offered. Whatever the replies, afterwards at most one event is retrievable
    at the address (counted by id and by an author-only query, which does not stop at the first hit), it is the newer one
    if both calls succeeded or the newer succeeded, and a version whose store was refused is not retrievable (oracle: the
    property text)."""
    rng = c.rng
    Q = c.tier == 'quick'
    base = os.path.join(RUNDIR, 'C09r-%d' % os.getpid())
    os.makedirs(base, exist_ok=True)
    try:
        scen = []
        for k in range(4 if Q else 40):
            g = HistGen(rng, 'C09')
            pk = rng.choice(AUTHORS)
            kind = [10002, 30023, 0, 30023][k % 4]
            tags = [[b'd', rng.choice([b'post', b'', b'v' * 183])]] if kind == 30023 else []
            old = g.new_event(kind=kind, pk=pk, t=100, tags=tags, content=b'older')
            new = g.new_event(kind=kind, pk=pk, t=200, tags=tags, content=b'newer')
            pre = []
            if k % 2:
                # the address already holds a still older version
                pre = ['STO ' + ev_tok(g.new_event(kind=kind, pk=pk, t=50, tags=tags, content=b'oldest'))]
            after = ['HAS ' + hx(old['id']), 'HAS ' + hx(new['id']), 'FND _ %s _ _ - - - 1 0 0 m' % hx(pk)]
            for p in STORE_POINTS:
                for a, b, who in ((new, old, 'newer-paused'), (old, new, 'older-paused')):
                    scen.append(dict(pre=pre, point=p, a='STO ' + ev_tok(a), b='STO ' + ev_tok(b), after=after, kind=kind, who=who,
                                     old=old, new=new))
        for s_, r in zip(scen, forced(c, base, scen)):
            if 'error' in r or 'HUNG' in r.get('raw', '') or 'panic' in r.get('raw', ''):
                c.violation('oracle', 'forced schedule did not complete: %s' % (r.get('error') or r['raw'])[:90], r['lines'])
                continue
            c.count('race:%d:%s:%s' % (s_['kind'], s_['who'], 'reached' if r['reached'] else 'not-reached'))
            hold, hnew, fnd = r['after']
            rold, rnew = (r['rb'], r['ra']) if s_['who'] == 'newer-paused' else (r['ra'], r['rb'])
            t = fnd.split(' ')
            found = [] if len(t) < 2 or t[1] == '_' else t[1].split(',')
            at_addr = [x for x in found if x in (hx(s_['old']['id']), hx(s_['new']['id']))]
            why = None
            if hold == '1' and hnew == '1' or len(at_addr) > 1:
                why = 'two events are retrievable at one address'
            elif rnew.startswith('ok') and hnew != '1':
                why = 'the newer version was stored successfully but is not retrievable'
            elif rnew.startswith('ok') and hold == '1':
                why = 'the older version is retrievable although the newer one was stored'
            elif not rold.startswith('ok') and hold == '1':
                why = 'the older version was refused (%s) but is retrievable' % rold[:10]
            if why:
                c.violation('oracle', 'two versions of one address stored concurrently (%s at %s; replies older=%s newer=%s): %s' % (
                    s_['who'], s_['point'], rold[:10], rnew[:10], why), r['lines'])
                continue
            c.nontriv(('race', s_['kind'], s_['who'], s_['point']))
    finally:
        shutil.rmtree(base, ignore_errors=True)


def run():
    run_store('C09', THEOREMS, """Focus: stores at the same and at neighbouring addresses (kind +-1 across every class boundary, the three authors, the d set, events with two d tags, a d tag without value) in every timestamp order, resubmission, removal in between; oracle: reply class, retrievable set, and find_replaceable / find_parameterized return the single holder. Plus forced two-thread schedules: two versions of one address, one store paused at every yield point of its write transaction while the other is offered; afterwards at most one of them is retrievable (by id and by an author-only query) and it is the newer one whenever that store succeeded.""", {'reply', 'live', 'address'}, relevant={'STO', 'HAS', 'GID', 'FRP', 'FPR'}, extra=races)
