"""C11 — Accepted deletions are permanent and deletion times never move backwards."""
from ._store import run_store

THEOREMS = ['id_marker_permanent', 'address_time_monotone', 'marked_id_refused', 'marked_id_refused_forever', 'covered_by_address_refused', 'covered_by_address_refused_forever', 'newer_not_refused', 'covered_unretrievable', 'accepted_marks_ids', 'accepted_marks_addresses']


def run():
    run_store('C11', THEOREMS, """Focus: one or more deletion requests per id / address in every arrival order relative to each other and to the events they cover (before, after, resubmission), then reopen / rebuild / further stores; oracle: reply classes (deleted / ok for newer events), the retrievable set, id markers and address markers with their times, all as the specification (which keeps the maximum time) predicts after every step.""", {'reply', 'live', 'markers'}, relevant={'STO', 'HAS', 'DEL', 'NAD', 'RBD', 'OPN'})
