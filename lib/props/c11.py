"""C11 — Accepted deletions are permanent and deletion times never move backwards."""
import os, shutil
from ._store import run_store
from ..common import hx, RUNDIR
from ..gen import ev_tok, AUTHORS
from ..storecheck import HistGen
from ..conc import forced, STORE_POINTS

THEOREMS = ['id_marker_permanent', 'address_time_monotone', 'marked_id_refused', 'marked_id_refused_forever', 'covered_by_address_refused', 'covered_by_address_refused_forever', 'newer_not_refused', 'covered_unretrievable', 'accepted_marks_ids', 'accepted_marks_addresses', 'address_text_marked', 'spec_covered']


def races(c, runner):
    """a deletion request racing with the event it covers: whichever thread wins, an accepted
    request leaves the covered event unretrievable and refused on resubmission (oracle: the property
    text; no model involved).  Thread A is paused at each yield point of its write transaction
    while thread B runs; both directions."""
    rng = c.rng
    Q = c.tier == 'quick'
    base = os.path.join(RUNDIR, 'C11r-%d' % os.getpid())
    os.makedirs(base, exist_ok=True)
    try:
        scen = []
        for k in range(4 if Q else 40):
            g = HistGen(rng, 'C11')
            pk = rng.choice(AUTHORS)
            shape = ['id', 'addr-param', 'addr-repl', 'id'][k % 4]
            t = rng.choice([100, 200, 1000])
            if shape == 'id':
                ev = g.new_event(kind=rng.choice([1, 1, 30023, 10002]), pk=pk, t=t, tags=[[b'd', b'x']], content=b'covered')
                dtags = [[b'e', ev['id'].hex().encode()]]
                dt = rng.choice([0, t, t + 5])
            elif shape == 'addr-param':
                ev = g.new_event(kind=30023, pk=pk, t=t, tags=[[b'd', b'x']], content=b'covered')
                dtags = [[b'a', b'30023:' + pk.hex().encode() + b':x']]
                dt = rng.choice([t, t + 5])
            else:
                ev = g.new_event(kind=10002, pk=pk, t=t, tags=[], content=b'covered')
                dtags = [[b'a', b'10002:' + pk.hex().encode() + b':']]
                dt = rng.choice([t, t + 5])
            dele = g.new_event(kind=5, pk=pk, t=dt, tags=dtags, content=b'')
            pre = ['STO ' + ev_tok(g.new_event(kind=1, content=b'other'))]
            E, D = 'STO ' + ev_tok(ev), 'STO ' + ev_tok(dele)
            after = ['HAS ' + hx(ev['id']), 'GID ' + hx(ev['id']), 'DEL ' + hx(ev['id']), E, 'HAS ' + hx(ev['id'])]
            for p in STORE_POINTS:
                for a, b, who in ((D, E, 'D'), (E, D, 'E')):
                    scen.append(dict(pre=pre, point=p, a=a, b=b, after=after, who=who, shape=shape))
        res = forced(c, base, scen)
        for s, r in zip(scen, res):
            if 'error' in r:
                c.violation('oracle', 'forced schedule did not complete: %s' % r['error'][:80], r['lines'])
                continue
            if 'HUNG' in r['raw'] or 'panic' in r['raw']:
                c.violation('oracle', 'a thread hung or panicked under the forced schedule: %s' % r['raw'][:100], r['lines'])
                continue
            rd = r['ra'] if s['who'] == 'D' else r['rb']
            has, gid, dl, again, has2 = r['after']
            c.count('race:%s:%s' % (s['shape'], 'reached' if r['reached'] else 'not-reached'))
            if not rd.startswith('ok'):
                continue        # the request itself was refused: nothing is claimed
            if has != '0' or gid != 'none':
                c.violation('oracle', 'a deletion request (%s) was accepted while the covered event was being stored by another thread '
                            '(paused at %s); afterwards the covered event is retrievable' % (s['shape'], s['point']), r['lines'])
                continue
            if again.split(' ')[0] != 'deleted' or has2 != '0':
                c.violation('oracle', 'after an accepted deletion (%s) racing with the covered event, resubmitting the event replied %s' % (s['shape'], again[:20]), r['lines'])
                continue
            if s['shape'] == 'id' and dl != '1':
                c.violation('oracle', 'accepted deletion by id left no id marker under the race', r['lines'])
                continue
            c.nontriv(('race', s['shape'], s['point'], s['who'], r['lines'][-7][:60]))
    finally:
        shutil.rmtree(base, ignore_errors=True)


def run():
    run_store('C11', THEOREMS, """Focus: one or more deletion requests per id / address in every arrival order relative to each other and to the events they cover (before, after, resubmission), then reopen / rebuild / further stores; oracle: reply classes (deleted / ok for newer events), the retrievable set, id markers and address markers with their times, all as the specification (which keeps the maximum time) predicts after every step.""", {'reply', 'live', 'markers'}, relevant={'STO', 'HAS', 'DEL', 'NAD', 'RBD', 'OPN'}, extra=races)
