"""Shared driver for the store-property checks."""
from ..common import Check
from .. import storecheck

RULE = ('operation histories (store / deletion requests / resubmission / neighbouring addresses / remove / vanish / reopen / rebuild / '
        'extra-table writes) over a small colliding universe: 3 authors, ~35 ids incl. ff..ff and 00..00, kinds on both sides of every class '
        'boundary, 7 timestamps incl. 0 and u64::MAX, d values {absent, "", x, x\\0, y, 182*p, 182*p+A, 182*p+B, 300*q}, tags with '
        'repeated/empty/multi-string/multi-letter/long (>182 byte) shapes. After EVERY step the probe battery is read on the real store and '
        'on the Lean model: has/get_by_id/is_deleted for every id seen, naddr_is_deleted_asof/find_replaceable/find_parameterized for every '
        'address seen, get_event_by_offset for returned offsets, stats, extra tables, and a set of find_events calls. The direct oracle is '
        'the abstract specification (lib/absstore.py, written from the property texts). ')


def run_store(prop, theorems, focus_rule, oracles, quick=(30, 25, 8), thorough=(1500, 70, 12), assumptions=None, relevant=None, extra=None):
    c = Check(prop, theorems, assumptions=assumptions or [])
    c.rule = RULE + focus_rule
    c.setup()
    if theorems:
        c.prove()
    nh, no, nf = quick if c.tier == 'quick' else thorough
    r = storecheck.Runner(c, prop, nhist=nh, nops=no, nfilters=nf)
    try:
        hists = r.run(r.build())
        storecheck.judge(c, hists, oracles, relevant=relevant)
        c.traces_validated = len(hists)
        if hists:
            h = hists[0]
            c.sample({'history': [l[:110] for l in h['lines'] if l[:3] in ('NEW', 'STO', 'REM', 'VAN', 'OPN', 'RBD', 'XPT')][:8],
                      'replies': [h['w'][st['li']][:30] for st in h['steps']][:8]})
        if prop == 'C09':
            from .. import sweeps
            sweeps.knd_sweep(c)
        if extra:
            extra(c, r)
    finally:
        r.cleanup()
    c.finish()
