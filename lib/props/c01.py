"""C01 — event JSON parsing is faithful to an independent JSON parser."""
import itertools
from .. import sweeps
from ..common import Check, hx, tags_tok
from .. import jsongen

THEOREMS = ['accepted_is_wellformed', 'accepted_values_in_range', 'created_at_literal', 'created_at_wide_rejected',
            'kind_literal', 'kind_wide_rejected', 'any_order_any_whitespace', 'canonical_text_faithful',
            'any_order_any_whitespace_unknown_members', 'complete_any_json_spelling', 'hex_table_from_source']


def check_values(c, text, consumed, acc, line, what):
    """direct oracle: accessor reply `acc` vs Python json on text[:consumed]"""
    want = jsongen.py_event(text[:consumed])
    if want is None:
        if jsongen.py_event_status(text[:consumed]) == 'notevent':
            # valid JSON, every member once, but not an event (a member of the wrong type, an id that is not 64 hex digits ...):
            # whatever the accessors return cannot be what the independent parser extracts
            c.violation('oracle', '%s: a valid JSON text that does not denote an event was accepted' % what, [line[:3000], '# accessors: ' + acc[:600]])
            return False
        return None
    t = acc.split(' ')
    got_ok = (t[0] == 'ok' and t[1] == hx(want['id']) and t[2] == hx(want['pubkey']) and t[3] == hx(want['sig'])
              and t[4] == str(want['kind']) and t[5] == str(want['created_at']) and t[6] == tags_tok(want['tags'])
              and t[7] == hx(want['content']))
    if not got_ok:
        c.violation('oracle', '%s: accessors disagree with the independent parser' % what, [line[:3000], '# accessors: ' + acc[:600]])
    return got_ok


def run():
    c = Check('C01', THEOREMS, assumptions=[
        'texts with duplicate known keys or escaped spellings of known keys are outside the soundness clause (independent parsers disagree on duplicates, RFC 8259 s.4); they are run and counted, not judged',
        'surrogate \\u escapes are outside the property'])
    c.rule = ('event texts rendered from a concrete-syntax tree: random member order (all 5040 orders in the thorough tier), whitespace at '
              'every legal place, each string character spelled literally / as a short escape / as \\uXXXX in either hex case, 0-3 unknown '
              'members of arbitrary JSON shape, hex in either case, integer boundaries, and a random trailer after the closing brace; '
              'oracle = Python json on text[:consumed]. Near-valid stream: type swaps, duplicates, wide integers. non-trivial = distinct '
              'text accepted by the implementation whose seven accessors were compared with the independent parser')
    c.setup()
    c.prove()
    rng = c.rng
    Q = c.tier == 'quick'
    cases = []   # (text, expect)  expect: 'accept' | 'reject' | 'any'
    N = 1500 if Q else 25000
    for _ in range(N):
        v = jsongen.rand_event_values(rng)
        txt = jsongen.render_event(rng, v, unknown=rng.choice([0, 0, 0, 1, 2, 3]))
        trailer = rng.choice([b'', b'', b' ', b',', b']', b'}', b'\n["EOSE"]', b'\x00\xff', b'{"id":1}'])
        cases.append((txt, trailer, 'accept', v))
    # member orders
    v0 = jsongen.rand_event_values(rng)
    orders = list(itertools.permutations(jsongen.KNOWN))
    if Q:
        orders = rng.sample(orders, 250)
    for o in orders:
        cases.append((jsongen.render_event(rng, v0, order=list(o), ws=False), b'', 'accept', v0))
    # integer boundaries
    for kind in (0, 65535, 65536, 65537, 99999, 4294967295, 4294967296, 10 ** 10, 10 ** 11, 10 ** 20):
        v = jsongen.rand_event_values(rng)
        txt = jsongen.render_event(rng, v, overrides={'kind': str(kind).encode()})
        cases.append((txt, b'', 'accept' if kind <= 65535 else 'reject', None))
    for t in (0, 2 ** 63, 2 ** 64 - 1, 2 ** 64, 2 ** 64 + 1, 10 ** 20, 10 ** 40, 2 ** 65, 18446744073709551610, 18446744073709551625):
        v = jsongen.rand_event_values(rng)
        txt = jsongen.render_event(rng, v, overrides={'created_at': str(t).encode()})
        cases.append((txt, b'', 'accept' if t < 2 ** 64 else 'reject', None))
    # near-valid: type swaps / duplicates / odd numbers
    for _ in range(200 if Q else 3000):
        v = jsongen.rand_event_values(rng)
        k = rng.choice(jsongen.KNOWN)
        bad = rng.choice([b'1', b'"x"', b'null', b'[]', b'{}', b'true', b'-1', b'1.5', b'1e3', b'01', b'"1"', b'[[1]]', b'[["a",1]]', b'["a"]', b'""'])
        cases.append((jsongen.render_event(rng, v, overrides={k: bad}), b'', 'any', None))
    # hex members of the right BYTE length that are not hex digits (characters that alias hex digits when bits are masked off)
    for _ in range(150 if Q else 2000):
        v = jsongen.rand_event_values(rng)
        k = rng.choice(['id', 'pubkey', 'sig'])
        alias, utf8 = jsongen.hex_aliases(rng, 64 if k == 'sig' else 32)
        cases.append((jsongen.render_event(rng, v, overrides={k: b'"' + alias + b'"'}, ws=False), b'', 'nothex', None))
    w, m = c.run_both(['EVJ %s %d %d' % (hx(t + tr), 8192, rng.randrange(1, 1 << 40)) for t, tr, _, _ in cases])
    lines = ['EVJ %s 8192 1' % hx(t + tr) for t, tr, _, _ in cases]
    c.evaluations += len(cases)
    acc_req = []
    for (txt, tr, expect, v), l, a, b in zip(cases, lines, w, m):
        cls = a.split(' ')[0]
        c.count('%s:%s' % (expect, cls))
        if cls in ('panic', 'ABORT', 'HANG', 'GUARD'):
            c.violation('oracle', 'from_json did not return: %s' % a[:80], [l[:3000]])
            continue
        if a != b:
            c.violation('corr', 'from_json: impl %s model %s' % (a[:60], b[:60]), [l[:3000]], found=False)
        if expect == 'accept' and cls != 'ok':
            c.violation('oracle', 'a valid event text was rejected', [l[:3000], '# text: ' + repr(txt[:300])])
        if expect == 'reject' and cls == 'ok':
            c.violation('oracle', 'an integer member that does not fit its field was accepted', [l[:3000]])
        if expect == 'nothex' and cls == 'ok':
            c.violation('oracle', 'a hex member that is not made of hex digits was accepted', [l[:3000], '# text: ' + repr(txt[:400])])
            continue
        if cls == 'ok':
            t = a.split(' ')
            consumed, n = int(t[1]), int(t[2])
            if expect == 'accept' and consumed != len(txt):
                c.violation('oracle', 'consumed %d, the closing brace ends at %d' % (consumed, len(txt)), [l[:3000]])
            acc_req.append((txt + tr, consumed, 'EVA ' + t[3][:2 * n], l, expect))
    wa, ma = c.run_both([x[2] for x in acc_req])
    c.evaluations += len(acc_req)
    for (full, consumed, req, l, expect), a, b in zip(acc_req, wa, ma):
        if a != b:
            c.violation('corr', 'accessors: impl %s model %s' % (a[:60], b[:60]), [req[:3000]], found=False)
        r = check_values(c, full, consumed, a, l, 'valid text' if expect == 'accept' else 'accepted text')
        if r is None and expect == 'accept':
            c.violation('oracle', 'generator bug? python json rejected a generated text', [l[:3000]])
        if r:
            c.nontriv(l[:600])
            c.sample({'text': repr(full[:consumed][:200]), 'accessors': a[:160]}, limit=3)
    # "accepted when the output buffer is large enough": every accepted valid text is parsed again into a buffer of EXACTLY the
    # size of its binary form (and 1-3 bytes more): same value, same consumed length
    fit_lines, fit_meta = [], []
    for (txt, tr, expect, v), l, a in zip(cases, lines, w):
        if expect == 'accept' and a.startswith('ok '):
            n = int(a.split(' ')[2])
            for b in (n, n + rng.choice([1, 2, 3])):
                fit_lines.append('EVJ %s %d %d' % (hx(txt + tr), b, rng.randrange(1, 1 << 40)))
                fit_meta.append((a, n, b))
    wf, mf = c.run_both(fit_lines)
    c.evaluations += len(fit_lines)
    for l, (a0, n, b), a, bm in zip(fit_lines, fit_meta, wf, mf):
        short = [' '.join(l.split(' ')[:3])[:3000] + ' 1']
        if a.split(' ')[0] in ('panic', 'ABORT', 'HANG', 'GUARD'):
            c.violation('oracle', 'from_json into an exactly fitting buffer did not return: %s' % a[:60], short)
            continue
        if a.split(' ')[:3] != bm.split(' ')[:3]:
            c.violation('corr', 'from_json, buffer of %d bytes for a value of %d: impl %s model %s' % (b, n, a[:40], bm[:40]), short, found=False)
        if not a.startswith('ok ') or a.split(' ')[1:3] != a0.split(' ')[1:3] or a.split(' ')[3][:2 * n] != a0.split(' ')[3][:2 * n]:
            c.violation('oracle', 'a valid event text whose binary form is %d bytes was not parsed (or parsed differently) into a buffer of %d bytes: %s' % (n, b, a[:40]), short)
        else:
            c.count('exact_fit_ok')
    sweeps.cpt_sweep(c, 0, 0x110000 if not Q else 0x110000)
    c.finish()
