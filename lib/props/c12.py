"""C12 — A store call that fails changes nothing observable."""
from ._store import run_store

THEOREMS = ['failed_store_noop', 'failed_store_observables', 'failed_store_keeps_offsets', 'store_refines_abstract', 'history_refines_abstract', 'every_history_refines_abstract', 'abstract_failed_store']


def run():
    run_store('C12', THEOREMS, """Focus: stores that fail: duplicates, deleted, replaced (after the pre-removal scan), deletion requests refused at their k-th tag after k-1 effective ones, requests naming an address with a 480-byte identifier (LMDB key-size error after earlier tags took effect); oracle (model-free): the whole battery before the failing call equals the battery after it (every lookup, marker, address query, extra table and all index entry counts).""", {'reply', 'noop'}, relevant={'STO'})
