"""C12 — A store call that fails changes nothing observable."""
import os, shutil
from ._store import run_store
from ..common import hx, RUNDIR
from ..gen import ev_tok, fl_tok, AUTHORS
from ..storecheck import HistGen, strip_now

THEOREMS = ['failed_store_noop', 'failed_store_observables', 'failed_store_keeps_offsets', 'store_refines_abstract', 'history_refines_abstract', 'every_history_refines_abstract', 'abstract_failed_store', 'error_before_commit_noop']


def failing_under_fault(c, runner):
    """"or any other" error: the store call is made while every LMDB reader slot is taken (126 open read transactions), so
    whichever internal lookup it starts fails part-way - after the duplicate / deleted checks, after the pre-removal scan of a
    replaceable event, after k-1 effective tags of a deletion request. If the call returns an error, the whole probe battery
    (lookups, markers, address queries, statistics) read once the readers are gone equals the battery before the call
    (oracle: the property text; no model involved)."""
    rng = c.rng
    Q = c.tier == 'quick'
    base = os.path.join(RUNDIR, 'C12f-%d' % os.getpid())
    os.makedirs(base, exist_ok=True)
    try:
        lines, meta = [], []
        for k in range(16 if Q else 200):
            g = HistGen(rng, 'C12')
            pk, other = rng.sample(AUTHORS, 2)
            kind = rng.choice([30023, 10002, 0])
            d = rng.choice([b'x', b'p' * 200]) if kind == 30023 else b''
            tg = [[b'd', d]] if kind == 30023 else []
            old = g.new_event(kind=kind, pk=pk, t=1000, tags=tg, content=b'holder')
            note = g.new_event(kind=1, pk=pk, t=1000, tags=[[b't', b'a']], content=b'note')
            note2 = g.new_event(kind=1, pk=pk, t=1001, tags=[[b't', b'a']], content=b'note2')
            foreign = g.new_event(kind=1, pk=other, t=1000, tags=[], content=b'foreign')
            pre = [old, note, note2, foreign]
            shape = ['newer', 'older', 'deletion', 'deletion-addr', 'regular', 'duplicate'][k % 6]
            if shape == 'newer':
                x = g.new_event(kind=kind, pk=pk, t=2000, tags=tg, content=b'newer version')
            elif shape == 'older':
                x = g.new_event(kind=kind, pk=pk, t=500, tags=tg, content=b'older version')
            elif shape == 'deletion':
                x = g.new_event(kind=5, pk=pk, t=3000, content=b'', tags=[[b'e', (b'\x77' * 32).hex().encode()], [b'e', note['id'].hex().encode()],
                                                                          [b'e', note2['id'].hex().encode()]])
            elif shape == 'deletion-addr':
                x = g.new_event(kind=5, pk=pk, t=3000, content=b'', tags=[[b'a', str(kind).encode() + b':' + pk.hex().encode() + b':' + d],
                                                                          [b'e', note['id'].hex().encode()]])
            elif shape == 'regular':
                x = g.new_event(kind=1, pk=pk, t=1500, tags=[[b't', b'a'], [b'p', other.hex().encode()]], content=b'regular')
            else:
                x = note
            ids = [e['id'] for e in pre] + [x['id'], b'\x77' * 32]
            bat = []
            for i in ids:
                bat += ['HAS ' + hx(i), 'GID ' + hx(i), 'DEL ' + hx(i)]
            bat += ['NAD %d %s %s' % (kind, hx(pk), hx(d)), 'STA', 'FND _ _ _ _ - - - 1 0 0 m', 'FND _ %s _ _ - - - 1 0 0 m' % hx(pk),
                    'FND %s 1 0 0 m' % fl_tok(dict(ids=[], authors=[], kinds=[], tags=[[b't', b'a']], since=None, until=None, limit=None))]
            nheld = rng.choice([126, 126, 200, 125])
            start = len(lines)
            lines += ['NEW %s -' % os.path.join(base, 'f%d' % k)] + ['STO ' + ev_tok(e) for e in pre] + bat + ['RDF %d STO %s' % (nheld, ev_tok(x))] + bat + ['RMD']
            meta.append((start, len(pre), len(bat), shape))
        out = [strip_now(x) for x in c.worker.run(lines)]
        c.evaluations += len(meta)
        for start, npre, nb, shape in meta:
            b0 = start + 1 + npre
            before, rq, after = out[b0:b0 + nb], out[b0 + nb], out[b0 + nb + 1:b0 + 2 * nb + 1]
            rep = lines[start:b0 + 2 * nb + 1]
            c.count('readers_full_store:%s:%s' % (shape, ' '.join(rq.split(' ')[1:2])[:12]))
            if not rq.startswith('held='):
                c.violation('oracle', 'store under exhausted reader slots did not complete: %s' % rq[:60], rep)
                continue
            if rq.split(' ')[1] == 'ok':
                continue        # it succeeded: nothing is claimed here
            norm = lambda l, x: ' '.join(y for y in x.split(' ') if not y.startswith('end=')) if l == 'STA' else x
            diff = [(l[:16], x[:40], y[:40]) for l, x, y in zip(lines[b0:b0 + nb], before, after) if norm(l, x) != norm(l, y)]
            if diff:
                c.violation('oracle', 'a store that failed (%s, all reader slots taken, %s) changed %s: %s -> %s' % (rq.split(' ')[1], shape, diff[0][0], diff[0][1], diff[0][2]), rep)
            else:
                c.nontriv(('readers-full', shape, rq[:24]))
    finally:
        shutil.rmtree(base, ignore_errors=True)


def failing_when_map_cannot_grow(c, runner):
    """"or any other" error, second kind: the event map cannot grow (RLIMIT_FSIZE set to the map's present length for the duration
    of the call - a full disk or a quota; worker request FSZ). Stores of regular events, newer versions of a replaceable address
    (the holder must survive a refused replacement) and deletion requests are made one after the other until the map is full; every
    call that returns an error must leave the whole battery as it was - in particular the call whose event still fitted but left
    no room for the next one, and the call that hits the wall (oracle: the property text; no model involved)."""
    rng = c.rng
    Q = c.tier == 'quick'
    base = os.path.join(RUNDIR, 'C12g-%d' % os.getpid())
    os.makedirs(base, exist_ok=True)
    try:
        lines, meta = [], []
        for k in range(3 if Q else 30):
            g = HistGen(rng, 'C12')
            pk = rng.choice(AUTHORS)
            # make the map (several hundred KB) much longer than LMDB's file, so that only the map's growth meets the limit
            fill = [g.new_event(kind=1, pk=rng.choice(AUTHORS), t=50 + i, tags=[], content=b'f' * 9000) for i in range(30)]
            holder = g.new_event(kind=10002, pk=pk, t=100, tags=[], content=b'holder')
            note = g.new_event(kind=1, pk=pk, t=100, tags=[[b't', b'a']], content=b'note')
            calls = []
            for i in range(40):
                sz = rng.choice([10, 150, 300, 700, 1500, 3000])
                r = rng.random()
                if r < 0.4:
                    x = g.new_event(kind=10002, pk=pk, t=200 + i, tags=[], content=b'v' * sz)
                elif r < 0.55:
                    x = g.new_event(kind=5, pk=pk, t=500 + i, content=b'd' * sz, tags=[[b'e', note['id'].hex().encode()], [b'a', b'10002:' + pk.hex().encode() + b':']])
                else:
                    x = g.new_event(kind=1, pk=pk, t=200 + i, tags=[[b't', b'a']], content=b'r' * sz)
                calls.append(x)
            ids = [holder['id'], note['id']] + [x['id'] for x in calls]
            bat = []
            for i in ids:
                bat += ['HAS ' + hx(i), 'DEL ' + hx(i)]
            bat += ['FRP %s 10002' % hx(pk), 'NAD 10002 %s %s' % (hx(pk), hx(b'')), 'STA', 'FND _ %s _ _ - - - 1 0 0 m' % hx(pk)]
            start = len(lines)
            lines += ['NEW %s -' % os.path.join(base, 'g%d' % k)] + ['STO ' + ev_tok(e) for e in fill + [holder, note]] + bat
            pos = []
            for x in calls:
                pos.append(len(lines))
                lines += ['FSZ %d STO %s' % (rng.choice([0, 0, 8]), ev_tok(x))] + bat
            lines.append('RMD')
            meta.append((start, len(fill) + 2, len(bat), pos))
        out = [strip_now(x) for x in c.worker.run(lines)]
        c.evaluations += sum(len(m[3]) for m in meta)
        norm = lambda l, x: ' '.join(y for y in x.split(' ') if not y.startswith('end=')) if l == 'STA' else x
        for start, npre, nb, pos in meta:
            prev = out[start + 1 + npre:start + 1 + npre + nb]
            batl = lines[start + 1 + npre:start + 1 + npre + nb]
            for p_ in pos:
                rq = out[p_]
                cur = out[p_ + 1:p_ + 1 + nb]
                rep = [l for l in lines[start:p_ + 1] if l[:3] in ('NEW', 'STO', 'FSZ')] + batl
                cls = rq.split(' ')[2] if rq.startswith('limit=') and len(rq.split(' ')) > 2 else rq.split(' ')[0]
                c.count('map_cannot_grow_store:%s' % cls)
                if not rq.startswith('limit='):
                    c.violation('oracle', 'store under a file-size limit did not complete: %s' % rq[:60], rep)
                    break
                if cls != 'ok':
                    diff = [(l[:16], x[:40], y[:40]) for l, x, y in zip(batl, prev, cur) if norm(l, x) != norm(l, y)]
                    if diff:
                        c.violation('oracle', 'a store that failed (%s: the event map could not grow) changed %s: %s -> %s' % (cls, diff[0][0], diff[0][1], diff[0][2]), rep)
                        break
                    c.nontriv(('map-cannot-grow', cls, p_ - start))
                prev = cur
    finally:
        shutil.rmtree(base, ignore_errors=True)


def faults(c, runner):
    failing_under_fault(c, runner)
    failing_when_map_cannot_grow(c, runner)


def run():
    run_store('C12', THEOREMS, """Focus: stores that fail: duplicates, deleted, replaced (after the pre-removal scan), deletion requests refused at their k-th tag after k-1 effective ones, requests naming an address with a 480-byte identifier (LMDB key-size error after earlier tags took effect); oracle (model-free): the whole battery before the failing call equals the battery after it (every lookup, marker, address query, extra table and all index entry counts).""", {'reply', 'noop'}, relevant={'STO'}, extra=faults)
