"""C14 — concurrent stores serialize; concurrent queries see only whole committed states."""
import os, shutil
from ..common import Check, hx, RUNDIR
from ..storecheck import HistGen, Runner, strip_now
from ..absstore import Abs
from ..gen import ev_tok, fl_tok, AUTHORS, ID
from ..conc import forced

THEOREMS = ['committed_is_serial', 'mutual_exclusion', 'reader_sees_whole_state', 'store_ok_live', 'one_winner', 'ids_fresh_snapshots_witness']

INSIDE_TXN = {'store:txn', 'store:checked', 'store:preremoved', 'es_store:start', 'es_store:padded', 'es_store:half_copied',
              'es_store:appended', 'store:appended', 'store:indexed', 'store:before_commit', 'remove:txn', 'remove:before_commit',
              'es_store:grow', 'es_store:grow_setlen', 'es_store:grow_resized'}
AFTER = {'store:committed', 'remove:committed'}


def run():
    c = Check('C14', THEOREMS, assumptions=[
        'PARTIAL: the model has the writer lock, snapshot reads and atomic commit by construction; LMDB\'s writer mutex, NO_TLS read transactions, the locks in mmap-append and the memory model are trusted',
        'a reordering bug that needs a specific hardware interleaving inside one yield-free region is out of reach of the schedule controller'])
    c.rule = ('forced schedules through the verif yield points: for ordered pairs (A, B) of operations on a prepared store and every '
              'yield point p of A, thread A is paused at p, thread B runs (150 ms to finish, else it is blocked), A is released; the replies '
              'and the battery afterwards must be those of a serial execution on the real store (either order for two store calls; for a '
              'query B the state before A while A is inside its transaction and the state after A once it has committed, never waiting); the '
              'model\'s serial executions are compared with the real ones (correspondence). Plus a 16-thread '
              'randomised stress run as support. non-trivial = distinct (A, B, point) whose pause point was really reached')
    c.setup()
    c.prove()
    rng = c.rng
    Q = c.tier == 'quick'
    base = os.path.join(RUNDIR, 'C14-%d' % os.getpid())
    os.makedirs(base, exist_ok=True)
    try:
        scen = []
        for h in range(6 if Q else 30):
            g = HistGen(rng, 'C14')
            g.tables = []
            ab = Abs([])
            pre = []
            for _ in range(rng.randrange(1, 6)):
                op = g.next_op(ab)
                if op['op'] != 'store':
                    continue
                ab.store(op['ev'])
                pre.append(op)
            evs = [o['ev'] for o in pre]
            # candidate A operations (writers) and B operations (writers and readers)
            cand = []
            fresh = g.new_event()
            cand.append({'op': 'store', 'ev': fresh})
            cand.append({'op': 'store', 'ev': g.new_event(kind=10000, pk=AUTHORS[0], t=100)})
            cand.append({'op': 'store', 'ev': g.new_event(kind=10000, pk=AUTHORS[0], t=200)})
            cand.append({'op': 'store', 'ev': g.new_event(kind=30000, pk=AUTHORS[1], t=150, tags=[[b'd', b'x']])})
            if evs:
                cand.append({'op': 'store', 'ev': g.deletion(ab, pk=evs[0]['pk'])})
                cand.append({'op': 'remove', 'id': evs[0]['id']})
                cand.append({'op': 'store', 'ev': rng.choice(evs)})
            cand.append({'op': 'store', 'ev': g.new_event(content=b'z' * 3000)})
            pairs = []
            for a in cand:
                for b in cand + [dict(a)]:
                    pairs.append((a, b))
            if Q:
                pairs = rng.sample(pairs, min(10, len(pairs)))
            else:
                pairs = rng.sample(pairs, min(40, len(pairs)))
            # always: a deletion request racing with the (not yet stored) event it names
            cov = g.new_event(kind=1, pk=AUTHORS[0], t=100, content=b'covered')
            dreq = g.new_event(kind=5, pk=AUTHORS[0], t=150, tags=[[b'e', cov['id'].hex().encode()]], content=b'')
            pairs += [({'op': 'store', 'ev': dreq}, {'op': 'store', 'ev': cov}), ({'op': 'store', 'ev': cov}, {'op': 'store', 'ev': dreq})]
            # always: an ephemeral event (appended but never indexed) and a regular one, both orders - the append of the one
            # must still be ordered with the append and the index writes of the other
            eph = g.new_event(kind=20001, pk=AUTHORS[2], t=100, tags=[], content=b'eph' * rng.choice([1, 200]))
            reg = g.new_event(kind=1, pk=AUTHORS[2], t=100, tags=[], content=b'reg' * rng.choice([1, 300]))
            pairs += [({'op': 'store', 'ev': eph}, {'op': 'store', 'ev': reg}), ({'op': 'store', 'ev': reg}, {'op': 'store', 'ev': eph})]
            for a, b in pairs:
                scen.append((pre, a, b))
        # phase 1: trace A on the prepared store
        lines, idx = [], []
        for si, (pre, a, b) in enumerate(scen):
            d = os.path.join(base, 's%d' % si)
            idx.append(len(lines) + 1 + len(pre))
            lines += ['NEW %s -' % d] + [Runner.op_line(o) for o in pre] + ['TRC ' + Runner.op_line(a), 'RMD']
        out = c.worker.run(lines)
        tests = []
        for (pre, a, b), i in zip(scen, idx):
            rep, _, tr = out[i].partition(' | ')
            pts = [] if tr.strip() in ('-', '') else tr.strip().split(',')
            seen = set()
            for p in pts:
                if p in seen:
                    continue
                seen.add(p)
                tests.append((pre, a, b, p, True))
            # reader variants of B at two representative points
            for p in [x for x in ('store:indexed', 'store:committed', 'remove:before_commit') if x in seen]:
                tests.append((pre, a, b, p, False))
        if Q and len(tests) > 260:
            is_eph = lambda o: o['op'] == 'store' and 20000 <= o['ev']['kind'] < 30000
            must = [t for t in tests if t[4] and (is_eph(t[1]) or is_eph(t[2]))]
            rest = [t for t in tests if t not in must]
            tests = must + rng.sample(rest, max(0, 260 - len(must)))
        # phase 2: forced schedules
        lines, meta = [], []
        for ti, (pre, a, b, p, writer) in enumerate(tests):
            d = os.path.join(base, 't%d' % ti)
            ida = a['ev']['id'] if a['op'] == 'store' else a['id']
            if writer:
                bline = Runner.op_line(b)
            else:
                bline = rng.choice(['HAS ' + hx(ida), 'GID ' + hx(ida), 'FND _ _ _ _ - - - 1 0 0 m', 'STA'])
            ids = []
            for o in pre + [a, b]:
                i = o['ev']['id'] if o['op'] == 'store' else o.get('id')
                if i and i not in ids:
                    ids.append(i)
            bat = []
            for i in ids:
                bat += ['HAS ' + hx(i), 'GID ' + hx(i), 'DEL ' + hx(i)]
            bat += ['STA', 'FND _ _ _ _ - - - 1 0 0 m', 'FRP %s 10000' % hx(AUTHORS[0]), 'FPR 30000 %s %s' % (hx(AUTHORS[1]), hx(b'x'))]
            start = len(lines)
            lines += ['NEW %s -' % d] + [Runner.op_line(o) for o in pre]
            lines.append('CON %s 1 A %s B %s' % (p, Runner.op_line(a), bline))
            ci = len(lines) - 1
            lines += bat + ['RMD']
            meta.append(dict(start=start, ci=ci, nb=len(bat), pre=pre, a=a, b=b, bline=bline, p=p, writer=writer, bat=bat))
        out = c.worker.run(lines)
        c.evaluations += len(tests)
        # the two serial executions, on the real store (reference) and on the model (correspondence)
        mlines, mmeta = [], []
        for t in meta:
            prel = [Runner.op_line(o) for o in t['pre']]
            al = Runner.op_line(t['a'])
            pos = {}
            for order, seq in (('AB', [al, t['bline']]), ('BA', [t['bline'], al])):
                s0 = len(mlines)
                mlines += ['NEW %s -' % os.path.join(base, 'serial%d%s' % (len(mmeta), order))] + prel + seq + t['bat'] + ['RMD']
                pos[order] = s0 + 1 + len(prel)
            mmeta.append(pos)
        mo_model = c.model.run(mlines)
        mo = [strip_now(x) for x in c.worker.run(mlines)]
        for l, x, y in zip(mlines, mo, mo_model):
            if x != y and not l.startswith('FND'):
                c.violation('corr', 'serial execution: %s: impl %s model %s' % (l[:40], x[:40], y[:40]), [l], found=False)
                break
        norm = lambda l, x: ' '.join(y for y in x.split(' ') if not y.startswith('end=')) if l.split(' ')[0] == 'STA' else x
        cls = lambda x: x.split(' ')[0]
        for t, pos in zip(meta, mmeta):
            r = out[t['ci']]
            rep = lines[t['start']:t['ci'] + 1]
            c.count('point:' + t['p'])
            if not r.startswith('A=['):
                c.violation('oracle', 'forced schedule did not complete: %s' % r[:80], rep)
                continue
            ra = r[3:r.index('] B=[')]
            rb = r[r.index('] B=[') + 5:r.index('] reached=')]
            reached = 'reached=1' in r
            blocked = 'b_blocked=1' in r
            if not reached:
                c.count('not_reached')
                continue
            if 'HUNG' in r or 'panic' in r:
                c.violation('oracle', 'a thread hung or panicked under the forced schedule: %s' % r[:100], rep)
                continue
            wbat = [norm(l, strip_now(x)) for l, x in zip(t['bat'], out[t['ci'] + 1:t['ci'] + 1 + t['nb']])]
            serial = {}
            for order, mi in pos.items():
                ma, mb = (mo[mi], mo[mi + 1]) if order == 'AB' else (mo[mi + 1], mo[mi])
                serial[order] = (ma, mb, [norm(l, x) for l, x in zip(t['bat'], mo[mi + 2:mi + 2 + t['nb']])])
            if t['writer']:
                # two overlapping store calls: SOME serial order must explain both replies and the state
                # afterwards (a call refused without ever taking the writer lock is fine if that holds)
                allowed = ['AB', 'BA']
                okr = [o for o in allowed if cls(ra) == cls(serial[o][0]) and cls(rb) == cls(serial[o][1]) and wbat == serial[o][2]]
                c.count('writer_blocked' if blocked else 'writer_not_blocked')
            else:
                # a query while A is inside its transaction answers from the state before A (no dirty
                # read); once A has committed it answers from the state after A; it never waits
                if blocked:
                    # under machine load a query may simply need more than 150 ms: ask again with 3 s before judging
                    again = c.worker.run([l.replace('CON %s 1 ' % t['p'], 'CON %s 1:3000 ' % t['p'], 1) if l.startswith('CON ') else l for l in rep] + ['RMD'])
                    c.count('reader_retry')
                    if 'b_blocked=1' in again[len(rep) - 1]:
                        c.violation('oracle', 'a reader was blocked (3 s) by a writer paused at %s' % t['p'], rep)
                        continue
                    r = again[len(rep) - 1]
                    rb = r[r.index('] B=[') + 5:r.index('] reached=')]
                allowed = ['AB'] if t['p'] in AFTER else ['BA']
                okr = [o for o in allowed if cls(ra) == cls(serial[o][0]) and norm(t['bline'], rb) == norm(t['bline'], serial[o][1]) and wbat == serial[o][2]]
            if not okr:
                o = allowed[0]
                diff = [(l[:12], x[:30], y[:30]) for l, x, y in zip(t['bat'], wbat, serial[o][2]) if x != y][:2]
                c.violation('oracle', 'schedule A paused at %s: replies A=%s B=%s and the state afterwards are those of no serial order (%s: A=%s B=%s%s)' % (
                    t['p'], ra[:30], rb[:40], o, serial[o][0][:30], serial[o][1][:40], (' state differs: %s' % diff) if diff else ''), rep)
                continue
            c.nontriv((t['p'], lines[t['ci']][:200]))
            c.sample({'schedule': lines[t['ci']][:160], 'impl': r[:120], 'serial_order': okr[0]}, limit=3)
        # ---- a query that is still running while two stores commit (shared with C05: lib/conc.spanning_queries)
        from ..conc import spanning_queries
        spanning_queries(c, base, nrep=2 if Q else 12)
        # ---- stores overlapping a store that is growing the map file: whatever returned Ok reads back whole (shared with C04 / C15)
        from ..conc import growth_step_races
        growth_step_races(c, base, nrep=1 if Q else 12)
        # ---- stress (support)
        sl = []
        for k in range(3 if Q else 30):
            d = os.path.join(base, 'x%d' % k)
            sl += ['NEW %s -' % d, 'STRESS 16 %d %d' % (150 if Q else 600, rng.randrange(1, 1 << 30)), 'STA',
                   'FND _ %s 0,10000 _ - - - 1 0 0 m' % hx(bytes([0xa0]) * 32), 'FND _ %s 0,10000 _ - - - 1 0 0 m' % hx(bytes([0xa1]) * 32),
                   'FND _ _ 30000 _ - - - 1 0 0 m', 'RMD']
        so = c.worker.run(sl)
        c.evaluations += len(sl)
        for k in range(0, len(sl), 7):
            r = so[k + 1]
            if not r.startswith('ok bad=0'):
                c.violation('oracle', 'stress: a thread observed a partial event or an unexpected error: %s' % r[:60], sl[k:k + 2])
                continue
            oks = [int(x) for x in r.split('oks=')[1].split(',')]
            if any(x > 1 for x in oks):
                c.violation('oracle', 'stress: the same event was stored successfully %d times' % max(oks), sl[k:k + 2])
            sta = dict(x.split('=') for x in so[k + 2].split(' '))
            if not (sta['i'] == sta['ci'] == sta['ac'] == sta['akc']):
                c.violation('oracle', 'stress: index entry counts differ after concurrent stores: %s' % so[k + 2][:80], sl[k:k + 3])
            # at most one holder per (author, kind) for kinds 0 and 10000; at most one kind-30000 d=x per author
            for q in (3, 4):
                ids = so[k + q].split(' ')[1]
                n = 0 if ids == '_' else len(ids.split(','))
                if n > 2:
                    c.violation('oracle', 'stress: %d retrievable events at 2 replaceable addresses' % n, sl[k:k + 2] + [sl[k + q]])
            ids = so[k + 5].split(' ')[1]
            if ids != '_' and len(ids.split(',')) > 2:
                c.violation('oracle', 'stress: more than one event per parameterized address', sl[k:k + 2] + [sl[k + 5]])
        c.extra['stress_runs'] = len(sl) // 7
    finally:
        shutil.rmtree(base, ignore_errors=True)
    c.finish()
