"""C04 — Stored events read back byte-identical, forever."""
from ._store import run_store
from ..common import hx
from ..storecheck import HistGen, encode_event
from ..gen import AUTHORS

THEOREMS = ['reachable_inv', 'store_read_back', 'read_back_forever', 'by_id_read_back', 'offsets_distinct', 'new_offset_fresh', 'reopen_reads',
            'delineate_ignores_what_follows', 'delineate_length_any_total', 'map_store', 'map_reopen']


def far_ends(c, runner):
    """delineation on read with ANY amount of later data behind the event: get_event_by_offset hands Event::delineate the map
    from the event's offset to the end of the used region; the event must be cut out the same whether 0 bytes, a few, or
    k * 4 GiB (+- the event's own length) of later events follow. The slice is a zero-filled allocation of that length that
    starts with the event's bytes (pages never touched are never committed)."""
    rng = c.rng
    Q = c.tier == 'quick'
    g = HistGen(rng, 'C04')
    lines, meta = [], []
    G = 1 << 32
    for k in range(3 if Q else 12):
        ev = g.new_event(kind=1, pk=AUTHORS[0], tags=[[b't', b'x' * rng.choice([1, 40])]], content=b'c' * rng.choice([0, 17, 653, 3000]))
        b = encode_event(ev)
        n = len(b)
        totals = [n, n + 1, n + 8, 65536 + n, G - 1, G, G + 1, G + 8, G + n - 1, G + n, G + n + 1, G + 2 * n, 2 * G + 8, 2 * G + n - 1, 3 * G + 16]
        if Q:
            totals = [n, n + 8, G - 1, G, G + 8, G + n - 1, G + n, 2 * G + 8]
        for t in totals:
            if t < n:
                continue
            lines.append('DLN %s %d' % (hx(b), t))
            meta.append((n, t))
    w, m = c.run_both(lines)
    c.evaluations += len(lines)
    for l, (n, t), a, b in zip(lines, meta, w, m):
        short = [l[:40] + '... ' + l.split(' ')[-1]]
        c.count('delineate:%s' % a.split(' ')[0])
        if a.split(' ')[0] in ('panic', 'ABORT', 'HANG'):
            c.violation('oracle', 'Event::delineate on a slice of %d bytes did not return: %s' % (t, a[:40]), [l])
            continue
        if a != b:
            c.violation('corr', 'delineate: impl %s model %s (slice of %d bytes, event of %d)' % (a, b, t, n), [l], found=False)
        if a != 'ok %d' % n:
            c.violation('oracle', 'an event of %d bytes followed by %d bytes of later data is not read back (Event::delineate: %s)' % (n, t - n, a), [l])
        else:
            c.nontriv(('dln', n, t))


def run():
    run_store('C04', THEOREMS, """Focus: event sizes from 0 bytes to several map chunks (the debug build grows the map file every 2048 bytes), reopen in between; oracle: every offset ever returned and every retrievable id reads back the exact bytes that were submitted; offsets as the specification predicts (8-aligned, increasing, never reused). Plus: Event::delineate (the length-prefixed cut on read) on slices that continue for 0 bytes .. several times 4 GiB behind the event. non-trivial = distinct history step whose battery was compared.""", {'reply', 'live', 'bytes'}, relevant={'STO', 'OPN', 'GID', 'OFF', 'HAS', 'MLN'}, extra=far_ends)
