"""C04 — Stored events read back byte-identical, forever."""
from ._store import run_store
from ..common import hx
from ..storecheck import HistGen, encode_event
from ..gen import AUTHORS, ev_tok
from ..conc import forced, STORE_POINTS
import os, shutil
from ..common import RUNDIR

THEOREMS = ['event_map_from_source', 'reachable_inv', 'store_read_back', 'read_back_forever', 'by_id_read_back', 'offsets_distinct', 'new_offset_fresh', 'reopen_reads',
            'delineate_ignores_what_follows', 'delineate_length_any_total', 'map_store', 'map_reopen', 'map_chunks_from_source', 'spec_log_grows', 'spec_store_logged']


def far_ends(c, runner):
    """delineation on read with ANY amount of later data behind the event: get_event_by_offset hands Event::delineate the map
    from the event's offset to the end of the used region; the event must be cut out the same whether 0 bytes, a few, or
    k * 4 GiB (+- the event's own length) of later events follow. The slice is a zero-filled allocation of that length that
    starts with the event's bytes (pages never touched are never committed)."""
    rng = c.rng
    Q = c.tier == 'quick'
    g = HistGen(rng, 'C04')
    lines, meta = [], []
    G = 1 << 32
    for k in range(3 if Q else 12):
        ev = g.new_event(kind=1, pk=AUTHORS[0], tags=[[b't', b'x' * rng.choice([1, 40])]], content=b'c' * rng.choice([0, 17, 653, 3000]))
        b = encode_event(ev)
        n = len(b)
        totals = [n, n + 1, n + 8, 65536 + n, G - 1, G, G + 1, G + 8, G + n - 1, G + n, G + n + 1, G + 2 * n, 2 * G + 8, 2 * G + n - 1, 3 * G + 16]
        if Q:
            totals = [n, n + 8, G - 1, G, G + 8, G + n - 1, G + n, 2 * G + 8]
        for t in totals:
            if t < n:
                continue
            lines.append('DLN %s %d' % (hx(b), t))
            meta.append((n, t))
    w, m = c.run_both(lines)
    c.evaluations += len(lines)
    for l, (n, t), a, b in zip(lines, meta, w, m):
        short = [l[:40] + '... ' + l.split(' ')[-1]]
        c.count('delineate:%s' % a.split(' ')[0])
        if a.split(' ')[0] in ('panic', 'ABORT', 'HANG'):
            c.violation('oracle', 'Event::delineate on a slice of %d bytes did not return: %s' % (t, a[:40]), [l])
            continue
        if a != b:
            c.violation('corr', 'delineate: impl %s model %s (slice of %d bytes, event of %d)' % (a, b, t, n), [l], found=False)
        if a != 'ok %d' % n:
            c.violation('oracle', 'an event of %d bytes followed by %d bytes of later data is not read back (Event::delineate: %s)' % (n, t - n, a), [l])
        else:
            c.nontriv(('dln', n, t))


def same_id_races(c, runner):
    """two threads storing events that carry the SAME id (identical bytes, or different bytes: ids are not validated), thread A
    paused at every yield point of its write transaction while B runs: an id is bound to ONE stored event - at most one of the
    two calls returns an offset, the other is a duplicate - and the event whose store returned the offset reads back by id and
    by that offset byte for byte (oracle: the property text; the serial replies of the real store as reference)."""
    rng = c.rng
    Q = c.tier == 'quick'
    base = os.path.join(RUNDIR, 'C04r-%d' % os.getpid())
    os.makedirs(base, exist_ok=True)
    try:
        scen = []
        for k in range(3 if Q else 24):
            g = HistGen(rng, 'C04')
            e1 = g.new_event(kind=rng.choice([1, 1, 7, 30023]), pk=rng.choice(AUTHORS), tags=[[b'd', b'x'], [b't', b'a']],
                             content=b'first' * rng.choice([1, 40, 500]))
            e2 = dict(e1) if k % 3 == 0 else dict(e1, content=b'second' * rng.choice([1, 33, 400]), tags=[[b'd', b'x'], [b't', b'b']])
            other = g.new_event(kind=1, content=b'other')
            pre = ['STO ' + ev_tok(other)]
            for p in STORE_POINTS:
                for a, b in ((e1, e2), (e2, e1)):
                    scen.append(dict(pre=pre, point=p, a='STO ' + ev_tok(a), b='STO ' + ev_tok(b),
                                     after=['GID ' + hx(e1['id']), 'HAS ' + hx(e1['id'])], ea=a, eb=b))
        res = forced(c, base, scen, tag='r')
        offq, offm = [], []
        for s, r in zip(scen, res):
            if 'error' in r:
                c.violation('oracle', 'forced schedule did not complete: %s' % r['error'][:80], r['lines'])
                continue
            if 'HUNG' in r['raw'] or 'panic' in r['raw']:
                c.violation('oracle', 'a thread hung or panicked under the forced schedule: %s' % r['raw'][:100], r['lines'])
                continue
            c.count('same-id-race:%s' % ('reached' if r['reached'] else 'not-reached'))
            oks = [(x, e) for x, e in ((r['ra'], s['ea']), (r['rb'], s['eb'])) if x.startswith('ok ')]
            if len(oks) == 2:
                c.violation('oracle', 'two concurrent stores of events with one id (A paused at %s) BOTH returned an offset (%s, %s): the id '
                            'index holds one of them, the other was stored successfully and cannot be read back by id' % (s['point'], r['ra'], r['rb']), r['lines'])
                continue
            if len(oks) == 0:
                c.violation('oracle', 'two concurrent stores of a new id: neither succeeded (%s, %s)' % (r['ra'][:20], r['rb'][:20]), r['lines'])
                continue
            other_reply = r['rb'] if oks[0][0] == r['ra'] else r['ra']
            if other_reply != 'dup':
                c.violation('oracle', 'the losing store of an id replied %s, not duplicate' % other_reply[:20], r['lines'])
                continue
            want = 'some ' + hx(encode_event(oks[0][1]))
            if r['after'][0] != want or r['after'][1] != '1':
                c.violation('oracle', 'after two concurrent stores of one id, the event whose store returned an offset does not read back by id '
                            '(has_event %s)' % r['after'][1], r['lines'])
                continue
            if r['reached']:
                c.nontriv(('same-id', s['point'], r['lines'][-3][:80]))
    finally:
        shutil.rmtree(base, ignore_errors=True)


def growth_races(c, runner):
    """byte identity under concurrent growth of the map file (shared with C14 / C15: lib/conc.growth_step_races)"""
    from ..conc import growth_step_races
    base = os.path.join(RUNDIR, 'C04g-%d' % os.getpid())
    os.makedirs(base, exist_ok=True)
    try:
        growth_step_races(c, base, nrep=1 if c.tier == 'quick' else 12)
    finally:
        shutil.rmtree(base, ignore_errors=True)


def extras(c, runner):
    far_ends(c, runner)
    same_id_races(c, runner)
    growth_races(c, runner)


def run():
    run_store('C04', THEOREMS, """Focus: event sizes from 0 bytes to several map chunks (the debug build grows the map file every 2048 bytes), reopen in between; oracle: every offset ever returned and every retrievable id reads back the exact bytes that were submitted; offsets as the specification predicts (8-aligned, increasing, never reused). Plus: Event::delineate (the length-prefixed cut on read) on slices that continue for 0 bytes .. several times 4 GiB behind the event; two threads storing one id (same or different bytes) under forced schedules: one offset, one duplicate, the stored one reads back. non-trivial = distinct history step whose battery was compared.""", {'reply', 'live', 'bytes'}, relevant={'STO', 'OPN', 'GID', 'OFF', 'HAS', 'MLN'}, extra=extras)
