"""C04 — Stored events read back byte-identical, forever."""
from ._store import run_store

THEOREMS = ['reachable_inv', 'store_read_back', 'read_back_forever', 'by_id_read_back', 'offsets_distinct', 'new_offset_fresh', 'reopen_reads']


def run():
    run_store('C04', THEOREMS, """Focus: event sizes from 0 bytes to several map chunks (the debug build grows the map file every 2048 bytes), reopen in between; oracle: every offset ever returned and every retrievable id reads back the exact bytes that were submitted; offsets as the specification predicts (8-aligned, increasing, never reused). non-trivial = distinct history step whose battery was compared.""", {'reply', 'live', 'bytes'}, relevant={'STO', 'OPN', 'GID', 'OFF', 'HAS'})
