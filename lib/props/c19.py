"""C19 — constructors yield faithful well-formed values or an error, never truncation."""
from ..common import Check, hx, tags_tok
from .. import gen

THEOREMS = ['tags_faithful', 'tags_too_big_err', 'tags_count_too_big_err', 'tags_small_buffer_err', 'tags_never_panics',
            'event_faithful', 'event_tags_too_big_err', 'event_too_big_err', 'event_small_buffer_err',
            'event_never_panics', 'filter_faithful', 'filter_counts_too_big_err', 'filter_tags_too_big_err',
            'filter_small_buffer_err', 'filter_never_panics', 'utf8_constants_from_source', 'event_layout_from_source', 'tags_layout_from_source', 'tags_writer_from_source', 'filter_header_from_source', 'filter_arrays_from_source', 'rejections_from_source']


def tags_size(ts):
    return 4 + 2 * len(ts) + sum(2 + sum(2 + len(s) for s in t) for t in ts)


def rand_str(rng, big=False):
    k = rng.choice([0, 0, 1, 1, 2, 3, 5, 8, 64, 182, 183, 300]) if not big else rng.choice([65531, 65535, 65536, 70000])
    alphabet = ['a', 'b', 'é', '\x00', '"', '\\', '日', '😀', ' ', '\n']
    out = []
    n = 0
    while n < k:
        ch = rng.choice(alphabet).encode()
        out.append(ch)
        n += len(ch)
    return b''.join(out)


def rand_tags(rng, kind):
    if kind == 'small':
        return [[rand_str(rng) for _ in range(rng.choice([0, 1, 2, 2, 3, 6]))] for _ in range(rng.choice([0, 1, 2, 3, 7]))]
    if kind == 'bigstr':
        t = [[rand_str(rng) for _ in range(2)] for _ in range(rng.choice([0, 1, 2]))]
        t.insert(rng.randrange(len(t) + 1), [b'x', rand_str(rng, big=True)])
        return t
    if kind == 'manytags':
        n = rng.choice([32760, 65535 // 2, 10922, 10923, 65535, 65536])
        return [[] for _ in range(n)]
    if kind == 'edge':
        # total size exactly around 65535
        target = rng.choice([65533, 65534, 65535, 65536, 65537])
        # one tag with one string: 4 + 2 + 2 + 2 + len
        return [[b'a' * (target - 10)]]
    return []


def run():
    c = Check('C19', THEOREMS, assumptions=[
        'the JSON constructors are decided under C01/C07; here: from_parts, the owned constructors, and every accessor on the result',
        'tag strings are valid UTF-8 (the from_parts API takes &str); content is arbitrary bytes'])
    c.rule = ('part lists (0..many tags of 0..many strings incl. empty tags/strings, multi-byte and control characters; total sizes '
              'on both sides of 65,535; 65,535/65,536 tags; 65,531..70,000-byte strings; 0..70,000 ids/authors/kinds) into buffers of '
              'length need-8..need+8 and 0..200 with seeded dirty contents; non-trivial = distinct part list whose constructor '
              'succeeded and whose accessors were all read back')
    c.setup()
    c.prove()
    rng = c.rng
    N = 400 if c.tier == 'quick' else 6000
    lines, meta = [], []
    sig = bytes(range(64))
    many_at = {5: 10922, 17: 65535, 29: 65536, 41: 70000} if c.tier == 'quick' else \
        {k: rng.choice([32760, 10922, 10923, 65535, 65536, 2000]) for k in range(5, N, 400)}
    def buflen(need):
        return max(0, rng.choice([need, need, need + 1, need + 8, need - 1, need - 8, need + 300, rng.randrange(0, 201)]))
    for i in range(N):
        kind = rng.choice(['small'] * 12 + ['bigstr', 'edge', 'edge'])
        if i in many_at:
            kind = 'manytags'
        ts = [[] for _ in range(many_at[i])] if kind == 'manytags' else rand_tags(rng, kind)
        need = tags_size(ts)
        bl = buflen(need)
        lines.append('TGP %s %d %d' % (tags_tok(ts), bl, rng.randrange(1, 1 << 40)))
        meta.append(('tags', ts, need, bl))
        if kind != 'manytags':
            content = rand_str(rng) if rng.random() < 0.9 else bytes(rng.randrange(256) for _ in range(rng.randrange(40)))
            ev = dict(id=bytes(rng.randrange(256) for _ in range(32)), pk=bytes(rng.randrange(256) for _ in range(32)),
                      kind=rng.choice([0, 1, 5, 65535, 30000]), t=rng.choice([0, 1, 1 << 32, gen.U64MAX]), tags=ts,
                      content=content, sig=sig)
            need_e = 144 + need + 4 + len(content)
            bl = buflen(need_e)
            lines.append('EVP %s %d %d' % (gen.ev_tok(ev), bl, rng.randrange(1, 1 << 40)))
            meta.append(('event', ev, need_e, bl))
            nid = rng.choice([0, 1, 2, 3])
            f = dict(ids=[bytes(rng.randrange(256) for _ in range(32)) for _ in range(nid)],
                     authors=[bytes(rng.randrange(256) for _ in range(32)) for _ in range(rng.choice([0, 1, 2]))],
                     kinds=[rng.choice([0, 1, 65535, 30000]) for _ in range(rng.choice([0, 1, 3]))], tags=ts,
                     since=rng.choice([None, 0, 5, gen.U64MAX]), until=rng.choice([None, 0, 9, gen.U64MAX]),
                     limit=rng.choice([None, 0, 1, gen.U32MAX]))
            need_f = 32 + 32 * len(f['ids']) + 32 * len(f['authors']) + 2 * len(f['kinds']) + need
            bl = buflen(need_f)
            lines.append('FLP %s %d %d' % (gen.fl_tok(f), bl, rng.randrange(1, 1 << 40)))
            meta.append(('filter', f, need_f, bl))
    # counts beyond u16 in filters (kinds are cheap: 2 bytes each)
    for nk in (65535, 65536):
        f = dict(ids=[], authors=[], kinds=[7] * nk, tags=[], since=None, until=None, limit=None)
        lines.append('FLP %s %d 9' % (gen.fl_tok(f), 32 + 2 * nk + 4 + 8))
        meta.append(('filter', f, 32 + 2 * nk + 4, 32 + 2 * nk + 12))
    w, m = c.run_both(lines)
    c.evaluations += len(lines)
    acc_lines, acc_meta = [], []
    for l, (kind, parts, need, bl), a, b in zip(lines, meta, w, m):
        big = (need if kind == 'tags' else tags_size(parts['tags'])) > 65535
        if kind == 'filter' and max(len(parts['ids']), len(parts['authors']), len(parts['kinds'])) > 65535:
            big = True
        cls = a.split(' ')[0]
        c.count('%s:%s' % (kind, cls))
        short = l[:300] + ('...' if len(l) > 300 else '')
        if cls in ('panic', 'ABORT', 'HANG', 'GUARD'):
            c.violation('oracle', '%s constructor did not return a value or error: %s' % (kind, a[:80]), [l])
            continue
        if a != b:
            c.violation('corr', '%s constructor: impl %s model %s' % (kind, a[:60], b[:60]), [l], found=False)
        if big and cls == 'ok':
            c.violation('oracle', '%s too large for the length fields was accepted (need %d)' % (kind, need), [l])
        if not big and bl < need and cls == 'ok':
            c.violation('oracle', '%s accepted into a too-small buffer' % kind, [l])
        if not big and bl >= need and cls not in ('ok',):
            if not a.startswith('tags-'):
                c.violation('oracle', '%s refused although it fits: %s' % (kind, a[:40]), [l])
        if cls == 'ok':
            if 'owned=1' not in a:
                c.violation('oracle', 'owned constructor disagrees with from_parts: %s' % a[-10:], [l])
            n = int(a.split(' ')[1])
            buf = a.split(' ')[2]
            if n != need:
                c.violation('oracle', '%s length %d, expected %d' % (kind, n, need), [l])
            val = buf[:2 * n] if buf != '-' else '-'
            acc_lines.append({'tags': 'TGA ', 'event': 'EVA ', 'filter': 'FLA '}[kind] + val)
            acc_meta.append((kind, parts, short))
    w2, m2 = c.run_both(acc_lines)
    c.evaluations += len(acc_lines)
    for l, (kind, parts, orig), a, b in zip(acc_lines, acc_meta, w2, m2):
        if a.split(' ')[0] != 'ok':
            c.violation('oracle', 'accessors of a constructed %s failed: %s' % (kind, a[:60]), ['# from: ' + orig, l])
            continue
        if a != b:
            c.violation('corr', '%s accessors: impl %s.. model %s..' % (kind, a[:80], b[:80]), [l], found=False)
        t = a.split(' ')
        ok = True
        if kind == 'tags':
            ok = (t[1] == str(len(parts)) and t[2] == tags_tok(parts))
        elif kind == 'event':
            ok = (t[1] == hx(parts['id']) and t[2] == hx(parts['pk']) and t[3] == hx(parts['sig']) and t[4] == str(parts['kind'])
                  and t[5] == str(parts['t']) and t[6] == tags_tok(parts['tags']) and t[7] == hx(parts['content']) and t[9] == 'gs=1')
        else:
            j = lambda l_: ','.join(hx(x) for x in l_) if l_ else '_'
            ok = (t[1] == j(parts['ids']) and t[2] == j(parts['authors'])
                  and t[3] == (','.join(map(str, parts['kinds'])) if parts['kinds'] else '_') and t[4] == tags_tok(parts['tags'])
                  and t[5] == str(parts['since'] or 0) and t[6] == str(gen.U64MAX if parts['until'] is None else parts['until'])
                  and t[7] == str(gen.U32MAX if parts['limit'] is None else parts['limit']))
        if not ok:
            c.violation('oracle', 'accessors of the constructed %s do not reproduce the parts' % kind, ['# from: ' + orig, l[:400]])
        else:
            c.nontriv((kind, orig[:200]))
            c.sample({'constructed_from': orig[:160], 'accessors': a[:160]}, limit=4)
    # ---- the JSON constructors around the 65,535-byte tag-section limit: part lists whose LAST tag is empty / short /
    # long, with section sizes 65,530..65,540, as Tags::from_json, inside Event::from_json and as a filter's values
    jl, jm = [], []
    EVHEAD = b'{"id":"' + b'11' * 32 + b'","pubkey":"' + b'22' * 32 + b'","created_at":5,"kind":1,"sig":"' + b'33' * 64 + b'","content":"c","tags":'
    def tjson(ts):
        return b'[' + b','.join(b'[' + b','.join(b'"' + s_ + b'"' for s_ in t) + b']' for t in ts) + b']'
    for target in range(65530, 65541):
        for tail in ([], [[]], [[], []], [[b'z']], [[b'']]):
            base_sz = tags_size([[b'']] + tail)
            n = target - base_sz
            ts = [[b'a' * n]] + tail
            assert tags_size(ts) == target
            tx = tjson(ts)
            jl.append('TGJ %s %d %d' % (hx(tx), 70000, rng.randrange(1, 1 << 40)))
            jm.append(('tags', ts, target))
            jl.append('EVJ %s %d %d' % (hx(EVHEAD + tx + b'}'), 70000 + 200, rng.randrange(1, 1 << 40)))
            jm.append(('event', ts, target))
    wj, mj = c.run_both(jl)
    c.evaluations += len(jl)
    accj, accm = [], []
    for l, (kind, ts, target), a, b in zip(jl, jm, wj, mj):
        cls = a.split(' ')[0]
        c.count('json-%s:%s' % (kind, cls))
        short = [l[:200] + '...' + l[-120:]]
        if cls in ('panic', 'ABORT', 'HANG', 'GUARD'):
            c.violation('oracle', '%s from_json did not return a value or error: %s' % (kind, a[:80]), short)
            continue
        if a.split(' ')[:3] != b.split(' ')[:3]:
            c.violation('corr', '%s from_json near the limit: impl %s model %s' % (kind, a[:40], b[:40]), short, found=False)
        if target > 65535 and cls == 'ok':
            c.violation('oracle', '%s from_json accepted a tag section of %d bytes (the length field holds at most 65,535)' % (kind, target), short)
            continue
        if target <= 65535 and cls != 'ok':
            c.violation('oracle', '%s from_json refused a tag section of %d bytes that fits' % (kind, target), short)
            continue
        if cls == 'ok':
            n = int(a.split(' ')[2])
            accj.append(('TGA ' if kind == 'tags' else 'EVA ') + a.split(' ')[3][:2 * n])
            accm.append((kind, ts, short))
    for l, (kind, ts, short), a in zip(accj, accm, c.worker.run(accj)):
        t = a.split(' ')
        got = t[2] if kind == 'tags' else (t[6] if len(t) > 6 else '?')
        if t[0] != 'ok' or got != tags_tok(ts):
            c.violation('oracle', 'a %s parsed from JSON near the size limit does not read back its tags' % kind, short)
        else:
            c.nontriv(('json-edge', kind, len(ts), tags_size(ts)))
    # ---- the JSON constructors into buffers of every length around the needed one, the LAST thing written being a character
    # of each UTF-8 length class, raw and as an escape: a buffer that is too small by 1..5 bytes yields an error, never a value
    el, em = [], []
    EVH = b'{"id":"' + b'11' * 32 + b'","pubkey":"' + b'22' * 32 + b'","created_at":5,"kind":1,"sig":"' + b'33' * 64 + b'","tags":[],"content":"'
    lasts = [(b'\\u0041', b'A'), (b'\\n', b'\n'), (b'\\u00e9', '\u00e9'.encode()), (b'\\u07ff', '\u07ff'.encode()), (b'\\u0800', '\u0800'.encode()),
             (b'\\u2020', '\u2020'.encode()), (b'\\uFFFF', '\uffff'.encode()), ('\u00e9'.encode(), '\u00e9'.encode()),
             ('\u2020'.encode(), '\u2020'.encode()), ('\U0001f600'.encode(), '\U0001f600'.encode()), (b'z', b'z')]
    for esc, val in lasts:
        for pre_ in (b'', b'xy'):
            forms = [('tags', b'[["a","' + pre_ + esc + b'"]]', tags_size([[b'a', pre_ + val]]), 'TGJ'),
                     ('event', EVH + pre_ + esc + b'"}', 144 + 4 + 4 + len(pre_ + val), 'EVJ'),
                     ('filter', b'{"#t":["' + pre_ + esc + b'"]}', 32 + tags_size([[b't', pre_ + val]]), 'FLJ'),
                     ('unescape', pre_ + esc + b'"', len(pre_ + val), 'UNE')]
            for kind, txt, need, cmd in forms:
                for bl in range(max(0, need - 5), need + 3):
                    el.append('%s %s %d %d' % (cmd, hx(txt), bl, rng.randrange(1, 1 << 40)))
                    em.append((kind, need, bl, pre_ + val))
    we, me = c.run_both(el)
    c.evaluations += len(el)
    for l, (kind, need, bl, val), a, b in zip(el, em, we, me):
        cls = a.split(' ')[0]
        c.count('fit-%s:%s:%s' % (kind, 'enough' if bl >= need else 'short', cls))
        if cls in ('panic', 'ABORT', 'HANG', 'GUARD'):
            c.violation('oracle', '%s from JSON into a buffer of %d bytes (needs %d) did not return a value or error: %s' % (kind, bl, need, a[:60]), [l])
            continue
        if a.split(' ')[:3] != b.split(' ')[:3]:
            c.violation('corr', '%s from JSON, buffer %d of %d needed: impl %s model %s' % (kind, bl, need, a[:50], b[:50]), [l], found=False)
        if bl < need and cls == 'ok':
            c.violation('oracle', '%s from JSON returned a value from a buffer of %d bytes although the value needs %d: truncated' % (kind, bl, need), [l])
        elif bl >= need and cls != 'ok':
            c.violation('oracle', '%s from JSON refused a buffer of %d bytes although the value needs %d' % (kind, bl, need), [l])
        elif cls == 'ok':
            if val.hex() not in a:
                c.violation('oracle', '%s from JSON: the last string is not reproduced' % kind, [l])
            else:
                c.nontriv(('fit', kind, need, bl))
    # ---- integer members through the JSON constructor: either the value the text denotes, or an error - never another value
    # (kind is a u16 read through a wider accumulator; created_at a u64), for numbers around and far beyond every power-of-two width
    il, im = [], []
    EVK = b'{"id":"' + b'11' * 32 + b'","pubkey":"' + b'22' * 32 + b'","sig":"' + b'33' * 64 + b'","tags":[],"content":"c",'
    wide = [0, 1, 65535, 65536, 65537, 99999, 655350, 2 ** 31, 2 ** 32 - 1, 2 ** 32, 2 ** 32 + 1, 2 ** 32 + 65535, 2 ** 32 + 65536, 3 * 2 ** 32 + 7,
            10 ** 10, 2 ** 48 + 5, 2 ** 63, 2 ** 64 - 1, 2 ** 64, 2 ** 64 + 1, 2 ** 64 + 65535, 2 ** 65 + 3, 10 ** 20, 10 ** 30 + 1]
    for kv in wide:
        il.append('EVJ %s 4096 %d' % (hx(EVK + b'"created_at":5,"kind":' + str(kv).encode() + b'}'), rng.randrange(1, 1 << 40)))
        im.append(('kind', kv, 65535))
        il.append('EVJ %s 4096 %d' % (hx(EVK + b'"kind":1,"created_at":' + str(kv).encode() + b'}'), rng.randrange(1, 1 << 40)))
        im.append(('created_at', kv, 2 ** 64 - 1))
    wi, mi = c.run_both(il)
    c.evaluations += len(il)
    acc_i = []
    for l, (name, kv, top), a, b in zip(il, im, wi, mi):
        cls = a.split(' ')[0]
        c.count('int-%s:%s:%s' % (name, 'fits' if kv <= top else 'wide', cls))
        if cls in ('panic', 'ABORT', 'HANG', 'GUARD'):
            c.violation('oracle', 'Event::from_json with %s = %d did not return a value or error: %s' % (name, kv, a[:60]), [l])
            continue
        if a.split(' ')[:3] != b.split(' ')[:3]:
            c.violation('corr', 'Event::from_json with %s = %d: impl %s model %s' % (name, kv, a[:40], b[:40]), [l], found=False)
        if kv > top and cls == 'ok':
            c.violation('oracle', 'Event::from_json accepted %s = %d, which does not fit the field' % (name, kv), [l])
        elif kv <= top and cls != 'ok':
            c.violation('oracle', 'Event::from_json refused %s = %d' % (name, kv), [l])
        elif cls == 'ok':
            acc_i.append(('EVA ' + a.split(' ')[3][:2 * int(a.split(' ')[2])], name, kv, l))
    for (req, name, kv, l), a in zip(acc_i, c.worker.run([x[0] for x in acc_i])):
        t = a.split(' ')
        got = t[4] if name == 'kind' else t[5]
        if t[0] != 'ok' or got != str(kv):
            c.violation('oracle', 'Event::from_json read %s = %d as %s' % (name, kv, got), [l])
        else:
            c.nontriv(('json-int', name, kv))
    # ---- the JSON path and the from-parts path write the same value: a filter built from parts, and the same parts written as a
    # JSON text and parsed, are byte-for-byte the same (lists with repeated elements - adjacent or apart - included)
    import json as _json
    pl, pj, pm = [], [], []
    rb = lambda n_: bytes(rng.randrange(256) for _ in range(n_))
    def rep(xs):
        xs = list(xs)
        if xs and rng.random() < 0.6:
            i = rng.randrange(len(xs))
            xs.insert(rng.choice([i, i + 1, len(xs), 0]), xs[i])
            if rng.random() < 0.3:
                xs.insert(i, xs[i])
        return xs
    for _ in range(120 if c.tier == 'quick' else 1500):
        letters = rng.sample('abcdeptEPZ', rng.choice([0, 1, 2]))
        tg = [[l.encode()] + rep([rng.choice([b'v', b'w' * 64, b'', rb(4).hex().encode()]) for _ in range(rng.choice([1, 2, 3]))]) for l in letters]
        f = dict(ids=rep([rb(32) for _ in range(rng.choice([0, 1, 2, 3]))]), authors=rep([rb(32) for _ in range(rng.choice([0, 1, 2]))]),
                 kinds=rep([rng.choice([0, 1, 65535, 30000]) for _ in range(rng.choice([0, 1, 3]))]), tags=tg,
                 since=rng.choice([None, 5]), until=rng.choice([None, 9]), limit=rng.choice([None, 1]))
        need_f = 32 + 32 * len(f['ids']) + 32 * len(f['authors']) + 2 * len(f['kinds']) + tags_size(tg)
        o = {}
        if f['ids']: o['ids'] = [x.hex() for x in f['ids']]
        if f['authors']: o['authors'] = [x.hex() for x in f['authors']]
        if f['kinds']: o['kinds'] = f['kinds']
        for k in ('since', 'until', 'limit'):
            if f[k] is not None: o[k] = f[k]
        for t in tg:
            o['#' + t[0].decode()] = [x.decode() for x in t[1:]]
        pl.append('FLP %s %d %d' % (gen.fl_tok(f), need_f + 16, rng.randrange(1, 1 << 40)))
        pj.append('FLJ %s %d %d' % (hx(_json.dumps(o).encode()), need_f + 16, rng.randrange(1, 1 << 40)))
        pm.append((f, need_f))
    wp, mp = c.run_both(pl)
    wq, mq = c.run_both(pj)
    c.evaluations += len(pl) + len(pj)
    for lp, lj, (f, need_f), a, am, b, bm in zip(pl, pj, pm, wp, mp, wq, mq):
        if a.split(' ')[:3] != am.split(' ')[:3]:
            c.violation('corr', 'filter from parts: impl %s model %s' % (a[:50], am[:50]), [lp], found=False)
        if b != bm:
            c.violation('corr', 'filter from JSON: impl %s model %s' % (b[:50], bm[:50]), [lj], found=False)
        ta, tb = a.split(' '), b.split(' ')
        if ta[0] != 'ok' or tb[0] != 'ok':
            c.violation('oracle', 'the same filter parts: from_parts %s, from_json %s' % (a[:30], b[:30]), [lp, lj])
            continue
        va, vb = ta[2][:2 * int(ta[1])], tb[3][:2 * int(tb[2])]
        if va != vb:
            c.violation('oracle', 'the JSON path and the from-parts path build different filters from the same parts (%d and %d bytes, %d expected)' % (
                len(vb) // 2, len(va) // 2, need_f), [lp, lj])
        else:
            c.nontriv(('json=parts', lp[:200]))
    c.finish()
