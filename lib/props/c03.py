"""C03 — all parsers are total and memory-safe on arbitrary bytes and buffer sizes."""
from .. import sweeps
from ..common import Check, hx, Proc, build_worker
from .. import jsongen

THEOREMS = ['nextCodePoint_total', 'jsonEscape_total', 'jsonUnescape_total', 'unescape_bounds',
            'readHex_total', 'parseEvent_total', 'parseFilter_total', 'tagsFromJson_total',
            'burn_depth_limited', 'parseEvent_wellformed', 'tagsFromJson_wellformed', 'parseFilter_wellformed', 'unescape_hex_table_from_source', 'parser_bounds_from_source']

SAMPLE_EVENT = b'{"id":"a9663055164ab8b30d9524656370c4bf93393bb051b7edf4556f40c5298dc0c7","pubkey":"ee11a5dff40c19a555f41fe42b48f00e618c91225622ae37b6c2bb67b76c4e49","created_at":1681778790,"kind":1,"sig":"4dfea1a6f73141d5691e43afc3234dbe73016db0fb207cf247e0127cc2591ee6b4be5b462272030a9bde75882aae810f359682b1b6ce6cbb97201141c576db42","content":"He got snowed in","tags":[["client","gossip"],["p","e2ccf7cf20403f3f2a4a55b328f0de3be38558a7d5f33632fdaaefc726c1c8eb"],["e","2c86abcc98f7fd8a6750aab8df6c1863903f107206cc2d72e8afeb6c38357aed","wss://nostr-pub.wellorder.net/","root"]]}'


def run():
    c = Check('C03', THEOREMS, assumptions=[
        'stack exhaustion depends on the platform stack size: the model bounds recursion depth (MAX_BURN_DEPTH), the worker exhibits aborts',
        'memory safety of the two unsafe get_unchecked_mut sites is modelled by their guards (capacity arithmetic) and observed through 64 guard bytes on each side of the buffer'])
    c.rule = ('valid event/filter/tags texts from the CST generator, then every prefix of several of them, single-byte '
              'substitution/insertion/deletion (incl. bytes >= 0x80, quotes, brackets), deep nesting, huge numbers, and output '
              'buffers of every length around the need and 0..300; each through Event/Filter/Tags::from_json, json_unescape, '
              'read_hex (id, pubkey, sig, hll), Addr::try_from_bytes in a debug (overflow-checked) and a release worker, and through '
              'the model; every Ok result is then read through all accessors, iterators and serializers. non-trivial = distinct '
              'input that got past the first structural check (ok, or err after >= 1 member)')
    c.setup(release=True)
    c.prove()
    rng = c.rng
    Q = c.tier == 'quick'
    lines = []
    def add(cmd, data, buflen=None):
        if cmd in ('EVJ', 'FLJ', 'TGJ', 'UNE'):
            lines.append('%s %s %d %d' % (cmd, hx(data), buflen, rng.randrange(1, 1 << 40)))
        else:
            lines.append('%s %s' % (cmd, hx(data)))
    # --- valid texts and their prefixes / mutations
    evs = [SAMPLE_EVENT] + [jsongen.render_event(rng, jsongen.rand_event_values(rng), unknown=rng.choice([0, 0, 1, 2]))
                             for _ in range(12 if Q else 200)]
    fls = [jsongen.render_filter(rng, jsongen.rand_filter_values(rng), unknown=rng.choice([0, 0, 1]))
           for _ in range(12 if Q else 200)]
    tgs = []
    for e in evs:
        i = e.find(b'"tags"')
        j = e.find(b'[', i)
        tgs.append(e[j:])
    for e in evs:
        add('EVJ', e, 4096)
    for f in fls:
        add('FLJ', f, 2048)
    for t in tgs:
        add('TGJ', t, 2048)
    nprefix = 3 if Q else 20
    for e in evs[:nprefix]:
        for k in range(len(e)):
            add('EVJ', e[:k], 4096)
    for f in fls[:nprefix * 2]:
        for k in range(len(f)):
            add('FLJ', f[:k], 1024)
    for t in tgs[:nprefix * 2]:
        for k in range(len(t)):
            add('TGJ', t[:k], 1024)
    nm = 150 if Q else 3000
    for e in evs:
        for mtxt in jsongen.mutations(rng, e, nm // 4):
            add('EVJ', mtxt, rng.choice([4096, 4096, 300, 152]))
    for f in fls:
        for mtxt in jsongen.mutations(rng, f, nm // 4):
            add('FLJ', mtxt, rng.choice([2048, 2048, 64, 40]))
    for t in tgs:
        for mtxt in jsongen.mutations(rng, t, nm // 8):
            add('TGJ', mtxt, rng.choice([2048, 30, 8]))
    # --- every buffer length
    for e in evs[:4 if Q else 30]:
        for bl in list(range(140, 420, 1 if not Q else 3)) + [0, 1, 100, 151, 152]:
            add('EVJ', e, bl)
    for f in fls[:4 if Q else 30]:
        for bl in range(0, 200, 1 if not Q else 2):
            add('FLJ', f, bl)
    for t in tgs[:4 if Q else 30]:
        for bl in range(0, 260, 1 if not Q else 3):
            add('TGJ', t, bl)
    # --- deep nesting, huge numbers, odd shapes
    for depth in (1, 10, 63, 64, 65, 66, 200, 5000, 200000):
        add('FLJ', b'{"#e":' + b'[' * depth, 256)
        add('FLJ', b'{"x":' + b'[' * depth + b']' * depth + b'}', 256)
        add('FLJ', b'{"x":' + b'{"a":' * depth + b'1' + b'}' * depth + b'}', 256)
        add('EVJ', SAMPLE_EVENT[:-1] + b',"x":' + b'[' * depth + b']' * depth + b'}', 4096)
    for digits in (1, 5, 10, 11, 19, 20, 21, 40, 400):
        n = b'9' * digits
        add('EVJ', SAMPLE_EVENT.replace(b'1681778790', n), 4096)
        add('EVJ', SAMPLE_EVENT.replace(b'"kind":1,', b'"kind":' + n + b','), 4096)
        add('FLJ', b'{"since":' + n + b',"until":' + n + b',"limit":' + n + b',"kinds":[' + n + b']}', 256)
    for txt in (b'', b'{', b'{ ', b'{}', b'[', b'[[', b'[["', b'[[]', b'{"', b'{"#', b'{"#e', b'{"#e"', b'{"#e":', b'{"ids":[', b'{"ids":["',
                b'{"kinds":[1]', b'{"kinds":[1],', b'{"limit":', b'{"#e":["\\', b'{"#e":["\\u', b'{"#e":["\\ud800"]}', b'[["\xc3"],["a"]]',
                b'[["a","b"]', b'[["a" "b"]]', b'[[],[]]', b'[[] []]', b'[["\xf0\x9f"]]', b'[["\\u00e9\\"]]'):
        add('FLJ', txt, 256)
        add('TGJ', txt, 256)
        add('EVJ', txt + b' ' * 210, 1024)
    # 33+ tag members, all 52 letters
    allt = b'{' + b','.join(b'"#' + l.encode() + b'":["v"]' for l in jsongen.LETTERS) + b'}'
    add('FLJ', allt, 4096)
    add('FLJ', b'{' + b','.join(b'"#' + l.encode() + b'":["v"]' for l in jsongen.LETTERS[:32]) + b'}', 4096)
    add('FLJ', b'{' + b','.join(b'"#' + l.encode() + b'":["v"]' for l in jsongen.LETTERS[:33]) + b'}', 4096)
    # the fixed-capacity table of tag members: every fill level around its ends (all 52 letters, then repeats),
    # in shuffled letter orders, with unknown members in between, into large and minimal buffers
    for k in (31, 32, 33, 34, 50, 51, 52, 53, 54, 60, 104, 105):
        for variant in range(3):
            ls = list(jsongen.LETTERS)
            rng.shuffle(ls)
            seq = (ls * 3)[:k]
            if variant == 1 and k > 52:
                seq = ls[:52] + [rng.choice(ls) for _ in range(k - 52)]
            mem = [b'"#' + l.encode() + b'":[' + rng.choice([b'', b'"v"', b'"a","b"']) + b']' for l in seq]
            if variant == 2:
                mem.insert(rng.randrange(len(mem) + 1), b'"#_":[1]')
                mem.insert(rng.randrange(len(mem) + 1), b'"zz":{"#a":[]}')
            add('FLJ', b'{' + b','.join(mem) + b'}', rng.choice([8192, 8192, 32, 40, 600]))
    # --- texts on which the skipping pass (bytes) and the decoding pass (lenient code points) disagree about where a
    # string ends: a UTF-8 lead byte right before a closing quote swallows the quote (and 1-2 more bytes)
    for lead in (b'\xc3', b'\xdf', b'\xe2', b'\xef', b'\xf0', b'\xf4'):
        for first in (b'x', b'', b'ab'):
            for mid in (b'', b',["a"]', b',[]', b',["a","b"]'):
                for tail in (b'"]]"', b'"],[]]"', b'"]]}"', b'"],["', b'"]', b'"]],"content":"'):
                    t = b'[["' + first + lead + b'"]' + mid + b',[' + tail + b']]'
                    add('TGJ', t, 1024)
                    add('EVJ', SAMPLE_EVENT[:SAMPLE_EVENT.find(b'"tags"')] + b'"tags":' + t + b'}', 4096)
                    add('EVJ', b'{"tags":' + t + b',' + SAMPLE_EVENT[1:SAMPLE_EVENT.find(b',"tags"')] + b'}', 4096)
                    add('FLJ', b'{"#e":["' + first + lead + b'"],"#p":[' + tail + b']}', 1024)
                    add('FLJ', b'{"#e":["' + first + lead + b'",' + tail + b'],"kinds":[1]}', 1024)
    # --- NIP-45 count filters: `hyperloglog_offset` reads character 32 of the single tag value; every byte class there
    h32 = b'0123456789abcdef0123456789abcdef'
    for kind, letter in ((3, b'p'), (7, b'e'), (3, b'e'), (1, b'p')):
        for mid in [bytes([x]) for x in (0x30, 0x39, 0x61, 0x66, 0x41, 0x46, 0x67, 0x47, 0x2f, 0x3a, 0x40, 0x60, 0x20, 0x7f, 0x01)] + \
                   [b'\xc3\xa9', b'\xe2\x82\xac', b'\xf0\x9f\x98\x80', b'\\u00e9', b'\\n']:
            wide = len(mid) if not mid.startswith(b'\\') else (2 if mid == b'\\u00e9' else 1)
            val = h32 + mid + b'f' * (64 - 32 - wide)
            for extra in (b'', b',"limit":5', b',"since":1'):
                add('FLJ', b'{"#' + letter + b'":["' + val + b'"],"kinds":[' + str(kind).encode() + b']' + extra + b'}', 512)
        add('FLJ', b'{"#' + letter + b'":["' + h32 + b'"],"kinds":[' + str(kind).encode() + b']}', 512)
    # --- unescape / hex / addr
    for _ in range(300 if Q else 5000):
        s = jsongen.spell_string(rng, jsongen.rand_string(rng, 20))[1:]
        add('UNE', s, rng.choice([64, 64, 0, 1, 2, 3, 5, len(s)]))
        for mtxt in jsongen.mutations(rng, s, 2):
            add('UNE', mtxt, rng.choice([64, 4, 1]))
    # every \\uXXXX escape class (first / last code point of each UTF-8 length, and inside) as the LAST thing written, with 0..5 bytes
    # of room and with earlier output in front: the guard bytes behind the buffer must stay intact, the reply a value or an error
    for cp in (0x00, 0x41, 0x7f, 0x80, 0xe9, 0x7ff, 0x800, 0x801, 0x928, 0xfff, 0x1000, 0x2020, 0xd7ff, 0xe000, 0xffff):
        esc = ('\\u%04x' % cp).encode()
        esc = rng.choice([esc, esc.upper().replace(b'\\U', b'\\u')])
        for pre_ in (b'', b'a', b'abc'):
            for room in range(0, 6):
                add('UNE', pre_ + esc + b'"', len(pre_) + room)
                add('TGJ', b'[["' + pre_ + esc + b'"]]', 4 + 2 + 2 + 2 + len(pre_) + room)
    for raw in (b'\\', b'\\u', b'\\u12', b'\\ud800"', b'\\udfff"', b'\\u0000"', b'\xc3', b'\xe2\x82', b'\xf0\x9f\x98', b'\xf7\xbf\xbf\xbf"',
                b'\xf8\x88\x80\x80\x80"', b'\x80"', b'\xbf\xbf"', b'\\\xc3\xa9"', b'\\\xc0\xa2"', b'\xc0\xa2"', b'a\x00b"', b'\t"', b'\x7f"'):
        for bl in (0, 1, 2, 3, 4, 16):
            add('UNE', raw, bl)
        lines.append('ESC ' + hx(raw))
    for _ in range(200 if Q else 4000):
        lines.append('ESC ' + hx(bytes(rng.choice([0x61, 0x22, 0x5c, 0x0a, 0x00, 0x1f, 0x7f, 0x80, 0xbf, 0xc3, 0xa9, 0xe2, 0x82, 0xac, 0xf0, 0x9f, 0x98, 0x80, 0xf7, 0xff])
                                       for _ in range(rng.randrange(0, 9)))))
    for kind, n in (('id', 32), ('pk', 32), ('sig', 64), ('hll', 256)):
        good = bytes(rng.choice(b'0123456789abcdefABCDEF') for _ in range(2 * n))
        lines.append('HEX %s %s' % (kind, hx(good)))
        for k in (0, 1, 2 * n - 1, 2 * n + 1, 2 * n + 2, n):
            lines.append('HEX %s %s' % (kind, hx(good[:k] if k <= 2 * n else good + b'0' * (k - 2 * n))))
        for _ in range(40 if Q else 400):
            b = bytearray(good)
            b[rng.randrange(len(b))] = rng.choice([0x67, 0x47, 0x2f, 0x3a, 0x40, 0x60, 0x20, 0x00, 0x7f] + ([0x80, 0xc3, 0xff] if kind != 'hll' else []))
            lines.append('HEX %s %s' % (kind, hx(bytes(b))))
    pk = ('ee' * 32).encode()
    for a in (b'30000:' + pk + b':d', b'30000:' + pk + b':', b'30000:' + pk, b'30000', b'', b':', b'::', b'x:' + pk + b':d', b'65536:' + pk + b':d',
              b'65535:' + pk + b':d:e:f', b'+5:' + pk + b':d', b'-1:' + pk + b':d', b'30000:' + pk[:-1] + b':d', b'30000:' + pk.upper() + b':d',
              b'30000:' + pk + b':\xff\xfe', b'\xff:' + pk + b':d', b'30000:' + b'\xc3' * 64 + b':d', b' 1:' + pk + b':d'):
        lines.append('ADR ' + hx(a))
        for mtxt in jsongen.mutations(rng, a, 5):
            lines.append('ADR ' + hx(mtxt))
    # ---------------- run: debug worker, release worker, model
    wd = c.worker.run(lines)
    wr = c.worker_rel.run(lines)
    mm = c.model.run(lines)
    mi = iter(mm)
    c.evaluations += len(lines)
    acc = []
    for l, a, r in zip(lines, wd, wr):
        cmd = l[:3]
        b = next(mi)
        cls = a.split(' ')[0]
        c.count('%s:%s' % (cmd, cls))
        short = [l if len(l) < 2000 else l[:2000] + '...']
        if cls in ('panic', 'ABORT', 'HANG', 'GUARD'):
            c.violation('oracle', '%s (debug build) did not return a value or error: %s' % (cmd, a[:100]), [l])
            continue
        if r.split(' ')[0] in ('panic', 'ABORT', 'HANG', 'GUARD'):
            c.violation('oracle', '%s (release build) did not return a value or error: %s' % (cmd, r[:100]), [l])
            continue
        if a != r:
            c.violation('oracle', '%s differs between builds with and without overflow checks: %s | %s' % (cmd, a[:60], r[:60]), [l])
        if b is not None and a != b:
            if cmd == 'HEX' and a.split(' ')[:2] == b.split(' ')[:2] and abs(int(a.split(' ')[-1]) - int(b.split(' ')[-1])) <= 1:
                pass
            else:
                c.violation('corr', '%s: impl %s model %s' % (cmd, a[:70], b[:70]), short, found=False)
        if cls == 'ok':
            t = a.split(' ')
            if cmd in ('EVJ', 'FLJ', 'TGJ', 'UNE'):
                inlen = 0 if l.split(' ')[1] == '-' else len(l.split(' ')[1]) // 2
                if int(t[1]) > inlen:
                    c.violation('oracle', '%s consumed %s > input length %d' % (cmd, t[1], inlen), short)
                buflen = int(l.split(' ')[2])
                if int(t[2]) > buflen:
                    c.violation('oracle', '%s output length %s > buffer %d' % (cmd, t[2], buflen), short)
            if cmd in ('EVJ', 'FLJ', 'TGJ'):
                n = int(t[2])
                acc.append(({'EVJ': 'EVA ', 'FLJ': 'FLA ', 'TGJ': 'TGA '}[cmd] + (t[3][:2 * n] if n else '-'), l))
            c.nontriv(l[:400])
        elif cmd in ('EVJ', 'FLJ') and len(l) > 60:
            c.nontriv(l[:400])
    al = [x for x, _ in acc]
    wa = c.worker.run(al)
    wra = c.worker_rel.run(al)
    ma = c.model.run(al)
    c.evaluations += len(al)
    for (x, orig), a, r, b in zip(acc, wa, wra, ma):
        if a.split(' ')[0] != 'ok' or 'jsonerr' in a:
            c.violation('oracle', 'accessors/serializer on a successful parse result failed: %s' % a[:80], ['# from: ' + orig[:1500], x[:1500]])
        elif a != r:
            c.violation('oracle', 'accessors differ between builds', [x[:1500]])
        elif a != b:
            c.violation('corr', 'accessors: impl %s model %s' % (a[:60], b[:60]), [x[:1500]], found=False)
    c.sample({'request': lines[0][:200], 'debug': wd[0][:80], 'release': wr[0][:80], 'model': mm[0][:80]})
    c.sample({'request': lines[len(evs) + 40][:200], 'debug': wd[len(evs) + 40][:80]})
    c.extra['entry_points'] = ['Event::from_json', 'Filter::from_json', 'Tags::from_json', 'json_unescape', 'json_escape',
                               'Id/Pubkey/Sig::read_hex', 'Hll8::from_hex_string', 'Addr::try_from_bytes (direct oracle only; not modelled)']
    sweeps.cpt_sweep(c)
    c.finish()
