"""C15 — event references stay valid and unchanged while the store lives (open known finding)."""
import os, shutil
from ..common import Check, hx, RUNDIR
from ..storecheck import HistGen, Runner, encode_event
from ..absstore import Abs
from ..gen import ev_tok

THEOREMS = ['bytes_stable', 'refs_stable_no_growth', 'refs_stable_iff', 'growth_may_move_witness']


def run():
    c = Check('C15', THEOREMS, assumptions=[
        'PARTIAL: whether and where the OS places a new mapping is not determined by the program; the model lets a growth step move the base to any address',
        'addresses are compared only; a stale reference is never dereferenced'])
    c.rule = ('histories of stores with event sizes that make the map file grow every few stores (debug chunk = 2048 bytes); after every '
              'store the address of every earlier event (PTR) and the bytes at every earlier offset are read again, together with the file '
              'length. An address that changes at a step where the file grew matches the recorded known finding; bytes that change, or an '
              'address that changes without growth, are violations. non-trivial = distinct (history, step) at which earlier references were re-read')
    c.setup()
    c.prove()
    rng = c.rng
    Q = c.tier == 'quick'
    base = os.path.join(RUNDIR, 'C15-%d' % os.getpid())
    os.makedirs(base, exist_ok=True)
    try:
        lines, meta = [], []
        for h in range(8 if Q else 120):
            g = HistGen(rng, 'C04')
            ab = Abs([])
            d = os.path.join(base, 'h%d' % h)
            lines.append('NEW %s -' % d)
            offs = {}
            for k in range(rng.randrange(4, 14 if Q else 40)):
                ev = g.new_event(kind=1, content=b'c' * rng.choice([0, 10, 200, 700, 1500, 2100, 5000]))
                r = ab.store(ev)
                li = len(lines)
                lines.append('STO ' + ev_tok(ev))
                if isinstance(r, tuple):
                    offs[r[1]] = ev
                lines.append('MLN')
                probes = []
                for o in sorted(offs):
                    probes.append((o, len(lines)))
                    lines.append('PTR %d' % o)
                    lines.append('OFF %d' % o)
                meta.append((h, k, li, probes, dict(offs)))
            lines.append('RMD')
        out = c.worker.run(lines)
        c.evaluations += len(lines)
        addr = {}
        flen = {}
        moved_at_growth = 0
        for (h, k, li, probes, offs) in meta:
            ln = int(out[li + 1]) if out[li + 1].isdigit() else -1
            grew = flen.get(h) is not None and ln != flen[h]
            flen[h] = ln
            for (o, pi) in probes:
                p, b = out[pi], out[pi + 1]
                want = 'some ' + encode_event(offs[o]).hex()
                if b != want:
                    c.violation('oracle', 'the bytes at offset %d changed after later stores' % o, lines[:pi + 2][-12:])
                    continue
                if not p.startswith('ptr '):
                    c.violation('oracle', 'reference to offset %d could not be taken: %s' % (o, p), lines[:pi + 1][-12:])
                    continue
                a = int(p.split(' ')[1])
                key = (h, o)
                if key in addr and addr[key] != a:
                    if grew:
                        moved_at_growth += 1
                        c.violation('oracle', 'reference to offset %d moved from %#x to %#x when the file grew to %d bytes' % (o, addr[key], a, ln),
                                    [l for l in lines[:pi + 1] if l[:3] in ('NEW', 'STO')][-6:] + [lines[pi]],
                                    signature={'kind': 'mapping-moved', 'at': 'growth-step'})
                    else:
                        c.violation('oracle', 'reference to offset %d changed address (%#x -> %#x) although the file did not grow' % (o, addr[key], a),
                                    [l for l in lines[:pi + 1] if l[:3] in ('NEW', 'STO')][-6:] + [lines[pi]])
                addr[key] = a
            c.nontriv((h, k))
        c.extra['references_moved_at_growth_steps'] = moved_at_growth
        c.sample({'history': [l[:80] for l in lines[:6]], 'replies': [o[:60] for o in out[:6]]})
    finally:
        shutil.rmtree(base, ignore_errors=True)
    c.finish()
