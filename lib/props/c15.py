"""C15 — event references stay valid and unchanged while the store lives (open known finding)."""
import os, shutil
from ..common import Check, hx, RUNDIR
from ..storecheck import HistGen, Runner, encode_event
from ..absstore import Abs
from ..gen import ev_tok, AUTHORS
from ..conc import forced, STORE_POINTS

THEOREMS = ['bytes_stable', 'refs_stable_no_growth', 'refs_stable_iff', 'growth_may_move_witness', 'written_region_survives_store']


def run():
    c = Check('C15', THEOREMS, assumptions=[
        'PARTIAL: whether and where the OS places a new mapping is not determined by the program; the model lets a growth step move the base to any address',
        'addresses are compared only; a stale reference is never dereferenced'])
    c.rule = ('histories of stores with event sizes that make the map file grow every few stores (debug chunk = 2048 bytes); after every '
              'store the address of every earlier event (PTR) and the bytes at every earlier offset are read again, together with the file '
              'length. An address that changes at a step where the file grew matches the recorded known finding; bytes that change, or an '
              'address that changes without growth, are violations. non-trivial = distinct (history, step) at which earlier references were re-read')
    c.setup()
    c.prove()
    rng = c.rng
    Q = c.tier == 'quick'
    base = os.path.join(RUNDIR, 'C15-%d' % os.getpid())
    os.makedirs(base, exist_ok=True)
    try:
        lines, meta = [], []
        for h in range(8 if Q else 120):
            g = HistGen(rng, 'C04')
            ab = Abs([])
            d = os.path.join(base, 'h%d' % h)
            if h % 4 == 3:
                # the first open finds an event.map that already exists, zero-filled and several chunks long (pre-sized, or left by an
                # interrupted creation): the store starts in it, and the first growth comes only when that room is used up
                lines.append('PRE %s %d' % (d, rng.choice([4096, 6144, 10240, 2048 * 3 + 8, 5000])))
                lines.append('OPN %s -' % d)
            else:
                lines.append('NEW %s -' % d)
            offs = {}
            for k in range(rng.randrange(4, 14 if Q else 40)):
                # mostly plain notes of growing sizes; also versions of one replaceable address, deletion requests for
                # earlier notes and explicit removals: the bytes of a displaced / deleted / removed event are still the
                # bytes a held reference points at
                mine = [e for e in offs.values() if e['pk'] == AUTHORS[0]]
                what = rng.choice(['note'] * 5 + ['repl', 'repl', 'del', 'rem'])
                if what == 'repl':
                    ev = g.new_event(kind=10003, pk=AUTHORS[0], t=100 + k, tags=[], content=b'r' * rng.choice([1, 300]))
                elif what == 'del' and mine:
                    ev = g.new_event(kind=5, pk=AUTHORS[0], t=5000, tags=[[b'e', rng.choice(mine)['id'].hex().encode()]], content=b'')
                elif what == 'rem' and mine:
                    victim = rng.choice(mine)
                    ab.remove(victim['id'])
                    lines.append('REM ' + hx(victim['id']))
                    ev = g.new_event(kind=1, pk=AUTHORS[0], content=b'c' * rng.choice([0, 10, 200]))
                else:
                    ev = g.new_event(kind=1, pk=rng.choice(AUTHORS[:2]), content=b'c' * rng.choice([0, 10, 200, 700, 1500, 2100, 5000]))
                r = ab.store(ev)
                li = len(lines)
                lines.append('STO ' + ev_tok(ev))
                if isinstance(r, tuple):
                    offs[r[1]] = ev
                lines.append('MLN')
                probes = []
                for o in sorted(offs):
                    probes.append((o, len(lines)))
                    lines.append('PTR %d' % o)
                    lines.append('OFF %d' % o)
                meta.append((h, k, li, probes, dict(offs)))
            lines.append('RMD')
        out = c.worker.run(lines)
        c.evaluations += len(lines)
        addr = {}
        flen = {}
        moved_at_growth = 0
        for (h, k, li, probes, offs) in meta:
            ln = int(out[li + 1]) if out[li + 1].isdigit() else -1
            grew = flen.get(h) is not None and ln != flen[h]
            flen[h] = ln
            for (o, pi) in probes:
                p, b = out[pi], out[pi + 1]
                want = 'some ' + encode_event(offs[o]).hex()
                if b != want:
                    c.violation('oracle', 'the bytes at offset %d changed after later stores' % o, lines[:pi + 2][-12:])
                    continue
                if not p.startswith('ptr '):
                    c.violation('oracle', 'reference to offset %d could not be taken: %s' % (o, p), lines[:pi + 1][-12:])
                    continue
                a = int(p.split(' ')[1])
                key = (h, o)
                if key in addr and addr[key] != a:
                    if grew:
                        moved_at_growth += 1
                        c.violation('oracle', 'reference to offset %d moved from %#x to %#x when the file grew to %d bytes' % (o, addr[key], a, ln),
                                    [l for l in lines[:pi + 1] if l[:3] in ('NEW', 'STO')][-6:] + [lines[pi]],
                                    signature={'kind': 'mapping-moved', 'at': 'growth-step'})
                    else:
                        c.violation('oracle', 'reference to offset %d changed address (%#x -> %#x) although the file did not grow' % (o, addr[key], a),
                                    [l for l in lines[:pi + 1] if l[:3] in ('NEW', 'STO')][-6:] + [lines[pi]])
                addr[key] = a
            c.nontriv((h, k))
        c.extra['references_moved_at_growth_steps'] = moved_at_growth
        # ---- references under concurrent writers: a store that succeeds while another thread's store
        # fails (duplicate / invalid deletion / replaced), at every yield point, both directions; the
        # stored event must read back whole, by offset and by id, before and after one more store
        scen = []
        for k in range(4 if Q else 40):
            g = HistGen(rng, 'C04')
            ab = Abs([])
            x = g.new_event(kind=1, pk=AUTHORS[0], content=b'x' * rng.choice([5, 300]))
            r10 = g.new_event(kind=10000, pk=AUTHORS[1], t=500, tags=[], content=b'holder')
            pre = [x, r10]
            for e in pre:
                ab.store(e)
            e1 = g.new_event(kind=1, pk=AUTHORS[2], content=b'e' * rng.choice([10, 170, 900]))
            e2 = g.new_event(kind=1, pk=AUTHORS[2], content=b'f' * rng.choice([10, 400]))
            fails = {'dup': x,
                     'invalid': g.new_event(kind=5, pk=AUTHORS[1], t=100, tags=[[b'e', x['id'].hex().encode()]], content=b''),
                     'replaced': g.new_event(kind=10000, pk=AUTHORS[1], t=100, tags=[], content=b'older')}
            off1 = ab.store(e1)[1]
            for why, fe in fails.items():
                after = ['GID ' + hx(e1['id']), 'STO ' + ev_tok(e2), 'GID ' + hx(e1['id'])]
                if why != 'invalid':
                    after += ['OFF %d' % off1]
                for p in STORE_POINTS:
                    for a, b, who in ((e1, fe, 'A'), (fe, e1, 'B')):
                        scen.append(dict(pre=['STO ' + ev_tok(e) for e in pre], point=p, a='STO ' + ev_tok(a), b='STO ' + ev_tok(b),
                                         after=after, who=who, why=why, e1=e1))
        if Q:
            scen = rng.sample(scen, min(len(scen), 90))
        for s_, r in zip(scen, forced(c, base, scen)):
            if 'error' in r or 'HUNG' in r.get('raw', '') or 'panic' in r.get('raw', ''):
                c.violation('oracle', 'forced schedule did not complete: %s' % (r.get('error') or r['raw'])[:90], r['lines'])
                continue
            r1 = r['ra'] if s_['who'] == 'A' else r['rb']
            c.count('conc:%s:%s' % (s_['why'], 'reached' if r['reached'] else 'not-reached'))
            if not r1.startswith('ok'):
                c.violation('oracle', 'a fresh event was refused (%s) while another thread\'s store failed (%s)' % (r1[:20], s_['why']), r['lines'])
                continue
            want = 'some ' + encode_event(s_['e1']).hex()
            got = [r['after'][0], r['after'][2]] + r['after'][3:]
            if any(x_ != want for x_ in got):
                c.violation('oracle', 'an event stored successfully while another thread\'s store failed (%s, paused at %s) does not read back '
                            'whole afterwards: %s' % (s_['why'], s_['point'], [x_[:24] for x_ in got]), r['lines'])
                continue
            c.nontriv(('conc', s_['why'], s_['point'], s_['who'], k))
        # ---- references while ANOTHER thread is inside the file-growth step: an event too large for the free room (ephemeral,
        # regular or replaceable) is stored by thread A, paused at each point of the append / growth path, while thread B stores
        # several events that make the file grow more than once; every event B stored successfully, and the events stored
        # before, must read back whole by id and by offset afterwards, also after one more store
        from ..conc import growth_step_races
        growth_step_races(c, base)
        c.sample({'history': [l[:80] for l in lines[:6]], 'replies': [o[:60] for o in out[:6]]})
    finally:
        shutil.rmtree(base, ignore_errors=True)
    c.finish()
