"""C06 — the filter/event match predicate equals NIP-01 semantics."""
from ..common import Check, hx
from .. import gen

THEOREMS = ['eventMatches_iff_spec', 'eventMatchesB_ok', 'unnamed_constraint_witness']


def gen_pair(rng):
    ids = [gen.ID(i) for i in (1, 2, 3)]
    names = [b'e', b't', b'p', b'tt', b'a']
    vals = [b'', b'a', b'ab', b'abc', b'b', b'a\x00']
    times = [0, 1, 5, 6, 7, 100, gen.U64MAX - 1, gen.U64MAX]
    def rtag(minlen):
        n = rng.choice([minlen, 1, 2, 2, 2, 3, 4])
        n = max(n, minlen)
        t = []
        if n >= 1:
            t.append(rng.choice(names))
        for _ in range(n - 1):
            t.append(rng.choice(vals))
        return t
    e = dict(id=rng.choice(ids), pk=rng.choice(gen.AUTHORS), kind=rng.choice([0, 1, 5, 7, 30000]),
             t=rng.choice(times), tags=[rtag(0) for _ in range(rng.choice([0, 0, 1, 2, 3, 5]))],
             content=rng.choice([b'', b'hi']))
    def sub(pool, hit):
        k = rng.choice([0, 0, 1, 1, 2, 3])
        l = [rng.choice(pool) for _ in range(k)]
        if l and rng.random() < 0.5:
            l[rng.randrange(len(l))] = hit
        return l
    ftags = []
    for _ in range(rng.choice([0, 0, 1, 1, 2, 3])):
        if e['tags'] and rng.random() < 0.6:
            src = rng.choice(e['tags'])
            if len(src) >= 2:
                c = [src[0]] + [rng.choice(vals) for _ in range(rng.choice([0, 1, 2]))]
                c.insert(rng.randrange(1, len(c) + 1), src[1])
                if rng.random() < 0.2:
                    c.remove(src[1])
                ftags.append(c)
                continue
        ftags.append(rtag(1))
    since = rng.choice([None, None, 0, e['t'], e['t'], max(e['t'], 1) - 1, min(e['t'] + 1, gen.U64MAX), 6])
    until = rng.choice([None, None, gen.U64MAX, e['t'], e['t'], max(e['t'], 1) - 1, min(e['t'] + 1, gen.U64MAX), 6])
    f = dict(ids=sub(ids, e['id']), authors=sub(gen.AUTHORS, e['pk']), kinds=sub([0, 1, 5, 7, 30000, 65535], e['kind']),
             tags=ftags, since=since, until=until, limit=rng.choice([None, 0, 5]))
    if rng.random() < 0.25:
        # near misses of the packed lists: an event value made of the tail of one list element and the head of the next
        # (never a member itself), values equal to a member in all but one byte, the list in both orders
        which = rng.choice(['kinds', 'kinds', 'ids', 'authors'])
        if which == 'kinds':
            a, b = rng.choice([(1, 256), (1, 2), (0, 1), (7, 30000), (65535, 0), (257, 1), (5, 1280), (30023, 10002)])
            ks = [a, b] + ([rng.choice([3, 9])] if rng.random() < 0.3 else [])
            rng.shuffle(ks)
            pk_ = b''.join(k.to_bytes(2, 'little') for k in ks)
            cand = [int.from_bytes(pk_[i:i + 2], 'little') for i in range(1, len(pk_) - 1)] + [ks[0] ^ 256, ks[0] ^ 1]
            cand = [k for k in cand if k not in ks] or [4]
            f['kinds'] = ks
            e['kind'] = rng.choice(cand + [ks[0]])
        else:
            x, y = rng.sample([gen.ID(1), gen.ID(2), gen.ID(3), bytes(range(32)), bytes(range(32, 64)), gen.AUTHORS[0], gen.AUTHORS[1]], 2)
            k = rng.randrange(1, 32)
            cand = [x[k:] + y[:k], y[k:] + x[:k], x[:31] + bytes([x[31] ^ 1]), bytes([x[0] ^ 0x20]) + x[1:]]
            cand = [v for v in cand if v not in (x, y)] or [gen.ID(9)]
            v = rng.choice(cand + [x])
            if which == 'ids':
                f['ids'] = [x, y]
                e['id'] = v
            else:
                f['authors'] = [x, y]
                e['pk'] = v
    return f, e


def run():
    c = Check('C06', THEOREMS, assumptions=[
        'tag constraints are named (TagsNamed); the unnamed-constraint point is run on the real code and reported in the evidence, not as a violation',
        'operands are well-formed values produced by the library constructors'])
    c.rule = ('random (filter, event) pairs over a tiny alphabet (3 ids, 3 authors, 5 kinds, 8 boundary times, values that are '
              'prefixes/extensions of each other, empty values, repeated and multi-letter names); each pair is evaluated by '
              'Filter::event_matches on values built with the owned constructors (MTP) and on the raw bytes (MAT), by the Lean '
              'model, and by an independent Python implementation of the NIP-01 text; non-trivial = distinct pair that passes '
              'the ids/authors/kinds/time clauses so that the tag clause decides')
    c.setup()
    c.prove()
    n = 4000 if c.tier == 'quick' else 60000
    pairs = [gen_pair(c.rng) for _ in range(n)]
    # corpus: the excluded point (unnamed constraint) and a few fixed shapes
    unnamed = (dict(ids=[], authors=[], kinds=[], tags=[[], [b't', b'a']], since=None, until=None, limit=None),
               dict(id=gen.ID(9), pk=gen.ID(1), kind=7, t=10, tags=[[b'x', b'b']], content=b''))
    lines = ['MTP %s %s' % (gen.fl_tok(f), gen.ev_tok(e)) for f, e in pairs]
    # bytes of both operands from the real constructors, for the byte-level request
    blines = []
    for f, e in pairs[: n // 4]:
        blines.append('FLP %s 600 3' % gen.fl_tok(f))
        blines.append('EVP %s %s 600 5' % (gen.ev_tok(e), hx(bytes(64))))
    w, m = c.run_both(lines + blines)
    c.evaluations += len(lines)
    for i, ((f, e), a, b) in enumerate(zip(pairs, w, m)):
        want = gen.matches_spec(f, e)
        c.count('spec_true' if want else 'spec_false')
        base = dict(f, tags=[])
        if gen.matches_spec(base, e):
            c.nontriv((gen.fl_tok(f), gen.ev_tok(e)))
            c.count('tag_clause_decides_true' if want else 'tag_clause_decides_false')
        if i < 3:
            c.sample({'request': lines[i], 'impl': a, 'model': b, 'spec': want})
        if a != b:
            c.violation('corr', 'event_matches: impl %s model %s' % (a, b), [lines[i]], found=False)
        if a != 'ok %d' % want:
            c.violation('oracle', 'event_matches returned %s, NIP-01 says %s' % (a, want), [lines[i]])
    # byte-level
    wb, mb = w[len(lines):], m[len(lines):]
    mats = []
    for k in range(0, len(blines), 2):
        fa, ea = wb[k], wb[k + 1]
        if fa != mb[k] or ea != mb[k + 1]:
            c.violation('corr', 'constructor bytes differ', [blines[k], blines[k + 1]], found=False)
            continue
        if fa.startswith('ok') and ea.startswith('ok'):
            fl, fbuf = fa.split(' ')[1:3]
            el, ebuf = ea.split(' ')[1:3]
            mats.append((k // 2, 'MAT %s %s' % (fbuf[: 2 * int(fl)], ebuf[: 2 * int(el)])))
    w2, m2 = c.run_both([l for _, l in mats])
    c.evaluations += len(mats)
    for (k, l), a, b in zip(mats, w2, m2):
        f, e = pairs[k]
        if a != b:
            c.violation('corr', 'event_matches on bytes: impl %s model %s' % (a, b), [l], found=False)
        if a != 'ok %d' % gen.matches_spec(f, e):
            c.violation('oracle', 'event_matches(bytes) returned %s, NIP-01 says %s' % (a, gen.matches_spec(f, e)), [l])
    # excluded point, reported only
    f, e = unnamed
    a, b = c.run_both(['MTP %s %s' % (gen.fl_tok(f), gen.ev_tok(e))])
    c.extra['excluded_point_unnamed_constraint'] = {'impl': a[0], 'model': b[0], 'nip01_reading': 'false'}
    if a != b:
        c.violation('corr', 'unnamed constraint: impl %s model %s' % (a, b), ['MTP %s %s' % (gen.fl_tok(f), gen.ev_tok(e))], found=False)
    c.finish()
