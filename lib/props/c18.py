"""C18 — Explicit removal and vanish remove exactly their targets."""
from ._store import run_store

THEOREMS = ['remove_exact', 'removed_is_gone', 'others_stay', 'resubmit_after_remove', 'resubmit_not_deleted_by_removal', 'vanish_only_removes', 'vanish_exact', 'ephemeral_never_live', 'ephemeral_from_source']


def run():
    run_store('C18', THEOREMS, """Focus: remove_event of present / absent / already removed ids, vanish of authors with zero to many events and gift-wraps naming them first / later / as a non-first value / in upper case, resubmission after removal, ephemeral kinds; oracle: the retrievable set, markers and extra tables after every step equal the specification's (exactly the targets gone, nothing else).""", {'reply', 'live', 'markers', 'extra', 'query'}, relevant={'REM', 'VAN', 'HAS', 'GID', 'DEL', 'NAD', 'XDP'})
