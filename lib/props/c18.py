"""C18 — Explicit removal and vanish remove exactly their targets."""
import os, shutil
from ._store import run_store
from ..common import hx, RUNDIR
from ..gen import ev_tok, fl_tok, AUTHORS, ID
from ..storecheck import HistGen
from ..conc import forced

THEOREMS = ['remove_exact', 'removed_is_gone', 'others_stay', 'resubmit_after_remove', 'resubmit_not_deleted_by_removal', 'vanish_only_removes', 'vanish_exact', 'ephemeral_never_live', 'ephemeral_from_source', 'spec_remove_vanish_exact']


def races(c, runner):
    """a removal (remove_event, or vanish of the author) overlapping lookups of the very event being removed: the remover is
    paused at each yield point of its transaction while another thread asks for the event by id (has_event, get_event_by_id, a
    query listing the id); once the removal has returned, the event is unretrievable by every path - whatever the concurrent
    reader saw - and, no marker having been left, may be stored again (oracle: the property text; no model involved)."""
    rng = c.rng
    Q = c.tier == 'quick'
    base = os.path.join(RUNDIR, 'C18r-%d' % os.getpid())
    os.makedirs(base, exist_ok=True)
    try:
        scen = []
        fb = dict(ids=[], authors=[], kinds=[], tags=[], since=None, until=None, limit=None)
        for k in range(3 if Q else 30):
            g = HistGen(rng, 'C18')
            pk = rng.choice(AUTHORS)
            x = g.new_event(kind=rng.choice([1, 30023, 10002]), pk=pk, t=1000, tags=[[b'd', b'x'], [b't', b'a']], content=b'to be removed')
            other = g.new_event(kind=1, pk=rng.choice([a for a in AUTHORS if a != pk]), t=1000, tags=[[b't', b'a']], content=b'bystander')
            pre = ['STO ' + ev_tok(x), 'STO ' + ev_tok(other), 'HAS ' + hx(x['id'])]
            byid = 'FND %s 1 0 0 m' % fl_tok(dict(fb, ids=[x['id']]))
            byauthor = 'FND %s 1 0 0 m' % fl_tok(dict(fb, authors=[pk]))
            after = ['HAS ' + hx(x['id']), 'GID ' + hx(x['id']), byid, byauthor, 'DEL ' + hx(x['id']), 'HAS ' + hx(other['id']), 'STO ' + ev_tok(x), 'HAS ' + hx(x['id'])]
            for remover, points in (('REM ' + hx(x['id']), ['remove:txn', 'remove:before_commit', 'remove:committed']),
                                    ('VAN ' + hx(pk), ['vanish:next', 'remove:txn', 'remove:before_commit', 'remove:committed'])):
                for p in points:
                    for reader in ('HAS ' + hx(x['id']), 'GID ' + hx(x['id']), byid):
                        scen.append(dict(pre=pre, point=p, a=remover, b=reader, after=after, what=remover[:3], xid=x['id']))
        for s_, r in zip(scen, forced(c, base, scen, tag='v')):
            if 'error' in r or 'HUNG' in r.get('raw', '') or 'panic' in r.get('raw', ''):
                c.violation('oracle', 'forced schedule did not complete: %s' % (r.get('error') or r['raw'])[:90], r['lines'])
                continue
            c.count('removal-race:%s:%s:%s' % (s_['what'], s_['point'], 'reached' if r['reached'] else 'not-reached'))
            if not r['ra'].startswith('ok'):
                c.violation('oracle', 'the removal itself failed under the schedule: %s' % r['ra'][:30], r['lines'])
                continue
            has, gid, byid_r, byauthor_r, dl, hother, again, has2 = r['after']
            idhex = hx(s_['xid'])
            why = None
            if has != '0' or gid != 'none':
                why = 'has_event / get_event_by_id still find it (%s, %s)' % (has, gid[:12])
            elif idhex in byid_r or idhex in byauthor_r:
                why = 'a query still returns it'
            elif dl != '0':
                why = 'a deletion marker was left'
            elif hother != '1':
                why = 'another event disappeared'
            elif not again.startswith('ok') or has2 != '1':
                why = 'storing it again replied %s' % again[:12]
            if why:
                c.violation('oracle', 'after %s (paused at %s while another thread looked the event up) returned: %s' % (
                    'remove_event' if s_['what'] == 'REM' else 'vanish', s_['point'], why), r['lines'])
            elif r['reached']:
                c.nontriv(('removal-race', s_['what'], s_['point'], s_['b'][:3]))
    finally:
        shutil.rmtree(base, ignore_errors=True)


def run():
    run_store('C18', THEOREMS, """Focus: remove_event of present / absent / already removed ids, vanish of authors with zero to many events and gift-wraps naming them first / later / as a non-first value / in upper case, resubmission after removal, ephemeral kinds; oracle: the retrievable set, markers and extra tables after every step equal the specification's (exactly the targets gone, nothing else).""", {'reply', 'live', 'markers', 'extra', 'query'}, relevant={'REM', 'VAN', 'HAS', 'GID', 'DEL', 'NAD', 'XDP'})
