"""C17 — Every access path agrees and index accounting never leaks."""
from ._store import run_store

THEOREMS = ['unretrievable_not_found', 'self_findable_by_id', 'empty_means_zero', 'tag_entries_of_live', 'self_findable', 'index_padding_from_source', 'keys_from_source', 'index_walk_from_source']


def run():
    run_store('C17', THEOREMS, """Focus: after every step, for each event seen, every filter shape its own fields satisfy (id; author; author+kind; each single-letter tag value alone, with author, with kind; a time window) must return it iff it is retrievable; the id, time, author and author-kind entry counts equal the number of retrievable events; all counts are zero when nothing is retrievable.""", {'counts', 'selffind', 'query'}, relevant={'STA', 'FND', 'HAS', 'KYS'})
