"""C08 — event verification accepts exactly correctly hashed and signed events."""
import hashlib
from .. import sweeps
from ..common import Check, hx, tags_tok
from .. import jsongen, gen

THEOREMS = ['verify_iff', 'verify_total', 'signNew_verifies', 'id_tamper_detected', 'content_tamper_detected', 'canon_determines_fields', 'field_tamper_detected', 'escape_constants_from_source', 'safe_char_from_source']
SK = '0000000000000000000000000000000000000000000000000000000000000003'


def run():
    c = Check('C08', THEOREMS, assumptions=[
        'PARTIAL: SHA-256 and BIP-340 (secp256k1 C library) are trusted; that flipping a signature/pubkey bit invalidates a signature is checked by sampling',
        'injectivity of the canonical serialization (a changed field changes the serialization) is checked by mutation, not proved'])
    c.rule = ('random events over every character class (all ASCII controls, quotes, backslashes, multi-byte) signed with a fixed key by '
              'the library\'s signing constructor; must verify; id must equal hashlib.sha256 of the MODEL\'s canonical serialization; then '
              'every single-field mutation (bits of id/pubkey/sig, created_at+-1, kind+-1, one byte of a tag string or of the content, '
              'tag inserted/removed/split) must fail verification. non-trivial = distinct signed event with all its mutants judged')
    c.setup()
    c.prove()
    rng = c.rng
    N = 150 if c.tier == 'quick' else 2500
    evs = []
    for i in range(N):
        v = jsongen.rand_event_values(rng)
        if i < 40:
            # every ASCII character incl. all control characters, somewhere
            v['content'] = ''.join(chr(x) for x in range(i * 4, min(128, i * 4 + 4))) + v['content']
        evs.append(v)
    # large contents and tag strings: a multi-byte character straddling every power-of-two offset a block-wise hasher or
    # escaper could cut at (512 .. 65536), texts of only 2-, 3- and 4-byte characters longer than those blocks, an
    # escape-needing character right at the boundary
    big = []
    for B in (512, 1024, 4096, 8192, 16384, 32768, 65536):
        if c.tier == 'quick' and B not in (4096, 16384, 65536):
            continue
        for ch in ('\u00e9', '\u20ac', '\U0001f600', '\n', '"'):
            for back in (1, 2, 3):
                big.append('a' * (B - back) + ch + 'z' * 5)
        big.append('\u3042' * (B // 3 + 7))
        big.append('z' + '\U0001f600' * (B // 4 + 3))
    for k, txt in enumerate(big):
        v = jsongen.rand_event_values(rng)
        if k % 4 == 3 and len(txt.encode()) < 60000:
            v['tags'] = [['t', txt]] + v['tags'][:1]
        else:
            v['content'] = txt
            if len(txt.encode()) > 60000:
                v['tags'] = v['tags'][:1]
        evs.append(v)
    lines = ['SGN %s %d %d %s %s' % (SK, v['kind'], v['created_at'], tags_tok([[s.encode() for s in t] for t in v['tags']]), hx(v['content'].encode()))
             for v in evs]
    w = c.worker.run(lines)
    c.evaluations += len(lines)
    can, mut, owner = [], [], []
    for v, l, a in zip(evs, lines, w):
        if not a.startswith('ok') or not a.endswith('v=1'):
            c.violation('oracle', 'an event made by sign_new does not verify: %s' % a[-20:], [l])
            continue
        b = bytes.fromhex(a.split(' ')[1])
        pk = b[48:80]
        ev = dict(id=b[16:48], pk=pk, kind=v['kind'], t=v['created_at'], tags=[[s.encode() for s in t] for t in v['tags']],
                  content=v['content'].encode(), sig=b[80:144])
        can.append((ev, 'CAN ' + gen.ev_tok(ev)))
        # mutants: rebuild through from_parts so only one field differs
        def m(**kw):
            e2 = dict(ev)
            e2.update(kw)
            return e2
        flip = lambda x, i: x[:i // 8] + bytes([x[i // 8] ^ (1 << (i % 8))]) + x[i // 8 + 1:]
        ms = [m(id=flip(ev['id'], rng.randrange(256))), m(pk=flip(ev['pk'], rng.randrange(256))), m(sig=flip(ev['sig'], rng.randrange(512))),
              m(t=(ev['t'] + 1) % (1 << 64)), m(t=(ev['t'] - 1) % (1 << 64)), m(kind=(ev['kind'] + 1) % 65536),
              m(content=ev['content'] + b'a'), m(tags=ev['tags'] + [[]]), m(tags=ev['tags'] + [[b'']]), m(tags=[[b'x']] + ev['tags'])]
        # multi-byte id changes whose byte differences cancel under xor / sum (the same mask on two bytes, two bytes
        # swapped, a rotation, every byte complemented)
        def two(x, i, j, mask):
            y = bytearray(x)
            y[i] ^= mask
            y[j] ^= mask
            return bytes(y)
        i_, j_ = rng.sample(range(32), 2)
        ms += [m(id=two(ev['id'], i_, j_, rng.choice([1, 0x80, 0xff, rng.randrange(1, 256)]))),
               m(id=ev['id'][1:] + ev['id'][:1]), m(id=bytes(255 - x for x in ev['id'])), m(id=ev['id'][::-1])]
        sw = bytearray(ev['id'])
        sw[i_], sw[j_] = sw[j_], sw[i_]
        ms.append(m(id=bytes(sw)))
        sg = bytearray(ev['sig'])
        a_, b_ = rng.sample(range(64), 2)
        sg[a_], sg[b_] = sg[b_], sg[a_]
        ms.append(m(sig=bytes(sg)))
        ms.append(m(pk=two(ev['pk'], i_, j_, rng.randrange(1, 256))))
        if ev['content']:
            k = rng.randrange(len(ev['content']))
            ms.append(m(content=ev['content'][:k] + ev['content'][k + 1:]))
        if ev['tags']:
            ms.append(m(tags=ev['tags'][1:]))
            ti = rng.randrange(len(ev['tags']))
            t = ev['tags'][ti]
            if t:
                ms.append(m(tags=ev['tags'][:ti] + [t[:-1]] + ev['tags'][ti + 1:]))
                ms.append(m(tags=ev['tags'][:ti] + [t + [b'']] + ev['tags'][ti + 1:]))
                ms.append(m(tags=ev['tags'][:ti] + [[t[0] + b'"']] + [t[1:]] + ev['tags'][ti + 1:]))
                if len(t) >= 2:
                    # nested-looking: merge two strings with a separator that mimics JSON structure
                    ms.append(m(tags=ev['tags'][:ti] + [[t[0] + b'","' + t[1]] + t[2:]] + ev['tags'][ti + 1:]))
        for e2 in ms:
            if e2 != ev:
                need = 152 + 2 * len(e2['tags']) + sum(2 + sum(2 + len(x) for x in t_) for t_ in e2['tags']) + len(e2['content'])
                mut.append('EVP %s %d 1' % (gen.ev_tok(e2), need))
                owner.append(l)
    wm = c.model.run([x for _, x in can])
    c.evaluations += len(can)
    for (ev, l), b in zip(can, wm):
        if not b.startswith('ok'):
            c.violation('corr', 'model canon failed: %s' % b[:40], [l], found=False)
            continue
        cb = bytes.fromhex(b.split(' ')[1])
        if hashlib.sha256(cb).digest() != ev['id']:
            c.violation('oracle', 'id of a signed event is not sha256 of the canonical serialization (independent canonicalizer)',
                        [l, '# canon: ' + repr(cb[:300])])
        else:
            c.nontriv(l[:300])
            c.sample({'canon': repr(cb[:160]), 'id': ev['id'].hex()}, limit=3)
    # mutants: build bytes, then verify
    wb = c.worker.run(mut)
    vf, vo = [], []
    for l, a, o in zip(mut, wb, owner):
        if a.startswith('ok'):
            n = int(a.split(' ')[1])
            vf.append('VFY ' + a.split(' ')[2][:2 * n])
            vo.append((l, o))
    wv = c.worker.run(vf)
    c.evaluations += len(vf)
    for l, a, (ml, o) in zip(vf, wv, vo):
        c.count('mutant:' + a.split(' ')[0])
        if a != 'err':
            c.violation('oracle', 'a single-field mutation of a verifying event was not rejected: %s' % a[:40], ['# original: ' + o[:1500], ml[:1500]])
    sweeps.cpt_sweep(c)
    c.finish()
