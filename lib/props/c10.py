"""C10 — A deletion request can never remove another author's events."""
from ._store import run_store

THEOREMS = ['foreign_delete_harmless', 'no_marker_on_foreign_event', 'no_marker_on_foreign_address', 'foreign_history_harmless']


def run():
    run_store('C10', THEOREMS, """Focus: kind-5 requests with 0-5 e/a tags in every order mixing own / foreign / absent / malformed targets (bad hex, two-part address, non-numeric or +-prefixed kind, upper-case hex, address with a stray identifier); oracle: every event of another author that was retrievable before the request is retrievable and unmarked after it, no marker of another author's address changes, and a request naming a foreign target is refused as a whole.""", {'reply', 'live', 'markers', 'foreign'}, relevant={'STO', 'HAS', 'DEL', 'NAD'})
