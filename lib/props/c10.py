"""C10 — A deletion request can never remove another author's events."""
import os, shutil
from ._store import run_store
from ..common import hx, RUNDIR
from ..gen import ev_tok, AUTHORS
from ..storecheck import HistGen
from ..conc import forced, STORE_POINTS

THEOREMS = ['foreign_delete_harmless', 'no_marker_on_foreign_event', 'no_marker_on_foreign_address', 'foreign_history_harmless']


def races(c, runner):
    """another author's deletion request overlapping the store of its target: the victim's store is paused at each
    yield point of its write transaction while the foreign request (naming the victim by id and, for addressable
    kinds, by address) is submitted; whatever the request returns, a victim whose store succeeded stays retrievable
    and unmarked (oracle: the property text)."""
    rng = c.rng
    Q = c.tier == 'quick'
    base = os.path.join(RUNDIR, 'C10r-%d' % os.getpid())
    os.makedirs(base, exist_ok=True)
    try:
        scen = []
        for k in range(3 if Q else 30):
            g = HistGen(rng, 'C10')
            va, fa = rng.sample(AUTHORS, 2)
            kind = [1, 30023, 10002][k % 3]
            x = g.new_event(kind=kind, pk=va, t=rng.choice([100, 1000]), tags=[[b'd', b'x']], content=b'victim')
            own = g.new_event(kind=1, pk=fa, content=b'own')
            tags = [[b'e', own['id'].hex().encode()]] if rng.random() < 0.5 else []
            tags.append([b'e', x['id'].hex().encode()])
            if kind != 1 and rng.random() < 0.5:
                tags.append([b'a', str(kind).encode() + b':' + va.hex().encode() + b':' + (b'x' if kind == 30023 else b'')])
            d = g.new_event(kind=5, pk=fa, t=2000, tags=tags, content=b'')
            pre = ['STO ' + ev_tok(own)]
            X, D = 'STO ' + ev_tok(x), 'STO ' + ev_tok(d)
            after = ['HAS ' + hx(x['id']), 'GID ' + hx(x['id']), 'DEL ' + hx(x['id']), 'HAS ' + hx(own['id'])]
            for p in STORE_POINTS:
                scen.append(dict(pre=pre, point=p, a=X, b=D, after=after, kind=kind))
        for s_, r in zip(scen, forced(c, base, scen)):
            if 'error' in r or 'HUNG' in r.get('raw', '') or 'panic' in r.get('raw', ''):
                c.violation('oracle', 'forced schedule did not complete: %s' % (r.get('error') or r['raw'])[:90], r['lines'])
                continue
            c.count('race:%d:%s' % (s_['kind'], 'reached' if r['reached'] else 'not-reached'))
            if not r['ra'].startswith('ok'):
                continue
            has, gid, dl, hown = r['after']
            if has != '1' or not gid.startswith('some') or dl != '0':
                c.violation('oracle', 'a deletion request of another author (reply %s) overlapping the store of its target (paused at %s): '
                            'the victim, stored successfully, is %s afterwards' % (r['rb'][:12], s_['point'],
                            'not retrievable' if has != '1' else 'marked deleted'), r['lines'])
                continue
            c.nontriv(('race', s_['kind'], s_['point'], r['lines'][-5][:60]))
    finally:
        shutil.rmtree(base, ignore_errors=True)


def run():
    run_store('C10', THEOREMS, """Focus: kind-5 requests with 0-5 e/a tags in every order mixing own / foreign / absent / malformed targets (bad hex, two-part address, non-numeric or +-prefixed kind, upper-case hex, address with a stray identifier); oracle: every event of another author that was retrievable before the request is retrievable and unmarked after it, no marker of another author's address changes, and a request naming a foreign target is refused as a whole.""", {'reply', 'live', 'markers', 'foreign'}, relevant={'STO', 'HAS', 'DEL', 'NAD'}, extra=races)
