"""C10 — A deletion request can never remove another author's events."""
import os, shutil
from ._store import run_store
from ..common import hx, RUNDIR
from ..gen import ev_tok, AUTHORS
from ..storecheck import HistGen
from ..conc import forced, STORE_POINTS

THEOREMS = ['foreign_delete_harmless', 'no_marker_on_foreign_event', 'no_marker_on_foreign_address', 'foreign_history_harmless', 'spec_foreign_history_harmless']


def races(c, runner):
    """another author's deletion request overlapping the store of its target: the victim's store is paused at each
    yield point of its write transaction while the foreign request (naming the victim by id and, for addressable
    kinds, by address) is submitted; whatever the request returns, a victim whose store succeeded stays retrievable
    and unmarked (oracle: the property text)."""
    rng = c.rng
    Q = c.tier == 'quick'
    base = os.path.join(RUNDIR, 'C10r-%d' % os.getpid())
    os.makedirs(base, exist_ok=True)
    try:
        scen = []
        for k in range(3 if Q else 30):
            g = HistGen(rng, 'C10')
            va, fa = rng.sample(AUTHORS, 2)
            kind = [1, 30023, 10002][k % 3]
            x = g.new_event(kind=kind, pk=va, t=rng.choice([100, 1000]), tags=[[b'd', b'x']], content=b'victim')
            own = g.new_event(kind=1, pk=fa, content=b'own')
            tags = [[b'e', own['id'].hex().encode()]] if rng.random() < 0.5 else []
            tags.append([b'e', x['id'].hex().encode()])
            if kind != 1 and rng.random() < 0.5:
                tags.append([b'a', str(kind).encode() + b':' + va.hex().encode() + b':' + (b'x' if kind == 30023 else b'')])
            d = g.new_event(kind=5, pk=fa, t=2000, tags=tags, content=b'')
            pre = ['STO ' + ev_tok(own)]
            X, D = 'STO ' + ev_tok(x), 'STO ' + ev_tok(d)
            after = ['HAS ' + hx(x['id']), 'GID ' + hx(x['id']), 'DEL ' + hx(x['id']), 'HAS ' + hx(own['id'])]
            for p in STORE_POINTS:
                scen.append(dict(pre=pre, point=p, a=X, b=D, after=after, kind=kind))
        for s_, r in zip(scen, forced(c, base, scen)):
            if 'error' in r or 'HUNG' in r.get('raw', '') or 'panic' in r.get('raw', ''):
                c.violation('oracle', 'forced schedule did not complete: %s' % (r.get('error') or r['raw'])[:90], r['lines'])
                continue
            c.count('race:%d:%s' % (s_['kind'], 'reached' if r['reached'] else 'not-reached'))
            if not r['ra'].startswith('ok'):
                continue
            has, gid, dl, hown = r['after']
            if has != '1' or not gid.startswith('some') or dl != '0':
                c.violation('oracle', 'a deletion request of another author (reply %s) overlapping the store of its target (paused at %s): '
                            'the victim, stored successfully, is %s afterwards' % (r['rb'][:12], s_['point'],
                            'not retrievable' if has != '1' else 'marked deleted'), r['lines'])
                continue
            c.nontriv(('race', s_['kind'], s_['point'], r['lines'][-5][:60]))
    finally:
        shutil.rmtree(base, ignore_errors=True)


def near_keys(c, runner):
    """a requester whose key is ALMOST the victim's: equal except for one bit, for the ASCII-case bit of letter-valued
    bytes, for its first or last byte, byte-reversed, or equal as upper/lower-case hex text. The request names the victim's
    events by id and by address; whatever it replies, the victim's events stay retrievable, unmarked, and a later (older)
    event of the victim at the address is not refused as deleted (oracle: the property text)."""
    rng = c.rng
    Q = c.tier == 'quick'
    base = os.path.join(RUNDIR, 'C10k-%d' % os.getpid())
    os.makedirs(base, exist_ok=True)
    try:
        lines, meta = [], []
        victims = [bytes([0x41]) * 32, bytes([0x61]) * 32, bytes(range(0x41, 0x61)), bytes([0x5a, 0x7a] * 16), AUTHORS[0], bytes((7 * i + 3) % 251 for i in range(32))]
        for rep in range(2 if Q else 20):
            for va in victims:
                near = [bytes([va[0] ^ 0x20]) + va[1:], va[:31] + bytes([va[31] ^ 0x20]), va[:31] + bytes([va[31] ^ 1]),
                        bytes(x ^ 0x20 if (0x41 <= x <= 0x5a or 0x61 <= x <= 0x7a) else x for x in va), va[::-1],
                        bytes([va[0] ^ 0x80]) + va[1:],
                        # differences that cancel when the key is compared word by word and the differences are folded together:
                        # the same bit flipped in byte k and byte k+8 / k+16 / in all four words; two words swapped; equal halves
                        bytes(x ^ (0x01 if i in (3, 11) else 0) for i, x in enumerate(va)),
                        bytes(x ^ (0x40 if i in (0, 16) else 0) for i, x in enumerate(va)),
                        bytes(x ^ (0x02 if i % 8 == 5 else 0) for i, x in enumerate(va)),
                        va[8:16] + va[0:8] + va[16:], va[:16] + bytes(x ^ 0xff for x in va[16:]), bytes(x ^ 0xff for x in va[:16]) + va[16:]]
                for fa in near:
                    if fa == va:
                        continue
                    g = HistGen(rng, 'C10')
                    kind = rng.choice([30023, 10002, 0])
                    d = rng.choice([b'x', b'']) if kind == 30023 else b''
                    tg = [[b'd', d]] if kind == 30023 else []
                    v1 = g.new_event(kind=kind, pk=va, t=1000, tags=tg, content=b'victim')
                    v0 = g.new_event(kind=kind, pk=va, t=900, tags=tg, content=b'victim, older')
                    note = g.new_event(kind=1, pk=va, t=1000, tags=[], content=b'note')
                    addr = str(kind).encode() + b':' + va.hex().encode() + b':' + d
                    tags = rng.choice([[[b'a', addr]], [[b'a', addr], [b'e', note['id'].hex().encode()]], [[b'e', v1['id'].hex().encode()], [b'a', addr]],
                                       [[b'a', addr.upper() if rng.random() < 0.5 else addr]]])
                    req = g.new_event(kind=5, pk=fa, t=2000, tags=tags, content=b'')
                    start = len(lines)
                    lines += ['NEW %s -' % os.path.join(base, 'n%d' % len(meta)), 'STO ' + ev_tok(v1), 'STO ' + ev_tok(note), 'STO ' + ev_tok(req),
                              'HAS ' + hx(v1['id']), 'HAS ' + hx(note['id']), 'DEL ' + hx(v1['id']), 'DEL ' + hx(note['id']),
                              'NAD %d %s %s' % (kind, hx(va), hx(d)), 'REM ' + hx(v1['id']), 'STO ' + ev_tok(v0), 'RMD']
                    meta.append((start, va, fa))
        out = c.worker.run(lines)
        c.evaluations += len(meta)
        for start, va, fa in meta:
            r = out[start:start + 12]
            rep = lines[start:start + 11]
            rq, h1, h2, d1, d2, nad, rem, older = r[3], r[4], r[5], r[6], r[7], r[8], r[9], r[10]
            c.count('near_key_request:' + rq.split(' ')[0])
            why = None
            if h1 != '1' or h2 != '1':
                why = "the victim's event is no longer retrievable"
            elif d1 != '0' or d2 != '0':
                why = "the victim's event carries a deletion marker"
            elif nad not in ('none', 'no'):
                why = "the victim's address carries a deletion marker (%s)" % nad[:20]
            elif not older.startswith('ok'):
                why = "a later event of the victim at the address is refused (%s)" % older[:12]
            if why:
                c.violation('oracle', 'a deletion request (reply %s) by a key that differs from the victim\'s key only slightly: %s' % (rq[:10], why), rep)
            else:
                c.nontriv(('near', hx(va)[:8], hx(fa)[:8], rq[:8]))
    finally:
        shutil.rmtree(base, ignore_errors=True)


def reader_slots_exhausted(c, runner):
    """fault injection: the request arrives while every LMDB reader slot is taken (126 open read transactions - a relay under
    load), so the lookup of a named target FAILS rather than answering. Whatever the request replies, another author's events
    stay retrievable and unmarked once the readers are gone (oracle: the property text; no model involved)."""
    rng = c.rng
    Q = c.tier == 'quick'
    base = os.path.join(RUNDIR, 'C10f-%d' % os.getpid())
    os.makedirs(base, exist_ok=True)
    try:
        lines, meta = [], []
        for k in range(12 if Q else 150):
            g = HistGen(rng, 'C10')
            va, fa = rng.sample(AUTHORS, 2)
            kind = [1, 30023, 10002, 1][k % 4]
            d = b'x' if kind == 30023 else b''
            x = g.new_event(kind=kind, pk=va, t=1000, tags=[[b'd', d]] if kind == 30023 else [], content=b'victim')
            own = g.new_event(kind=1, pk=fa, t=1000, tags=[], content=b'own')
            tags = []
            if rng.random() < 0.5:
                tags.append([b'e', own['id'].hex().encode()])
            tags.append([b'e', x['id'].hex().encode()])
            if kind != 1 and rng.random() < 0.6:
                tags.insert(rng.randrange(len(tags) + 1), [b'a', str(kind).encode() + b':' + va.hex().encode() + b':' + d])
            req = g.new_event(kind=5, pk=fa, t=2000, tags=tags, content=b'')
            nheld = rng.choice([126, 126, 200, 125, 124])
            start = len(lines)
            lines += ['NEW %s -' % os.path.join(base, 'f%d' % k), 'STO ' + ev_tok(x), 'STO ' + ev_tok(own),
                      'RDF %d STO %s' % (nheld, ev_tok(req)),
                      'HAS ' + hx(x['id']), 'GID ' + hx(x['id']), 'DEL ' + hx(x['id']), 'NAD %d %s %s' % (kind, hx(va), hx(d)),
                      'HAS ' + hx(req['id']), 'RMD']
            meta.append((start, kind, nheld))
        out = c.worker.run(lines)
        c.evaluations += len(meta)
        for start, kind, nheld in meta:
            r = out[start:start + 10]
            rep = lines[start:start + 9]
            rq, has, gid, dl, nad, hreq = r[3], r[4], r[5], r[6], r[7], r[8]
            c.count('readers_full_request:%s' % ' '.join(rq.split(' ')[:2])[:24])
            if not rq.startswith('held='):
                c.violation('oracle', 'request under exhausted reader slots did not complete: %s' % rq[:60], rep)
                continue
            why = None
            if has != '1' or not gid.startswith('some'):
                why = "the victim's event is no longer retrievable"
            elif dl != '0':
                why = "the victim's event carries a deletion marker"
            elif kind != 1 and nad not in ('none', 'no'):
                why = "the victim's address carries a deletion marker (%s)" % nad[:20]
            if why:
                c.violation('oracle', 'a deletion request of another author arriving while all reader slots are taken (%s): %s' % (rq[:24], why), rep)
            else:
                c.nontriv(('readers-full', kind, nheld, rq[:20]))
    finally:
        shutil.rmtree(base, ignore_errors=True)


def both(c, runner):
    races(c, runner)
    near_keys(c, runner)
    reader_slots_exhausted(c, runner)


def run():
    run_store('C10', THEOREMS, """Focus: kind-5 requests with 0-5 e/a tags in every order mixing own / foreign / absent / malformed targets (bad hex, two-part address, non-numeric or +-prefixed kind, upper-case hex, address with a stray identifier); oracle: every event of another author that was retrievable before the request is retrievable and unmarked after it, no marker of another author's address changes, and a request naming a foreign target is refused as a whole.""", {'reply', 'live', 'markers', 'foreign'}, relevant={'STO', 'HAS', 'DEL', 'NAD'}, extra=both)
