"""C16 — Reopen and rebuild preserve everything observable."""
from ._store import run_store

THEOREMS = ['reopen_preserves', 'rebuild_preserves_markers', 'rebuild_preserves_events', 'rebuild_getById', 'rebuild_compacts', 'rebuild_inv', 'spec_rebuild_preserves']


def run():
    run_store('C16', THEOREMS, """Focus: reopen / rebuild inserted at every position of histories containing removed, replaced, deleted, ephemeral and failed-store leftovers, markers with empty / long / binary identifiers, repeated rebuilds, 0-2 extra tables with rows; oracle (model-free): battery before = battery after; after rebuild the event space equals that of the retrievable events alone (8-byte alignment per event) and both backup files exist.""", {'reply', 'live', 'markers', 'extra', 'preserve', 'bytes'}, relevant={'OPN', 'RBD', 'XPT', 'XDP', 'STA', 'OFF', 'MLN'})
