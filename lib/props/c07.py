"""C07 — filter JSON parsing is faithful, order-independent and round-trips."""
import itertools, json
from ..common import Check, hx, tags_tok
from .. import jsongen

THEOREMS = ['parseFilter_total', 'since_until_literal', 'since_until_wide_rejected', 'kind_member_bound',
            'duplicate_letter_rejected', 'round_trip', 'round_trip_values', 'accepted_is_wellformed',
            'any_order_any_whitespace_unknown_members', 'accepts_characterised', 'repeated_member_refused',
            'order_independent', 'acceptance_order_independent', 'filter_layout_from_source', 'tag_table_from_source', 'tag_member_letter_from_source', 'filter_header_from_source', 'filter_arrays_from_source']


def acc_values(a):
    t = a.split(' ')
    ls = lambda s: [] if s == '_' else s.split(',')
    tags = {}
    order = []
    if t[4] != '_':
        for tg in t[4].split(';'):
            ss = [bytes.fromhex(x) if x != '-' else b'' for x in tg.split(',')] if tg != '.' else []
            if ss:
                tags[ss[0].decode('latin1')] = ss[1:]
                order.append(ss[0].decode('latin1'))
    return dict(ids=[bytes.fromhex(x) for x in ls(t[1])], authors=[bytes.fromhex(x) for x in ls(t[2])],
                kinds=[int(x) for x in ls(t[3])], since=int(t[5]), until=int(t[6]), limit=int(t[7]), tags=tags), \
        (bytes.fromhex(t[8]) if t[8] not in ('jsonerr', 'panic') else None)


def run():
    c = Check('C07', THEOREMS, assumptions=[
        'NIP-01 filters: tag members are single ASCII letters; unknown members of any JSON shape',
        'unknown members: any JSON value nested at most 64 deep (deeper ones are refused by the code)'])
    c.rule = ('filter texts from a value tree: every subset of members, random and (thorough) exhaustive orders, whitespace, escapes in tag '
              'values, unknown members; all 52x52 ordered letter pairs; integer boundaries; each accepted filter serialized with as_json, '
              'checked with Python json and re-parsed. non-trivial = distinct accepted text whose accessors matched the independent parser')
    c.setup()
    c.prove()
    rng = c.rng
    Q = c.tier == 'quick'
    cases = []
    for _ in range(1200 if Q else 20000):
        f = jsongen.rand_filter_values(rng)
        cases.append((jsongen.render_filter(rng, f, unknown=rng.choice([0, 0, 1, 2])), 'accept', f))
    # order independence: one tree, several orders
    groups = []
    for _ in range(60 if Q else 600):
        f = jsongen.rand_filter_values(rng)
        names = list(f.keys())
        perms = list(itertools.permutations(names)) if len(names) <= (4 if Q else 6) else [tuple(rng.sample(names, len(names))) for _ in range(24)]
        if len(perms) > (24 if Q else 720):
            perms = rng.sample(perms, 24 if Q else 720)
        g = []
        for p in perms:
            g.append(len(cases))
            cases.append((jsongen.render_filter(rng, f, order=list(p), ws=False), 'accept', f))
        groups.append(g)
    # not-well-formed member lists must also be order independent (duplicates, bad values)
    badgroups = []
    for _ in range(40 if Q else 400):
        f = jsongen.rand_filter_values(rng)
        f.setdefault('kinds', [1])
        bad = rng.choice([('kinds', b'[65536]'), ('since', b'18446744073709551616'), ('ids', b'["zz"]'), ('limit', b'"x"'), ('until', b'-1'),
                          ('authors', b'[1]')])
        f.setdefault(bad[0], [] if bad[0] in ('ids', 'authors', 'kinds') else 0)
        names = list(f.keys())
        g = []
        for _ in range(6):
            rng.shuffle(names)
            g.append(len(cases))
            cases.append((jsongen.render_filter(rng, f, order=list(names), ws=False, overrides={bad[0]: bad[1]}), 'any', None))
        badgroups.append(g)
    # all ordered letter pairs
    pair_at = {}
    for x in jsongen.LETTERS:
        for y in jsongen.LETTERS:
            pair_at[(x, y)] = len(cases)
            cases.append((('{"#%s":["v"],"#%s":["w"]}' % (x, y)).encode(), 'accept' if x != y else 'reject', None))
    for sz in (3, 10, 31, 32, 33, 40, 51, 52):
        ls = rng.sample(jsongen.LETTERS, sz)
        cases.append((('{' + ','.join('"#%s":["%s"]' % (l, l) for l in ls) + '}').encode(), 'accept', {('#' + l): [l] for l in ls}))
        # ... and the same set followed by one letter again: a duplicate, wherever the table of tag members ends
        cases.append((('{' + ','.join('"#%s":["%s"]' % (l, l) for l in ls + [rng.choice(ls)]) + '}').encode(), 'reject', None))
    # unknown members whose key looks almost like a tag member: '#' + any printable non-letter, '#' alone, '#' + two letters
    for ch in [chr(b) for b in range(0x20, 0x7f) if not chr(b).isalpha() and chr(b) not in '"\\']:
        for val in ('["x"]', '7', '{"a":[1]}'):
            cases.append((('{"kinds":[1],"#%s":%s}' % (ch, val)).encode(), 'accept', {'kinds': [1]}))
    for key in ('#', '#ee', '#e1', '##', 'e'):
        for val in ('["x"]', 'null'):
            cases.append((('{"#e":["v"],"%s":%s,"limit":3}' % (key, val)).encode(), 'accept', {'#e': ['v'], 'limit': 3}))
    # tag values of exactly 64 bytes (the length of a hex id / key, for which #e and #p values may take a shortcut) and around it,
    # made of characters that need escaping, for e / p and two other letters
    for _ in range(40 if Q else 400):
        l = rng.choice(['e', 'p', 'e', 'p', 'E', 'a', 't'])
        n = rng.choice([64, 64, 64, 63, 65, 32, 128])
        special = rng.choice(['"', '\\', '\n', '\x00', '\x1f', '\u00e9', '\u20ac', '\t', '/'])
        body = []
        size = 0
        while size < n:
            ch = special if rng.random() < 0.2 else rng.choice('0123456789abcdef')
            if size + len(ch.encode('utf8')) > n:
                ch = '0'
            body.append(ch)
            size += len(ch.encode('utf8'))
        val = ''.join(body)
        f = {'#' + l: [val] + ([rng.choice(['x', val])] if rng.random() < 0.4 else [])}
        if rng.random() < 0.5:
            f['kinds'] = [1]
        cases.append((jsongen.render_filter(rng, f, ws=False), 'accept', f))
    # integers
    for name, vals in (('limit', [0, 2 ** 32 - 1, 2 ** 32, 2 ** 32 + 5, 2 ** 64 - 1, 2 ** 64, 10 ** 30]),
                       ('since', [0, 2 ** 64 - 1, 2 ** 64, 2 ** 64 + 7, 10 ** 30]), ('until', [0, 2 ** 64 - 1, 2 ** 64, 10 ** 25])):
        for v in vals:
            cases.append((('{"%s":%d}' % (name, v)).encode(), 'int', (name, v)))
    for k in (0, 65535, 65536, 2 ** 32, 2 ** 64, 10 ** 30):
        cases.append((('{"kinds":[1,%d]}' % k).encode(), 'accept' if k <= 65535 else 'reject', None if k > 65535 else {'kinds': [1, k]}))
    for txt in (b'{"ids":[],"ids":[]}', b'{"since":1,"since":1}', b'{"#e":[],"#e":[]}', b'{"limit":1,"kinds":[],"limit":1}'):
        cases.append((txt, 'reject', None))
    lines = ['FLJ %s %d %d' % (hx(t), 4096, rng.randrange(1, 1 << 40)) for t, _, _ in cases]
    w, m = c.run_both(lines)
    c.evaluations += len(lines)
    acc = []
    for i, ((txt, expect, f), l, a, b) in enumerate(zip(cases, lines, w, m)):
        cls = a.split(' ')[0]
        c.count('%s:%s' % (expect, cls))
        if cls in ('panic', 'ABORT', 'HANG', 'GUARD'):
            c.violation('oracle', 'Filter::from_json did not return: %s' % a[:60], [l])
            continue
        if a != b:
            c.violation('corr', 'from_json: impl %s model %s' % (a[:60], b[:60]), [l], found=False)
        if expect == 'accept' and cls != 'ok':
            c.violation('oracle', 'a valid NIP-01 filter was rejected', [l, '# ' + repr(txt[:300])])
        if expect == 'reject' and cls == 'ok':
            c.violation('oracle', 'a filter that must be rejected (duplicate member or out-of-range integer) was accepted', [l, '# ' + repr(txt[:200])])
        if cls == 'ok':
            t = a.split(' ')
            if expect == 'accept' and int(t[1]) != len(txt):
                c.violation('oracle', 'consumed %s, text length %d' % (t[1], len(txt)), [l])
            n = int(t[2])
            acc.append((i, 'FLA ' + t[3][:2 * n], t[3][:2 * n]))
    wa, ma = c.run_both([x[1] for x in acc])
    c.evaluations += len(acc)
    vals_of = {}
    rt = []
    for (i, req, bts), a, b in zip(acc, wa, ma):
        txt, expect, f = cases[i]
        if a != b:
            c.violation('corr', 'accessors: impl %s model %s' % (a[:70], b[:70]), [req], found=False)
        if a.split(' ')[0] != 'ok':
            c.violation('oracle', 'accessors failed on a parsed filter: %s' % a[:40], [req])
            continue
        got, js = acc_values(a)
        vals_of[i] = got
        if expect == 'accept' and f is not None:
            want = jsongen.expected_filter(f)
            if got != want:
                c.violation('oracle', 'accessors disagree with the independent parser', [lines[i], '# got %r' % (got,), '# want %r' % (want,)])
            else:
                c.nontriv(lines[i][:500])
        if expect == 'int':
            name, v = f
            lim = {'limit': 2 ** 32 - 1, 'since': 2 ** 64 - 1, 'until': 2 ** 64 - 1}[name]
            if got[name] != v and not (name == 'limit' and v > lim and got[name] == lim):
                c.violation('oracle', '%s literal %d was read as %d (wrapped)' % (name, v, got[name]), [lines[i]])
        if js is None:
            c.violation('oracle', 'as_json failed', [req])
        else:
            try:
                json.loads(js.decode('utf8'))
                rt.append((i, js, bts))
            except Exception:
                c.violation('oracle', 'as_json is not valid JSON: %r' % js[:200], [req])
    for expect_int in [(i, cases[i]) for i in range(len(cases)) if cases[i][1] == 'int']:
        i, (txt, _, (name, v)) = expect_int
        lim = {'limit': None, 'since': 2 ** 64 - 1, 'until': 2 ** 64 - 1}[name]
        if lim is not None and v > lim and w[i].startswith('ok'):
            c.violation('oracle', '%s literal %d accepted' % (name, v), [lines[i]])
    # order independence
    for g in groups + badgroups:
        classes = {w[i].split(' ')[0] for i in g}
        if len(classes) > 1:
            c.violation('oracle', 'acceptance depends on member order', [lines[i] for i in g[:6]])
            continue
        vs = [vals_of.get(i) for i in g if i in vals_of]
        if any(v != vs[0] for v in vs):
            c.violation('oracle', 'meaning depends on member order', [lines[i] for i in g[:6]])
    # round trip through as_json
    l2 = ['FLJ %s %d %d' % (hx(js), len(bts) // 2 + rng.choice([0, 3, 100]), rng.randrange(1, 1 << 40)) for _, js, bts in rt]
    w2, m2 = c.run_both(l2)
    c.evaluations += len(l2)
    for (i, js, bts), l, a, b in zip(rt, l2, w2, m2):
        if a != b:
            c.violation('corr', 'reparse: impl %s model %s' % (a[:60], b[:60]), [l], found=False)
        if not a.startswith('ok') or a.split(' ')[3][:2 * int(a.split(' ')[2])] != bts:
            c.violation('oracle', 'parse(as_json(f)) is not byte-identical to f', [l, '# f: ' + bts[:400], '# json: ' + repr(js[:300])])
    c.sample({'text': repr(cases[0][0][:200]), 'impl': w[0][:120]})
    c.extra['letter_pairs_exhaustive'] = 52 * 52
    c.finish()
