"""C05 — queries return exactly the matching events, newest first, newest-k under limit."""
import os, shutil
from ._store import run_store
from ..common import RUNDIR

THEOREMS = ['findEvents_sound', 'findEvents_nip01', 'redacted_sound', 'scrape_gate', 'findEvents_total', 'findEvents_exact', 'plan_independent', 'newest_under_limit', 'answer_characterised',
            'index_key_order', 'index_range_bounds', 'tag_index_range_bounds', 'time_index_scan', 'author_index_scan', 'author_kind_index_scan', 'tag_index_scan', 'author_tag_index_scan', 'kind_tag_index_scan', 'tag_rows_are_dumped_keys', 'index_padding_from_source', 'keys_from_source', 'iter_bounds_from_source', 'scrape_gate_from_source']


def spanning(c, runner):
    """a query that is still running while other threads store: its answer is the set of matching retrievable events of ONE
    committed state, whichever index plan serves it - including the (author, replaceable kind) pairs of the authors+kinds plan
    (shared with C14: lib/conc.spanning_queries)"""
    from ..conc import spanning_queries
    base = os.path.join(RUNDIR, 'C05q-%d' % os.getpid())
    os.makedirs(base, exist_ok=True)
    try:
        spanning_queries(c, base, nrep=2 if c.tier == 'quick' else 12)
    finally:
        shutil.rmtree(base, ignore_errors=True)


def run():
    run_store('C05', THEOREMS, """Focus: ~40 filters after every step: every combination class of ids / authors / kinds / tag constraints with one or several letters and values (values taken from stored events and absent ones, multi-letter and empty names), windows incl. inverted, future, 0 and u64::MAX, limits 0,1,2,3,5,unset, screens all-match / by id parity (match, mismatch, redacted) / all-mismatch / all-redacted, scraping allowances; oracle: ValidAnswer of the property text (no duplicates, newest first, all qualifying if they fit the limit else the newest `limit` with ties at the cut free, redacted only if a matching event was screened redacted, refused as scraping only by the stated rule). non-trivial = distinct query with a non-empty valid answer.""",
              {'query', 'selffind'}, relevant={'FND', 'KYS'}, quick=(30, 25, 14), thorough=(500, 60, 25), extra=spanning)
