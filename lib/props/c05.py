"""C05 — queries return exactly the matching events, newest first, newest-k under limit."""
from ._store import run_store

THEOREMS = ['findEvents_sound', 'findEvents_nip01', 'redacted_sound', 'scrape_gate', 'findEvents_total', 'findEvents_exact', 'plan_independent', 'newest_under_limit', 'answer_characterised',
            'index_key_order', 'index_range_bounds', 'tag_index_range_bounds', 'time_index_scan', 'author_index_scan', 'author_kind_index_scan', 'tag_index_scan', 'author_tag_index_scan', 'kind_tag_index_scan', 'tag_rows_are_dumped_keys', 'index_padding_from_source', 'keys_from_source', 'iter_bounds_from_source', 'scrape_gate_from_source']


def run():
    run_store('C05', THEOREMS, """Focus: ~40 filters after every step: every combination class of ids / authors / kinds / tag constraints with one or several letters and values (values taken from stored events and absent ones, multi-letter and empty names), windows incl. inverted, future, 0 and u64::MAX, limits 0,1,2,3,5,unset, screens all-match / by id parity (match, mismatch, redacted) / all-mismatch / all-redacted, scraping allowances; oracle: ValidAnswer of the property text (no duplicates, newest first, all qualifying if they fit the limit else the newest `limit` with ties at the cut free, redacted only if a matching event was screened redacted, refused as scraping only by the stated rule). non-trivial = distinct query with a non-empty valid answer.""",
              {'query', 'selffind'}, relevant={'FND', 'KYS'}, quick=(30, 25, 14), thorough=(500, 60, 25))
