"""The abstract store specification (DESIGN.md Appendix D), in Python, written from the property
texts: the *direct oracle* for the store properties.  Independent of the Lean model and of the
Rust code; it predicts reply classes, the retrievable set, markers and the set of valid query
answers."""
from .gen import matches_spec, U64MAX, U32MAX


def is_repl(k):
    return k in (0, 3) or 10000 <= k < 20000


def is_param(k):
    return 30000 <= k < 40000


def is_eph(k):
    return 20000 <= k < 30000


def d_of(ev):
    for t in ev['tags']:
        if t and t[0] == b'd':
            return t[1] if len(t) > 1 else None
    return None


def addr_of(ev):
    if is_repl(ev['kind']):
        return (ev['kind'], ev['pk'], b'')
    if is_param(ev['kind']):
        d = d_of(ev)
        return None if d is None else (ev['kind'], ev['pk'], d)
    return None


def parse_u16(s):
    if s.startswith(b'+'):
        s = s[1:]
    if not s or not all(48 <= c <= 57 for c in s):
        return None
    v = int(s)
    return v if v <= 65535 else None


def parse_addr(b):
    parts = b.split(b':', 2)
    if len(parts) < 3:
        return None
    k = parse_u16(parts[0])
    if k is None:
        return None
    h = parts[1]
    if len(h) != 64 or not all(chr(c) in '0123456789abcdefABCDEF' for c in h):
        return None
    return (k, bytes.fromhex(h.decode()), parts[2])


def parse_id(b):
    if len(b) != 64 or not all(chr(c) in '0123456789abcdefABCDEF' for c in b):
        return None
    return bytes.fromhex(b.decode())


def ev_len(ev):
    return 144 + 4 + 2 * len(ev['tags']) + sum(2 + sum(2 + len(s) for s in t) for t in ev['tags']) + 4 + len(ev['content'])


def align8(n):
    return n if n % 8 == 0 else n + 8 - n % 8


class Abs:
    def __init__(self, tables=()):
        self.live = {}          # id -> ev
        self.del_ids = set()
        self.del_addr = {}      # (kind, pk, d) -> time
        self.log = {}           # offset -> ev   (current map file)
        self.end = 8
        self.extra = {t: {} for t in tables}

    def holders(self, addr):
        return [e for e in self.live.values() if addr_of(e) == addr]

    def store(self, ev):
        """returns reply class: ('ok', off) | 'dup' | 'deleted' | 'replaced' | 'invalid' | 'err'"""
        if ev['id'] in self.live:
            return 'dup'
        if ev['id'] in self.del_ids:
            return 'deleted'
        a = addr_of(ev)
        if a is not None and a in self.del_addr and ev['t'] <= self.del_addr[a]:
            return 'deleted'
        committed = dict(self.live)
        live = dict(self.live)
        if a is not None:
            hs = [h for h in live.values() if addr_of(h) == a]
            if any(h['t'] > ev['t'] for h in hs):
                return 'replaced'
            for h in hs:
                del live[h['id']]
        off = align8(self.end)
        self.log[off] = ev
        self.end = off + ev_len(ev)
        if not is_eph(ev['kind']):
            live[ev['id']] = ev
        if ev['kind'] == 5:
            di, da = set(self.del_ids), dict(self.del_addr)
            for t in ev['tags']:
                if len(t) < 2:
                    continue
                if t[0] == b'e':
                    i = parse_id(t[1])
                    if i is None or i == ev['id']:
                        continue
                    if i in committed:
                        if committed[i]['pk'] != ev['pk']:
                            return 'invalid'
                        live.pop(i, None)
                    di.add(i)
                elif t[0] == b'a':
                    ad = parse_addr(t[1])
                    if ad is None:
                        continue
                    k, pk, d = ad
                    if pk != ev['pk']:
                        return 'invalid'
                    if is_repl(k):
                        d = b''
                    if 35 + max(len(d), 182) > 511:
                        return 'err'
                    da[(k, pk, d)] = max(da.get((k, pk, d), 0), ev['t'])
                    if is_repl(k) or is_param(k):
                        for v in list(committed.values()):
                            if addr_of(v) == (k, pk, d) and v['t'] <= ev['t']:
                                live.pop(v['id'], None)
            self.del_ids, self.del_addr = di, da
        self.live = live
        return ('ok', off)

    def remove(self, i):
        self.live.pop(i, None)

    def vanish(self, pk):
        hexpk = pk.hex().encode()
        for e in list(self.live.values()):
            if e['pk'] == pk:
                del self.live[e['id']]
        for e in list(self.live.values()):
            if e['kind'] == 1059 and any(len(t) >= 2 and t[0] == b'p' and t[1] == hexpk for t in e['tags']):
                del self.live[e['id']]

    def rebuild(self):
        self.log = {}
        self.end = 8
        for i in sorted(self.live):
            off = align8(self.end)
            self.log[off] = self.live[i]
            self.end = off + ev_len(self.live[i])

    # ---- queries
    def valid_answer(self, f, screen, out_ids, redacted):
        return valid_answer(self.live, f, screen, out_ids, redacted)


def valid_answer(live, f, screen, out_ids, redacted):
    """None if `out_ids` is a valid answer to filter f over the retrievable events `live`, else a
    description of what is wrong (the property text of C05)"""
    limit = U32MAX if f['limit'] is None else f['limit']
    q = {e['id']: e for e in live.values() if matches_spec(f, e) and screen(e) == 'match'}
    if len(set(out_ids)) != len(out_ids):
        return 'duplicates in the answer'
    for i in out_ids:
        if i not in q:
            why = 'not retrievable' if i not in live else ('does not match' if not matches_spec(f, live[i]) else 'screened out')
            return 'returned event %s %s' % (i.hex()[:8], why)
    ts = [q[i]['t'] for i in out_ids]
    if any(ts[k] < ts[k + 1] for k in range(len(ts) - 1)):
        return 'not ordered newest first'
    if len(q) <= limit:
        if set(out_ids) != set(q):
            return 'missing %d of %d qualifying events' % (len(set(q) - set(out_ids)), len(q))
    else:
        if len(out_ids) != limit:
            return 'returned %d events, limit %d, %d qualify' % (len(out_ids), limit, len(q))
        if out_ids:
            oldest_in = min(ts)
            for i, e in q.items():
                if i not in out_ids and e['t'] > oldest_in:
                    return 'a newer qualifying event was left out under the limit'
    if redacted:
        if not any(matches_spec(f, e) and screen(e) == 'redacted' for e in live.values()):
            return 'redacted flag set though no matching event was screened as redacted'
    return None
