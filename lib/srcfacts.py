"""A small translator from /repo's CURRENT source to Lean: the facts the model otherwise states by hand.

Regenerated on every check run (`Check.setup`) into lean/Pocket/Src/{Kind,Hex,Consts}.lean; the property theorem files import it and
PROVE that the model agrees with what the source says now (`…_from_source` theorems).  Translated:

  * the three kind predicates of pocket-types/src/kind.rs (`is_replaceable`, `is_ephemeral`, `is_parameterized_replaceable`):
    their bodies, as Boolean expressions over the kind number (ranges with `.contains`, comparisons, `matches!` with
    literal / range patterns, `||`, `&&`, `!`, parentheses) — anything else is reported as untranslatable;
  * the 128-entry table HEX_INVERSE of pocket-types/src/macros.rs;
  * every integer `const` of pocket-types/src/** and pocket-db/src/** whose initialiser is integer arithmetic over literals and
    earlier constants (with `#[cfg(debug_assertions)]` / `#[cfg(not(debug_assertions))]` variants kept apart);
  * the length of the `start_tags` table of `parse_json_filter`.

What cannot be translated becomes a definition that does not elaborate (`untranslatable_source "…"`), so the theorem module of
the properties that depend on it no longer builds: a broken proof obligation, reported as such."""
import os, re

REPO = '/repo'
ROOT = os.path.dirname(os.path.dirname(os.path.abspath(__file__)))
OUTDIR = os.path.join(ROOT, 'lean', 'Pocket', 'Src')


class Untranslatable(Exception):
    pass


# ---------------------------------------------------------------- Rust boolean expressions over `self.0`

TOK = re.compile(r"""\s*(\|\||&&|\.\.=|\.\.|==|!=|<=|>=|<|>|!|\(|\)|\.contains|&self\.0|self\.0|matches!|,|\||0x[0-9a-fA-F_]+|[0-9][0-9_]*(?:u8|u16|u32|usize)?|b'[^'\\]'|[A-Za-z_][A-Za-z_0-9:]*)""")


def tokenize(src):
    pos, out = 0, []
    src = src.strip()
    while pos < len(src):
        m = TOK.match(src, pos)
        if not m:
            raise Untranslatable('unexpected text %r' % src[pos:pos + 30])
        out.append(m.group(1))
        pos = m.end()
    return out


def intlit(t):
    if re.fullmatch(r"b'[^'\\]'", t):
        return ord(t[2])
    t = t.replace('_', '')
    if re.fullmatch(r'0x[0-9a-fA-F]+', t):
        return int(t, 16)
    t = re.sub(r'(u8|u16|u32|usize)$', '', t)
    if not t.isdigit():
        raise Untranslatable('not an integer literal: %r' % t)
    return int(t)


class P:
    def __init__(self, toks):
        self.t, self.i = toks, 0

    def peek(self):
        return self.t[self.i] if self.i < len(self.t) else None

    def eat(self, x=None):
        t = self.peek()
        if t is None or (x is not None and t != x):
            raise Untranslatable('expected %r, found %r' % (x, t))
        self.i += 1
        return t

    def expr(self):
        l = [self.term()]
        while self.peek() == '||':
            self.eat()
            l.append(self.term())
        return l[0] if len(l) == 1 else '(' + ' || '.join(l) + ')'

    def term(self):
        l = [self.factor()]
        while self.peek() == '&&':
            self.eat()
            l.append(self.factor())
        return l[0] if len(l) == 1 else '(' + ' && '.join(l) + ')'

    def rng(self):
        lo = intlit(self.eat())
        op = self.eat()
        if op not in ('..', '..='):
            raise Untranslatable('expected a range, found %r' % op)
        hi = intlit(self.eat())
        return '(%d ≤ k && k %s %d)' % (lo, '<' if op == '..' else '≤', hi)

    def pattern(self):
        alts = []
        while True:
            a = self.eat()
            if self.peek() in ('..', '..='):
                self.i -= 1
                alts.append(self.rng())
            else:
                alts.append('(k == %d)' % intlit(a))
            if self.peek() == '|':
                self.eat()
                continue
            break
        return alts[0] if len(alts) == 1 else '(' + ' || '.join(alts) + ')'

    def factor(self):
        t = self.peek()
        if t == '!':
            self.eat()
            return '(!' + self.factor() + ')'
        if t == 'matches!':
            self.eat(); self.eat('('); self.eat('self.0'); self.eat(',')
            p = self.pattern()
            self.eat(')')
            return p
        if t == '(':
            # a parenthesised range followed by .contains(&self.0), or a parenthesised expression
            save = self.i
            self.eat()
            try:
                r = self.rng()
                self.eat(')')
                self.eat('.contains'); self.eat('('); self.eat('&self.0'); self.eat(')')
                return r
            except Untranslatable:
                self.i = save
            self.eat('(')
            e = self.expr()
            self.eat(')')
            return '(' + e + ')'
        if t == 'self.0':
            self.eat()
            op = self.eat()
            n = intlit(self.eat())
            m = {'==': '(k == %d)', '!=': '(k != %d)', '<': '(k < %d)', '<=': '(k ≤ %d)', '>': '(%d < k)', '>=': '(%d ≤ k)'}
            if op not in m:
                raise Untranslatable('comparison %r' % op)
            return m[op] % n
        if t is not None and (t[0].isdigit() or t.startswith("b'")):
            n = intlit(self.eat())
            op = self.eat()
            self.eat('self.0')
            m = {'==': '(k == %d)', '!=': '(k != %d)', '<': '(%d < k)', '<=': '(%d ≤ k)', '>': '(k < %d)', '>=': '(k ≤ %d)'}
            if op not in m:
                raise Untranslatable('comparison %r' % op)
            return m[op] % n
        raise Untranslatable('cannot translate %r' % t)


def fn_body(src, name):
    m = re.search(r'pub fn %s\(&self\) -> bool \{(.*?)\n    \}' % name, src, re.S)
    if not m:
        raise Untranslatable('fn %s(&self) -> bool not found' % name)
    body = re.sub(r'//[^\n]*', '', m.group(1)).strip()
    if ';' in body or 'let ' in body or 'if ' in body or 'match ' in body:
        raise Untranslatable('%s: the body is not a single Boolean expression' % name)
    return body


def translate_pred(src, name):
    body = fn_body(src, name)
    p = P(tokenize(body))
    e = p.expr()
    if p.peek() is not None:
        raise Untranslatable('%s: trailing %r' % (name, p.peek()))
    return e, body


# ---------------------------------------------------------------- constants

def eval_int(expr, env):
    e = re.sub(r'//.*', '', expr).strip()
    e = re.sub(r'\b(0b[01_]+|0x[0-9a-fA-F_]+|[0-9][0-9_]*)(?:u8|u16|u32|u64|usize|i32|i64)?\b', lambda m: str(int(m.group(1).replace('_', ''), 0)), e)
    e = e.replace('u64::MAX', str(2 ** 64 - 1)).replace('u32::MAX', str(2 ** 32 - 1)).replace('u16::MAX', '65535').replace('usize::MAX', str(2 ** 64 - 1))
    e = re.sub(r'\s+as\s+(u8|u16|u32|u64|usize)', '', e)
    for name in re.findall(r'[A-Za-z_][A-Za-z_0-9]*', e):
        if name in env:
            e = re.sub(r'\b%s\b' % name, str(env[name]), e)
    if not re.fullmatch(r'[0-9+\-*/()<>\s]+', e):
        return None
    try:
        v = eval(e.replace('/', '//'), {'__builtins__': {}})
    except Exception:
        return None
    return v if isinstance(v, int) and v >= 0 else None


def constants():
    out = []   # (relative file, NAME, variant, value)
    for crate in ('pocket-types/src', 'pocket-db/src'):
        for dp, _, fs in sorted(os.walk(os.path.join(REPO, crate))):
            for f in sorted(fs):
                if not f.endswith('.rs') or f == 'verif.rs':
                    continue
                path = os.path.join(dp, f)
                rel = os.path.relpath(path, REPO)
                lines = open(path, encoding='utf8', errors='replace').read().split('\n')
                env = {}
                for i, l in enumerate(lines):
                    m = re.match(r'\s*(?:pub(?:\([a-z]+\))?\s+)?const\s+([A-Z_][A-Z_0-9]*)\s*:\s*(u8|u16|u32|u64|usize)\s*=\s*(.*?);', l)
                    if not m:
                        continue
                    prev = lines[i - 1].strip() if i else ''
                    variant = 'debug' if prev == '#[cfg(debug_assertions)]' else 'release' if prev == '#[cfg(not(debug_assertions))]' else ''
                    v = eval_int(m.group(3), env)
                    if v is None:
                        continue
                    env[m.group(1)] = v
                    out.append((rel, m.group(1), variant, v))
    return out


def hex_inverse():
    src = open(os.path.join(REPO, 'pocket-types/src/macros.rs')).read()
    m = re.search(r'pub static HEX_INVERSE: \[u8; (\d+)\] = \{\s*const __: u8 = (\d+);\s*\[(.*?)\]\s*\};', src, re.S)
    if not m:
        raise Untranslatable('HEX_INVERSE: the table was not found in its known shape')
    body = re.sub(r'//[^\n]*', '', m.group(3))
    vals = [x.strip() for x in body.split(',') if x.strip()]
    tab = [int(m.group(2)) if x == '__' else int(x) for x in vals if x == '__' or x.isdigit()]
    if len(tab) != len(vals) or len(tab) != int(m.group(1)):
        raise Untranslatable('HEX_INVERSE: %d entries read, %s declared' % (len(tab), m.group(1)))
    return tab


def start_tags_len():
    src = open(os.path.join(REPO, 'pocket-types/src/filter.rs')).read()
    m = re.search(r'let mut start_tags: \[usize; (\d+)\] = \[usize::MAX; (\d+)\];', src)
    if not m or m.group(1) != m.group(2):
        raise Untranslatable('start_tags: the table declaration was not found in its known shape')
    return int(m.group(1))


def lean_ident(rel, name):
    base = os.path.splitext(os.path.basename(rel))[0]
    if base == 'mod':
        base = os.path.basename(os.path.dirname(rel))
    return 'c_%s_%s' % (base, name)


def safe_char_pred():
    """`is_safe_char(c)`: `let safe_ranges = [(a..=b), …]; safe_ranges.iter().any(|range| range.contains(&c))`"""
    src = open(os.path.join(REPO, 'pocket-types/src/json/json_escape.rs')).read()
    m = re.search(r'fn is_safe_char\(c: u32\) -> bool \{\s*let safe_ranges = \[(.*?)\];\s*safe_ranges\.iter\(\)\.any\(\|range\| range\.contains\(&c\)\)\s*\}', src, re.S)
    if not m:
        raise Untranslatable('is_safe_char: not in its known shape (a list of ranges, any contains)')
    parts = []
    for r in re.findall(r'\(([^()]*)\)', m.group(1)):
        p = P(tokenize(r))
        parts.append(p.rng())
        if p.peek() is not None:
            raise Untranslatable('is_safe_char: range %r' % r)
    if not parts:
        raise Untranslatable('is_safe_char: no ranges')
    return '(' + ' || '.join(parts) + ')', ' '.join(m.group(1).split())


def tag_member_letter_pred():
    """the letter test of a tag member `"#x"` in parse_json_filter: the condition on input[inpos + 1] between the test for `#`
    and the test for the closing quote"""
    src = open(os.path.join(REPO, 'pocket-types/src/filter.rs')).read()
    m = re.search(r"&& input\[inpos\] == b'#'\s*&&(.*?)&& input\[inpos \+ 2\] == b'\"'", src, re.S)
    if not m:
        raise Untranslatable('parse_json_filter: the tag-member test was not found in its known shape')
    body = ' '.join(m.group(1).split())
    e = body.replace('input[inpos + 1]', 'self.0')
    p = P(tokenize(e))
    out = p.expr()
    if p.peek() is not None:
        raise Untranslatable('tag-member test: trailing %r' % p.peek())
    return out, body


HEAD = ['/- GENERATED by lib/srcfacts.py from the current working tree of /repo on every check run.  Do not edit: edit the translator.',
        '   What the source says now; the `…_from_source` theorems (Pocket/Lemmas/FromSource*.lean, Pocket/Thm) prove that the model agrees. -/',
        'namespace Pocket.Src', '']


def generate():
    """returns ({file name: text}, report) — three files so that an untranslatable item breaks only the theorems that need it"""
    rep = {'translated': [], 'untranslatable': []}
    K = list(HEAD)
    ksrc = open(os.path.join(REPO, 'pocket-types/src/kind.rs')).read()
    for fn, lean in (('is_replaceable', 'kindIsReplaceable'), ('is_ephemeral', 'kindIsEphemeral'), ('is_parameterized_replaceable', 'kindIsParamReplaceable')):
        try:
            e, body = translate_pred(ksrc, fn)
            K += ['/-- `Kind::%s`: `%s` -/' % (fn, ' '.join(body.split())), 'def %s (k : Nat) : Bool := %s' % (lean, e), '']
            rep['translated'].append('kind.rs:' + fn)
        except Untranslatable as ex:
            K += ['/-- `Kind::%s` could not be translated: %s -/' % (fn, str(ex).replace('-/', '- /')),
                  'def %s (k : Nat) : Bool := untranslatable_source "%s"' % (lean, fn), '']
            rep['untranslatable'].append('kind.rs:%s: %s' % (fn, ex))
    K += ['end Pocket.Src', '']
    H = list(HEAD)
    try:
        tab = hex_inverse()
        H += ['/-- `HEX_INVERSE` (pocket-types/src/macros.rs) -/', 'def hexInverse : List Nat := %s' % tab, '']
        rep['translated'].append('macros.rs:HEX_INVERSE[%d]' % len(tab))
    except Untranslatable as ex:
        H += ['def hexInverse : List Nat := untranslatable_source "HEX_INVERSE"', '']
        rep['untranslatable'].append(str(ex))
    H += ['end Pocket.Src', '']
    E = list(HEAD)
    for fn, lean, doc in ((safe_char_pred, 'isSafeChar', '`is_safe_char` (json_escape.rs)'), (tag_member_letter_pred, 'tagMemberLetter', 'the letter test of a `"#x"` member in `parse_json_filter`')):
        try:
            e, body = fn()
            E += ['/-- %s: `%s` -/' % (doc, body.replace('-/', '- /')), 'def %s (k : Nat) : Bool := %s' % (lean, e), '']
            rep['translated'].append(lean)
        except Untranslatable as ex:
            E += ['/-- %s could not be translated: %s -/' % (doc, str(ex).replace('-/', '- /')), 'def %s (k : Nat) : Bool := untranslatable_source "%s"' % (lean, lean), '']
            rep['untranslatable'].append('%s: %s' % (lean, ex))
    E += ['end Pocket.Src', '']
    L = list(HEAD)
    try:
        n = start_tags_len()
        L += ['/-- length of the table of tag-member positions in `parse_json_filter` -/', 'def startTagsLen : Nat := %d' % n, '']
        rep['translated'].append('filter.rs:start_tags[%d]' % n)
    except Untranslatable as ex:
        L += ['def startTagsLen : Nat := untranslatable_source "start_tags"', '']
        rep['untranslatable'].append(str(ex))
    groups = {}
    for rel, name, variant, v in constants():
        groups.setdefault((lean_ident(rel, name) + ('_' + variant if variant else ''), rel, name), []).append(v)
    for (ident, rel, name), vs in sorted(groups.items()):
        L += ['/-- every `const %s` of %s, in file order -/' % (name, rel), 'def %s : List Nat := %s' % (ident, vs)]
        rep['translated'].append('%s:%s=%s' % (rel, name, vs))
    L += ['', 'end Pocket.Src', '']
    return {'Kind.lean': '\n'.join(K), 'Hex.lean': '\n'.join(H), 'Consts.lean': '\n'.join(L), 'Preds.lean': '\n'.join(E)}, rep


def write():
    files, rep = generate()
    os.makedirs(OUTDIR, exist_ok=True)
    for name, text in files.items():
        out = os.path.join(OUTDIR, name)
        old = open(out).read() if os.path.exists(out) else None
        if old != text:
            tmp = out + '.tmp%d' % os.getpid()
            with open(tmp, 'w') as f:
                f.write(text)
            os.replace(tmp, out)
    return rep


if __name__ == '__main__':
    r = write()
    for x in r['translated']:
        print('translated', x)
    for x in r['untranslatable']:
        print('UNTRANSLATABLE', x)
