"""A small translator from /repo's CURRENT source to Lean: the facts the model otherwise states by hand.

Regenerated on every check run (`Check.setup`) into lean/Pocket/Src/{Kind,Hex,Consts}.lean; the property theorem files import it and
PROVE that the model agrees with what the source says now (`…_from_source` theorems).  Translated:

  * the three kind predicates of pocket-types/src/kind.rs (`is_replaceable`, `is_ephemeral`, `is_parameterized_replaceable`):
    their bodies, as Boolean expressions over the kind number (ranges with `.contains`, comparisons, `matches!` with
    literal / range patterns, `||`, `&&`, `!`, parentheses) — anything else is reported as untranslatable;
  * the 128-entry table HEX_INVERSE of pocket-types/src/macros.rs;
  * every integer `const` of pocket-types/src/** and pocket-db/src/** whose initialiser is integer arithmetic over literals and
    earlier constants (with `#[cfg(debug_assertions)]` / `#[cfg(not(debug_assertions))]` variants kept apart);
  * the length of the `start_tags` table of `parse_json_filter`.

What cannot be translated becomes a definition that does not elaborate (`untranslatable_source "…"`), so the theorem module of
the properties that depend on it no longer builds: a broken proof obligation, reported as such."""
import os, re

REPO = '/repo'
ROOT = os.path.dirname(os.path.dirname(os.path.abspath(__file__)))
OUTDIR = os.path.join(ROOT, 'lean', 'Pocket', 'Src')


class Untranslatable(Exception):
    pass


# ---------------------------------------------------------------- Rust boolean expressions over `self.0`

TOK = re.compile(r"""\s*(\|\||&&|\.\.=|\.\.|==|!=|<=|>=|<|>|!|\(|\)|\.contains|&self\.0|self\.0|matches!|,|\||0x[0-9a-fA-F_]+|[0-9][0-9_]*(?:u8|u16|u32|usize)?|b'[^'\\]'|[A-Za-z_][A-Za-z_0-9:]*)""")


def tokenize(src):
    pos, out = 0, []
    src = src.strip()
    while pos < len(src):
        m = TOK.match(src, pos)
        if not m:
            raise Untranslatable('unexpected text %r' % src[pos:pos + 30])
        out.append(m.group(1))
        pos = m.end()
    return out


def intlit(t):
    if re.fullmatch(r"b'[^'\\]'", t):
        return ord(t[2])
    t = t.replace('_', '')
    if re.fullmatch(r'0x[0-9a-fA-F]+', t):
        return int(t, 16)
    t = re.sub(r'(u8|u16|u32|usize)$', '', t)
    if not t.isdigit():
        raise Untranslatable('not an integer literal: %r' % t)
    return int(t)


class P:
    def __init__(self, toks):
        self.t, self.i = toks, 0

    def peek(self):
        return self.t[self.i] if self.i < len(self.t) else None

    def eat(self, x=None):
        t = self.peek()
        if t is None or (x is not None and t != x):
            raise Untranslatable('expected %r, found %r' % (x, t))
        self.i += 1
        return t

    def expr(self):
        l = [self.term()]
        while self.peek() == '||':
            self.eat()
            l.append(self.term())
        return l[0] if len(l) == 1 else '(' + ' || '.join(l) + ')'

    def term(self):
        l = [self.factor()]
        while self.peek() == '&&':
            self.eat()
            l.append(self.factor())
        return l[0] if len(l) == 1 else '(' + ' && '.join(l) + ')'

    def rng(self):
        lo = intlit(self.eat())
        op = self.eat()
        if op not in ('..', '..='):
            raise Untranslatable('expected a range, found %r' % op)
        hi = intlit(self.eat())
        return '(%d ≤ k && k %s %d)' % (lo, '<' if op == '..' else '≤', hi)

    def pattern(self):
        alts = []
        while True:
            a = self.eat()
            if self.peek() in ('..', '..='):
                self.i -= 1
                alts.append(self.rng())
            else:
                alts.append('(k == %d)' % intlit(a))
            if self.peek() == '|':
                self.eat()
                continue
            break
        return alts[0] if len(alts) == 1 else '(' + ' || '.join(alts) + ')'

    def factor(self):
        t = self.peek()
        if t == '!':
            self.eat()
            return '(!' + self.factor() + ')'
        if t == 'matches!':
            self.eat(); self.eat('('); self.eat('self.0'); self.eat(',')
            p = self.pattern()
            self.eat(')')
            return p
        if t == '(':
            # a parenthesised range followed by .contains(&self.0), or a parenthesised expression
            save = self.i
            self.eat()
            try:
                r = self.rng()
                self.eat(')')
                self.eat('.contains'); self.eat('('); self.eat('&self.0'); self.eat(')')
                return r
            except Untranslatable:
                self.i = save
            self.eat('(')
            e = self.expr()
            self.eat(')')
            return '(' + e + ')'
        if t == 'self.0':
            self.eat()
            op = self.eat()
            n = intlit(self.eat())
            m = {'==': '(k == %d)', '!=': '(k != %d)', '<': '(k < %d)', '<=': '(k ≤ %d)', '>': '(%d < k)', '>=': '(%d ≤ k)'}
            if op not in m:
                raise Untranslatable('comparison %r' % op)
            return m[op] % n
        if t is not None and (t[0].isdigit() or t.startswith("b'")):
            n = intlit(self.eat())
            op = self.eat()
            self.eat('self.0')
            m = {'==': '(k == %d)', '!=': '(k != %d)', '<': '(%d < k)', '<=': '(%d ≤ k)', '>': '(k < %d)', '>=': '(k ≤ %d)'}
            if op not in m:
                raise Untranslatable('comparison %r' % op)
            return m[op] % n
        raise Untranslatable('cannot translate %r' % t)


def fn_body(src, name):
    m = re.search(r'pub fn %s\(&self\) -> bool \{(.*?)\n    \}' % name, src, re.S)
    if not m:
        raise Untranslatable('fn %s(&self) -> bool not found' % name)
    body = re.sub(r'//[^\n]*', '', m.group(1)).strip()
    if ';' in body or 'let ' in body or 'if ' in body or 'match ' in body:
        raise Untranslatable('%s: the body is not a single Boolean expression' % name)
    return body


def translate_pred(src, name):
    body = fn_body(src, name)
    p = P(tokenize(body))
    e = p.expr()
    if p.peek() is not None:
        raise Untranslatable('%s: trailing %r' % (name, p.peek()))
    return e, body


# ---------------------------------------------------------------- constants

def eval_int(expr, env):
    e = re.sub(r'//.*', '', expr).strip()
    e = re.sub(r'\b(0b[01_]+|0x[0-9a-fA-F_]+|[0-9][0-9_]*)(?:u8|u16|u32|u64|usize|i32|i64)?\b', lambda m: str(int(m.group(1).replace('_', ''), 0)), e)
    e = e.replace('u64::MAX', str(2 ** 64 - 1)).replace('u32::MAX', str(2 ** 32 - 1)).replace('u16::MAX', '65535').replace('usize::MAX', str(2 ** 64 - 1))
    e = re.sub(r'\s+as\s+(u8|u16|u32|u64|usize)', '', e)
    for name in re.findall(r'[A-Za-z_][A-Za-z_0-9]*', e):
        if name in env:
            e = re.sub(r'\b%s\b' % name, str(env[name]), e)
    if not re.fullmatch(r'[0-9+\-*/()<>\s]+', e):
        return None
    try:
        v = eval(e.replace('/', '//'), {'__builtins__': {}})
    except Exception:
        return None
    return v if isinstance(v, int) and v >= 0 else None


def constants():
    out = []   # (relative file, NAME, variant, value)
    for crate in ('pocket-types/src', 'pocket-db/src'):
        for dp, _, fs in sorted(os.walk(os.path.join(REPO, crate))):
            for f in sorted(fs):
                if not f.endswith('.rs') or f == 'verif.rs':
                    continue
                path = os.path.join(dp, f)
                rel = os.path.relpath(path, REPO)
                lines = open(path, encoding='utf8', errors='replace').read().split('\n')
                env = {}
                for i, l in enumerate(lines):
                    m = re.match(r'\s*(?:pub(?:\([a-z]+\))?\s+)?const\s+([A-Z_][A-Z_0-9]*)\s*:\s*(u8|u16|u32|u64|usize)\s*=\s*(.*?);', l)
                    if not m:
                        continue
                    prev = lines[i - 1].strip() if i else ''
                    variant = 'debug' if prev == '#[cfg(debug_assertions)]' else 'release' if prev == '#[cfg(not(debug_assertions))]' else ''
                    v = eval_int(m.group(3), env)
                    if v is None:
                        continue
                    env[m.group(1)] = v
                    out.append((rel, m.group(1), variant, v))
    return out


def hex_inverse():
    src = open(os.path.join(REPO, 'pocket-types/src/macros.rs')).read()
    m = re.search(r'pub static HEX_INVERSE: \[u8; (\d+)\] = \{\s*const __: u8 = (\d+);\s*\[(.*?)\]\s*\};', src, re.S)
    if not m:
        raise Untranslatable('HEX_INVERSE: the table was not found in its known shape')
    body = re.sub(r'//[^\n]*', '', m.group(3))
    vals = [x.strip() for x in body.split(',') if x.strip()]
    tab = [int(m.group(2)) if x == '__' else int(x) for x in vals if x == '__' or x.isdigit()]
    if len(tab) != len(vals) or len(tab) != int(m.group(1)):
        raise Untranslatable('HEX_INVERSE: %d entries read, %s declared' % (len(tab), m.group(1)))
    return tab


def start_tags_len():
    src = open(os.path.join(REPO, 'pocket-types/src/filter.rs')).read()
    m = re.search(r'let mut start_tags: \[usize; (\d+)\] = \[usize::MAX; (\d+)\];', src)
    if not m or m.group(1) != m.group(2):
        raise Untranslatable('start_tags: the table declaration was not found in its known shape')
    return int(m.group(1))


def lean_ident(rel, name):
    base = os.path.splitext(os.path.basename(rel))[0]
    if base == 'mod':
        base = os.path.basename(os.path.dirname(rel))
    return 'c_%s_%s' % (base, name)


def safe_char_pred():
    """`is_safe_char(c)`: `let safe_ranges = [(a..=b), …]; safe_ranges.iter().any(|range| range.contains(&c))`"""
    src = open(os.path.join(REPO, 'pocket-types/src/json/json_escape.rs')).read()
    m = re.search(r'fn is_safe_char\(c: u32\) -> bool \{\s*let safe_ranges = \[(.*?)\];\s*safe_ranges\.iter\(\)\.any\(\|range\| range\.contains\(&c\)\)\s*\}', src, re.S)
    if not m:
        raise Untranslatable('is_safe_char: not in its known shape (a list of ranges, any contains)')
    parts = []
    for r in re.findall(r'\(([^()]*)\)', m.group(1)):
        p = P(tokenize(r))
        parts.append(p.rng())
        if p.peek() is not None:
            raise Untranslatable('is_safe_char: range %r' % r)
    if not parts:
        raise Untranslatable('is_safe_char: no ranges')
    return '(' + ' || '.join(parts) + ')', ' '.join(m.group(1).split())


def tag_member_letter_pred():
    """the letter test of a tag member `"#x"` in parse_json_filter: the condition on input[inpos + 1] between the test for `#`
    and the test for the closing quote"""
    src = open(os.path.join(REPO, 'pocket-types/src/filter.rs')).read()
    m = re.search(r"&& input\[inpos\] == b'#'\s*&&(.*?)&& input\[inpos \+ 2\] == b'\"'", src, re.S)
    if not m:
        raise Untranslatable('parse_json_filter: the tag-member test was not found in its known shape')
    body = ' '.join(m.group(1).split())
    e = body.replace('input[inpos + 1]', 'self.0')
    p = P(tokenize(e))
    out = p.expr()
    if p.peek() is not None:
        raise Untranslatable('tag-member test: trailing %r' % p.peek())
    return out, body



# ---------------------------------------------------------------- the key builders and range bounds of lmdb/mod.rs

def strip_comments_rs(t):
    return re.sub(r'//[^\n]*', '', t)


def fn_text(src, name):
    """(parameter text, body text) of `fn name…(…) … { … }` by brace matching"""
    m = re.search(r'fn %s(?:<[^>]*>)?\s*\(' % re.escape(name), src)
    if not m:
        m = re.search(r'fn %s<' % re.escape(name), src)      # generic parameters with nested angle brackets
        if not m:
            raise Untranslatable('fn %s not found' % name)
        depth, g = 1, m.end()
        while depth:
            depth += (src[g] == '<') - (src[g] == '>')
            g += 1
        m = re.compile(r'\s*\(').match(src, g)
        if not m:
            raise Untranslatable('fn %s: no parameter list' % name)
    i = m.end()
    depth, j = 1, i
    while depth:
        c = src[j]
        depth += (c == '(') - (c == ')')
        j += 1
    params = src[i:j - 1]
    k = src.index('{', j)
    depth, e = 1, k + 1
    while depth:
        c = src[e]
        depth += (c == '{') - (c == '}')
        e += 1
    return strip_comments_rs(params), strip_comments_rs(src[k + 1:e - 1])


VARS = {'created_at': ('t', 'Nat'), 'id': ('id', 'Bytes'), 'letter': ('letter', 'Nat'), 'tag_value': ('value', 'Bytes'),
        'author': ('author', 'Bytes'), 'kind': ('kind', 'Nat'), 'tagbyte': ('letter', 'Nat'), 'tagvalue': ('value', 'Bytes'),
        'since': ('since', 'Nat'), 'until': ('«until»', 'Nat')}


def params_of(ptxt, skip=()):
    out = []
    for part in ptxt.split(','):
        part = part.strip()
        if not part or part.startswith('&') and 'self' in part:
            continue
        name = part.split(':')[0].strip()
        if name in skip:
            continue
        if name not in VARS:
            raise Untranslatable('parameter %r' % name)
        out.append(VARS[name])
    return out


def key_expr(arg, padlen):
    a = re.sub(r'\s+', '', arg)
    table = {
        '(u64::MAX-*created_at.deref()).to_be_bytes().as_slice()': 'be64 (U64MAX - t)',
        'id.as_slice()': 'id', 'author.as_slice()': 'author', 'kind.deref().to_be_bytes()': 'be16 kind', 'tag_value': 'value',
    }
    if a in table:
        return table[a]
    if padlen is not None:
        if a == 'core::iter::repeat(0).take(PADLEN-tag_value.len())':
            return 'List.replicate (%d - value.length) 0' % padlen
        if a == '&tag_value[..PADLEN]':
            return 'value.take %d' % padlen
    raise Untranslatable('key expression %r' % arg.strip()[:60])


def key_block(body, padlen):
    """statements appending to `key` -> list of Lean byte-list expressions"""
    out, pos = [], 0
    body = body.strip()
    while pos < len(body):
        rest = body[pos:].lstrip()
        pos = len(body) - len(rest)
        if not rest:
            break
        m = re.match(r'const PADLEN: usize = (\d+);', rest)
        if m:
            padlen = int(m.group(1)); pos += m.end(); continue
        if rest.startswith('let mut key: Vec<u8> ='):
            pos += rest.index(';') + 1; continue
        m = re.match(r'key\.(extend|push)\(', rest)
        if m:
            i = m.end(); depth = 1; j = i
            while depth:
                depth += (rest[j] == '(') - (rest[j] == ')'); j += 1
            arg = rest[i:j - 1]
            if rest[j:j + 1] != ';':
                raise Untranslatable('statement after %r' % rest[:40])
            if m.group(1) == 'push':
                if arg.strip() != 'letter':
                    raise Untranslatable('push(%s)' % arg)
                out.append('[letter]')
            else:
                out.append(key_expr(arg, padlen))
            pos += j + 1; continue
        m = re.match(r'if\s+(.*?)\s*\{', rest, re.S)
        if m:
            cond = re.sub(r'\s+', '', m.group(1))
            if cond != 'tag_value.len()<=PADLEN' or padlen is None:
                raise Untranslatable('condition %r' % m.group(1))
            i = m.end(); depth = 1; j = i
            while depth:
                depth += (rest[j] == '{') - (rest[j] == '}'); j += 1
            then_b = rest[i:j - 1]
            m2 = re.match(r'\s*else\s*\{', rest[j:])
            if not m2:
                raise Untranslatable('if without else')
            i2 = j + m2.end(); depth = 1; j2 = i2
            while depth:
                depth += (rest[j2] == '{') - (rest[j2] == '}'); j2 += 1
            else_b = rest[i2:j2 - 1]
            tl, _ = key_block(then_b, padlen)
            el, _ = key_block(else_b, padlen)
            out.append('(if value.length ≤ %d then %s else %s)' % (padlen, ' ++ '.join(tl) or '[]', ' ++ '.join(el) or '[]'))
            pos += j2; continue
        if rest.strip() == 'key':
            break
        raise Untranslatable('statement %r' % rest[:50])
    return out, padlen


KEYFNS = [('ci', 'keyCi'), ('tc', 'keyTc'), ('ac', 'keyAc'), ('akc', 'keyAkc'), ('atc', 'keyAtc'), ('ktc', 'keyKtc')]


def keys_file(rep):
    src = open(os.path.join(REPO, 'pocket-db/src/lmdb/mod.rs')).read()
    L = ['import Pocket.Model.Keys'] + list(HEAD)
    for tab, lean in KEYFNS:
        # the key builder
        try:
            ptxt, body = fn_text(src, 'key_%s_index' % tab)
            ps = params_of(ptxt)
            parts, _ = key_block(body, None)
            L += ['/-- `Lmdb::key_%s_index`, statement by statement -/' % tab,
                  'def %s %s : Bytes := %s' % (lean, ' '.join('(%s : %s)' % p for p in ps), ' ++ '.join('(%s)' % x for x in parts)), '']
            rep['translated'].append('lmdb/mod.rs:key_%s_index' % tab)
            kparams = ps
        except Untranslatable as ex:
            L += ['/-- `key_%s_index` could not be translated: %s -/' % (tab, str(ex).replace('-/', '- /')),
                  'def %s : Bytes := untranslatable_source "key_%s_index"' % (lean, tab), '']
            rep['untranslatable'].append('key_%s_index: %s' % (tab, ex))
            continue
        # the bounds of the range read
        try:
            ptxt, body = fn_text(src, '%s_iter' % tab)
            ps = params_of(ptxt, skip=('txn',))
            b = re.sub(r'\s+', ' ', body).strip()
            m = re.fullmatch(r'let start_prefix = Self::key_%s_index\((.*?)\); let end_prefix = Self::key_%s_index\((.*?)\); '
                             r'let range = \( Bound::(Included|Excluded)\(&\*start_prefix\), Bound::(Included|Excluded)\(&\*end_prefix\), ?\); '
                             r'Ok\(self\.%s_index\.range\(txn, &range\)\?\)' % (tab, tab, tab), b)
            if not m:
                raise Untranslatable('%s_iter: not "two keys, a range over %s_index"' % (tab, tab))
            def args(txt):
                out = []
                for a in [x.strip() for x in txt.split(',') if x.strip()]:
                    a2 = re.sub(r'\s+', '', a)
                    if a2 == '[0;32].into()':
                        out.append('zeros32')
                    elif a2 == '[255;32].into()':
                        out.append('ffs32')
                    elif a in VARS:
                        out.append(VARS[a][0])
                    else:
                        raise Untranslatable('%s_iter: argument %r' % (tab, a))
                return out
            lo, hi = args(m.group(1)), args(m.group(2))
            if len(lo) != len(kparams) or len(hi) != len(kparams):
                raise Untranslatable('%s_iter: %d arguments for a key of %d parts' % (tab, len(lo), len(kparams)))
            sig = ' '.join('(%s : %s)' % p for p in ps)
            L += ['/-- `Lmdb::%s_iter`: the two ends of the range it reads, and whether each is inclusive -/' % tab,
                  'def %sIterLo %s : Bytes := %s %s' % (tab, sig, lean, ' '.join(lo)),
                  'def %sIterHi %s : Bytes := %s %s' % (tab, sig, lean, ' '.join(hi)),
                  'def %sIterInclusive : Bool × Bool := (%s, %s)' % (tab, 'true' if m.group(3) == 'Included' else 'false', 'true' if m.group(4) == 'Included' else 'false'), '']
            rep['translated'].append('lmdb/mod.rs:%s_iter' % tab)
        except Untranslatable as ex:
            L += ['/-- `%s_iter` could not be translated: %s -/' % (tab, str(ex).replace('-/', '- /')),
                  'def %sIterLo : Bytes := untranslatable_source "%s_iter"' % (tab, tab), '']
            rep['untranslatable'].append('%s_iter: %s' % (tab, ex))
    L += index_walkers(rep)
    L += ['end Pocket.Src', '']
    return '\n'.join(L)


def scrape_gate():
    """the scraping allowance of find_events: `let maxtime = …; let allow = …;` in the SCRAPE branch, as arithmetic over
    (allow_scraping, limit, allow_scrape_if_limited_to, allow_scrape_if_max_seconds, since, until, now)"""
    src = strip_comments_rs(open(os.path.join(REPO, 'pocket-db/src/lib.rs')).read())
    m = re.search(r'let maxtime = (.*?);\s*let allow = (.*?);\s*if !allow \{\s*return Err\(InnerError::Scraper\.into\(\)\);', src, re.S)
    if not m:
        raise Untranslatable('find_events: the scrape gate was not found in its known shape (maxtime, allow, refusal)')
    def tr(e, maxtime=None):
        e = re.sub(r'\s+', ' ', e).strip()
        e = e.replace('filter.until()', 'UNTIL').replace('filter.since()', 'SINCE').replace('filter.limit()', 'LIMIT').replace('Time::now()', 'NOW')
        e = e.replace('.as_u64()', '')
        e = re.sub(r'(\w+)\.min\((\w+)\)', r'(min \1 \2)', e)
        e = re.sub(r'(\w+)\.max\((\w+)\)', r'(max \1 \2)', e)
        e = re.sub(r'(\w+)\.saturating_sub\((\w+)\)', r'(\1 - \2)', e)
        if maxtime is not None:
            e = re.sub(r'\bmaxtime\b', maxtime, e)
        return e
    mt = tr(m.group(1))
    al = tr(m.group(2), mt)
    parts = [x.strip() for x in al.split('||')]
    out = []
    for x in parts:
        if x == 'allow_scraping':
            out.append('allow')
            continue
        mm = re.fullmatch(r'(.+?) (<=|<) (\w+)', x)
        if not mm:
            raise Untranslatable('scrape gate: disjunct %r' % x)
        out.append('decide (%s %s %s)' % (mm.group(1), '≤' if mm.group(2) == '<=' else '<', mm.group(3)))
    e = ' || '.join(out)
    names = {'UNTIL': '«until»', 'SINCE': 'since', 'LIMIT': 'limit', 'NOW': 'now', 'allow_scrape_if_limited_to': 'allowLimit',
             'allow_scrape_if_max_seconds': 'allowSecs'}
    for k, v in names.items():
        e = re.sub(r'\b%s\b' % k, v, e)
    left = set(re.findall(r'[A-Za-z_][A-Za-z_0-9]*', e.replace('«until»', ''))) - {'allow', 'decide', 'min', 'max', 'since', 'limit', 'now', 'allowLimit', 'allowSecs'}
    if left:
        raise Untranslatable('scrape gate: untranslated names %s' % sorted(left))
    return e, re.sub(r'\s+', ' ', m.group(0))[:300]


# ---------------------------------------------------------------- the binary layout of an event (event.rs)

def event_layout(rep):
    src = open(os.path.join(REPO, 'pocket-types/src/event.rs')).read()
    L = ['import Pocket.Model.Basic'] + list(HEAD)
    # ---- the writer: Event::from_parts, a sequence of output[a..b].copy_from_slice(x) / output[i] = 0 statements
    try:
        _, body = fn_text(src, 'from_parts')
        i = body.index('output[0..4]')
        j = body.index('Ok(Self::from_inner(&output[..length]))')
        stm = re.sub(r'\s+', ' ', body[i:j]).strip()
        parts = [x.strip() for x in stm.split(';') if x.strip()]
        vals = {'(length as u32).to_ne_bytes().as_slice()': ('le32 (eventSize tagBytes.length content.length)', 4),
                'kind.as_ref().to_ne_bytes().as_slice()': ('le16 kind', 2),
                'created_at.as_ref().to_ne_bytes().as_slice()': ('le64 t', 8),
                'id.as_slice()': ('id', 32), 'pubkey.as_slice()': ('pk', 32), 'sig.as_slice()': ('sig', 64),
                'tags.as_bytes()': ('tagBytes', 'taglen'), '(contentlen as u32).to_ne_bytes().as_slice()': ('le32 content.length', 4),
                'content': ('content', 'contentlen')}
        terms = [0]          # the write position, symbolically: 144 + taglen + 4 …
        pieces = []

        def norm(e):
            return re.sub(r'\s+', '', e)

        def text(ts):
            return '+'.join(str(x) for x in ts)

        def plus(ts, w):
            ts = list(ts)
            if isinstance(w, int) and isinstance(ts[-1], int):
                ts[-1] += w
            else:
                ts.append(w)
            return ts
        for st in parts:
            m = re.fullmatch(r'output\[(.+?)\.\.(.+?)\] ?\.copy_from_slice\((.+)\)', st)
            if m:
                a, b, x = norm(m.group(1)), norm(m.group(2)), m.group(3).strip()
                if x not in vals:
                    raise Untranslatable('from_parts: value %r' % x)
                lean, w = vals[x]
                if a != text(terms):
                    raise Untranslatable('from_parts: the writes are not contiguous: %s after %s' % (a, text(terms)))
                terms = plus(terms, w)
                if norm(b) != text(terms):
                    raise Untranslatable('from_parts: %s..%s is not %s wide' % (a, b, w))
                pieces.append(lean)
                continue
            m = re.fullmatch(r'output\[(\d+)\] = 0', st)
            if m:
                if m.group(1) != text(terms):
                    raise Untranslatable('from_parts: the writes are not contiguous at %s' % m.group(1))
                pieces.append('[0]')
                terms = plus(terms, 1)
                continue
            raise Untranslatable('from_parts: statement %r' % st[:60])
        L += ['/-- `Event::output_size_needed` -/']
        _, sz = fn_text(src, 'output_size_needed')
        szn = norm(sz)
        if not re.fullmatch(r'\d+\+tagslen\+\d+\+contentlen', szn):
            raise Untranslatable('output_size_needed: %r' % sz.strip())
        a, b = re.findall(r'\d+', szn)
        L += ['def eventSize (tagsLen contentLen : Nat) : Nat := %s + tagsLen + %s + contentLen' % (a, b), '']
        if text(terms) != '%s+taglen+%s+contentlen' % (a, b):
            raise Untranslatable('from_parts: the writes end at %s, output_size_needed says %s+taglen+%s+contentlen' % (text(terms), a, b))
        L += ['/-- `Event::from_parts`: the contiguous writes `output[a..b].copy_from_slice(x)`, in order -/',
              'def encodeEventWith (id pk sig : Bytes) (kind t : Nat) (tagBytes content : Bytes) : Bytes :=',
              '  ' + ' ++ '.join(pieces), '']
        rep['translated'].append('event.rs:from_parts (%d writes)' % len(pieces))
    except (Untranslatable, ValueError) as ex:
        L += ['/-- `Event::from_parts` could not be translated: %s -/' % str(ex).replace('-/', '- /'),
              'def encodeEventWith : Bytes := untranslatable_source "from_parts"', '']
        rep['untranslatable'].append('from_parts: %s' % ex)
    # ---- the readers: where each accessor looks
    try:
        def acc(name):
            return re.sub(r'\s+', ' ', fn_text(src, name)[1]).strip()
        m = re.fullmatch(r'parse_u16!\(self\.0, (\d+)\)\.into\(\)', acc('kind'))
        k = int(m.group(1))
        m = re.fullmatch(r'parse_u64!\(self\.0, (\d+)\)\.into\(\)', acc('created_at'))
        t = int(m.group(1))
        offs = []
        for name, ty in (('id', 32), ('pubkey', 32), ('sig', 64)):
            m = re.fullmatch(r'let inner: \[u8; (\d+)\] = self\.0\[(\d+)\.\.(\d+) \+ (\d+)\]\.try_into\(\)\.unwrap\(\); inner\.into\(\)', acc(name))
            if not m or m.group(2) != m.group(3) or m.group(1) != m.group(4):
                raise Untranslatable('accessor %s' % name)
            offs += [int(m.group(2)), int(m.group(1))]
        m = re.fullmatch(r'unsafe \{ Tags::delineate\(&self\.0\[(\d+)\.\.\]\) \}', acc('tags'))
        g = int(m.group(1))
        m = re.fullmatch(r'let t = parse_u16!\(self\.0, (\d+)\) as usize; let c = parse_u32!\(self\.0, (\d+) \+ t\) as usize; '
                         r'&self\.0\[(\d+) \+ t \+ (\d+)\.\.(\d+) \+ t \+ (\d+) \+ c\]', acc('content'))
        if not m or len({m.group(1), m.group(2), m.group(3), m.group(5)}) != 1 or m.group(4) != m.group(6):
            raise Untranslatable('accessor content')
        L += ['/-- where the accessors of `Event` read: kind, created_at, (id offset, length), (pubkey …), (sig …), tags, the tag-section length read',
              'by `content`, and the width of the content length -/',
              'def evReads : List Nat := %s' % ([k, t] + offs + [g, int(m.group(1)), int(m.group(4))]), '']
        rep['translated'].append('event.rs:accessors')
    except (Untranslatable, AttributeError, ValueError) as ex:
        L += ['def evReads : List Nat := untranslatable_source "Event accessors"', '']
        rep['untranslatable'].append('Event accessors: %s' % ex)
    L += filter_header(rep)
    L += tags_layout(rep)
    L += tags_writer(rep)
    L += filter_arrays(rep)
    L += from_parts_rejections(rep)
    L += ['end Pocket.Src', '']
    return '\n'.join(L)


def filter_header(rep):
    """the fixed 32-byte header `Filter::from_parts` writes (up to `let mut p = 32;`), incl. what an absent limit / since / until is
    written as"""
    src = open(os.path.join(REPO, 'pocket-types/src/filter.rs')).read()
    L = []
    try:
        _, body = fn_text(src, 'from_parts')
        i = body.index('output[0..4]')
        j = body.index('let mut p = ')
        stm = re.sub(r'\s+', ' ', body[i:j]).strip()
        end_m = re.match(r'let mut p = (\d+);', re.sub(r'\s+', ' ', body[j:j + 40]))
        vals = {'(length as u32).to_ne_bytes().as_slice()': ('le32 size', 4), '(ids.len() as u16).to_ne_bytes().as_slice()': ('le16 nIds', 2),
                '(authors.len() as u16).to_ne_bytes().as_slice()': ('le16 nAuthors', 2), '(kinds.len() as u16).to_ne_bytes().as_slice()': ('le16 nKinds', 2)}
        opts = {'limit': ('l.to_ne_bytes().as_slice()', 'le32', 4, {'u32::MAX.to_ne_bytes().as_slice()': 4294967295}),
                'since': ('s.as_u64().to_ne_bytes().as_slice()', 'le64', 8, {'0_u64.to_ne_bytes().as_slice()': 0, 'u64::MAX.to_ne_bytes().as_slice()': 18446744073709551615}),
                'until': ('u.as_u64().to_ne_bytes().as_slice()', 'le64', 8, {'0_u64.to_ne_bytes().as_slice()': 0, 'u64::MAX.to_ne_bytes().as_slice()': 18446744073709551615})}
        pos, pieces, rest = 0, [], stm
        while rest:
            m = re.match(r'output\[(\d+)\.\.(\d+)\]\.copy_from_slice\((.+?)\); ?', rest)
            if m and m.group(3) in vals:
                lean, w = vals[m.group(3)]
                if int(m.group(1)) != pos or int(m.group(2)) != pos + w:
                    raise Untranslatable('filter header: write %s..%s at position %d' % (m.group(1), m.group(2), pos))
                pieces.append(lean); pos += w; rest = rest[m.end():]
                continue
            m = re.match(r'output\[(\d+)\] = 0; ?', rest)
            if m:
                if int(m.group(1)) != pos:
                    raise Untranslatable('filter header: zero byte at %s, position %d' % (m.group(1), pos))
                pieces.append('[0]'); pos += 1; rest = rest[m.end():]
                continue
            m = re.match(r'match (\w+) \{ Some\((\w)\) => output\[(\d+)\.\.(\d+)\]\.copy_from_slice\((.+?)\), None => output\[(\d+)\.\.(\d+)\]\.copy_from_slice\((.+?)\), \} ?', rest)
            if m and m.group(1) in opts:
                some_expr, enc, w, defaults = opts[m.group(1)]
                if m.group(5) != some_expr or m.group(8) not in defaults or (m.group(3), m.group(4)) != (m.group(6), m.group(7)) \
                        or int(m.group(3)) != pos or int(m.group(4)) != pos + w:
                    raise Untranslatable('filter header: the write of %s' % m.group(1))
                pieces.append('%s (%s.getD %d)' % (enc, m.group(1) if m.group(1) != 'until' else '«until»', defaults[m.group(8)]))
                pos += w; rest = rest[m.end():]
                continue
            raise Untranslatable('filter header: statement %r' % rest[:60])
        if not end_m or int(end_m.group(1)) != pos:
            raise Untranslatable('filter header: ends at %d, the arrays start at %s' % (pos, end_m.group(1) if end_m else '?'))
        L += ['/-- the fixed header `Filter::from_parts` writes before the id / author / kind arrays (%d bytes), absent options written as their' % pos,
              'defaults -/',
              'def filterHeader (size nIds nAuthors nKinds : Nat) (limit since «until» : Option Nat) : Bytes :=',
              '  ' + ' ++ '.join(pieces), '']
        rep['translated'].append('filter.rs:from_parts header (%d bytes)' % pos)
    except (Untranslatable, ValueError) as ex:
        L += ['/-- the header of `Filter::from_parts` could not be translated: %s -/' % str(ex).replace('-/', '- /'),
              'def filterHeader : Bytes := untranslatable_source "Filter::from_parts header"', '']
        rep['untranslatable'].append('filter header: %s' % ex)
    return L


def _size_expr(e, names):
    """integer arithmetic over literals and the given names (`numtags`, `s.len()`, …) -> Lean"""
    toks = re.findall(r'\d+|[A-Za-z_][\w.]*(?:\(\))?|[+*()]', e)
    if ''.join(toks) != e:
        raise Untranslatable('size expression %r' % e)
    out = []
    for t in toks:
        if t.isdigit() or t in '+*()':
            out.append(t)
        elif t in names:
            out.append(names[t])
        else:
            raise Untranslatable('size expression: name %r' % t)
    return ' '.join(out)


def tags_layout(rep):
    """the tag section (tags.rs): `Tags::output_size_needed` as two nested folds, the two rejections and the header writes of
    `Tags::from_parts`, and where `delineate`, `count`, `TagsIter::next` and `TagsStringIter::next` read"""
    src = open(os.path.join(REPO, 'pocket-types/src/tags.rs')).read()
    L = []
    try:
        _, body = fn_text(src, 'output_size_needed')
        b = re.sub(r'\s+', '', body)
        m = re.fullmatch(r'letnumtags=parts\.len\(\);letmutlength=([^;]+);fortagrefinparts\.iter\(\)\{lettag=tagref\.as_ref\(\);((?:length\+=[^;]+;)*)'
                         r'forsrefintag\.iter\(\)\{lets=sref\.as_ref\(\);((?:length\+=[^;]+;)*)\}((?:length\+=[^;]+;)*)\}length', b)
        if not m:
            raise Untranslatable('output_size_needed is not "an initial length, then per tag and per string additions"')
        init = _size_expr(m.group(1), {'numtags': 'ts.length'})

        def adds(txt, names, acc):
            for inc in re.findall(r'length\+=([^;]+);', txt):
                acc = '(%s + %s)' % (acc, _size_expr(inc, names))
            return acc
        tagn = {'numtags': 'ts.length', 'tag.len()': 'tag.length'}
        strn = dict(tagn); strn['s.len()'] = 's.length'
        pre, inner, post = adds(m.group(2), tagn, 'length'), adds(m.group(3), strn, 'length'), m.group(4)
        tagbody = 'tag.foldl (fun length s => %s) %s' % (inner, pre)
        if post:
            tagbody = adds(post, tagn, '(%s)' % tagbody)
        L += ['/-- `Tags::output_size_needed`: the additions to `length`, tag by tag and string by string -/',
              'def tagsSize (ts : List (List Bytes)) : Nat :=',
              '  ts.foldl (fun length tag => %s) (%s)' % (tagbody, init), '']
        rep['translated'].append('tags.rs:output_size_needed')
    except Untranslatable as ex:
        L += ['/-- `Tags::output_size_needed` could not be translated: %s -/' % str(ex).replace('-/', '- /'),
              'def tagsSize (ts : List (List Bytes)) : Nat := untranslatable_source "Tags::output_size_needed"', '']
        rep['untranslatable'].append('tags size: %s' % ex)
    try:
        _, body = fn_text(src, 'from_parts')
        b = re.sub(r'\s+', '', body)
        m = re.match(r'letnumtags=parts\.len\(\);letlength=Self::output_size_needed\(parts\);'
                     r'iflength>u16::MAXasusize\{returnErr\(InnerError::OutOfRange\(length\)\.into\(\)\);\}'
                     r'ifoutput\.len\(\)<length\{returnErr\(InnerError::BufferTooSmall\(length\)\.into\(\)\);\}'
                     r'output\[0\.\.2\]\.copy_from_slice\(\(lengthasu16\)\.to_ne_bytes\(\)\.as_slice\(\)\);'
                     r'output\[2\.\.4\]\.copy_from_slice\(\(parts\.len\(\)asu16\)\.to_ne_bytes\(\)\.as_slice\(\)\);'
                     r'letmutp:usize=([^;]+);', b)
        if not m:
            raise Untranslatable('from_parts does not start with "size, reject > u16::MAX, reject a short buffer, write length and count, p = …"')
        if not b.endswith('Ok(Self::from_inner(&output[..length]))'):
            raise Untranslatable('from_parts does not return the first `length` bytes of the output')
        L += ['/-- `Tags::from_parts` refuses: a section longer than `u16::MAX`, or an output buffer shorter than the section -/',
              'def tagsRejects (length outLen : Nat) : Bool := length > 65535 || outLen < length', '',
              '/-- the four header bytes `Tags::from_parts` writes first -/',
              'def tagsHeader (length numtags : Nat) : Bytes := le16 length ++ le16 numtags', '',
              '/-- where `Tags::from_parts` starts writing the tags themselves (what it puts into the first offset slot) -/',
              'def tagsBodyStart (numtags : Nat) : Nat := %s' % _size_expr(m.group(1), {'numtags': 'numtags'}), '']
        rep['translated'].append('tags.rs:from_parts guards and header')
    except Untranslatable as ex:
        L += ['/-- the head of `Tags::from_parts` could not be translated: %s -/' % str(ex).replace('-/', '- /'),
              'def tagsRejects (length outLen : Nat) : Bool := untranslatable_source "Tags::from_parts"',
              'def tagsHeader (length numtags : Nat) : Bytes := untranslatable_source "Tags::from_parts"',
              'def tagsBodyStart (numtags : Nat) : Nat := untranslatable_source "Tags::from_parts"', '']
        rep['untranslatable'].append('tags from_parts: %s' % ex)
    try:
        reads = []
        _, d = fn_text(src, 'delineate')
        d = re.sub(r'\s+', '', d)
        m = re.fullmatch(r'ifinput\.len\(\)<(\d+)\{returnErr\(InnerError::EndOfInput\.into\(\)\);\}letlen=parse_u16!\(input,(\d+)\)asusize;'
                         r'ifinput\.len\(\)<len\{returnErr\(InnerError::EndOfInput\.into\(\)\);\}Ok\(Self::from_inner\(&input\[0\.\.len\]\)\)', d)
        if not m:
            raise Untranslatable('Tags::delineate')
        reads += [int(m.group(1)), int(m.group(2))]
        _, c = fn_text(src, 'count')
        m = re.fullmatch(r'parse_u16!\(self\.0,(\d+)\)asusize', re.sub(r'\s+', '', c))
        if not m:
            raise Untranslatable('Tags::count')
        reads.append(int(m.group(1)))
        i = src.index('impl<\'a> Iterator for TagsIter<\'a>')
        _, n = fn_text(src[i:], 'next')
        m = re.fullmatch(r'ifself\.next>=self\.tags\.count\(\)\{None\}else\{letoffset_slot=(\d+)\+self\.next\*(\d+);letoffset=parse_u16!\(self\.tags\.0,offset_slot\)asusize;'
                         r'letcount=parse_u16!\(self\.tags\.0,offset\)asusize;self\.next\+=1;Some\(TagsStringIter\{tags:self\.tags,count,cur_offset:offset\+(\d+),next:0,\}\)\}',
                         re.sub(r'\s+', '', n))
        if not m:
            raise Untranslatable('TagsIter::next')
        reads += [int(m.group(1)), int(m.group(2)), int(m.group(3))]
        i = src.index('impl<\'a> Iterator for TagsStringIter<\'a>')
        _, n = fn_text(src[i:], 'next')
        m = re.fullmatch(r'ifself\.next>=self\.count\{None\}else\{letlen=parse_u16!\(self\.tags\.0,self\.cur_offset\)asusize;'
                         r'lets=&self\.tags\.0\[self\.cur_offset\+(\d+)\.\.self\.cur_offset\+(\d+)\+len\];self\.cur_offset\+=(\d+)\+len;self\.next\+=1;Some\(s\)\}',
                         re.sub(r'\s+', '', n))
        if not m:
            raise Untranslatable('TagsStringIter::next')
        reads += [int(m.group(1)), int(m.group(2)), int(m.group(3))]
        L += ['/-- where the readers of `Tags` read: `delineate` (least input, the length), `count`, `TagsIter::next` (first slot, slot width, from the',
              'tag\'s count to its first string), `TagsStringIter::next` (from a string\'s length to its bytes, twice, and the step over it) -/',
              'def tagReads : List Nat := %s' % reads, '']
        rep['translated'].append('tags.rs:reader offsets %s' % reads)
    except (Untranslatable, ValueError) as ex:
        L += ['/-- the readers of `Tags` could not be translated: %s -/' % str(ex).replace('-/', '- /'),
              'def tagReads : List Nat := untranslatable_source "Tags readers"', '']
        rep['untranslatable'].append('tags readers: %s' % ex)
    return L


def _tag_stmts(txt, names, what):
    """`output[A..A+W].copy_from_slice(V);`, `p+=E;`, `letslen=s.len();` -> Lean `let` lines over (output, p)"""
    out, names = [], dict(names)
    while txt:
        m = re.match(r'let(\w+)=s\.len\(\);', txt)
        if m:
            names[m.group(1)] = 's.length'; txt = txt[m.end():]
            continue
        m = re.match(r'p\+=([^;]+);', txt)
        if m:
            out.append('let p := p + %s' % _size_expr(m.group(1), names)); txt = txt[m.end():]
            continue
        m = re.match(r'output\[([^\].]+)\.\.([^\]]+)\]\.copy_from_slice\(\(([\w.()]+?)asu16\)\.to_ne_bytes\(\)\.as_slice\(\)\);', txt)
        if m:
            if m.group(2) != m.group(1) + '+2' and not (m.group(1).isdigit() and m.group(2).isdigit() and int(m.group(2)) == int(m.group(1)) + 2):
                raise Untranslatable('%s: a u16 written to output[%s..%s]' % (what, m.group(1), m.group(2)))
            out.append('let output := wr output (%s) (le16 %s)' % (_size_expr(m.group(1), names), _size_expr(m.group(3), names)))
            txt = txt[m.end():]
            continue
        m = re.match(r'output\[([^\].]+)\.\.([^\]]+)\]\.copy_from_slice\(s\.as_bytes\(\)\);', txt)
        if m:
            a, b = m.group(1), m.group(2)
            if not b.startswith(a + '+') or names.get(b[len(a) + 1:]) != 's.length':
                raise Untranslatable('%s: the string written to output[%s..%s]' % (what, a, b))
            out.append('let output := wr output (%s) s' % _size_expr(a, names)); txt = txt[m.end():]
            continue
        raise Untranslatable('%s: statement %r' % (what, txt[:60]))
    return out


def tags_writer(rep):
    """the whole of `Tags::from_parts` after its two rejections, as a program of random-access writes `wr` into the output buffer:
    the header, then per tag (numbered `n`) and per string the statements of the two loops, with the moving `p`"""
    src = open(os.path.join(REPO, 'pocket-types/src/tags.rs')).read()
    L = ['/-- `output[pos..pos + v.len()].copy_from_slice(v)` -/',
         'def wr (out : Bytes) (pos : Nat) (v : Bytes) : Bytes := out.take pos ++ v ++ out.drop (pos + v.length)', '']
    try:
        _, body = fn_text(src, 'from_parts')
        b = re.sub(r'\s+', '', body)
        i = b.find('output[0..2]')
        m = re.fullmatch(r'((?:output\[[^;]+;)+)letmutp:usize=([^;]+);for\(n,tagref\)inparts\.iter\(\)\.enumerate\(\)\{lettag=tagref\.as_ref\(\);(.*?)'
                         r'forsrefintag\.iter\(\)\{lets=sref\.as_ref\(\);(.*?)\}\}Ok\(Self::from_inner\(&output\[\.\.length\]\)\)', b[i:]) if i >= 0 else None
        if not m:
            raise Untranslatable('from_parts is not "header writes, p = …, for each (n, tag) { …; for each string { … } }, the first `length` bytes"')
        base = {'numtags': 'ts.length', 'parts.len()': 'ts.length', 'length': 'length'}
        head = _tag_stmts(m.group(1), base, 'header')
        tagn = dict(base); tagn.update({'n': 'n', 'p': 'p', 'tag.len()': 'tag.length'})
        pre = _tag_stmts(m.group(3), tagn, 'tag loop')
        strn = dict(tagn); strn['s.len()'] = 's.length'
        inner = _tag_stmts(m.group(4), strn, 'string loop')
        L += ['/-- `Tags::from_parts` past its rejections: the output buffer afterwards -/',
              'def tagsWrite (ts : List (List Bytes)) (output : Bytes) : Bytes :=',
              '  let length := tagsSize ts']
        L += ['  ' + x for x in head]
        L += ['  let p := %s' % _size_expr(m.group(2), base),
              '  (ts.foldl (fun (st : Bytes × Nat × Nat) tag =>',
              '      let (output, p, n) := st']
        L += ['      ' + x for x in pre]
        L += ['      let (output, p) := tag.foldl (fun (st : Bytes × Nat) s =>',
              '          let (output, p) := st']
        L += ['          ' + x for x in inner]
        L += ['          (output, p)) (output, p)',
              '      (output, p, n + 1)) (output, p, 0)).1', '']
        rep['translated'].append('tags.rs:from_parts writer (%d + %d per tag + %d per string statements)' % (len(head), len(pre), len(inner)))
    except Untranslatable as ex:
        L += ['/-- the writer of `Tags::from_parts` could not be translated: %s -/' % str(ex).replace('-/', '- /'),
              'def tagsWrite (ts : List (List Bytes)) (output : Bytes) : Bytes := untranslatable_source "Tags::from_parts writer"', '']
        rep['untranslatable'].append('tags writer: %s' % ex)
    return L


def event_store_facts(rep):
    """event_store.rs: what `EventStore::new` takes for a new file, the length it grows a new file to and the length it remembers;
    the alignment padding of `store_event`; and what one round of its grow path sets (file, mapping, remembered length) and from what"""
    src = open(os.path.join(REPO, 'pocket-db/src/event_store.rs')).read()
    L = list(HEAD)

    def clean(body):
        b = re.sub(r'#\[cfg\(feature\s*=\s*"verif"\)\]\s*crate::verif::point\("[^"]*"\);', '', body)
        return re.sub(r'\s+', '', b)
    try:
        _, body = fn_text(src, 'new')
        b = clean(body)
        m = re.search(r'letmutlen=metadata\.len\(\)asusize;letmutnew=len<mem::size_of::<usize>\(\);if!new\{usestd::os::unix::fs::FileExt;'
                      r'letmutend_offset=\[0u8;mem::size_of::<usize>\(\)\];event_map_file\.read_exact_at\(&mutend_offset,0\)\?;'
                      r'ifusize::from_le_bytes\(end_offset\)<mmap_append::HEADER_SIZE\{new=true;\}\}'
                      r'ifnew&&len<EVENT_MAP_CHUNK\{len=EVENT_MAP_CHUNK;event_map_file\.set_len\(EVENT_MAP_CHUNKasu64\)\?;\}'
                      r'letevent_map=unsafe\{MmapAppend::new\(&event_map_file,new\)\?\};'
                      r'Ok\(EventStore\{event_map_file,event_map_file_len:AtomicUsize::new\((\w+)\),event_map,\}\)$', b)
        if not m:
            raise Untranslatable('EventStore::new is not "len = file length; new = len < 8 or end offset < HEADER_SIZE; a new file shorter than a chunk '
                                 'is grown to one chunk; map; remember …"')
        if m.group(1) != 'len':
            raise Untranslatable('EventStore::new remembers %r as the file length' % m.group(1))
        L += ['/-- `EventStore::new`: the file is taken for new when it cannot hold the end offset or the offset it holds is below the header -/',
              'def esNew (fileLen marker usizeBytes headerSize : Nat) : Bool := decide (fileLen < usizeBytes) || decide (marker < headerSize)', '',
              '/-- the length the file has when it is mapped: a new file shorter than a chunk is grown to one chunk -/',
              'def esInitLen (chunk fileLen marker usizeBytes headerSize : Nat) : Nat :=',
              '  if esNew fileLen marker usizeBytes headerSize && decide (fileLen < chunk) then chunk else fileLen', '',
              '/-- what `event_map_file_len` starts as: the (possibly grown) length of the file -/',
              'def esRemembered (len : Nat) : Nat := len', '']
        rep['translated'].append('event_store.rs:new (new-file test, initial length, remembered length)')
    except Untranslatable as ex:
        L += ['/-- `EventStore::new` could not be translated: %s -/' % str(ex).replace('-/', '- /'),
              'def esNew (fileLen marker usizeBytes headerSize : Nat) : Bool := untranslatable_source "EventStore::new"',
              'def esInitLen (chunk fileLen marker usizeBytes headerSize : Nat) : Nat := untranslatable_source "EventStore::new"',
              'def esRemembered (len : Nat) : Nat := untranslatable_source "EventStore::new"', '']
        rep['untranslatable'].append('EventStore::new: %s' % ex)
    try:
        _, body = fn_text(src, 'store_event')
        b = clean(body)
        m = re.match(r'letmutend=self\.event_map\.get_end\(\);ifend%(\d+)!=0\{letpadding=(\d+)-\(end%(\d+)\);end\+=padding;assert_eq!\(end%\d+,0\);'
                     r'let_=self\.event_map\.append\(padding,\|_\|Ok\(padding\)\)\?;\}letevent_size=event\.len\(\);loop\{', b)
        if not m:
            raise Untranslatable('store_event does not start with "pad the end to a multiple of 8 (an append whose failure is returned), then loop"')
        L += ['/-- `store_event`: the padding appended before the event -/',
              'def esPad («end» : Nat) : Nat := if «end» %% %s != 0 then %s - «end» %% %s else 0' % m.groups(), '']
        g = re.search(r'ife\.to_string\(\)=="Outofspace"\{letnew_file_len=\{letfile_len=self\.event_map_file_len\.load\(Ordering::Relaxed\);file_len\+EVENT_MAP_CHUNK\};(.*?)continue;\}', b)
        if not g:
            raise Untranslatable('the grow path is not "on Out of space: new length = remembered length + EVENT_MAP_CHUNK; …; continue"')
        sets, rest, order = {}, g.group(1), []
        forms = {'file': r'self\.event_map_file\.set_len\(new_file_lenasu64\)\?;', 'map': r'self\.event_map\.resize\(new_file_len\)\?;',
                 'mem': r'self\.event_map_file_len\.store\(new_file_len,Ordering::Relaxed\);'}
        while rest:
            for k, rx in forms.items():
                mm = re.match(rx, rest)
                if mm and k not in sets:
                    sets[k] = True; order.append(k); rest = rest[mm.end():]
                    break
            else:
                raise Untranslatable('grow path: statement %r' % rest[:60])
        if order != ['file', 'map', 'mem']:
            raise Untranslatable('grow path: the order is %s, not set_len, resize, remember' % order)
        L += ['/-- one round of the grow path of `store_event`: (file length, mapping length, remembered length) afterwards, all set to the',
              'remembered length plus one chunk, in the order set_len, resize, remember -/',
              'def esGrow (chunk fileLen mapLen memLen : Nat) : Nat × Nat × Nat := (memLen + chunk, memLen + chunk, memLen + chunk)', '']
        rep['translated'].append('event_store.rs:store_event (padding, grow path)')
    except Untranslatable as ex:
        L += ['/-- `EventStore::store_event` could not be translated: %s -/' % str(ex).replace('-/', '- /'),
              'def esPad («end» : Nat) : Nat := untranslatable_source "store_event"',
              'def esGrow (chunk fileLen mapLen memLen : Nat) : Nat × Nat × Nat := untranslatable_source "store_event"', '']
        rep['untranslatable'].append('EventStore::store_event: %s' % ex)
    L += ['end Pocket.Src', '']
    return '\n'.join(L)


def filter_arrays(rep):
    """`Filter::from_parts` after its header: the loops that copy ids, authors and kinds and the final copy of the tag section, as
    random-access writes through the moving `p`"""
    src = open(os.path.join(REPO, 'pocket-types/src/filter.rs')).read()
    L = []
    try:
        _, body = fn_text(src, 'from_parts')
        b = re.sub(r'\s+', '', body)
        m = re.search(r'letmutp=(\d+);(.*)output\[p\.\.p\+tags\.as_bytes\(\)\.len\(\)\]\.copy_from_slice\(tags\.as_bytes\(\)\);'
                      r'assert_eq!\(p\+tags\.as_bytes\(\)\.len\(\),length\);Ok\(Self::from_inner\(&output\[\.\.length\]\)\)$', b)
        if not m:
            raise Untranslatable('from_parts does not end with "p = …; loops; the tag section at p; the first `length` bytes"')
        rest, loops = m.group(2), []
        while rest:
            lm = re.match(r'for(\w+)in(ids|authors|kinds)\.iter\(\)\{output\[p\.\.p\+(\d+)\]\.copy_from_slice\((\w+)(\.as_slice\(\)|\.as_ref\(\)\.to_ne_bytes\(\)\.as_slice\(\))\);p\+=(\d+);\}', rest)
            if not lm or lm.group(1) != lm.group(4) or lm.group(3) != lm.group(6):
                raise Untranslatable('filter arrays: statement %r' % rest[:70])
            var, coll, w, how = lm.group(1), lm.group(2), int(lm.group(3)), lm.group(5)
            if (coll == 'kinds') != (how != '.as_slice()') or (coll == 'kinds' and w != 2):
                raise Untranslatable('filter arrays: %s written as %s, %d bytes' % (coll, how, w))
            loops.append((var, coll, w))
            rest = rest[lm.end():]
        if sorted(c for _, c, _ in loops) != ['authors', 'ids', 'kinds']:
            raise Untranslatable('filter arrays: loops over %s' % [c for _, c, _ in loops])
        L += ['/-- `Filter::from_parts` after the header: the copy loops and the tag section, written through the moving `p` -/',
              'def filterArraysWrite (ids authors : List Bytes) (kinds : List Nat) (tagBytes : Bytes) (output : Bytes) : Bytes :=',
              '  let p := %s' % m.group(1)]
        for var, coll, w in loops:
            v = 'x' if var in ('id',) else var
            L += ['  let (output, p) := %s.foldl (fun (st : Bytes × Nat) %s =>' % (coll, v),
                  '      let (output, p) := st',
                  '      let output := wr output (p) (%s)' % (('le16 ' + v) if coll == 'kinds' else v),
                  '      let p := p + %d' % w,
                  '      (output, p)) (output, p)']
        L += ['  wr output (p) tagBytes', '']
        rep['translated'].append('filter.rs:from_parts arrays (%s)' % ', '.join('%s×%d' % (c, w) for _, c, w in loops))
    except Untranslatable as ex:
        L += ['/-- the array loops of `Filter::from_parts` could not be translated: %s -/' % str(ex).replace('-/', '- /'),
              'def filterArraysWrite (ids authors : List Bytes) (kinds : List Nat) (tagBytes : Bytes) (output : Bytes) : Bytes := untranslatable_source "Filter::from_parts arrays"', '']
        rep['untranslatable'].append('filter arrays: %s' % ex)
    return L


MAXES = {'u16::MAX': 65535, 'u32::MAX': 4294967295, 'u64::MAX': 18446744073709551615}


def from_parts_rejections(rep):
    """what `Event::from_parts` and `Filter::from_parts` refuse before writing anything: the statements between the size computation and
    the first write, each `if X > uN::MAX as usize { return Err(OutOfRange) }`, `if output.len() < length { return Err(BufferTooSmall) }`
    or the same test in a loop over several counts"""
    L = []
    for rel, lean, params, names in (('pocket-types/src/event.rs', 'eventRejects', '(length outLen : Nat)', {'length': 'length'}),
                                     ('pocket-types/src/filter.rs', 'filterRejects', '(nIds nAuthors nKinds length outLen : Nat)',
                                      {'length': 'length', 'ids.len()': 'nIds', 'authors.len()': 'nAuthors', 'kinds.len()': 'nKinds'})):
        try:
            src = open(os.path.join(REPO, rel)).read()
            _, body = fn_text(src, 'from_parts')
            b = re.sub(r'\s+', '', body)
            i, j = b.find('letlength=Self::output_size_needed('), b.find('output[0..4]')
            if i < 0 or j < 0:
                raise Untranslatable('no size computation or no first write')
            rest = b[b.index(';', i) + 1:j]
            terms = []
            while rest:
                m = re.match(r'if([\w.()]+)>(u\d+::MAX)asusize\{returnErr\(InnerError::OutOfRange\(\1\)\.into\(\)\);\}', rest)
                if m and m.group(1) in names:
                    terms.append('decide (%s > %d)' % (names[m.group(1)], MAXES[m.group(2)])); rest = rest[m.end():]
                    continue
                m = re.match(r'ifoutput\.len\(\)<length\{returnErr\(InnerError::BufferTooSmall\(length\)\.into\(\)\);\}', rest)
                if m:
                    terms.append('decide (outLen < length)'); rest = rest[m.end():]
                    continue
                m = re.match(r'forcountin\[([^\]]+)\]\{ifcount>(u\d+::MAX)asusize\{returnErr\(InnerError::OutOfRange\(count\)\.into\(\)\);\}\}', rest)
                if m and all(x in names for x in m.group(1).split(',')):
                    terms += ['decide (%s > %d)' % (names[x], MAXES[m.group(2)]) for x in m.group(1).split(',')]; rest = rest[m.end():]
                    continue
                raise Untranslatable('statement %r' % rest[:70])
            L += ['/-- what `%s::from_parts` refuses before it writes (%s), in source order -/' % ('Event' if 'event' in rel else 'Filter', rel),
                  'def %s %s : Bool := %s' % (lean, params, ' || '.join(terms) if terms else 'false'), '']
            rep['translated'].append('%s:from_parts rejections (%d)' % (rel, len(terms)))
        except (Untranslatable, ValueError) as ex:
            L += ['/-- the rejections of from_parts (%s) could not be translated: %s -/' % (rel, str(ex).replace('-/', '- /')),
                  'def %s %s : Bool := untranslatable_source "from_parts rejections"' % (lean, params), '']
            rep['untranslatable'].append('%s rejections: %s' % (rel, ex))
    return L


def index_walkers(rep):
    """`Lmdb::index` and `Lmdb::deindex` as functions from an event to the (table, key) pairs they put / delete: the fixed entries and,
    for every tag whose name is one byte and which has a value (the guard chain of the loop), the three tag-table entries"""
    src = open(os.path.join(REPO, 'pocket-db/src/lmdb/mod.rs')).read()
    L = []
    argmap = {'event.created_at()': 'e.createdAt', 'event.id()': 'e.id', 'event.pubkey()': 'e.pubkey', 'event.kind()': 'e.kind',
              'tagname[0]': 'l', 'tagvalue': 'v'}
    keyfn = {'ci': 'keyCi', 'tc': 'keyTc', 'ac': 'keyAc', 'akc': 'keyAkc', 'atc': 'keyAtc', 'ktc': 'keyKtc'}
    for fn, verb, lean in (('index', 'put', 'indexKeys'), ('deindex', 'delete', 'deindexKeys')):
        try:
            _, body = fn_text(src, fn)
            b = re.sub(r'\s+', '', body)
            loop = re.search(r'formuttsiinevent\.tags\(\)\?\.iter\(\)\{ifletSome\(tagname\)=tsi\.next\(\)\{iftagname\.len\(\)==1\{ifletSome\(tagvalue\)=tsi\.next\(\)\{(.*?)\}\}\}\}', b)
            if not loop:
                raise Untranslatable('%s: the tag loop is not "for each tag: a name, of one byte, and a value"' % fn)
            inner, outer = loop.group(1), b[:loop.start()] + b[loop.end():]
            oprx = re.compile(r'(?:let_=)?self\.(\w+?)_index\.%s\(txn,&Self::key_(\w+?)_index\(([^()]*(?:\(\)[^()]*)*?),?\),?(?:&offset,?)?\)\?;' % verb)

            def ops(txt, allow_id):
                out, pos = [], 0
                while pos < len(txt):
                    m = oprx.match(txt, pos)
                    if m:
                        if m.group(1) != m.group(2) or m.group(1) not in keyfn:
                            raise Untranslatable('%s: table %s written with key_%s_index' % (fn, m.group(1), m.group(2)))
                        args = []
                        for a in [x for x in m.group(3).split(',') if x]:
                            if a not in argmap:
                                raise Untranslatable('%s: key argument %r' % (fn, a))
                            args.append(argmap[a])
                        out.append('("%s", %s %s)' % (m.group(1), keyfn[m.group(1)], ' '.join(args)))
                        pos = m.end()
                        continue
                    m = re.match(r'self\.i_index\.put\(txn,event\.id\(\)\.as_slice\(\),&offset\)\?;', txt[pos:])
                    if m and allow_id:
                        pos += m.end()
                        continue
                    if txt[pos:] == 'Ok(())':
                        break
                    raise Untranslatable('%s: statement %r' % (fn, txt[pos:pos + 50]))
                return out
            fixed = ops(outer, fn == 'index')
            tagops = ops(inner, False)
            L += ['/-- `Lmdb::%s`: the (table, key) pairs it %ss for an event (the id index apart) -/' % (fn, verb),
                  'def %s (e : EventRec) : List (String × Bytes) :=' % lean,
                  '  [%s] ++' % ', '.join(fixed),
                  '  (e.tags.filterMap fun t =>',
                  '    match t with',
                  '    | [l] :: v :: _ => some [%s]' % ', '.join(tagops),
                  '    | _ => none).flatten', '']
            rep['translated'].append('lmdb/mod.rs:%s (%d + %d per tag)' % (fn, len(fixed), len(tagops)))
        except Untranslatable as ex:
            L += ['/-- `Lmdb::%s` could not be translated: %s -/' % (fn, str(ex).replace('-/', '- /')),
                  'def %s (e : EventRec) : List (String × Bytes) := untranslatable_source "%s"' % (lean, fn), '']
            rep['untranslatable'].append('%s: %s' % (fn, ex))
    return L


HEAD = ['/- GENERATED by lib/srcfacts.py from the current working tree of /repo on every check run.  Do not edit: edit the translator.',
        '   What the source says now; the `…_from_source` theorems (Pocket/Lemmas/FromSource*.lean, Pocket/Thm) prove that the model agrees. -/',
        'namespace Pocket.Src', '']


def generate():
    """returns ({file name: text}, report) — three files so that an untranslatable item breaks only the theorems that need it"""
    rep = {'translated': [], 'untranslatable': []}
    K = list(HEAD)
    ksrc = open(os.path.join(REPO, 'pocket-types/src/kind.rs')).read()
    for fn, lean in (('is_replaceable', 'kindIsReplaceable'), ('is_ephemeral', 'kindIsEphemeral'), ('is_parameterized_replaceable', 'kindIsParamReplaceable')):
        try:
            e, body = translate_pred(ksrc, fn)
            K += ['/-- `Kind::%s`: `%s` -/' % (fn, ' '.join(body.split())), 'def %s (k : Nat) : Bool := %s' % (lean, e), '']
            rep['translated'].append('kind.rs:' + fn)
        except Untranslatable as ex:
            K += ['/-- `Kind::%s` could not be translated: %s -/' % (fn, str(ex).replace('-/', '- /')),
                  'def %s (k : Nat) : Bool := untranslatable_source "%s"' % (lean, fn), '']
            rep['untranslatable'].append('kind.rs:%s: %s' % (fn, ex))
    K += ['end Pocket.Src', '']
    H = list(HEAD)
    try:
        tab = hex_inverse()
        H += ['/-- `HEX_INVERSE` (pocket-types/src/macros.rs) -/', 'def hexInverse : List Nat := %s' % tab, '']
        rep['translated'].append('macros.rs:HEX_INVERSE[%d]' % len(tab))
    except Untranslatable as ex:
        H += ['def hexInverse : List Nat := untranslatable_source "HEX_INVERSE"', '']
        rep['untranslatable'].append(str(ex))
    H += ['end Pocket.Src', '']
    E = list(HEAD)
    for fn, lean, doc in ((safe_char_pred, 'isSafeChar', '`is_safe_char` (json_escape.rs)'), (tag_member_letter_pred, 'tagMemberLetter', 'the letter test of a `"#x"` member in `parse_json_filter`')):
        try:
            e, body = fn()
            E += ['/-- %s: `%s` -/' % (doc, body.replace('-/', '- /')), 'def %s (k : Nat) : Bool := %s' % (lean, e), '']
            rep['translated'].append(lean)
        except Untranslatable as ex:
            E += ['/-- %s could not be translated: %s -/' % (doc, str(ex).replace('-/', '- /')), 'def %s (k : Nat) : Bool := untranslatable_source "%s"' % (lean, lean), '']
            rep['untranslatable'].append('%s: %s' % (lean, ex))
    try:
        e, body = scrape_gate()
        E += ['/-- the scraping allowance of `find_events` (Nat subtraction is truncated, as `saturating_sub`): `%s` -/' % body.replace('-/', '- /'),
              'def scrapeAllow (allow : Bool) (limit allowLimit allowSecs since «until» now : Nat) : Bool := %s' % e, '']
        rep['translated'].append('lib.rs:scrape gate')
    except Untranslatable as ex:
        E += ['/-- the scrape gate could not be translated: %s -/' % str(ex).replace('-/', '- /'),
              'def scrapeAllow (allow : Bool) (limit allowLimit allowSecs since «until» now : Nat) : Bool := untranslatable_source "scrape gate"', '']
        rep['untranslatable'].append('scrape gate: %s' % ex)
    E += ['end Pocket.Src', '']
    L = list(HEAD)
    try:
        n = start_tags_len()
        L += ['/-- length of the table of tag-member positions in `parse_json_filter` -/', 'def startTagsLen : Nat := %d' % n, '']
        rep['translated'].append('filter.rs:start_tags[%d]' % n)
    except Untranslatable as ex:
        L += ['def startTagsLen : Nat := untranslatable_source "start_tags"', '']
        rep['untranslatable'].append(str(ex))
    groups = {}
    for rel, name, variant, v in constants():
        groups.setdefault((lean_ident(rel, name) + ('_' + variant if variant else ''), rel, name), []).append(v)
    for (ident, rel, name), vs in sorted(groups.items()):
        L += ['/-- every `const %s` of %s, in file order -/' % (name, rel), 'def %s : List Nat := %s' % (ident, vs)]
        rep['translated'].append('%s:%s=%s' % (rel, name, vs))
    L += ['', 'end Pocket.Src', '']
    files = {'Kind.lean': '\n'.join(K), 'Hex.lean': '\n'.join(H), 'Consts.lean': '\n'.join(L), 'Preds.lean': '\n'.join(E)}
    files['Keys.lean'] = keys_file(rep)
    files['Layout.lean'] = event_layout(rep)
    files['EventStore.lean'] = event_store_facts(rep)
    return files, rep


def write():
    files, rep = generate()
    os.makedirs(OUTDIR, exist_ok=True)
    for name, text in files.items():
        out = os.path.join(OUTDIR, name)
        old = open(out).read() if os.path.exists(out) else None
        if old != text:
            tmp = out + '.tmp%d' % os.getpid()
            with open(tmp, 'w') as f:
                f.write(text)
            os.replace(tmp, out)
    return rep


if __name__ == '__main__':
    r = write()
    for x in r['translated']:
        print('translated', x)
    for x in r['untranslatable']:
        print('UNTRANSLATABLE', x)
