"""Concrete-syntax-tree generators for event / filter / tags JSON texts.

A text is rendered from a tree, so the same tree yields (a) the bytes handed to the parsers and
(b) the values an independent parser must extract.  All randomness comes from the caller's PRNG."""
import json

WS = [b'', b'', b'', b' ', b'\n', b'\t', b'\r', b'  ', b' \n ']

# characters by class; surrogates excluded (outside the property)
CHAR_CLASSES = {
    'ascii': [chr(c) for c in range(0x20, 0x7f) if c not in (0x22, 0x5c)],
    'quote_bs': ['"', '\\', '/'],
    'ctrl_short': ['\b', '\f', '\n', '\r', '\t'],
    'ctrl_other': [chr(c) for c in list(range(0, 8)) + [0x0b] + list(range(0x0e, 0x20))],
    'del': ['\x7f'],
    'latin': ['é', 'ß', '¢', '\x80', '\xff'],
    'bmp': ['†', '日', ' ', ' ', '﻿', '퟿', '', '￿', 'अ'],
    'astral': ['😀', '𝄞', '\U00010000', '\U0010ffff'],
}
SHORT = {'"': '\\"', '\\': '\\\\', '/': '\\/', '\b': '\\b', '\f': '\\f', '\n': '\\n', '\r': '\\r', '\t': '\\t'}


def rand_char(rng, classes=None):
    cls = rng.choice(classes or ['ascii'] * 6 + ['quote_bs', 'ctrl_short', 'ctrl_other', 'del', 'latin', 'bmp', 'astral'])
    return rng.choice(CHAR_CLASSES[cls])


def rand_string(rng, maxlen=12, classes=None):
    n = rng.choice([0, 1, 1, 2, 3, 5, maxlen])
    return ''.join(rand_char(rng, classes) for _ in range(n))


def spell_char(rng, ch, canonical=False):
    """one legal JSON spelling of ch (never a surrogate-pair escape)"""
    o = ord(ch)
    must_escape = ch in '"\\' or o < 0x20
    options = []
    if not must_escape:
        options += ['lit'] * 6
    if ch in SHORT:
        options += ['short'] * (6 if must_escape else 1)
    if o < 0x10000 and not (0xD800 <= o <= 0xDFFF):
        options += ['u'] * (3 if must_escape else 1)
    if canonical:
        if not must_escape:
            return ch.encode('utf8')
        if ch in SHORT and ch != '/':
            return SHORT[ch].encode()
        return ('\\u%04x' % o).encode()
    k = rng.choice(options)
    if k == 'lit':
        return ch.encode('utf8')
    if k == 'short':
        return SHORT[ch].encode()
    h = '%04x' % o
    h = ''.join(c.upper() if rng.random() < 0.5 else c for c in h)
    return ('\\u' + h).encode()


def spell_string(rng, s, canonical=False):
    return b'"' + b''.join(spell_char(rng, ch, canonical) for ch in s) + b'"'


def rand_json_value(rng, depth=0):
    """an arbitrary RFC 8259 value, rendered"""
    kinds = ['str', 'num', 'true', 'false', 'null'] + (['arr', 'obj'] if depth < 4 else [])
    k = rng.choice(kinds)
    ws = lambda: rng.choice(WS)
    if k == 'str':
        return spell_string(rng, rand_string(rng))
    if k == 'num':
        return rng.choice([b'0', b'1', b'-1', b'0.5', b'-0', b'1e5', b'1E+5', b'12.5e-3', b'123456789012345678901234567890',
                           b'0.0', b'10', b'-0.0e0'])
    if k in ('true', 'false', 'null'):
        return k.encode()
    if k == 'arr':
        items = [rand_json_value(rng, depth + 1) for _ in range(rng.choice([0, 1, 2, 3]))]
        return b'[' + ws() + (ws() + b',' + ws()).join(items) + ws() + b']'
    items = [spell_string(rng, rand_string(rng, 4)) + ws() + b':' + ws() + rand_json_value(rng, depth + 1)
             for _ in range(rng.choice([0, 1, 2]))]
    return b'{' + ws() + (ws() + b',' + ws()).join(items) + ws() + b'}'


def hexcase(rng, b, lower=False):
    h = b.hex()
    if lower:
        return h
    mode = rng.choice(['lower', 'lower', 'upper', 'mixed'])
    if mode == 'upper':
        return h.upper()
    if mode == 'mixed':
        return ''.join(c.upper() if rng.random() < 0.5 else c for c in h)
    return h


def rand_event_values(rng, tag_strings=None):
    rb = lambda n: bytes(rng.randrange(256) for _ in range(n))
    ntags = rng.choice([0, 0, 1, 2, 3, 6])
    tags = []
    for _ in range(ntags):
        ns = rng.choice([0, 1, 2, 2, 3, 5])
        tags.append([rand_string(rng, 8) for _ in range(ns)])
    return dict(id=rb(32), pubkey=rb(32), sig=rb(64),
                kind=rng.choice([0, 1, 3, 5, 7, 1059, 9999, 10000, 30000, 65535, rng.randrange(65536)]),
                created_at=rng.choice([0, 1, 1681778790, (1 << 32) - 1, 1 << 32, (1 << 63), (1 << 64) - 1, rng.randrange(1 << 64)]),
                tags=tags, content=rand_string(rng, 40))


KNOWN = ['id', 'pubkey', 'sig', 'kind', 'created_at', 'tags', 'content']
UNKNOWN_KEYS = ['x', 'foo', 'ids', 'Id', 'i', 'kinds', 'content2', 'created', 'relay', '', 'tag', 'sig2', 'pubkeyx', 'é', 'a"b']


def render_event(rng, v, order=None, unknown=0, ws=True, canonical=False, overrides=None):
    """returns text bytes.  `overrides`: member name -> raw value bytes (for near-valid streams)"""
    w = (lambda: rng.choice(WS)) if ws else (lambda: b'')
    members = {}
    members['id'] = b'"' + hexcase(rng, v['id'], canonical).encode() + b'"'
    members['pubkey'] = b'"' + hexcase(rng, v['pubkey'], canonical).encode() + b'"'
    members['sig'] = b'"' + hexcase(rng, v['sig'], canonical).encode() + b'"'
    members['kind'] = str(v['kind']).encode()
    members['created_at'] = str(v['created_at']).encode()
    tg = []
    for t in v['tags']:
        tg.append(b'[' + w() + (w() + b',' + w()).join(spell_string(rng, s, canonical) for s in t) + w() + b']')
    members['tags'] = b'[' + w() + (w() + b',' + w()).join(tg) + w() + b']'
    members['content'] = spell_string(rng, v['content'], canonical)
    if overrides:
        members.update(overrides)
    names = list(order or KNOWN)
    if order is None and not canonical:
        rng.shuffle(names)
    items = [(n, members[n]) for n in names]
    used = set()
    for _ in range(unknown):
        k = rng.choice([u for u in UNKNOWN_KEYS if u not in used] or ['zz%d' % len(used)])
        used.add(k)
        items.insert(rng.randrange(len(items) + 1), (k, rand_json_value(rng)))
    parts = []
    for k, val in items:
        key = spell_string(rng, k, canonical=True) if k in KNOWN else spell_string(rng, k)
        parts.append(w() + key + w() + b':' + w() + val + w())
    return w() + b'{' + b','.join(parts) + b'}'


def py_event_status(text):
    """why the independent parser yields no event: 'nojson' (not a JSON text / not UTF-8), 'dup' (a member name occurs twice in
    the top-level object: parsers legitimately differ, RFC 8259 s.4), 'notevent' (valid JSON, each member once, but some member is
    missing, has the wrong type, or a hex member is not the right number of hex digits), 'ok'"""
    class Obj(list):
        pass
    try:
        top = json.loads(text.decode('utf8'), object_pairs_hook=Obj)
    except Exception:
        return 'nojson'
    if not isinstance(top, Obj):
        return 'notevent'
    names = [k for k, _ in top]
    if len(set(names)) != len(names):
        return 'dup'
    return 'ok' if py_event(text) is not None else 'notevent'


def py_event(text):
    """the independent parser: Python's json on the text; returns the seven values or None"""
    try:
        o = json.loads(text.decode('utf8'))
    except Exception:
        return None
    if not isinstance(o, dict):
        return None
    try:
        ok = (isinstance(o['id'], str) and isinstance(o['pubkey'], str) and isinstance(o['sig'], str)
              and isinstance(o['kind'], int) and not isinstance(o['kind'], bool)
              and isinstance(o['created_at'], int) and not isinstance(o['created_at'], bool)
              and isinstance(o['content'], str) and isinstance(o['tags'], list)
              and all(isinstance(t, list) and all(isinstance(s, str) for s in t) for t in o['tags']))
        if not ok:
            return None
        if len(o['id']) != 64 or len(o['pubkey']) != 64 or len(o['sig']) != 128 or any(
                ch not in '0123456789abcdefABCDEF' for ch in o['id'] + o['pubkey'] + o['sig']):
            return None
        return dict(id=bytes.fromhex(o['id']), pubkey=bytes.fromhex(o['pubkey']), sig=bytes.fromhex(o['sig']),
                    kind=o['kind'], created_at=o['created_at'],
                    tags=[[s.encode('utf8', 'surrogatepass') for s in t] for t in o['tags']],
                    content=o['content'].encode('utf8', 'surrogatepass'))
    except Exception:
        return None


# ---------------------------------------------------------------- filters

LETTERS = [chr(c) for c in list(range(65, 91)) + list(range(97, 123))]


def rand_filter_values(rng):
    rb = lambda n: bytes(rng.randrange(256) for _ in range(n))
    f = {}
    if rng.random() < 0.5:
        f['ids'] = [rb(32) for _ in range(rng.choice([0, 1, 2, 3]))]
    if rng.random() < 0.5:
        f['authors'] = [rb(32) for _ in range(rng.choice([0, 1, 2]))]
    if rng.random() < 0.5:
        f['kinds'] = [rng.choice([0, 1, 5, 65535, 30000, rng.randrange(65536)]) for _ in range(rng.choice([0, 1, 3]))]
    if rng.random() < 0.4:
        f['since'] = rng.choice([0, 1, 1681778790, (1 << 64) - 1, rng.randrange(1 << 64)])
    if rng.random() < 0.4:
        f['until'] = rng.choice([0, 1, 1681778790, (1 << 64) - 1, rng.randrange(1 << 64)])
    if rng.random() < 0.4:
        f['limit'] = rng.choice([0, 1, 500, (1 << 32) - 2, (1 << 32) - 1])
    letters = rng.sample(LETTERS, rng.choice([0, 0, 1, 1, 2, 3, 6]))
    for l in letters:
        f['#' + l] = [rand_string(rng, 8) for _ in range(rng.choice([0, 1, 2, 3]))]
    # the same element twice - next to each other, or apart - is a list of that many elements (nothing says lists are sets)
    for k in list(f.keys()):
        if isinstance(f[k], list) and f[k] and rng.random() < 0.2:
            i = rng.randrange(len(f[k]))
            f[k].insert(rng.choice([i, i + 1, 0, len(f[k])]), f[k][i])
            if rng.random() < 0.3:
                f[k].insert(i, f[k][i])
    return f


def render_filter(rng, f, order=None, unknown=0, ws=True, canonical=False, overrides=None):
    w = (lambda: rng.choice(WS)) if ws else (lambda: b'')
    sep = lambda: (w() + b',' + w()) if (ws and not canonical) else b','
    members = {}
    for k, v in f.items():
        if k in ('ids', 'authors'):
            members[k] = b'[' + w() + sep().join(b'"' + hexcase(rng, x, canonical).encode() + b'"' for x in v) + w() + b']'
        elif k == 'kinds':
            members[k] = b'[' + w() + sep().join(str(x).encode() for x in v) + w() + b']'
        elif k in ('since', 'until', 'limit'):
            members[k] = str(v).encode()
        else:
            members[k] = b'[' + w() + sep().join(spell_string(rng, s, canonical) for s in v) + w() + b']'
    if overrides:
        members.update(overrides)
    names = list(order or members.keys())
    if order is None and not canonical:
        rng.shuffle(names)
    items = [(n, members[n]) for n in names]
    used = set()
    for _ in range(unknown):
        k = rng.choice([u for u in ['search', 'x', 'id', 'author', '#ab', '#', '#1', 'Limit', 'kind', 'é'] if u not in used] or ['zz'])
        used.add(k)
        items.insert(rng.randrange(len(items) + 1), (k, rand_json_value(rng)))
    parts = [w() + b'"' + k.encode() + b'"' + w() + b':' + w() + val + w() for k, val in items]
    return w() + b'{' + b','.join(parts) + b'}'


def py_filter(text):
    try:
        o = json.loads(text.decode('utf8'))
    except Exception:
        return None
    if not isinstance(o, dict):
        return None
    return o


def expected_filter(f):
    """the accessor values a faithful parser must produce for the value tree f"""
    tags = []
    return dict(ids=f.get('ids', []), authors=f.get('authors', []), kinds=f.get('kinds', []),
                since=f.get('since', 0), until=f.get('until', (1 << 64) - 1), limit=f.get('limit', (1 << 32) - 1),
                tags={k[1:]: [s.encode('utf8') for s in v] for k, v in f.items() if k.startswith('#')})


# ---------------------------------------------------------------- malformed stream

def hex_aliases(rng, nbytes):
    """strings of exactly 2*nbytes BYTES that are not hex but alias hex digits under sloppy decoding: UTF-8 characters whose bytes
    become hex digits when bit 7 is masked off (U+00B0..B9 = C2 B0..B9 -> "B0".."B9", U+1C00.. = E1 B0 B0 -> "a00"), bytes with
    bit 7 set, characters one off the digit/letter ranges, full-width digits; returns (bytes, valid_utf8)"""
    n = 2 * nbytes
    hexd = b'0123456789abcdefABCDEF'
    k = rng.randrange(6)
    if k == 0:      # all two-byte aliases
        return b''.join(bytes([0xC2, 0xB0 + rng.randrange(10)]) for _ in range(nbytes)), True
    if k == 1:      # hex digits with a few two-byte aliases at even offsets
        out = bytearray(rng.choice(hexd) for _ in range(n))
        for pos in rng.sample(range(0, n, 2), rng.choice([1, 1, 2, 5])):
            out[pos:pos + 2] = bytes([0xC2, 0xB0 + rng.randrange(10)])
        return bytes(out), True
    if k == 2:      # two three-byte aliases (E1 B0 B0) + hex
        out = bytearray(rng.choice(hexd) for _ in range(n))
        pos = rng.randrange(0, n - 6)
        out[pos:pos + 6] = bytes([0xE1, 0xB0 + rng.randrange(10), 0xB0 + rng.randrange(10)]) * 2
        return bytes(out), True
    if k == 3:      # raw bytes with bit 7 set (not UTF-8)
        out = bytearray(rng.choice(hexd) for _ in range(n))
        for pos in rng.sample(range(n), rng.choice([1, 2, 8, n])):
            out[pos] |= 0x80
        return bytes(out), False
    if k == 4:      # neighbours of the digit / letter ranges
        out = bytearray(rng.choice(hexd) for _ in range(n))
        for pos in rng.sample(range(n), rng.choice([1, 2])):
            out[pos] = rng.choice(b'/:@G`g')
        return bytes(out), True
    out = bytearray(rng.choice(hexd) for _ in range(n))   # a two-byte alias at an ODD offset
    pos = rng.randrange(1, n - 2, 2)
    out[pos:pos + 2] = bytes([0xC2, 0xB0 + rng.randrange(10)])
    return bytes(out), True


def mutations(rng, text, n):
    """single-byte substitutions / insertions / deletions, incl. bytes >= 0x80"""
    out = []
    specials = [0x00, 0x22, 0x5c, 0x5b, 0x5d, 0x7b, 0x7d, 0x2c, 0x3a, 0x20, 0x30, 0x39, 0x80, 0xbf, 0xc3, 0xe2, 0xf0, 0xf7, 0xff, 0x67, 0x7f]
    for _ in range(n):
        if not text:
            break
        pos = rng.randrange(len(text))
        b = rng.choice(specials) if rng.random() < 0.7 else rng.randrange(256)
        k = rng.choice(['sub', 'sub', 'ins', 'del'])
        if k == 'sub':
            out.append(text[:pos] + bytes([b]) + text[pos + 1:])
        elif k == 'ins':
            out.append(text[:pos] + bytes([b]) + text[pos:])
        else:
            out.append(text[:pos] + text[pos + 1:])
    return out
