"""Exhaustive sweeps over finite sub-domains (code points, kinds, bytes): worker and model fold their
replies into FNV digests per chunk; a mismatch is bisected down to the element, which is then
re-run as individual requests and judged by a direct oracle."""
from .common import hx


def raw_utf8(c):
    if c < 0x80:
        return bytes([c])
    if c < 0x800:
        return bytes([0xC0 | c >> 6, 0x80 | c & 0x3F])
    if c < 0x10000:
        return bytes([0xE0 | c >> 12, 0x80 | (c >> 6) & 0x3F, 0x80 | c & 0x3F])
    return bytes([0xF0 | (c >> 18) & 7, 0x80 | (c >> 12) & 0x3F, 0x80 | (c >> 6) & 0x3F, 0x80 | c & 0x3F])


def expected_escape(c):
    """what json_escape must produce for the single character c (None = outside the property)"""
    short = {8: b'\\b', 9: b'\\t', 10: b'\\n', 12: b'\\f', 13: b'\\r', 0x22: b'\\"', 0x5c: b'\\\\'}
    if c in short:
        return short[c]
    if c < 0x20:
        return b'\\u%04x' % c
    return raw_utf8(c)


def cpt_sweep(c, lo=0, hi=0x110000, chunk=8192):
    """all code points in [lo, hi): json_escape(utf8(c)), json_unescape(utf8(c)+quote), json_unescape(\\uXXXX)"""
    reqs = ['CPT %d %d' % (a, min(a + chunk, hi)) for a in range(lo, hi, chunk)]
    w, m = c.run_both(reqs)
    c.evaluations += hi - lo
    c.extra['code_points_swept'] = c.extra.get('code_points_swept', 0) + (hi - lo)
    bad = [r for r, a, b in zip(reqs, w, m) if a != b]
    for r in bad[:3]:
        _, a, b = r.split(' ')
        a, b = int(a), int(b)
        while b - a > 1:
            mid = (a + b) // 2
            x, y = c.run_both(['CPT %d %d' % (a, mid)])
            if x != y:
                b = mid
            else:
                a = mid
        cp = a
        raw = raw_utf8(cp)
        ind = ['ESC ' + hx(raw), 'UNE %s 16 7' % hx(raw + b'"')]
        if cp < 0x10000:
            ind += ['UNE %s 16 7' % hx(b'\\u%04x"' % cp), 'UNE %s 16 7' % hx(b'\\u%04X"' % cp)]
        wi, mi = c.run_both(ind)
        found = False
        is_scalar = cp < 0x110000 and not (0xD800 <= cp <= 0xDFFF)
        if is_scalar:
            want_esc = 'ok ' + hx(expected_escape(cp))
            if wi[0] != want_esc:
                c.violation('oracle', 'json_escape of U+%04X gives %s, expected %s' % (cp, wi[0][:40], want_esc), [ind[0]])
                found = True
            for k in range(2, len(ind)):
                t = wi[k].split(' ')
                n = int(t[2]) if t[0] == 'ok' else -1
                got = bytes.fromhex(t[3])[:n] if t[0] == 'ok' and t[3] != '-' else None
                if got != raw:
                    c.violation('oracle', 'the escape \\u%04x is read as %s, not as the UTF-8 of U+%04X (%s)' % (
                        cp, got.hex() if got is not None else wi[k][:20], cp, raw.hex()), [ind[k]])
                    found = True
        if not found:
            c.violation('corr', 'code point U+%04X: implementation and model differ (%s | %s)' % (cp, wi, mi), ind, found=False)
    return len(bad)


def knd_sweep(c):
    """all 65,536 kinds through the three classifiers"""
    reqs = ['KND %d %d' % (a, a + 4096) for a in range(0, 65536, 4096)]
    w, m = c.run_both(reqs)
    c.evaluations += 65536
    c.extra['kinds_swept'] = 65536
    # direct oracle: the NIP-01 ranges, digest computed here
    def fnv(lo, hi):
        h = 0xcbf29ce484222325
        for k in range(lo, hi):
            b = (1 if (k in (0, 3) or 10000 <= k < 20000) else 0) | (2 if 20000 <= k < 30000 else 0) | (4 if 30000 <= k < 40000 else 0)
            h = ((h ^ b) * 0x100000001b3) & 0xFFFFFFFFFFFFFFFF
        return str(h)
    for r, a, b in zip(reqs, w, m):
        _, lo, hi = r.split(' ')
        lo, hi = int(lo), int(hi)
        if a != fnv(lo, hi):
            # bisect against the NIP-01 ranges
            while hi - lo > 1:
                mid = (lo + hi) // 2
                if c.worker.run(['KND %d %d' % (lo, mid)])[0] != fnv(lo, mid):
                    hi = mid
                else:
                    lo = mid
            c.violation('oracle', 'kind %d is classified differently from the NIP-01 ranges' % lo, ['KND %d %d' % (lo, lo + 1)])
        elif a != b:
            c.violation('corr', 'kind classification digest differs in %s' % r, [r], found=False)
