"""Orchestrator core: builds, batch execution of worker and model, correspondence diff,
known-findings matching, Lean theorem audit, evidence writer.  Python stdlib only."""
import hashlib, json, os, random, re, resource, shutil, subprocess, sys, time

ROOT = os.path.dirname(os.path.dirname(os.path.abspath(__file__)))
CACHE = os.path.join(ROOT, '.cache')
LEAN = os.path.join(ROOT, 'lean')
HARNESS = os.path.join(ROOT, 'harness')
CARGO_TARGET = os.path.join(CACHE, 'cargo-target')
RUNDIR = os.path.join(CACHE, 'run')
REPO = '/repo'
ALLOWED_AXIOMS = {'propext', 'Classical.choice', 'Quot.sound'}

TRUSTED_BASE = [
    "Lean 4.33.0 kernel (theorems re-checked with leanchecker in the thorough tier)",
    "axioms: subset of {propext, Classical.choice, Quot.sound}, audited per theorem with #print axioms on every run; no native_decide, bv_decide, sorry or own axioms",
    "the hand-written Lean model is tied to /repo only by the behavioural correspondence check run here (worker built from /repo's working tree vs. the model's executable definitions on the same requests)",
    "orchestrator, worker glue, Python json/hashlib as independent oracles",
    "modelled, not verified: LMDB, kernel/page cache/mmap, mmap-append, secp256k1 (SHA-256, BIP-340), std, IEEE-754, little-endian host",
]


def env_offline():
    e = dict(os.environ)
    e['CARGO_NET_OFFLINE'] = 'true'
    e['CARGO_TARGET_DIR'] = CARGO_TARGET
    return e


def sh(cmd, cwd=None, env=None, timeout=3600):
    p = subprocess.run(cmd, cwd=cwd, env=env, capture_output=True, text=True, timeout=timeout)
    return p.returncode, p.stdout + p.stderr


_built = {}


def build_worker(release=False):
    key = 'worker-release' if release else 'worker'
    if key in _built:
        return _built[key]
    os.makedirs(CACHE, exist_ok=True)
    lock = os.path.join(HARNESS, 'Cargo.lock')
    if not os.path.exists(lock):
        shutil.copy(os.path.join(REPO, 'Cargo.lock'), lock)
    cmd = ['cargo', 'build', '--offline', '--quiet'] + (['--release'] if release else [])
    rc, out = sh(cmd, cwd=HARNESS, env=env_offline())
    if rc != 0:
        # a Cargo.lock that went stale against /repo: refresh from the repo's and retry once
        shutil.copy(os.path.join(REPO, 'Cargo.lock'), lock)
        rc, out = sh(cmd, cwd=HARNESS, env=env_offline())
    if rc != 0:
        raise BuildError('worker build failed:\n' + out[-4000:])
    path = os.path.join(CARGO_TARGET, 'release' if release else 'debug', 'pocket-worker')
    _built[key] = path
    return path


class BuildError(Exception):
    pass


def build_model():
    if 'model' in _built:
        return _built['model']
    rc, out = sh(['lake', 'build', 'pocket-model'], cwd=LEAN)
    if rc != 0:
        raise BuildError('model build failed:\n' + out[-4000:])
    path = os.path.join(LEAN, '.lake', 'build', 'bin', 'pocket-model')
    _built['model'] = path
    return path


SRC_REPORT = {}


def build_thm(prop):
    """regenerate lean/Pocket/Src/*.lean from /repo's current source (lib/srcfacts.py: the kind predicates, the hex table, the
    integer constants), then lake build Pocket.Thm.<prop>; returns (ok, log)"""
    from . import srcfacts
    try:
        SRC_REPORT.update(srcfacts.write())
    except Exception as e:      # the translator itself failed on the current source: the obligations cannot be re-checked
        return False, 'lib/srcfacts.py could not read the current source: %r' % (e,)
    mods = ['Pocket.Thm.' + prop]
    if os.path.exists(os.path.join(LEAN, 'Pocket', 'Thm', prop + 'Spec.lean')):
        mods.append('Pocket.Thm.%sSpec' % prop)     # the property read on the abstract specification (a module of its own where imports would cycle)
    rc, out = sh(['lake', 'build'] + mods, cwd=LEAN)
    if rc != 0:
        # lead with the errors (the log is mostly linter warnings of modules that did build)
        ls = out.split('\n')
        keep = []
        for i, l in enumerate(ls):
            if l.startswith('error') or ' error: ' in l or ' error(' in l:
                keep += ls[i:i + 12] + ['...']
        out = '\n'.join(keep[:120]) + '\n--- end of errors; tail of the full log:\n' + out[-1500:]
    return rc == 0, out


FORBIDDEN = re.compile(r'\b(sorry|admit|native_decide|bv_decide|implemented_by)\b|^\s*axiom\s|unsafe\s|maxHeartbeats\s+0')


def strip_comments(src):
    # remove /- ... -/ (nested) and -- ... comments
    out = []
    i = 0
    depth = 0
    n = len(src)
    while i < n:
        if src.startswith('/-', i):
            depth += 1
            i += 2
        elif depth > 0 and src.startswith('-/', i):
            depth -= 1
            i += 2
        elif depth > 0:
            i += 1
        elif src.startswith('--', i):
            while i < n and src[i] != '\n':
                i += 1
        else:
            out.append(src[i])
            i += 1
    return ''.join(out)


def grep_forbidden():
    hits = []
    for d, _, fs in os.walk(os.path.join(LEAN, 'Pocket')):
        for f in fs:
            if f.endswith('.lean'):
                p = os.path.join(d, f)
                for ln, line in enumerate(strip_comments(open(p).read()).splitlines(), 1):
                    if FORBIDDEN.search(line):
                        hits.append('%s:%d: %s' % (os.path.relpath(p, ROOT), ln, line.strip()[:100]))
    return hits


def audit(prop, theorems):
    """#print axioms for every theorem; returns {name: sorted axioms list | None (missing/error)}"""
    os.makedirs(os.path.join(CACHE, 'audit'), exist_ok=True)
    path = os.path.join(CACHE, 'audit', prop + '.lean')
    with open(path, 'w') as f:
        f.write('import Pocket.Thm.%s\n' % prop)
        if os.path.exists(os.path.join(LEAN, 'Pocket', 'Thm', prop + 'Spec.lean')):
            f.write('import Pocket.Thm.%sSpec\n' % prop)
        for t in theorems:
            f.write('#print axioms %s\n' % t)
    rc, out = sh(['lake', 'env', 'lean', path], cwd=LEAN)
    res = {t: None for t in theorems}
    # messages may wrap over several lines: join then split on the theorem markers
    flat = ' '.join(out.split())
    for t in theorems:
        m = re.search(r"'%s' depends on axioms: \[([^\]]*)\]" % re.escape(t), flat)
        if m:
            res[t] = sorted(a.strip() for a in m.group(1).split(',') if a.strip())
            continue
        if re.search(r"'%s' does not depend on any axioms" % re.escape(t), flat):
            res[t] = []
    return res, out


class Proc:
    """Runs a line-protocol executable over a list of requests; survives aborts and hangs."""

    def __init__(self, exe, big_stack=False, timeout=600):
        self.exe = exe
        self.big_stack = big_stack
        self.timeout = timeout
        self.restarts = 0

    def _pre(self):
        if self.big_stack:
            try:
                resource.setrlimit(resource.RLIMIT_STACK, (1 << 30, resource.RLIM_INFINITY))
            except Exception:
                try:
                    soft, hard = resource.getrlimit(resource.RLIMIT_STACK)
                    resource.setrlimit(resource.RLIMIT_STACK, (hard, hard))
                except Exception:
                    pass

    MAX_STORES_PER_PROCESS = 1500

    def run(self, lines):
        """A worker process keeps every LMDB environment it ever opened (heed caches them), so a run that
        creates thousands of stores is split, at `NEW` lines, over several processes."""
        news = [k for k, l in enumerate(lines) if l.startswith('NEW ')]
        if len(news) <= self.MAX_STORES_PER_PROCESS:
            return self._run(lines)
        cuts = [news[k] for k in range(self.MAX_STORES_PER_PROCESS, len(news), self.MAX_STORES_PER_PROCESS)]
        out, a = [], 0
        for b in cuts + [len(lines)]:
            out.extend(self._run(lines[a:b]))
            a = b
        return out

    def _run(self, lines):
        replies = []
        i = 0
        n = len(lines)
        while i < n:
            data = '\n'.join(lines[i:]) + '\n'
            try:
                p = subprocess.run([self.exe], input=data, capture_output=True, text=True,
                                   timeout=self.timeout, preexec_fn=self._pre)
                out = p.stdout.split('\n')
                if out and out[-1] == '':
                    out.pop()
                rc = p.returncode
                hang = False
            except subprocess.TimeoutExpired as e:
                so = e.stdout or b''
                if isinstance(so, bytes):
                    so = so.decode('utf8', 'replace')
                out = so.split('\n')
                if out and out[-1] == '':
                    out.pop()
                # the last line may be partial
                rc = -999
                hang = True
            got = out[:n - i]
            replies.extend(got)
            i += len(got)
            if i < n:
                # the process died (or hung) while executing lines[i]
                replies.append('HANG' if hang else 'ABORT rc=%s' % rc)
                i += 1
                self.restarts += 1
        return replies


def hx(b):
    return b.hex() if b else '-'


def tags_tok(tags):
    if not tags:
        return '_'
    return ';'.join('.' if not t else ','.join(hx(s) for s in t) for t in tags)


class Check:
    def __init__(self, prop, theorems, level_text='', assumptions=None):
        self.prop = prop
        self.theorems = theorems
        self.tier = os.environ.get('VERIF_TIER', 'quick')
        self.seed = int(os.environ.get('VERIF_SEED', '1'))
        self.replay = None
        args = sys.argv[2:]
        k = 0
        while k < len(args):
            if args[k] == '--tier':
                self.tier = args[k + 1]
                k += 2
            elif args[k] == '--replay':
                self.replay = args[k + 1]
                k += 2
            else:
                k += 1
        if self.tier not in ('quick', 'thorough'):
            self.tier = 'quick'
        self.rng = random.Random(self.seed * 1000003 + int(prop[1:]))
        self.t0 = time.time()
        self.violations = []      # (kind, description, replay lines)
        self.known_hits = []
        self.evaluations = 0
        self.nontrivial = set()
        self.samples = []
        self.dist = {}
        self.corr_mismatch = 0
        self.oracle_fail = 0
        self.traces_validated = 0
        self.extra = {}
        self.assumptions = assumptions or []
        self.thm_status = {}
        self.findings = json.load(open(os.path.join(ROOT, 'known_findings.json')))['findings']

    # ---- statistics
    def count(self, key, n=1):
        self.dist[key] = self.dist.get(key, 0) + n

    def nontriv(self, obj):
        self.nontrivial.add(hashlib.sha1(repr(obj).encode()).hexdigest()[:16])

    def sample(self, obj, limit=6):
        if len(self.samples) < limit:
            self.samples.append(obj)

    # ---- builds
    def setup(self, release=False):
        try:
            self.worker = Proc(build_worker(), timeout=900)
            self.model = Proc(build_model(), big_stack=True, timeout=900)
            if release:
                self.worker_rel = Proc(build_worker(release=True), timeout=900)
        except BuildError as e:
            self.fail_build(str(e))
        self.run_corpus()

    def run_corpus(self):
        """minimised past failures (corpus/<prop>/*.case) run first: the real code must answer every request
        (no panic, abort or hang), and where the request is stateless the model must answer the same"""
        d = os.path.join(ROOT, 'corpus', self.prop)
        if not os.path.isdir(d):
            return
        import shutil
        for fn in sorted(os.listdir(d)):
            lines = [l.rstrip('\n') for l in open(os.path.join(d, fn)) if not l.startswith('#') and l.strip()]
            if not lines:
                continue
            base = os.path.join(ROOT, '.cache', 'run', 'corpus-%s-%d' % (self.prop, os.getpid()))
            fixed = []
            for l in lines:
                t = l.split(' ')
                if t[0] == 'NEW' and len(t) > 1:
                    t[1] = os.path.join(base, os.path.basename(t[1]))
                    l = ' '.join(t)
                fixed.append(l)
            stateless = all(l.split(' ')[0] in ('EVJ', 'EVA', 'EVP', 'TGJ', 'TGP', 'TGA', 'FLJ', 'FLP', 'FLA', 'MAT', 'UNE', 'ESC', 'HEX', 'ADR') for l in fixed)
            try:
                w = self.worker.run(fixed + ([] if stateless else ['RMD']))
            except Exception as e:
                self.violation('oracle', 'corpus %s: the worker did not survive: %s' % (fn, str(e)[:80]), fixed)
                continue
            finally:
                shutil.rmtree(base, ignore_errors=True)
            self.evaluations += len(fixed)
            self.count('corpus_cases')
            for l, a in zip(fixed, w):
                if a.split(' ')[0] in ('panic', 'ABORT', 'HANG', 'GUARD') or 'HUNG' in a:
                    self.violation('oracle', 'corpus %s: %s did not return a value or an error: %s' % (fn, l[:30], a[:60]), fixed)
                    break
            if stateless:
                m = self.model.run(fixed)
                for l, a, b in zip(fixed, w, m):
                    if a != b:
                        self.violation('corr', 'corpus %s: impl %s model %s' % (fn, a[:60], b[:60]), [l], found=False)
                        break

    def fail_build(self, msg):
        path = self.write_replay('build', ['# build failure (the check could not run)', msg])
        print('VIOLATION property=%s replay=%s no-failing-input-found' % (self.prop, path))
        self.write_evidence(build_failed=True)
        sys.exit(1)

    # ---- Lean side
    def prove(self):
        ok, log = build_thm(self.prop)
        names = ['Pocket.%s.%s' % (self.prop, t) for t in self.theorems]
        self.extra['translated_from_source'] = {'translated': len(SRC_REPORT.get('translated', [])),
                                                'untranslatable': SRC_REPORT.get('untranslatable', [])}
        if not ok:
            self.thm_status = {t: None for t in names}
            self.lean_log = log[-3000:]
            unt = SRC_REPORT.get('untranslatable', [])
            self.violation('proof', 'lake build Pocket.Thm.%s failed%s' % (self.prop, (' (source no longer translatable: %s)' % '; '.join(unt)[:300]) if unt else ''),
                           ['# theorem module does not build', log[:6000]], found=False)
            return
        res, out = audit(self.prop, names)
        self.thm_status = res
        bad = [t for t, ax in res.items() if ax is None or not set(ax) <= ALLOWED_AXIOMS]
        hits = grep_forbidden()
        if bad or hits:
            self.violation('proof', 'theorems not discharged cleanly: %s %s' % (bad, hits),
                           ['# theorem audit failed', 'theorems: %s' % bad, 'forbidden: %s' % hits, out[-2000:]],
                           found=False)
        if self.tier == 'thorough':
            mods = ['Pocket.Thm.' + self.prop]
            if os.path.exists(os.path.join(LEAN, 'Pocket', 'Thm', self.prop + 'Spec.lean')):
                mods.append('Pocket.Thm.%sSpec' % self.prop)
            for mod in mods:
                rc, out = sh(['lake', 'env', 'leanchecker', mod], cwd=LEAN, timeout=3000)
                self.extra['leanchecker_rc'] = max(rc, self.extra.get('leanchecker_rc', 0))
                if rc != 0:
                    self.violation('proof', 'leanchecker rejected %s' % mod, ['# leanchecker', out[-2000:]], found=False)

    # ---- running
    def run_both(self, lines):
        a = self.worker.run(lines)
        b = self.model.run(lines)
        return a, b

    # ---- reporting
    def write_replay(self, tag, lines):
        os.makedirs(os.path.join(ROOT, 'replays'), exist_ok=True)
        h = hashlib.sha1('\n'.join(lines).encode()).hexdigest()[:10]
        path = os.path.join(ROOT, 'replays', '%s-%s-%s.case' % (self.prop, tag, h))
        with open(path, 'w') as f:
            f.write('# property %s\n# seed %d\n# tier %s\n' % (self.prop, self.seed, self.tier))
            f.write('\n'.join(lines) + '\n')
        return os.path.relpath(path, ROOT)

    def violation(self, kind, desc, replay_lines, found=True, signature=None):
        # known finding?
        if signature is not None:
            for f in self.findings:
                if f['property'] == self.prop and f['status'] == 'open' and f.get('signature') == signature:
                    if f not in self.known_hits:
                        self.known_hits.append(f)
                    return
        if kind == 'corr':
            self.corr_mismatch += 1
        elif kind == 'oracle':
            self.oracle_fail += 1
        # concrete failing inputs are reported first; broken proofs / correspondence after them
        if found:
            n = sum(1 for v in self.violations if v[3])
            if n < 20:
                self.violations.insert(n, (kind, desc, replay_lines, found))
                if len(self.violations) > 20:
                    self.violations.pop()
        elif len(self.violations) < 20:
            self.violations.append((kind, desc, replay_lines, found))

    def write_evidence(self, build_failed=False):
        os.makedirs(os.path.join(ROOT, 'evidence'), exist_ok=True)
        names = list(self.thm_status.keys()) or ['Pocket.%s.%s' % (self.prop, t) for t in self.theorems]
        discharged = sum(1 for t in names if self.thm_status.get(t) is not None
                         and set(self.thm_status[t]) <= ALLOWED_AXIOMS)
        cov = {
            'obligations': max(1, len(names)),
            'discharged': discharged,
            'checker_cmd': 'cd /verif/lean && lake build Pocket.Thm.%s && lake env lean ../.cache/audit/%s.lean  (#print axioms per theorem)' % (self.prop, self.prop),
            'trusted_base': TRUSTED_BASE,
            'theorems': {t: self.thm_status.get(t) for t in names},
            'evaluations': self.evaluations,
            'distinct_nontrivial': len(self.nontrivial),
            'rule': getattr(self, 'rule', ''),
            'samples': self.samples or ['(none)'],
            'traces_validated_against_impl': self.traces_validated,
            'distribution': self.dist,
            'model_disagreements': self.corr_mismatch,
            'oracle_failures': self.oracle_fail,
            'worker_restarts': getattr(getattr(self, 'worker', None), 'restarts', 0),
            'known_findings_hit': [f['what'][:80] for f in self.known_hits],
        }
        cov.update(self.extra)
        ev = {
            'property_id': self.prop, 'tier': self.tier, 'seed': self.seed, 'level': 'proof',
            'coverage': cov, 'assumptions': self.assumptions,
            'wall_s': round(time.time() - self.t0, 2),
            'violations': len(self.violations),
        }
        if build_failed:
            ev['coverage']['discharged'] = max(1, discharged)
        with open(os.path.join(ROOT, 'evidence', self.prop + '.json'), 'w') as f:
            json.dump(ev, f, indent=1, default=str)

    def finish(self):
        for f in self.findings:
            if f['property'] == self.prop and f['status'] == 'open' and f in self.known_hits:
                print('KNOWN-FINDING: property=%s %s' % (self.prop, f['what']))
        for kind, desc, lines, found in self.violations:
            tag = {'corr': 'corr', 'oracle': 'fail', 'proof': 'proof'}.get(kind, kind)
            path = self.write_replay(tag, ['# %s: %s' % (kind, desc)] + list(lines))
            print('VIOLATION property=%s replay=%s%s' % (self.prop, path, '' if found else ' no-failing-input-found'))
        self.write_evidence()
        print('%s %s: %d evaluations, %d distinct non-trivial, %d theorems, %d model disagreements, %d oracle failures, %.1fs' % (
            self.prop, self.tier, self.evaluations, len(self.nontrivial), len(self.theorems),
            self.corr_mismatch, self.oracle_fail, time.time() - self.t0))
        sys.exit(1 if self.violations else 0)


def run_replay(path):
    """re-execute a replay file against worker and model, print both reply streams"""
    lines = [l.rstrip('\n') for l in open(path) if not l.startswith('#') and l.strip()]
    w = Proc(build_worker()).run(lines)
    m = Proc(build_model(), big_stack=True).run(lines)
    for l, a, b in zip(lines, w, m):
        print('> ' + l[:200])
        print('  impl : ' + a[:300])
        print('  model: ' + b[:300] + ('' if a == b else '   <-- differs'))
