"""Shared generators (all randomness comes from the Check's single PRNG)."""
from .common import hx, tags_tok

ID = lambda n: bytes([n]) * 32
AUTHORS = [ID(0xa1), ID(0xb2), ID(0xc3)]
U64MAX = (1 << 64) - 1
U32MAX = (1 << 32) - 1

SMALL_STRS = [b'', b'a', b'b', b'ab', b'a\x00', b'abc', b'e', b't', b'p', b'd', b'x', b'xy', 'é'.encode(), b'"', b'\\']


def ev_tok(ev):
    """ev = dict(id,pk,kind,t,tags,content[,sig]) -> request tokens"""
    toks = [hx(ev['id']), hx(ev['pk']), str(ev['kind']), str(ev['t']), tags_tok(ev['tags']), hx(ev['content'])]
    if 'sig' in ev:
        toks.append(hx(ev['sig']))
    return ' '.join(toks)


def fl_tok(f):
    j = lambda l: ','.join(hx(x) for x in l) if l else '_'
    k = ','.join(str(x) for x in f['kinds']) if f['kinds'] else '_'
    o = lambda v: '-' if v is None else str(v)
    return '%s %s %s %s %s %s %s' % (j(f['ids']), j(f['authors']), k, tags_tok(f['tags']), o(f['since']), o(f['until']), o(f['limit']))


def matches_spec(f, e):
    """NIP-01 semantics, written from the property text (independent of the model)."""
    if f['ids'] and e['id'] not in f['ids']:
        return False
    if f['authors'] and e['pk'] not in f['authors']:
        return False
    if f['kinds'] and e['kind'] not in f['kinds']:
        return False
    since = 0 if f['since'] is None else f['since']
    until = U64MAX if f['until'] is None else f['until']
    if not (since <= e['t'] <= until):
        return False
    for c in f['tags']:
        name, values = c[0], c[1:]
        if not any(len(t) >= 2 and t[0] == name and t[1] in values for t in e['tags']):
            return False
    return True
