"""History engine for the store properties (C04, C05, C09-C12, C16-C18): generates operation
histories over a small colliding universe, runs them with a probe battery after every step on the
real store (worker) and on the Lean model, and evaluates the direct oracles against the abstract
specification (absstore.Abs)."""
import os, shutil, time
from .common import hx, tags_tok, RUNDIR
from . import gen
from .absstore import Abs, addr_of, is_repl, is_param, is_eph, d_of, ev_len, valid_answer
from .gen import ID, AUTHORS, U64MAX, U32MAX, ev_tok, fl_tok, matches_spec

KINDS = [0, 1, 1, 3, 7, 1059, 9999, 10000, 19999, 20000, 29999, 30000, 30000, 39999, 40000]
TIMES = [0, 1, 100, 150, 200, 1000, U64MAX]
P182 = b'p' * 182
DVALS = [None, b'', b'x', b'x\x00', b'y', P182, P182 + b'A', P182 + b'B', b'q' * 300, b'app:settings', b'app', b':']
RECIPIENT = ID(0xd4)      # a key that authors nothing: it only receives gift wraps (and is vanished)
IDPOOL = [ID(i) for i in range(1, 30)] + [ID(0xff), ID(0xfe), ID(0), bytes(31) + b'\x01', bytes(31) + b'\x02', b'\xff' * 31 + b'\x00']


def le(n, w):
    return n.to_bytes(w, 'little')


def encode_tags(tags):
    n = len(tags)
    body = b''
    offs = b''
    p = 4 + 2 * n
    for t in tags:
        offs += le(p, 2)
        tb = le(len(t), 2) + b''.join(le(len(s), 2) + s for s in t)
        body += tb
        p += len(tb)
    return le(p, 2) + le(n, 2) + offs + body


def encode_event(ev):
    tb = encode_tags(ev['tags'])
    n = 144 + len(tb) + 4 + len(ev['content'])
    return (le(n, 4) + le(ev['kind'], 2) + b'\0\0' + le(ev['t'], 8) + ev['id'] + ev['pk'] + ev.get('sig', bytes(64)) + tb
            + le(len(ev['content']), 4) + ev['content'])


class HistGen:
    def __init__(self, rng, focus):
        self.rng = rng
        self.focus = focus
        self.events = []      # every event ever generated (submitted or not)
        self.used_ids = set()
        self.tables = rng.choice([[], [], ['t1'], ['t1', 't2']])
        # an "address family": one author and kind, and a set of confusable identifiers; most
        # stores of a C09 history stay inside it so that neighbouring addresses really collide
        self.far_future = []
        if rng.random() < (0.35 if focus == 'C09' else 0.1):
            now = int(time.time())
            self.far_future = [now + 10 ** 6, now + 2 * 10 ** 6, now + 2 * 10 ** 6 + 1, U64MAX]
        self.family = None
        if focus in ('C09',) or rng.random() < (0.6 if focus in ('C12', 'C05') else 0.25):
            kind = rng.choice([30000, 30000, 39999, 30023, 10000, 0, 3, 19999])
            dsets = [[b'x', b'x\x00', b'x\x00\x00', b'', b'\x00', b'y'],
                     [P182, P182 + b'A', P182 + b'B', P182[:181], P182[:181] + b'\x00'],
                     [b'list', b'list\x00', b'lis', b'list2'],
                     [b'q' * 300, b'q' * 300 + b'1', b'q' * 182, b'q' * 183],
                     # identifiers that contain the separator of the kind:author:identifier notation
                     [b'app:settings', b'app', b'app:', b'app:settings:x', b':', b'']]
            if focus == 'C12':
                # refusals ("replaced", "deleted") of events whose identifier is longer than what the tag index keeps
                kind = rng.choice([30000, 30023, 39999, 10000])
                dsets = [dsets[1], dsets[3], dsets[3], dsets[0], dsets[4]]
            if focus == 'C11':
                dsets = dsets + [dsets[4], dsets[4]]
            self.family = dict(pk=rng.choice(AUTHORS), kind=kind, ds=rng.choice(dsets))

    def fresh_id(self):
        rng = self.rng
        pool = [i for i in IDPOOL if i not in self.used_ids]
        i = rng.choice(pool) if pool else bytes(rng.randrange(256) for _ in range(32))
        self.used_ids.add(i)
        return i

    episode = None

    def rand_tags(self, kind):
        rng = self.rng
        tags = []
        if is_param(kind) or rng.random() < 0.15:
            d = rng.choice(DVALS if self.focus in ('C09', 'C16', 'C11') else DVALS[:5] + [P182 + b'A'])
            if d is not None:
                tags.append([b'd', d] + ([b'extra'] if rng.random() < 0.2 else []))
            if rng.random() < 0.15:
                tags.insert(rng.randrange(len(tags) + 1), [b'd', rng.choice([b'x', b'y', b''])])
            if rng.random() < 0.05:
                tags.insert(0, [b'd'])
        for _ in range(rng.choice([0, 0, 1, 1, 2, 3])):
            name = rng.choice([b't', b't', b'e', b'p', b'a', b'tt', b'', b'T'])
            if rng.random() < (0.2 if self.focus in ('C17', 'C18', 'C05') else 0.06):
                # one-byte names that are not letters: indexed and de-indexed like letters (or not at all) - never one without the other
                name = rng.choice([b'1', b'9', b'_', b'-', b'#', b'\x00', b'@', b'[', b'`', b'{'])
            vals = [b'a', b'b', b'ab', b'', b'a\x00', b'v' * 182, b'v' * 183, b'v' * 182 + b'w', AUTHORS[0].hex().encode(), AUTHORS[1].hex().encode()]
            n = rng.choice([0, 1, 1, 1, 2, 3])
            tags.append([name] + [rng.choice(vals) for _ in range(n)])
        if rng.random() < 0.1:
            tags.append([])
        if rng.random() < (0.25 if self.focus in ('C17', 'C18', 'C05') else 0.05):
            # two tags that collapse to ONE tag-index key (an exact repeat, or two long values sharing their first 182
            # bytes), preceded by a tag that is not indexed and followed by one that is
            x = rng.choice([AUTHORS[0].hex().encode(), b'a', b''])
            twin = rng.choice([[[b'p', x], [b'p', x]], [[b'r', b'v' * 182 + b'1'], [b'r', b'v' * 182 + b'2']], [[b't', x], [b't', x, b'more']]])
            tags = rng.choice([[], [[b'client', b'x']], [[b'k']]]) + twin + [[rng.choice([b't', b'e', b'g']), rng.choice([b'z', b'later'])]] + tags[:1]
        return tags

    def new_event(self, kind=None, pk=None, t=None, tags=None, content=None):
        rng = self.rng
        kind = rng.choice(KINDS) if kind is None else kind
        ev = dict(id=self.fresh_id(), pk=rng.choice(AUTHORS) if pk is None else pk, kind=kind,
                  t=rng.choice(TIMES) if t is None else t,
                  tags=self.rand_tags(kind) if tags is None else tags,
                  content=rng.choice([b'', b'hi', b'x' * rng.choice([1, 7, 300, 1500, 2500, 5000])]) if content is None else content)
        if kind == 1059 and rng.random() < 0.8:
            who = rng.choice(AUTHORS + [RECIPIENT, RECIPIENT]).hex().encode()
            shape = rng.choice(['first', 'later', 'nonfirst', 'upper', 'nearmiss'])
            if shape == 'nearmiss':
                # a p value that is NOT the key's hex but shares its index key or a prefix with it: trailing NUL bytes (the index
                # pads values with NULs to 182 bytes), one digit short / long, a different last digit
                near = rng.choice([who + b'\x00', who + b'\x00' * 3, who + b'\x00' * 118, who + b'\x00' * 119, who + b'\x00' * 118 + b'x',
                                   who[:-1], who + b'0', who[:-1] + (b'0' if who[-1:] != b'0' else b'1'), b' ' + who])
                ev['tags'].insert(rng.choice([0, len(ev['tags'])]), [b'p', near])
            elif shape == 'first':
                ev['tags'].insert(0, [b'p', who])
            elif shape == 'later':
                ev['tags'].append([b'p', who])
            elif shape == 'nonfirst':
                ev['tags'].append([b'p', b'zz', who])
            else:
                ev['tags'].append([b'p', who.upper()])
        self.events.append(ev)
        return ev

    def family_event(self):
        """an event at (or next to) one of the family's addresses, in every timestamp order"""
        rng = self.rng
        fam = self.family
        kind = fam['kind']
        if rng.random() < 0.1:
            kind = rng.choice([max(0, kind - 1), min(65535, kind + 1), 30000, 10000])
        pk = fam['pk'] if rng.random() < 0.9 else rng.choice(AUTHORS)
        d = rng.choice(fam['ds'])
        shape = rng.choice(['plain'] * 6 + ['second_d', 'second_d', 'd_no_value_first', 'extra_string', 'other_first'])
        if shape == 'plain':
            tags = [[b'd', d]]
        elif shape == 'second_d':
            tags = [[b'd', d], [b'd', rng.choice(fam['ds'])]]
        elif shape == 'd_no_value_first':
            tags = [[b'd'], [b'd', d]]
        elif shape == 'extra_string':
            tags = [[b'd', d, b'more']]
        else:
            tags = [[b't', b'a'], [b'd', d]]
        if rng.random() < 0.15:
            tags = []
        ts = [100, 100, 150, 200, 200, 1000, 0]
        if self.far_future:
            # created_at comes from the author's clock: versions dated AFTER the relay's "now" are ordinary inputs
            ts = ts[:3] + self.far_future + self.far_future
        return self.new_event(kind=kind, pk=pk, tags=tags, t=rng.choice(ts),
                              content=rng.choice([b'', b'v1', b'v2']))

    def deletion(self, abs_, pk=None):
        """a kind-5 request with 0-5 e/a tags mixing own/foreign/absent/malformed targets"""
        rng = self.rng
        pk = rng.choice(AUTHORS) if pk is None else pk
        tags = []
        known = self.events[:]
        for _ in range(rng.choice([0, 1, 1, 2, 3, 5])):
            kind = rng.choice(['e_own', 'e_own', 'e_foreign', 'e_absent', 'e_bad', 'a_own', 'a_own', 'a_foreign', 'a_bad', 'other'])
            if self.focus == 'C10' and rng.random() < 0.4:
                kind = rng.choice(['e_foreign', 'a_foreign'])
            own = [e for e in known if e['pk'] == pk]
            foreign = [e for e in known if e['pk'] != pk]
            if kind == 'e_own' and own:
                tags.append([b'e', self.hexcase(rng.choice(own)['id'])])
            elif kind == 'e_foreign' and foreign:
                tags.append([b'e', self.hexcase(rng.choice(foreign)['id'])])
            elif kind == 'e_absent':
                tags.append([b'e', rng.choice(IDPOOL).hex().encode()] + ([b'wss://x'] if rng.random() < 0.3 else []))
            elif kind == 'e_bad':
                tags.append([b'e', rng.choice([b'', b'zz', b'0' * 63, b'0' * 65, b'g' * 64, ID(1).hex().encode()[:-1] + b'\xc3'[:1].hex().encode()[:1]])])
            elif kind in ('a_own', 'a_foreign'):
                src = own if kind == 'a_own' else foreign
                addrs = [a for a in (addr_of(e) for e in src) if a]
                if addrs and rng.random() < 0.8:
                    k, p, d = rng.choice(addrs)
                else:
                    k, p, d = rng.choice([0, 3, 10000, 30000, 30000, 1, 20000]), (pk if kind == 'a_own' else rng.choice([a for a in AUTHORS if a != pk])), rng.choice([b'', b'x', b'junk', P182 + b'A', b'q' * 300, b'z' * 480])
                if is_repl(k) and rng.random() < 0.3:
                    d = rng.choice([b'junk', b'x'])
                ks = str(k).encode()
                if rng.random() < 0.1:
                    ks = rng.choice([b'+' + ks, b'0' + ks])
                tags.append([b'a', ks + b':' + self.hexcase(p) + b':' + d])
            elif kind == 'a_bad':
                tags.append([b'a', rng.choice([b'', b'30000', b'30000:' + pk.hex().encode(), b'x:' + pk.hex().encode() + b':d', b'65536:' + pk.hex().encode() + b':d',
                                               b'30000:' + pk.hex().encode()[:-2] + b':d', b'-1:' + pk.hex().encode() + b':', b' 1:' + pk.hex().encode() + b':'])])
            else:
                tags.append(rng.choice([[b'e'], [b'a'], [], [b'p', pk.hex().encode()], [b'ee', ID(1).hex().encode()]]))
        if self.focus in ('C12', 'C13') and rng.random() < (0.3 if self.focus == 'C12' else 0.1):
            # a request that fails late for a reason other than a foreign target: the address key of an own `a` tag
            # exceeds what the index accepts (identifier > 476 bytes), after whatever the earlier tags already did
            tags.append([b'a', rng.choice([b'30000', b'30023']) + b':' + pk.hex().encode() + b':' + b'z' * rng.choice([477, 480, 600])])
        if self.focus in ('C10', 'C11', 'C12', 'C13') and rng.random() < (0.12 if self.focus == 'C12' else 0.04):
            # a LONG request: many effective own targets (ids not stored, own addresses, own stored events), then one tag
            # that makes the whole request fail (a foreign target, or an identifier too long for the index) - or none
            n = rng.choice([63, 64, 65, 66, 100, 130, 200])
            own = [e for e in known if e['pk'] == pk]
            long_tags = []
            for i in range(n):
                r = rng.random()
                if r < 0.15 and own:
                    long_tags.append([b'e', rng.choice(own)['id'].hex().encode()])
                elif r < 0.45:
                    long_tags.append([b'a', b'30023:' + pk.hex().encode() + b':long' + str(i).encode()])
                else:
                    long_tags.append([b'e', (bytes([0x90 + i % 16, i // 16]) * 16).hex().encode()])
            foreign = [e for e in known if e['pk'] != pk]
            tail = rng.choice(['foreign', 'foreign', 'toolong', 'none'])
            if tail == 'foreign' and foreign:
                long_tags.append([b'e', rng.choice(foreign)['id'].hex().encode()])
            elif tail == 'toolong':
                long_tags.append([b'a', b'30023:' + pk.hex().encode() + b':' + b'z' * 480])
            tags = tags[:1] + long_tags
        ev = self.new_event(kind=5, pk=pk, tags=tags, content=b'')
        if rng.random() < 0.05:
            ev['tags'].append([b'e', ev['id'].hex().encode()])    # names itself
        return ev

    def hexcase(self, b):
        h = b.hex()
        return (h.upper() if self.rng.random() < 0.15 else h).encode()

    def next_op(self, abs_):
        rng = self.rng
        f = self.focus
        weights = {'store': 50, 'delete': 12, 'resubmit': 12, 'remove': 6, 'vanish': 2, 'reopen': 3, 'rebuild': 2, 'xput': 2, 'neighbour': 8, 'giftwrap': 2, 'fit': 1}
        if f == 'C09':
            weights.update(neighbour=45, store=20, resubmit=15)
        if f in ('C10', 'C11', 'C12'):
            weights.update(delete=35, resubmit=20)
        if f == 'C16':
            weights.update(reopen=10, rebuild=10, xput=6, delete=20)
        if f == 'C18':
            weights.update(remove=18, vanish=10, resubmit=15, giftwrap=14)
        if f == 'C13':
            weights.update(vanish=10, remove=12, delete=14, rebuild=0, reopen=0, xput=0)
        if f == 'C04':
            weights.update(store=60, reopen=10, fit=8)
        if f == 'C16':
            weights.update(fit=6)
        ops = list(weights)
        op = rng.choices(ops, [weights[o] for o in ops])[0]
        if self.family and op in ('store', 'neighbour') and rng.random() < (0.8 if f == 'C09' else 0.5):
            return {'op': 'store', 'ev': self.family_event()}
        if op == 'giftwrap':
            return {'op': 'store', 'ev': self.new_event(kind=1059, pk=ID(rng.choice([0xe1, 0xe2, 0xe3])))}
        if self.episode:
            return self.episode.pop(0)
        if f in ('C11', 'C16') and rng.random() < (0.12 if f == 'C11' else 0.08):
            # an address episode: E1 at the address, the address deleted later, a newer E2 stored there, (rebuild /
            # reopen), E2 deleted by id, E1 and an event just older than the deletion offered again
            pk = rng.choice(AUTHORS)
            kind = rng.choice([30023, 30023, 10002])
            d = rng.choice([b'ep', b'', b'q' * 300, b'w' * 256, b'u' * 437, b'u' * 200, b'app:settings', b'a:b:c', b':', b'wss://relay.example/x']) if kind == 30023 else b''
            tg = [[b'd', d]] if kind == 30023 else []
            e1 = self.new_event(kind=kind, pk=pk, t=1000, tags=tg, content=b'e1')
            dl = self.new_event(kind=5, pk=pk, t=2000, tags=[[b'a', str(kind).encode() + b':' + pk.hex().encode() + b':' + d]], content=b'')
            e2 = self.new_event(kind=kind, pk=pk, t=3000, tags=tg, content=b'e2')
            d2 = self.new_event(kind=5, pk=pk, t=3500, tags=[[b'e', e2['id'].hex().encode()]], content=b'')
            e3 = self.new_event(kind=kind, pk=pk, t=1999, tags=tg, content=b'e3')
            mid = {'op': rng.choice(['rebuild', 'rebuild', 'reopen'])}
            # ... and, after the address was deleted, an OLDER deletion of a different address arrives (by the same or another key):
            # deletion times are per address; a later, older request for another address must not reopen this one
            opk = rng.choice([pk] + [a_ for a_ in AUTHORS if a_ != pk])
            dother = self.new_event(kind=5, pk=opk, t=rng.choice([500, 1500]), content=b'',
                                    tags=[[b'a', b'30023:' + opk.hex().encode() + b':elsewhere']])
            self.episode = [{'op': 'store', 'ev': dl}, {'op': 'store', 'ev': dother}, {'op': 'store', 'ev': e2}, mid, {'op': 'store', 'ev': d2},
                            {'op': 'store', 'ev': e1}, {'op': 'store', 'ev': e3}]
            if rng.random() < 0.5:
                # the covered events offered again straight after the two requests, before anything reopens or rebuilds the store
                self.episode = self.episode[:2] + [{'op': 'store', 'ev': e1}, {'op': 'store', 'ev': e3}] + self.episode[2:]
            return {'op': 'store', 'ev': e1}
        if f == 'C16' and rng.random() < 0.06:
            # a rebuild of a store holding several chunks of live events, after which the SAME store keeps being used until the
            # compacted map has to grow again (no reopen in between)
            n1, n2 = rng.choice([7, 9, 12]), rng.choice([6, 9, 14])
            eps = [{'op': 'store', 'ev': self.new_event(kind=1, tags=[[b't', b'a']], content=b'b' * rng.choice([600, 800, 1100]))} for _ in range(n1)]
            eps.append({'op': 'rebuild'})
            eps += [{'op': 'store', 'ev': self.new_event(kind=1, tags=[], content=b'a' * rng.choice([300, 700, 900]))} for _ in range(n2)]
            self.episode = eps[1:]
            return eps[0]
        if f == 'C18' and rng.random() < 0.1:
            # a vanish episode: a gift wrap naming P, gift wraps whose p value is NOT P's hex but shares its 182-byte index key or a
            # prefix with it, an event by P - then P vanishes: exactly P's events and the wraps naming P go
            P = rng.choice(AUTHORS + [RECIPIENT])
            who = P.hex().encode()
            nears = [who + b'\x00', who + b'\x00' * 118, who + b'\x00' * 119, who + b'\x00' * 118 + b'x', who[:-1], who + b'0', who.upper()]
            eps = [{'op': 'store', 'ev': self.new_event(kind=1059, pk=ID(0xe1), t=rng.choice(TIMES), tags=[[b'p', who]], content=b'wrap')}]
            for nv in rng.sample(nears, rng.choice([1, 2, 3])):
                eps.append({'op': 'store', 'ev': self.new_event(kind=1059, pk=ID(rng.choice([0xe1, 0xe2])), t=rng.choice(TIMES),
                                                               tags=rng.choice([[[b'p', nv]], [[b'p', nv], [b't', b'a']], [[b'e', b'x'], [b'p', nv, who]]]), content=b'near')})
            if P in AUTHORS:
                eps.append({'op': 'store', 'ev': self.new_event(kind=1, pk=P, tags=[[b't', b'a']], content=b'own')})
            rng.shuffle(eps)
            eps.append({'op': 'vanish', 'pk': P})
            self.episode = eps[1:]
            return eps[0]
        if f in ('C17', 'C18', 'C05') and rng.random() < 0.07:
            # an event whose tag name is one byte but not a letter, then removed by one of the four paths
            pk = rng.choice(AUTHORS)
            kind = rng.choice([1, 1, 10002, 30023])
            name = rng.choice([b'1', b'9', b'0', b'_', b'-', b'@', b'['])
            tg = [[name, rng.choice([b'x', b'', b'v' * 183])], [b't', b'a']] + ([[b'd', b'nl']] if kind == 30023 else [])
            e = self.new_event(kind=kind, pk=pk, t=1000, tags=tg, content=b'nl')
            ways = [{'op': 'remove', 'id': e['id']}, {'op': 'vanish', 'pk': pk},
                    {'op': 'store', 'ev': self.new_event(kind=5, pk=pk, t=2000, tags=[[b'e', e['id'].hex().encode()]], content=b'')}]
            if kind != 1:
                ways.append({'op': 'store', 'ev': self.new_event(kind=kind, pk=pk, t=1500, tags=[[b'd', b'nl']] if kind == 30023 else [], content=b'v2')})
            self.episode = [rng.choice(ways)]
            return {'op': 'store', 'ev': e}
        if op == 'fit':
            # an event that ends exactly at a multiple of the map's growth chunk (2048 bytes in a debug build): the map
            # is completely full afterwards — or one byte short / one byte over
            from .absstore import align8
            start = align8(abs_.end)
            base_len = 152                                   # no tags, empty content
            target = ((start + base_len) // 2048 + 1) * 2048 + rng.choice([0, 0, 0, -8, 8, -1, 1])
            clen = target - start - base_len
            if clen >= 0:
                return {'op': 'store', 'ev': self.new_event(kind=1, tags=[], content=b'F' * clen)}
            return {'op': 'store', 'ev': self.new_event()}
        if op == 'store' or not self.events:
            return {'op': 'store', 'ev': self.new_event()}
        if op == 'neighbour':
            base = rng.choice(self.events)
            k = base['kind']
            kind = rng.choice([k, k, k, max(0, k - 1), min(65535, k + 1)]) if k != 5 else 30000
            tags = [list(t) for t in base['tags']]
            if rng.random() < 0.4:
                tags = self.rand_tags(kind)
            return {'op': 'store', 'ev': self.new_event(kind=kind, pk=base['pk'] if rng.random() < 0.8 else None, tags=tags,
                                                        t=rng.choice([base['t'], base['t'], max(0, base['t'] - 1), min(U64MAX, base['t'] + 1), rng.choice(TIMES)]))}
        if op == 'delete':
            return {'op': 'store', 'ev': self.deletion(abs_)}
        if op == 'resubmit':
            return {'op': 'store', 'ev': rng.choice(self.events)}
        if op == 'remove':
            return {'op': 'remove', 'id': rng.choice(self.events)['id'] if rng.random() < 0.85 else rng.choice(IDPOOL)}
        if op == 'vanish':
            return {'op': 'vanish', 'pk': rng.choice(AUTHORS + [RECIPIENT, RECIPIENT, ID(0x77)])}
        if op == 'xput' and self.tables:
            return {'op': 'xput', 'table': rng.choice(self.tables), 'key': rng.choice([b'k', b'k2', b'\x00', b'zz' * 20]), 'val': rng.choice([b'', b'v', b'w' * 100])}
        if op == 'rebuild':
            return {'op': 'rebuild'}
        return {'op': 'reopen'}


SCREENS = {'m': lambda e: 'match',
           'p': lambda e: ('match', 'mismatch', 'redacted')[e['id'][31] % 3],
           'x': lambda e: 'mismatch', 'r': lambda e: 'redacted'}


def self_filters(ev):
    """the filter shapes an event's own fields satisfy (C17)"""
    base = dict(ids=[], authors=[], kinds=[], tags=[], since=None, until=None, limit=None)
    out = [dict(base, ids=[ev['id']]), dict(base, authors=[ev['pk']]), dict(base, authors=[ev['pk']], kinds=[ev['kind']]),
           dict(base, since=ev['t'], until=ev['t']), dict(base, authors=[ev['pk']], since=ev['t'])]
    for t in ev['tags']:
        if len(t) >= 2 and len(t[0]) == 1 and (65 <= t[0][0] <= 90 or 97 <= t[0][0] <= 122):
            c = [t[0], t[1]]
            out.append(dict(base, tags=[c]))
            out.append(dict(base, tags=[c], authors=[ev['pk']]))
            out.append(dict(base, tags=[c], kinds=[ev['kind']]))
            out.append(dict(base, tags=[c], authors=[ev['pk']], kinds=[ev['kind']]))
    return out


def self_filters_nonletter(ev):
    """filters naming a one-byte tag name that is NOT a letter (constructible with from_parts only): whether they find a
    retrievable event is outside the property; they must never return an unretrievable one"""
    base = dict(ids=[], authors=[], kinds=[], tags=[], since=None, until=None, limit=None)
    out = []
    for t in ev['tags']:
        if len(t) >= 2 and len(t[0]) == 1 and not (65 <= t[0][0] <= 90 or 97 <= t[0][0] <= 122):
            c = [t[0], t[1]]
            out.append(dict(base, tags=[c]))
            out.append(dict(base, tags=[c], authors=[ev['pk']]))
            out.append(dict(base, tags=[c], kinds=[ev['kind']]))
    return out


def rand_filter(rng, events):
    base = dict(ids=[], authors=[], kinds=[], tags=[], since=None, until=None, limit=None)
    f = dict(base)
    ev = rng.choice(events) if events and rng.random() < 0.8 else None
    shape = rng.choice(['ids', 'ak', 'at', 'kt', 't', 'a', 'scrape', 'scrape', 'mix', 'akt'])
    def some(pool, hit, kmax=3):
        l = [rng.choice(pool) for _ in range(rng.randrange(1, kmax + 1))]
        if hit is not None and rng.random() < 0.7:
            l[rng.randrange(len(l))] = hit
        return l
    def tagc():
        cs = []
        for _ in range(rng.choice([1, 1, 2])):
            src = [t for e in events for t in e['tags'] if len(t) >= 2 and len(t[0]) == 1] if events else []
            own = [t for t in ev['tags'] if len(t) >= 2 and len(t[0]) == 1] if ev else []
            if own and rng.random() < 0.5:
                src = own          # a constraint the chosen event itself satisfies (any of its tags, not only the first of a name)
            if src and rng.random() < 0.8:
                t = rng.choice(src)
                c = [t[0]] + [rng.choice([b'a', b'b', b'zz', b'']) for _ in range(rng.choice([0, 0, 1, 2]))]
                c.insert(rng.randrange(1, len(c) + 1), t[1])
            else:
                c = [rng.choice([b't', b'e', b'p', b'd', b'tt', b'z'])] + [rng.choice([b'a', b'b', b'']) for _ in range(rng.choice([0, 1, 2]))]
            cs.append(c)
        return cs
    if shape in ('ids', 'mix'):
        f['ids'] = some(IDPOOL[:12], ev['id'] if ev else None, 5)
    if shape in ('ak', 'at', 'a', 'mix', 'akt'):
        f['authors'] = some(AUTHORS, ev['pk'] if ev else None, 2)
    if shape in ('ak', 'kt', 'akt') or (shape == 'mix' and rng.random() < 0.5):
        f['kinds'] = some(KINDS, ev['kind'] if ev else None, 3)
    if shape in ('at', 'kt', 't', 'akt') or (shape == 'mix' and rng.random() < 0.5):
        f['tags'] = tagc()
    tt = ev['t'] if ev else rng.choice(TIMES)
    f['since'] = rng.choice([None, None, None, 0, tt, tt, max(0, tt - 1), min(U64MAX, tt + 1), 150, U64MAX])
    f['until'] = rng.choice([None, None, None, U64MAX, tt, tt, max(0, tt - 1), min(U64MAX, tt + 1), 150, 0])
    f['limit'] = rng.choice([None, None, None, 0, 1, 1, 2, 3, 5])
    return f


class Runner:
    def __init__(self, c, focus, nhist, nops, nfilters=10, full_battery=True):
        self.c = c
        self.focus = focus
        self.nhist, self.nops, self.nfilters = nhist, nops, nfilters
        self.base = os.path.join(RUNDIR, '%s-%d' % (c.prop, os.getpid()))
        os.makedirs(self.base, exist_ok=True)

    def cleanup(self):
        shutil.rmtree(self.base, ignore_errors=True)

    # ---- request text
    @staticmethod
    def op_line(op):
        if op['op'] == 'store':
            return 'STO ' + ev_tok(op['ev'])
        if op['op'] == 'remove':
            return 'REM ' + hx(op['id'])
        if op['op'] == 'vanish':
            return 'VAN ' + hx(op['pk'])
        if op['op'] == 'reopen':
            return 'OPN'
        if op['op'] == 'rebuild':
            return 'RBD'
        if op['op'] == 'xput':
            return 'XPT %s %s %s' % (op['table'], hx(op['key']), hx(op['val']))
        raise ValueError(op)

    def build(self):
        """generate all histories, executing each op on the abstract spec (which also predicts the
        offsets that the battery reads back)"""
        import copy
        from .absstore import parse_addr, parse_id
        rng = self.c.rng
        now = int(time.time())
        hists = []
        for h in range(self.nhist):
            g = HistGen(rng, self.focus)
            ab = Abs(g.tables)
            d = os.path.join(self.base, 'h%d' % h)
            lines = ['NEW %s %s' % (d, ','.join(g.tables) if g.tables else '-')]
            if self.focus in ('C04', 'C16') and h % 5 == 4:
                # the store's first open finds an event.map that already exists: zero-filled, one to several chunks long or an odd
                # length (pre-sized by an operator, or left by an interrupted creation); no extra tables in these histories
                g.tables = []
                ab = Abs([])
                lines = ['PRE %s %d' % (d, rng.choice([2048, 4096, 6144, 10240, 6152, 5000, 100, 8])), 'OPN %s -' % d]
            steps = []
            ids, addrs = [], []
            submitted = {}      # id -> ev (what was submitted under that id)
            for k in range(rng.randrange(max(3, self.nops // 3), self.nops + 1)):
                op = g.next_op(ab)
                li = len(lines)
                lines.append(self.op_line(op))
                before = dict(live=dict(ab.live), del_ids=set(ab.del_ids), del_addr=dict(ab.del_addr))
                pred = 'ok'
                if op['op'] == 'store':
                    ev = op['ev']
                    submitted[ev['id']] = ev
                    r = ab.store(ev)
                    pred = 'ok %d' % r[1] if isinstance(r, tuple) else r
                    if ev['id'] not in ids:
                        ids.append(ev['id'])
                    a = addr_of(ev)
                    for cand in ([a] if a else []) + ([(30000, ev['pk'], b'junk')] if rng.random() < 0.1 else []):
                        if cand not in addrs and len(cand[2]) <= 400:
                            addrs.append(cand)
                    if ev['kind'] == 5:
                        for t in ev['tags']:
                            if len(t) >= 2 and t[0] == b'a':
                                pa = parse_addr(t[1])
                                if pa:
                                    for cand in (pa, (pa[0], pa[1], b'')):
                                        if cand not in addrs and len(cand[2]) <= 400:
                                            addrs.append(cand)
                            if len(t) >= 2 and t[0] == b'e':
                                pi = parse_id(t[1])
                                if pi and pi not in ids:
                                    ids.append(pi)
                elif op['op'] == 'remove':
                    ab.remove(op['id'])
                    if op['id'] not in ids:
                        ids.append(op['id'])
                elif op['op'] == 'vanish':
                    ab.vanish(op['pk'])
                elif op['op'] == 'rebuild':
                    ab.rebuild()
                    pred = 'ok bak=11'
                elif op['op'] == 'xput':
                    ab.extra[op['table']][op['key']] = op['val']
                bat = []
                for i in ids:
                    for kind in ('HAS', 'GID', 'DEL'):
                        bat.append((kind, i, len(lines)))
                        lines.append('%s %s' % (kind, hx(i)))
                for (kk, pk, dd) in addrs:
                    bat.append(('NAD', (kk, pk, dd), len(lines)))
                    lines.append('NAD %d %s %s' % (kk, hx(pk), hx(dd)))
                    if is_repl(kk) or rng.random() < 0.05:
                        bat.append(('FRP', (kk, pk, dd), len(lines)))
                        lines.append('FRP %s %d' % (hx(pk), kk))
                    if is_param(kk) or rng.random() < 0.05:
                        bat.append(('FPR', (kk, pk, dd), len(lines)))
                        lines.append('FPR %d %s %s' % (kk, hx(pk), hx(dd)))
                bat.append(('STA', None, len(lines)))
                lines.append('STA')
                # the state of the Lean ABSTRACT store (the one the refinement theorems are about), answered by the model
                # driver only: compared with this file's Python specification after every step
                bat.append(('SPC', None, len(lines)))
                lines.append('SPC')
                if self.focus in ('C04', 'C16'):
                    # the length of the event-map file (the model follows set_len / the grow loop / reopen)
                    bat.append(('MLN', None, len(lines)))
                    lines.append('MLN')
                if self.focus in ('C05', 'C09', 'C17', 'C18'):
                    # the byte keys the six query indexes really hold (verif hook), in LMDB's own order
                    bat.append(('KYS', None, len(lines)))
                    lines.append('KYS')
                for t in g.tables:
                    bat.append(('XDP', t, len(lines)))
                    lines.append('XDP ' + t)
                offs = sorted(ab.log)
                if len(offs) > 14:
                    offs = offs[-8:] + rng.sample(offs[:-8], 6)
                for o in offs:
                    bat.append(('OFF', o, len(lines)))
                    lines.append('OFF %d' % o)
                fs = []
                if self.focus in ('C17', 'C05') or rng.random() < 0.3:
                    pool = g.events[-6:] if self.focus != 'C17' else g.events[-12:]
                    for ev in pool:
                        for f in self_filters(ev):
                            fs.append((f, 'm', 1, 0, 0, 'self', ev['id']))
                        for f in self_filters_nonletter(ev):
                            fs.append((f, 'm', 1, 0, 0, 'selfx', ev['id']))
                for _ in range(self.nfilters):
                    f = rand_filter(rng, g.events)
                    scr = rng.choice(['m', 'm', 'm', 'p', 'p', 'r', 'x'])
                    allow, lim, secs = rng.choice([(1, 0, 0), (1, 0, 0), (0, 0, 0), (0, 2, 0), (0, 0, 10), (0, 0, 10 ** 12), (0, U32MAX, 0)])
                    if not (f['ids'] or f['authors'] or f['tags']) and rng.random() < 0.5:
                        # the time allowance measured against the clock: windows that start a minute or weeks ago and end in
                        # the past, now, in the near or far future, or never. The request is generated now and runs later - up to
                        # an hour later in the thorough tier - so every window is at least eight hours away from the
                        # allowance it is judged against: the verdict does not depend on when the request runs
                        f['since'] = now - rng.choice([60, 100, 10 ** 6, 2 * 10 ** 6])
                        f['until'] = rng.choice([None, U64MAX, now + 600, now + 600, now + 10 ** 7, now - 10, U64MAX - 1])
                        f['limit'] = rng.choice([None, 1, 5, 1000])
                        allow, lim, secs = 0, rng.choice([0, 2]), rng.choice([30000, 30000, 300000])
                    fs.append((f, scr, allow, lim, secs, 'rand', None))
                if len(fs) > 3 * self.nfilters + 40:
                    fs = rng.sample(fs, 3 * self.nfilters + 40)
                for (f, scr, allow, lim, secs, why, who) in fs:
                    bat.append(('FND', (f, scr, allow, lim, secs, why, who), len(lines)))
                    lines.append('FND %s %d %d %d %s now=%d' % (fl_tok(f), allow, lim, secs, scr, now))
                snap = dict(live=dict(ab.live), del_ids=set(ab.del_ids), del_addr=dict(ab.del_addr), log=dict(ab.log),
                            end=ab.end, extra=copy.deepcopy(ab.extra), before=before, submitted=dict(submitted))
                steps.append(dict(op=op, li=li, bat=bat, pred=pred, snap=snap))
            lines.append('RMD')
            hists.append(dict(lines=lines, steps=steps, tables=g.tables, now=now))
        return hists

    def run(self, hists):
        """executes on worker and model; a second pass reads back every returned offset"""
        all_lines = [l for h in hists for l in h['lines']]
        self.c.evaluations += len(all_lines)
        # histories are independent (each starts in a fresh directory and removes it): large runs are spread over several worker
        # and model processes, so that no single process run comes near its time limit
        K = 1 if len(hists) < 64 else min(14, len(hists) // 16)
        if K == 1:
            w = self.c.worker.run(all_lines)
            m = self.c.model.run(all_lines)
            pos = 0
            for h in hists:
                n = len(h['lines'])
                h['w'] = w[pos:pos + n]
                h['m'] = m[pos:pos + n]
                pos += n
            return hists
        from concurrent.futures import ThreadPoolExecutor
        from .common import Proc
        groups = [hists[i::K] for i in range(K)]

        def one(g):
            lines = [l for h in g for l in h['lines']]
            w = Proc(self.c.worker.exe, timeout=1800).run(lines)
            m = Proc(self.c.model.exe, big_stack=True, timeout=1800).run(lines)
            pos = 0
            for h in g:
                n = len(h['lines'])
                h['w'] = w[pos:pos + n]
                h['m'] = m[pos:pos + n]
                pos += n
        with ThreadPoolExecutor(K) as ex:
            list(ex.map(one, groups))
        return hists


def strip_now(r):
    i = r.find(' now=')
    return r if i < 0 else r[:i]


def scrape_refused(f, allow, lim, secs, now):
    """the property's rule: refused only when the filter names no ids, authors or tags and the
    allowances do not cover it"""
    if f['ids'] or f['authors'] or f['tags']:
        return False
    limit = U32MAX if f['limit'] is None else f['limit']
    since = 0 if f['since'] is None else f['since']
    until = U64MAX if f['until'] is None else f['until']
    span = max(0, min(until, now) - since)
    return not (allow or limit <= lim or span < secs)


def named_filter(f):
    """NIP-01 filter: every tag constraint is named by a single ASCII letter"""
    return all(len(c) >= 1 and len(c[0]) == 1 and (65 <= c[0][0] <= 90 or 97 <= c[0][0] <= 122) for c in f['tags'])


def judge(c, hists, oracles, relevant=None):
    """correspondence + the direct oracles named in `oracles`.
    `relevant`: the request kinds whose correspondence this property depends on (None = all).
    Queries are compared with the model only at steps where implementation and model agree on
    which events are retrievable, and judged (ValidAnswer) against the implementation's own
    retrievable set, so that a defect in what is *stored* is not reported as a query defect."""
    for hi, h in enumerate(hists):
        w, m, lines = h['w'], h['m'], h['lines']
        def replay(upto):
            return [l for l in lines[:upto + 1] if l[:3] in ('NEW', 'PRE', 'STO', 'REM', 'VAN', 'OPN', 'RBD', 'XPT')] + ([lines[upto]] if lines[upto][:3] not in ('NEW', 'PRE', 'STO', 'REM', 'VAN', 'OPN', 'RBD', 'XPT') else [])
        def bad(kind, desc, li, found=True):
            c.violation(kind, desc, replay(li), found=found)
        if not w[0].startswith('ok'):
            bad('oracle', 'Store::new failed: %s' % w[0], 0)
            continue
        prev_bat = None
        for si, st in enumerate(h['steps']):
            op, li, bat, pred, snap = st['op'], st['li'], st['bat'], st['pred'], st['snap']
            rw, rm = w[li], m[li]
            c.count('op:%s:%s' % (op['op'], rw.split(' ')[0]))
            c.nontriv((lines[li][:160], len(snap['live']), len(snap['del_ids']), len(snap['del_addr'])))
            if rw.split(' ')[0] in ('panic', 'ABORT', 'HANG'):
                bad('oracle', '%s did not return: %s' % (op['op'], rw[:80]), li)
                break
            # ---- correspondence
            if rw != rm and (relevant is None or lines[li][:3] in relevant):
                bad('corr', '%s: impl %s model %s' % (lines[li][:40], rw[:40], rm[:40]), li, found=False)
            cur = {}
            same_live = all(strip_now(w[bi]) == m[bi] for (kind, arg, bi) in bat if kind == 'HAS')
            impl_live = {arg: snap['submitted'][arg] for (kind, arg, bi) in bat
                         if kind == 'HAS' and w[bi] == '1' and arg in snap['submitted']}
            for (kind, arg, bi) in bat:
                a, b = strip_now(w[bi]), m[bi]
                cur[(kind, repr(arg) if kind != 'FND' else bi)] = a
                if a.split(' ')[0] in ('panic', 'ABORT', 'HANG'):
                    bad('oracle', '%s did not return: %s' % (lines[bi][:60], a[:60]), bi)
                    continue
                if kind == 'SPC':
                    # two independently written specifications: the Lean abstract store (Spec/AbsStore.lean: what
                    # `full_history_refines` proves the concrete model computes) and absstore.py (the direct oracle)
                    c.count('abstract_specs_compared')
                    if 'MODEL-INCONSISTENT' in b:
                        bad('corr', 'the concrete Lean model left the abstract store it is proved to refine: %s' % b[-90:], bi, found=False)
                    kv = dict(x.split('=', 1) for x in b.split(' ')[:4] if '=' in x)
                    lst = lambda x: set() if x in ('_', '', None) else set(x.split(','))
                    want_addr = {'%d:%s:%s=%d' % (k_[0], k_[1].hex(), k_[2].hex() or '-', t_) for k_, t_ in snap['del_addr'].items()}
                    if (lst(kv.get('live')) != {i_.hex() for i_ in snap['live']} or lst(kv.get('del')) != {i_.hex() for i_ in snap['del_ids']}
                            or lst(kv.get('addr')) != want_addr or kv.get('end') != str(snap['end'])):
                        bad('corr', 'the Lean abstract store and the Python specification disagree after this step: lean %s' % b[:120], bi, found=False)
                    continue
                if a != b and not (kind == 'OFF' and b == 'unknown'):
                    if kind == 'FND' and not same_live:
                        continue
                    if relevant is None or kind in relevant:
                        bad('corr', '%s: impl %s model %s' % (lines[bi][:50], a[:50], b[:50]), bi, found=False)
            # ---- reply class against the abstract specification
            # (the offset inside an `ok` reply is C04's business; the other properties judge the class)
            # and "accepted or refused"; WHICH refusal is returned when several apply is the code's precedence, mirrored by
            # the model and compared as correspondence above, not a clause of these properties)
            okc = lambda x: x.split(' ')[0] == 'ok'
            same_reply = (rw == pred) if c.prop == 'C04' else (okc(rw) == okc(pred))
            if 'reply' in oracles and op['op'] == 'store' and not same_reply:
                ev = op['ev']
                bad('oracle', 'store_event replied %s, the specification says %s (kind %d)' % (rw[:30], pred, ev['kind']), li)
            live, before = snap['live'], snap['before']
            for (kind, arg, bi) in bat:
                a = strip_now(w[bi])
                if kind == 'HAS' and 'live' in oracles:
                    if a != ('1' if arg in live else '0'):
                        bad('oracle', 'has_event(%s) = %s, specification: %s' % (arg.hex()[:8], a, arg in live), bi)
                elif kind == 'GID' and 'bytes' in oracles:
                    want = 'some ' + encode_event(live[arg]).hex() if arg in live else 'none'
                    if a != want:
                        bad('oracle', 'get_event_by_id(%s) does not return the stored bytes' % arg.hex()[:8], bi)
                elif kind == 'OFF' and 'bytes' in oracles:
                    want = 'some ' + encode_event(snap['log'][arg]).hex()
                    if a != want:
                        bad('oracle', 'get_event_by_offset(%d) does not return the bytes stored there' % arg, bi)
                elif kind == 'DEL' and 'markers' in oracles:
                    if a != ('1' if arg in snap['del_ids'] else '0'):
                        bad('oracle', 'event_is_deleted(%s) = %s, specification: %s' % (arg.hex()[:8], a, arg in snap['del_ids']), bi)
                elif kind == 'NAD' and 'markers' in oracles:
                    t = snap['del_addr'].get(arg)
                    if a != ('none' if t is None else 'some %d' % t):
                        bad('oracle', 'naddr_is_deleted_asof%s = %s, specification: %s' % ((arg[0], arg[2][:10]), a, t), bi)
                elif kind in ('FRP', 'FPR') and 'address' in oracles:
                    kk, pk, dd = arg
                    okkind = is_repl(kk) if kind == 'FRP' else is_param(kk)
                    hs = [e for e in live.values() if addr_of(e) == ((kk, pk, b'') if kind == 'FRP' else (kk, pk, dd))]
                    if not okkind:
                        want = ['wrongkind']
                    elif not hs:
                        want = ['none']
                    else:
                        want = ['some ' + e['id'].hex() for e in hs]
                    if a not in want:
                        bad('oracle', '%s%s = %s, specification: %s' % (kind, (kk, dd[:10]), a[:20], [x[:14] for x in want]), bi)
                    if len(hs) > 1:
                        bad('oracle', 'two retrievable events at one replaceable address', bi)
                elif kind == 'MLN':
                    # the file only ever grows (a rebuild starts a new file), and holds the end marker
                    try:
                        ln = int(a)
                    except ValueError:
                        bad('oracle', 'the length of the event map could not be read: %s' % a[:40], bi)
                        ln = None
                    if ln is not None:
                        prev_ln = h.get('_mln')
                        if prev_ln is not None and ln < prev_ln and op['op'] != 'rebuild':
                            bad('oracle', 'the event-map file shrank from %d to %d bytes' % (prev_ln, ln), bi)
                        if ln % 8 != 0:
                            bad('oracle', 'the event-map file length %d is not a multiple of 8' % ln, bi)
                        h['_mln'] = ln
                        c.count('map_length_compared')
                elif kind == 'KYS':
                    # LMDB's iteration order is the bytewise order of the keys, table by table, no key twice
                    if a.startswith('ok'):
                        per = {}
                        for part in ([] if a[3:] == '_' else a[3:].split(',')):
                            t_, _, k_ = part.partition(':')
                            per.setdefault(t_, []).append(bytes.fromhex(k_))
                        for t_, ks in per.items():
                            if any(not (x < y) for x, y in zip(ks, ks[1:])):
                                bad('oracle', 'the %s index is not iterated in strictly ascending bytewise key order' % t_, bi)
                        c.count('index_keys_compared', sum(len(v) for v in per.values()))
                    else:
                        bad('oracle', 'the index keys could not be read: %s' % a[:40], bi)
                elif kind == 'STA' and 'counts' in oracles:
                    kv = dict(x.split('=') for x in a.split(' '))
                    n = len(impl_live) if 'live' not in oracles else len(live)
                    if not (int(kv['i']) == int(kv['ci']) == int(kv['ac']) == int(kv['akc']) == n):
                        bad('oracle', 'index entry counts %s do not equal the %d retrievable events' % (a[:90], n), bi)
                    if n == 0 and any(int(kv[x]) != 0 for x in ('tc', 'atc', 'ktc')):
                        bad('oracle', 'tag index entries remain after every event was removed: %s' % a[:90], bi)
                    if 'markers' in oracles and (int(kv['del']) != len(snap['del_ids']) or int(kv['naddr']) != len(snap['del_addr'])):
                        bad('oracle', 'marker counts %s, specification %d/%d' % (a[-40:], len(snap['del_ids']), len(snap['del_addr'])), bi)
                elif kind == 'XDP' and 'extra' in oracles:
                    rows = sorted(snap['extra'][arg].items())
                    want = 'rows ' + (','.join('%s=%s' % (hx(k), hx(v)) for k, v in rows) if rows else '_')
                    if a != want:
                        bad('oracle', 'extra table %s contents differ from what was written' % arg, bi)
                elif kind == 'FND' and 'query' in oracles:
                    f, scr, allow, lim, secs, why, who = arg
                    c.count('find:' + a.split(' ')[0])
                    if a.startswith('ok'):
                        t = a.split(' ')
                        out = [] if t[1] == '_' else [bytes.fromhex(x) for x in t[1].split(',')]
                        red = t[2] == 'r=1'
                        if named_filter(f):
                            err = valid_answer(impl_live, f, SCREENS[scr], out, red)
                            if err:
                                bad('oracle', 'find_events: %s' % err, bi)
                            elif out:
                                c.nontriv(lines[bi][:300])
                        if why == 'selfx' and 'selffind' in oracles and who not in impl_live and who in out:
                            bad('oracle', 'event %s is not retrievable but a filter naming its tag %r returns it' % (who.hex()[:8], f['tags']), bi)
                        if why == 'self' and 'selffind' in oracles:
                            if (who in impl_live) != (who in out):
                                bad('oracle', 'event %s is %sretrievable but a filter built from its own fields %s it' % (
                                    who.hex()[:8], '' if who in impl_live else 'not ', 'misses' if who in impl_live else 'returns'), bi)
                    elif a.startswith('scraper'):
                        if not scrape_refused(f, allow, lim, secs, h['now']):
                            bad('oracle', 'query refused as scraping although the filter names ids/authors/tags or the allowances cover it', bi)
                    else:
                        bad('oracle', 'find_events failed: %s' % a[:40], bi)
            # ---- failed store changes nothing (C12): battery before == battery after
            if 'noop' in oracles and op['op'] == 'store' and not rw.startswith('ok') and prev_bat is not None:
                for key, val in cur.items():
                    if key[0] in ('FND', 'MLN'):      # (the file length is not an observable of the store's API)
                        continue
                    old = prev_bat.get(key)
                    if old is None:
                        continue
                    if key[0] == 'STA':
                        strip = lambda s_: ' '.join(x for x in s_.split(' ') if not x.startswith('end='))
                        old, val = strip(old), strip(val)
                    if old != val:
                        bad('oracle', 'a store that failed (%s) changed %s: %s -> %s' % (rw, key[0], old[:40], val[:40]), li)
                        break
            # ---- reopen / rebuild preserve everything observable (C16)
            if 'preserve' in oracles and op['op'] in ('reopen', 'rebuild') and prev_bat is not None:
                for key, val in cur.items():
                    if key[0] in ('FND', 'OFF') or (key[0] == 'MLN' and op['op'] == 'rebuild'):
                        continue
                    old = prev_bat.get(key)
                    if old is None:
                        continue
                    if key[0] == 'STA':
                        strip = lambda s_: ' '.join(x for x in s_.split(' ') if not x.startswith('end='))
                        old, val = strip(old), strip(val)
                    if old != val:
                        bad('oracle', '%s changed %s: %s -> %s' % (op['op'], key[0], old[:40], val[:40]), li)
                        break
                if op['op'] == 'rebuild':
                    if rw != 'ok bak=11':
                        bad('oracle', 'rebuild: %s (backup files missing?)' % rw, li)
                    sta = [strip_now(w[bi]) for (kind, arg, bi) in bat if kind == 'STA'][0]
                    try:
                        endv = int(dict(x.split('=') for x in sta.split(' '))['end'])
                    except Exception:
                        endv = None
                    if endv is None:
                        bad('oracle', 'stats after rebuild: %s' % sta[:60], li)
                    elif endv != snap['end']:
                        bad('oracle', 'event space after rebuild is %d bytes, the retrievable events need %d' % (endv, snap['end']), li)
            # ---- foreign deletion harmless (C10)
            if 'foreign' in oracles and op['op'] == 'store' and op['ev']['kind'] == 5:
                req = op['ev']
                for vid, v in before['live'].items():
                    if v['pk'] != req['pk']:
                        has = cur.get(('HAS', repr(vid)))
                        dl = cur.get(('DEL', repr(vid)))
                        if has == '0':
                            bad('oracle', "a deletion request by another author made event %s unretrievable" % vid.hex()[:8], li)
                        if dl == '1' and vid not in before['del_ids']:
                            bad('oracle', "a deletion request by another author left a deletion marker on event %s" % vid.hex()[:8], li)
                for ak, t in snap['del_addr'].items():
                    if ak[1] != req['pk'] and before['del_addr'].get(ak) != t:
                        nad = cur.get(('NAD', repr(ak)))
                        bad('oracle', "a deletion request changed the marker of another author's address (%s)" % nad, li)
            prev_bat = cur
        else:
            continue
