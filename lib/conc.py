"""Forced two-thread schedules through the `verif` yield points (worker command CON), shared by the
checks whose property quantifies over interleavings (C11, C14, C15).

A scenario is a dict: pre (request lines run first), point (yield point where thread A pauses),
a / b (the two request lines), after (request lines run once both threads have finished).
`forced` runs every scenario in a fresh store directory and returns, per scenario,
dict(ra, rb, reached, blocked, after=[replies], lines=[the replayable request lines])."""
import os

STORE_POINTS = ['store:txn', 'store:checked', 'store:preremoved', 'store:appended', 'store:indexed', 'store:before_commit', 'store:committed']


def strip_now(s):
    return ' '.join(x for x in s.split(' ') if not x.startswith('now='))


def forced(c, base, scen, tag='f'):
    lines, meta = [], []
    for i, s in enumerate(scen):
        d = os.path.join(base, '%s%d' % (tag, i))
        start = len(lines)
        lines += ['NEW %s -' % d] + list(s['pre'])
        lines.append('CON %s %d A %s B %s' % (s['point'], s.get('n', 1), s['a'], s['b']))
        ci = len(lines) - 1
        lines += list(s['after']) + ['RMD']
        meta.append((start, ci, len(s['after'])))
    out = c.worker.run(lines)
    c.evaluations += len(scen)
    res = []
    for (start, ci, na), s in zip(meta, scen):
        r = out[ci]
        rep = lines[start:ci + 1 + na]
        if not r.startswith('A=['):
            res.append(dict(error=r, lines=rep))
            continue
        ra = r[3:r.index('] B=[')]
        rb = r[r.index('] B=[') + 5:r.index('] reached=')]
        res.append(dict(ra=ra, rb=rb, reached='reached=1' in r, blocked='b_blocked=1' in r, raw=r,
                        after=[strip_now(x) for x in out[ci + 1:ci + 1 + na]], lines=rep))
    return res
