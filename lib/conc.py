"""Forced two-thread schedules through the `verif` yield points (worker command CON), shared by the
checks whose property quantifies over interleavings (C11, C14, C15).

A scenario is a dict: pre (request lines run first), point (yield point where thread A pauses),
a / b (the two request lines), after (request lines run once both threads have finished).
`forced` runs every scenario in a fresh store directory and returns, per scenario,
dict(ra, rb, reached, blocked, after=[replies], lines=[the replayable request lines])."""
import os

STORE_POINTS = ['store:txn', 'store:checked', 'store:preremoved', 'store:appended', 'store:indexed', 'store:before_commit', 'store:committed']


def strip_now(s):
    return ' '.join(x for x in s.split(' ') if not x.startswith('now='))


def forced(c, base, scen, tag='f'):
    lines, meta = [], []
    for i, s in enumerate(scen):
        d = os.path.join(base, '%s%d' % (tag, i))
        start = len(lines)
        lines += ['NEW %s -' % d] + list(s['pre'])
        lines.append('CON %s %d A %s B %s' % (s['point'], s.get('n', 1), s['a'], s['b']))
        ci = len(lines) - 1
        lines += list(s['after']) + ['RMD']
        meta.append((start, ci, len(s['after'])))
    out = c.worker.run(lines)
    c.evaluations += len(scen)
    res = []
    for (start, ci, na), s in zip(meta, scen):
        r = out[ci]
        rep = lines[start:ci + 1 + na]
        if not r.startswith('A=['):
            res.append(dict(error=r, lines=rep))
            continue
        ra = r[3:r.index('] B=[')]
        rb = r[r.index('] B=[') + 5:r.index('] reached=')]
        res.append(dict(ra=ra, rb=rb, reached='reached=1' in r, blocked='b_blocked=1' in r, raw=r,
                        after=[strip_now(x) for x in out[ci + 1:ci + 1 + na]], lines=rep))
    return res


ES_POINTS = ['es_store:start', 'es_store:padded', 'es_store:grow', 'es_store:grow_setlen', 'es_store:grow_resized', 'es_store:half_copied', 'es_store:appended']


def growth_step_races(c, base, nrep=None, tag='g'):
    """a store that must grow the map file (an ephemeral, a regular and a replaceable event, several chunks long) is paused at every
    point of the append / growth path (remembered length read, set_len, resize, copy) while another thread stores four events of
    about a chunk each; then one more store.  Every event whose store returned an offset reads back whole by id, before and after
    that further store (oracle: the property texts of C04 / C14 / C15: stored bytes read back identical; a store that returned Ok is
    reflected; references stay unchanged) - shared by the three checks."""
    from .storecheck import HistGen, encode_event
    from .absstore import Abs
    from .gen import ev_tok, AUTHORS
    from .common import hx
    rng = c.rng
    Q = c.tier == 'quick'
    if nrep is None:
        nrep = 2 if Q else 20
    scen = []
    for k in range(nrep):
        g = HistGen(rng, 'C04')
        ab = Abs([])
        x = g.new_event(kind=1, pk=AUTHORS[0], content=b'x' * rng.choice([5, 300]))
        ab.store(x)
        for akind in (20001, 1, 10002):
            big = g.new_event(kind=akind, pk=AUTHORS[1], t=700, tags=[], content=b'B' * rng.choice([3000, 5000]))
            bs = [g.new_event(kind=1, pk=AUTHORS[2], content=bytes([0x61 + i]) * rng.choice([1400, 1700, 2300])) for i in range(4)]
            last = g.new_event(kind=1, pk=AUTHORS[0], content=b'l' * 900)
            after = ['GID ' + hx(e['id']) for e in [x] + bs] + ['STO ' + ev_tok(last)] + ['GID ' + hx(e['id']) for e in [x] + bs + [last]]
            for p in ES_POINTS:
                scen.append(dict(pre=['STO ' + ev_tok(x)], point=p, a='STO ' + ev_tok(big), b='SEQ ' + ' ;; '.join('STO ' + ev_tok(e) for e in bs),
                                 after=after, evs=[x] + bs, last=last, akind=akind))
    for s_, r in zip(scen, forced(c, base, scen, tag='g')):
        if 'error' in r or 'HUNG' in r.get('raw', '') or 'panic' in r.get('raw', ''):
            c.violation('oracle', 'forced schedule (growth) did not complete: %s' % (r.get('error') or r['raw'])[:90], r['lines'])
            continue
        c.count('growth_race:%d:%s:%s' % (s_['akind'], s_['point'], 'reached' if r['reached'] else 'not-reached'))
        n = len(s_['evs'])
        first, lastr, second = r['after'][:n], r['after'][n], r['after'][n + 1:]
        brep = r['rb'].split(' ;; ') if ' ;; ' in r['rb'] else [r['rb']]
        bad = None
        for i, e in enumerate(s_['evs']):
            stored = True if i == 0 else (i - 1 < len(brep) and brep[i - 1].strip().startswith('ok'))
            if not stored:
                continue
            want = 'some ' + encode_event(e).hex()
            if first[i] != want or second[i] != want:
                bad = 'event %s, stored successfully, does not read back whole after another thread\'s store went through the growth step (paused at %s): %s' % (
                    hx(e['id'])[:8], s_['point'], (first[i] if first[i] != want else second[i])[:30])
                break
        if bad is None and lastr.startswith('ok') and second[n] != 'some ' + encode_event(s_['last']).hex():
            bad = 'an event stored after the race does not read back whole'
        if bad:
            c.violation('oracle', bad, r['lines'])
            continue
        c.nontriv(('growth', s_['akind'], s_['point'], k))


def spanning_queries(c, base, nrep=2):
    """a query that is still running while two stores commit: paused inside the caller's screening callback (the first event it
    examines), two further events are stored - one belonging to the index range the query has already entered, one to a range
    it has not reached - then it resumes.  Its answer must be the answer in ONE committed state: before both, between them, or
    after both (never the later store without the earlier).  Shared by C14 (readers see whole committed states) and C05 (the
    answer is exactly the matching retrievable events of a state)."""
    import os
    from .storecheck import HistGen, strip_now
    from .gen import ev_tok, fl_tok, AUTHORS
    rng = c.rng
    # ---- a query that is still running while two stores commit: paused inside the caller's screening callback
    # (the first event it examines), two further events are stored - one belonging to the index range the query
    # has already entered, one to a range it has not reached - then it resumes. Its answer must be the answer in
    # ONE committed state: before both, between them, or after both (never the later store without the earlier).
    X, Y = AUTHORS[0], AUTHORS[1]
    scen2 = []
    for rep_i in range(nrep):
        g = HistGen(rng, 'C14')
        mk = lambda pk, kind, t, tags: g.new_event(kind=kind, pk=pk, t=t, tags=tags, content=b'c' * rng.choice([3, 200]))
        tA, tB = [b't', b'a'], [b't', b'b']
        fbase = dict(ids=[], authors=[], kinds=[], tags=[], since=None, until=None, limit=None)
        shapes = [
            ('akc-authors', dict(fbase, authors=[X, Y], kinds=[1]), (X, 1, [tA]), (X, 1, [tA]), (Y, 1, [tA])),
            ('ac', dict(fbase, authors=[X, Y]), (X, 1, [tA]), (X, 7, [tA]), (Y, 1, [tA])),
            ('akc-kinds', dict(fbase, authors=[X], kinds=[1, 7]), (X, 1, [tA]), (X, 1, [tA]), (X, 7, [tA])),
            ('atc', dict(fbase, authors=[X, Y], tags=[[b't', b'a']]), (X, 1, [tA]), (X, 1, [tA]), (Y, 1, [tA])),
            ('ktc', dict(fbase, kinds=[1, 7], tags=[[b't', b'a']]), (X, 1, [tA]), (Y, 1, [tA]), (X, 7, [tA])),
            ('tc', dict(fbase, tags=[[b't', b'a', b'b']]), (X, 1, [tA]), (Y, 1, [tA]), (X, 1, [tB])),
            # the ids plan: the listed ids are looked up one by one; an id passed over as absent and a later
            # id must not be answered from different committed states
            ('ids', None, (X, 1, [tA]), (Y, 1, [tA]), (X, 7, [tB])),
        ]
        for name, f, f0, ea, eb in shapes:
            F0 = mk(f0[0], f0[1], 100, f0[2])
            EA = mk(ea[0], ea[1], rng.choice([50, 150]), ea[2])
            EB = mk(eb[0], eb[1], rng.choice([60, 160]), eb[2])
            if name == 'ids':
                f = dict(fbase, ids=[EA['id'], F0['id'], EB['id']])
            fnd = 'FND %s 1 0 0 m' % fl_tok(f)
            pre = ['STO ' + ev_tok(F0)]
            scen2.append(dict(name=name, pre=pre, point='screen:call', a=fnd,
                              b='SEQ STO %s ;; STO %s' % (ev_tok(EA), ev_tok(EB)), after=[fnd],
                              states=[pre, pre + ['STO ' + ev_tok(EA)], pre + ['STO ' + ev_tok(EA), 'STO ' + ev_tok(EB)]], fnd=fnd))
    # authors + kinds where one kind is replaceable: the pair (author, replaceable kind) is answered like every other pair, from
        # the query's own snapshot - while it runs, a note it has already examined is deleted and the author's list is replaced
        for rep_i in range(nrep):
            g = HistGen(rng, 'C14')
            N = g.new_event(kind=1, pk=X, t=100, tags=[[b't', b'a']], content=b'note')
            R1 = g.new_event(kind=10002, pk=X, t=100, tags=[], content=b'list v1')
            DN = g.new_event(kind=5, pk=X, t=150, tags=[[b'e', N['id'].hex().encode()]], content=b'')
            R2 = g.new_event(kind=10002, pk=X, t=200, tags=[], content=b'list v2')
            fbase = dict(ids=[], authors=[], kinds=[], tags=[], since=None, until=None, limit=None)
            fnd = 'FND %s 1 0 0 m' % fl_tok(dict(fbase, authors=[X], kinds=[1, 10002]))
            pre = ['STO ' + ev_tok(N), 'STO ' + ev_tok(R1)]
            scen2.append(dict(name='akc-replaceable', pre=pre, point='screen:call', a=fnd,
                              b='SEQ STO %s ;; STO %s' % (ev_tok(DN), ev_tok(R2)), after=[fnd],
                              states=[pre, pre + ['STO ' + ev_tok(DN)], pre + ['STO ' + ev_tok(DN), 'STO ' + ev_tok(R2)]], fnd=fnd))
        res2 = forced(c, base, scen2, tag='q')
    # the answers in the three committed states (serial runs on the real store)
    sl, spos = [], []
    for k, s2 in enumerate(scen2):
        for j, stl in enumerate(s2['states']):
            sl += ['NEW %s -' % os.path.join(base, 'qs%d_%d' % (k, j))] + stl + [s2['fnd'], 'RMD']
            spos.append(len(sl) - 2)
    so2 = [strip_now(x) for x in c.worker.run(sl)]
    for k, (s2, r2) in enumerate(zip(scen2, res2)):
        if 'error' in r2 or 'HUNG' in r2.get('raw', '') or 'panic' in r2.get('raw', ''):
            c.violation('oracle', 'running query vs two stores: schedule did not complete: %s' % (r2.get('error') or r2['raw'])[:90], r2['lines'])
            continue
        answers = [so2[spos[3 * k + j]] for j in range(3)]
        c.count('spanning_query:%s:%s' % (s2['name'], 'reached' if r2['reached'] else 'not-reached'))
        if r2['blocked']:
            c.violation('oracle', 'two stores were blocked by a query paused in its screening callback', r2['lines'])
            continue
        if r2['after'][0] != answers[2]:
            c.violation('oracle', 'after a query overlapped two stores the same query answers %s, serial: %s' % (r2['after'][0][:60], answers[2][:60]), r2['lines'])
            continue
        if r2['ra'] not in answers:
            c.violation('oracle', 'a query (%s) that was running while two stores committed answered %s: that is the answer in no committed state (before: %s | between: %s | after: %s)' % (
                s2['name'], r2['ra'][:80], answers[0][:60], answers[1][:60], answers[2][:60]), r2['lines'])
            continue
        if r2['reached']:
            c.nontriv(('spanning', s2['name'], k))
