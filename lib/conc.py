"""Forced two-thread schedules through the `verif` yield points (worker command CON), shared by the
checks whose property quantifies over interleavings (C11, C14, C15).

A scenario is a dict: pre (request lines run first), point (yield point where thread A pauses),
a / b (the two request lines), after (request lines run once both threads have finished).
`forced` runs every scenario in a fresh store directory and returns, per scenario,
dict(ra, rb, reached, blocked, after=[replies], lines=[the replayable request lines])."""
import os

STORE_POINTS = ['store:txn', 'store:checked', 'store:preremoved', 'store:appended', 'store:indexed', 'store:before_commit', 'store:committed']


def strip_now(s):
    return ' '.join(x for x in s.split(' ') if not x.startswith('now='))


def forced(c, base, scen, tag='f'):
    lines, meta = [], []
    for i, s in enumerate(scen):
        d = os.path.join(base, '%s%d' % (tag, i))
        start = len(lines)
        lines += ['NEW %s -' % d] + list(s['pre'])
        lines.append('CON %s %d A %s B %s' % (s['point'], s.get('n', 1), s['a'], s['b']))
        ci = len(lines) - 1
        lines += list(s['after']) + ['RMD']
        meta.append((start, ci, len(s['after'])))
    out = c.worker.run(lines)
    c.evaluations += len(scen)
    res = []
    for (start, ci, na), s in zip(meta, scen):
        r = out[ci]
        rep = lines[start:ci + 1 + na]
        if not r.startswith('A=['):
            res.append(dict(error=r, lines=rep))
            continue
        ra = r[3:r.index('] B=[')]
        rb = r[r.index('] B=[') + 5:r.index('] reached=')]
        res.append(dict(ra=ra, rb=rb, reached='reached=1' in r, blocked='b_blocked=1' in r, raw=r,
                        after=[strip_now(x) for x in out[ci + 1:ci + 1 + na]], lines=rep))
    return res


ES_POINTS = ['es_store:start', 'es_store:padded', 'es_store:grow', 'es_store:grow_setlen', 'es_store:grow_resized', 'es_store:half_copied', 'es_store:appended']


def growth_step_races(c, base, nrep=None, tag='g'):
    """a store that must grow the map file (an ephemeral, a regular and a replaceable event, several chunks long) is paused at every
    point of the append / growth path (remembered length read, set_len, resize, copy) while another thread stores four events of
    about a chunk each; then one more store.  Every event whose store returned an offset reads back whole by id, before and after
    that further store (oracle: the property texts of C04 / C14 / C15: stored bytes read back identical; a store that returned Ok is
    reflected; references stay unchanged) - shared by the three checks."""
    from .storecheck import HistGen, encode_event
    from .absstore import Abs
    from .gen import ev_tok, AUTHORS
    from .common import hx
    rng = c.rng
    Q = c.tier == 'quick'
    if nrep is None:
        nrep = 2 if Q else 20
    scen = []
    for k in range(nrep):
        g = HistGen(rng, 'C04')
        ab = Abs([])
        x = g.new_event(kind=1, pk=AUTHORS[0], content=b'x' * rng.choice([5, 300]))
        ab.store(x)
        for akind in (20001, 1, 10002):
            big = g.new_event(kind=akind, pk=AUTHORS[1], t=700, tags=[], content=b'B' * rng.choice([3000, 5000]))
            bs = [g.new_event(kind=1, pk=AUTHORS[2], content=bytes([0x61 + i]) * rng.choice([1400, 1700, 2300])) for i in range(4)]
            last = g.new_event(kind=1, pk=AUTHORS[0], content=b'l' * 900)
            after = ['GID ' + hx(e['id']) for e in [x] + bs] + ['STO ' + ev_tok(last)] + ['GID ' + hx(e['id']) for e in [x] + bs + [last]]
            for p in ES_POINTS:
                scen.append(dict(pre=['STO ' + ev_tok(x)], point=p, a='STO ' + ev_tok(big), b='SEQ ' + ' ;; '.join('STO ' + ev_tok(e) for e in bs),
                                 after=after, evs=[x] + bs, last=last, akind=akind))
    for s_, r in zip(scen, forced(c, base, scen, tag='g')):
        if 'error' in r or 'HUNG' in r.get('raw', '') or 'panic' in r.get('raw', ''):
            c.violation('oracle', 'forced schedule (growth) did not complete: %s' % (r.get('error') or r['raw'])[:90], r['lines'])
            continue
        c.count('growth_race:%d:%s:%s' % (s_['akind'], s_['point'], 'reached' if r['reached'] else 'not-reached'))
        n = len(s_['evs'])
        first, lastr, second = r['after'][:n], r['after'][n], r['after'][n + 1:]
        brep = r['rb'].split(' ;; ') if ' ;; ' in r['rb'] else [r['rb']]
        bad = None
        for i, e in enumerate(s_['evs']):
            stored = True if i == 0 else (i - 1 < len(brep) and brep[i - 1].strip().startswith('ok'))
            if not stored:
                continue
            want = 'some ' + encode_event(e).hex()
            if first[i] != want or second[i] != want:
                bad = 'event %s, stored successfully, does not read back whole after another thread\'s store went through the growth step (paused at %s): %s' % (
                    hx(e['id'])[:8], s_['point'], (first[i] if first[i] != want else second[i])[:30])
                break
        if bad is None and lastr.startswith('ok') and second[n] != 'some ' + encode_event(s_['last']).hex():
            bad = 'an event stored after the race does not read back whole'
        if bad:
            c.violation('oracle', bad, r['lines'])
            continue
        c.nontriv(('growth', s_['akind'], s_['point'], k))
