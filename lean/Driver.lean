import Pocket.Model.ParseFilter
import Pocket.Model.HllFloat
import Pocket.Model.Kind
import Pocket.Model.Store
import Pocket.Model.Keys
import Pocket.Model.EventMap
import Pocket.Model.Verify
import Pocket.Spec.AbsStore
/-
pocket-model: answers the line protocol of DESIGN.md Appendix B from the Lean model.
The definitions executed here are the ones the theorems in Pocket/Thm are about.
-/
open Pocket

def hexNib (n : Nat) : Char := Char.ofNat (if n < 10 then 48 + n else 87 + n)

def toHex (b : Bytes) : String :=
  if b.isEmpty then "-" else
  String.ofList (b.foldr (fun x acc => hexNib (x / 16 % 16) :: hexNib (x % 16) :: acc) [])

def nibVal (c : Char) : Option Nat :=
  let n := c.toNat
  if 48 ≤ n ∧ n ≤ 57 then some (n - 48)
  else if 97 ≤ n ∧ n ≤ 102 then some (n - 87)
  else if 65 ≤ n ∧ n ≤ 70 then some (n - 55)
  else none

def unhexChars : List Char → Option Bytes
  | [] => some []
  | [_] => none
  | h :: l :: rest =>
    match nibVal h, nibVal l, unhexChars rest with
    | some a, some b, some r => some ((a * 16 + b) :: r)
    | _, _, _ => none

def unhex (s : String) : Option Bytes :=
  if s == "-" then some [] else unhexChars s.toList

def strToBytes (s : String) : Bytes := s.toUTF8.toList.map (·.toNat)
def bytesToStr (b : Bytes) : String := String.ofList (b.map Char.ofNat)

def parseTagsTok (tok : String) : Option TagsRec :=
  if tok == "_" then some [] else
  (tok.splitOn ";").mapM fun t =>
    if t == "." then some [] else (t.splitOn ",").mapM unhex

def tagsTok (ts : TagsRec) : String :=
  if ts.isEmpty then "_" else
  ";".intercalate (ts.map fun t =>
    if t.isEmpty then "." else ",".intercalate (t.map toHex))

def list32Tok (tok : String) : Option (List Bytes) :=
  if tok == "_" then some [] else (tok.splitOn ",").mapM unhex

def listNatTok (tok : String) : Option (List Nat) :=
  if tok == "_" then some [] else (tok.splitOn ",").mapM String.toNat?

def joinOr (l : List String) : String := if l.isEmpty then "_" else ",".intercalate l

def optNat (tok : String) (dflt : Nat) : Option Nat :=
  if tok == "-" then some dflt else tok.toNat?

def buildEvent (a : List String) : Option EventRec :=
  match a with
  | id :: pk :: kind :: t :: tags :: content :: rest => do
    let sig ← match rest with
      | s :: _ => unhex s
      | [] => some (List.replicate 64 0)
    some ⟨← unhex id, ← unhex pk, sig, ← kind.toNat?, ← t.toNat?, ← parseTagsTok tags, ← unhex content⟩
  | _ => none

def buildFilter (a : List String) : Option FilterRec :=
  match a with
  | ids :: authors :: kinds :: tags :: since :: «until» :: limit :: _ => do
    some ⟨← list32Tok ids, ← list32Tok authors, ← listNatTok kinds, ← parseTagsTok tags,
          ← optNat since 0, ← optNat «until» U64MAX, (← optNat limit U32MAX) % 4294967296⟩
  | _ => none

def fnvStep (h : UInt64) (b : Nat) : UInt64 := (h ^^^ b.toUInt64) * 0x100000001b3
def fnvBytes (h : UInt64) (b : Bytes) : UInt64 := b.foldl fnvStep h

def rawUtf8 (c : Nat) : Bytes :=
  if c < 128 then [c]
  else if c < 2048 then [192 + c / 64, 128 + c % 64]
  else if c < 65536 then [224 + c / 4096, 128 + c / 64 % 64, 128 + c % 64]
  else [240 + c / 262144 % 8, 128 + c / 4096 % 64, 128 + c / 64 % 64, 128 + c % 64]

def fmtOutcome {α : Type} (o : Outcome α) (f : α → String) : String :=
  match o with
  | .ok a => f a
  | .err => "err"
  | .panic => "panic model"

def eventAccessors (b : Bytes) : String :=
  match eventDecode b with
  | .ok e =>
    let json := match eventJson e with
      | .ok j => toHex j
      | .err => "jsonerr"
      | .panic => "panic"
    s!"ok {toHex e.id} {toHex e.pubkey} {toHex e.sig} {e.kind} {e.createdAt} {tagsTok e.tags} {toHex e.content} {json} gs=1"
  | .err => "tagserr"
  | .panic => "panic model"

def filterAccessors (b : Bytes) : String :=
  match filterDecode b with
  | .ok f =>
    let json := match filterJson f with
      | .ok j => toHex j
      | .err => "jsonerr"
      | .panic => "panic"
    s!"ok {joinOr (f.ids.map toHex)} {joinOr (f.authors.map toHex)} {joinOr (f.kinds.map toString)} {tagsTok f.tags} {f.since} {f.until} {f.limit} {json} n={f.ids.length},{f.authors.length},{f.kinds.length} hll={match hllOffset f with | some v => toString v | none => "none"}"
  | .err => "tagserr"
  | .panic => "panic model"

def cptDigest (lo hi : Nat) : UInt64 := Id.run do
  let mut h : UInt64 := 0xcbf29ce484222325
  for c in [lo:hi] do
    let bytes := rawUtf8 c
    match jsonEscape bytes with
    | .ok o => h := fnvBytes (fnvStep h 1) o
    | _ => h := fnvStep h 0
    match jsonUnescape (bytes ++ [34]) 16 with
    | .ok (i, o) => h := fnvBytes (fnvBytes h [1, i % 256, o.length % 256]) o
    | _ => h := fnvStep h 0
    if c < 65536 then
      let esc : Bytes := [92, 117, hexDigitLower (c / 4096 % 16), hexDigitLower (c / 256 % 16),
        hexDigitLower (c / 16 % 16), hexDigitLower (c % 16), 34]
      match jsonUnescape esc 16 with
      | .ok (i, o) => h := fnvBytes (fnvBytes h [1, i % 256, o.length % 256]) o
      | _ => h := fnvStep h 0
  return h

def kndDigest (lo hi : Nat) : UInt64 := Id.run do
  let mut h : UInt64 := 0xcbf29ce484222325
  for k in [lo:hi] do
    let k := k % 65536
    let b := (if isReplaceable k then 1 else 0) + (if isEphemeral k then 2 else 0) +
      (if isParamReplaceable k then 4 else 0)
    h := fnvStep h b
  return h

/-- the chunk the debug worker grows the event map by -/
def DEBUG_CHUNK : Nat := 2048

def handleTypes (cmd : String) (a : List String) : Option String :=
  match cmd, a with
  | "PING", _ => some "pong"
  | "EVJ", [j, len, seed] => do
    let inp ← unhex j
    let buf := dirtyBuf (← len.toNat?) (← seed.toNat?).toUInt64
    some (fmtOutcome (parseEvent inp buf) fun (c, l, b) => s!"ok {c} {l} {toHex b}")
  | "EMX", [fl, mk, size] => do
    -- the durable (file length, end marker) pairs a kill inside store_event can leave, each as the next open sees it
    let fl ← fl.toNat?
    let mk ← mk.toNat?
    let size ← size.toNat?
    match emOpen DEBUG_CHUNK fl mk with
    | .ok m =>
      let sts := (emStoreStates DEBUG_CHUNK m size).map fun (f, k) =>
        match emOpen DEBUG_CHUNK f k with
        | .ok m' => s!"{m'.fileLen}:{m'.marker}"
        | _ => "err"
      some ("ok " ++ joinOr sts)
    | _ => some "err"
  | "DLN", [b, total] => do
    let b ← unhex b
    let n ← total.toNat?
    if n < b.length then some "bad-request" else
    match eventDelineateLen b n with
    | .ok len => some s!"ok {len}"
    | .err => some "err"
    | .panic => some "panic model"
  | "EVA", [b] => do
    let b ← unhex b
    match eventDelineate b with
    | .ok e => some (eventAccessors e)
    | .err => some "delineate-err"
    | .panic => some "panic model"
  | "EVP", [id, pk, kind, t, tags, content, sig, len, seed] => do
    let e ← buildEvent [id, pk, kind, t, tags, content, sig]
    let buf := dirtyBuf (← len.toNat?) (← seed.toNat?).toUInt64
    if tagsSize e.tags > 65535 then some "tags-err" else
    let owned := (eventFromRec e (List.replicate (eventSize (tagsSize e.tags) e.content.length) 0)).isOk
    match eventFromRec e buf with
    | .ok b =>
      let l := eventSize (tagsSize e.tags) e.content.length
      some s!"ok {l} {toHex b} owned={if owned then 1 else 2}"
    | .err => some s!"err owned={if owned then 1 else 0}"
    | .panic => some "panic model"
  | "TGJ", [j, len, seed] => do
    let inp ← unhex j
    let buf := dirtyBuf (← len.toNat?) (← seed.toNat?).toUInt64
    some (fmtOutcome (tagsFromJson inp buf) fun (c, l, b) => s!"ok {c} {l} {toHex b}")
  | "TGP", [tags, len, seed] => do
    let ts ← parseTagsTok tags
    let buf := dirtyBuf (← len.toNat?) (← seed.toNat?).toUInt64
    let owned := (tagsFromParts ts (List.replicate (tagsSize ts) 0)).isOk
    match tagsFromParts ts buf with
    | .ok b => some s!"ok {tagsSize ts} {toHex b} owned={if owned then 1 else 2}"
    | .err => some s!"err owned={if owned then 1 else 0}"
    | .panic => some "panic model"
  | "TGA", [b] => do
    let b ← unhex b
    match tagsDelineate b with
    | .ok tb =>
      match tagsCount tb, tagsDecode tb with
      | .ok c, .ok ts =>
        match tagsJson ts with
        | .ok j => some s!"ok {c} {tagsTok ts} {toHex j}"
        | _ => some "panic model"
      | _, _ => some "panic model"
    | .err => some "delineate-err"
    | .panic => some "panic model"
  | "FLJ", [j, len, seed] => do
    let inp ← unhex j
    let buf := dirtyBuf (← len.toNat?) (← seed.toNat?).toUInt64
    some (fmtOutcome (parseFilter inp buf) fun (c, l, b) => s!"ok {c} {l} {toHex b} l={l}")
  | "FLP", [ids, authors, kinds, tags, since, «until», limit, len, seed] => do
    let f ← buildFilter [ids, authors, kinds, tags, since, «until», limit]
    let buf := dirtyBuf (← len.toNat?) (← seed.toNat?).toUInt64
    if tagsSize f.tags > 65535 then some "tags-err" else
    let n := filterSize f.ids.length f.authors.length f.kinds.length (tagsSize f.tags)
    let owned := (filterFromRec f (List.replicate n 0)).isOk
    match filterFromRec f buf with
    | .ok b => some s!"ok {n} {toHex b} owned={if owned then 1 else 2}"
    | .err => some s!"err owned={if owned then 1 else 0}"
    | .panic => some "panic model"
  | "FLA", [b] => do
    let b ← unhex b
    match filterDelineate b with
    | .ok f => some (filterAccessors f)
    | .err => some "delineate-err"
    | .panic => some "panic model"
  | "MAT", [fb, eb] => do
    let fb ← unhex fb
    let eb ← unhex eb
    match filterDelineate fb, eventDelineate eb with
    | .ok f, .ok e => some (fmtOutcome (eventMatchesB f e) fun b => s!"ok {if b then 1 else 0}")
    | _, _ => some "bad-request del"
  | "MTP", a => do
    let f ← buildFilter (a.take 7)
    let e ← buildEvent (a.drop 7)
    some s!"ok {if eventMatches f e then 1 else 0}"
  | "UNE", [inp, len, seed] => do
    let inp ← unhex inp
    let n ← len.toNat?
    let buf := dirtyBuf n (← seed.toNat?).toUInt64
    some (fmtOutcome (jsonUnescape inp n) fun (i, o) => s!"ok {i} {o.length} {toHex (o ++ buf.drop o.length)}")
  | "ESC", [inp] => do
    let inp ← unhex inp
    some (fmtOutcome (jsonEscape inp) fun o => s!"ok {toHex o}")
  | "HEX", [kind, inp] => do
    let inp ← unhex inp
    match kind with
    | "id" | "pk" => some (fmtOutcome (readHex 32 inp) fun v => s!"ok {toHex v} {bytesToStr (hexOf v)}")
    | "sig" => some (fmtOutcome (readHex 64 inp) fun v => s!"ok {toHex v} {bytesToStr (hexOf v)}")
    | "hll" =>
      -- the worker takes a &str: invalid UTF-8 never reaches the parser
      some (fmtOutcome (hllFromHex inp) fun r => s!"ok {bytesToStr (hllToHex r)} {hllEstimate r}")
    | _ => none
  | "ADR", [a] => do
    match parseAddr (← unhex a) with
    | some (k, au, d) => some s!"ok {k} {toHex au} {toHex d}"
    | none => some "err"
  | "KND", [lo, hi] => do some (toString (kndDigest (← lo.toNat?) (← hi.toNat?)))
  | "CPT", [lo, hi] => do some (toString (cptDigest (← lo.toNat?) (← hi.toNat?)))
  | "CAN", a => do
    let e ← buildEvent a
    some (fmtOutcome (canon e) fun c => s!"ok {toHex c}")
  | "HLA", [st, el, off] => do
    let r ← match hllFromHex (strToBytes st) with | .ok r => some r | _ => none
    let el ← unhex el
    some (fmtOutcome (hllAdd r el (← off.toNat?)) fun r => s!"ok {bytesToStr (hllToHex r)}")
  | "HLM", [s1, s2] => do
    let r1 ← match hllFromHex (strToBytes s1) with | .ok r => some r | _ => none
    let r2 ← match hllFromHex (strToBytes s2) with | .ok r => some r | _ => none
    some s!"ok {bytesToStr (hllToHex (hllMerge r1 r2))}"
  | "HLE", [st] => do
    let r ← match hllFromHex (strToBytes st) with | .ok r => some r | _ => none
    some s!"ok {hllEstimate r}"
  | _, _ => none

def screenOf (mode : String) : EventRec → Screen := fun e =>
  match mode with
  | "p" => match e.id.getLastD 0 % 3 with
    | 0 => .match
    | 1 => .mismatch
    | _ => .redacted
  | "x" => .mismatch
  | "r" => .redacted
  | _ => .match

def insertRow (rows : List (Bytes × Bytes)) (k v : Bytes) : List (Bytes × Bytes) :=
  match rows with
  | [] => [(k, v)]
  | (k', v') :: rest =>
    if k' == k then (k, v) :: rest
    else if bytesLt k k' then (k, v) :: (k', v') :: rest
    else (k', v') :: insertRow rest k v

def handleStore (s : Store) (cmd : String) (a : List String) : Option (Store × String) :=
  match cmd, a with
  | "NEW", _ :: rest =>
    let tables := match rest with
      | t :: _ => if t == "-" then [] else t.splitOn ","
      | [] => []
    some ({ db := { extra := tables.map fun t => (t, []) } }, "ok debug=1 end=8")
  | "PRE", _ => some ({}, "ok")
  | "OPN", _ => some (s, "ok")
  | "CLS", _ => some (s, "ok")
  | "RMD", _ => some ({}, "ok")
  | "RBD", _ => some (rebuild s, "ok bak=11")
  | "STO", a => do
    let e ← buildEvent a
    if tagsSize e.tags > 65535 then none else
    let (r, s') := storeEvent s e
    let txt := match r with
      | .ok off => s!"ok {off}"
      | .duplicate => "dup"
      | .deleted => "deleted"
      | .replaced => "replaced"
      | .invalidDelete => "invalid"
      | .other => "err"
    some (s', txt)
  | "REM", [id] => do some (removeEvent s (← unhex id), "ok")
  | "VAN", [pk] => do some (vanish s (← unhex pk), "ok")
  | "FND", a => do
    let f ← buildFilter (a.take 7)
    match a.drop 7 with
    | allow :: lim :: secs :: scr :: rest =>
      let now := match rest with
        | n :: _ => (n.drop 4).toString.toNat?.getD 0
        | [] => 0
      match findEvents s.db.live f (allow == "1") (← lim.toNat?) (← secs.toNat?) now (screenOf scr) with
      | .ok evs red => some (s, s!"ok {joinOr (evs.map fun x => toHex x.e.id)} r={if red then 1 else 0}")
      | .scraper => some (s, "scraper")
    | _ => none
  | "GID", [id] => do
    match getById s (← unhex id) with
    | some e => some (s, s!"some {toHex (encodeEvent e)}")
    | none => some (s, "none")
  | "HAS", [id] => do some (s, if (findById s.db.live (← unhex id)).isSome then "1" else "0")
  | "DEL", [id] => do some (s, if s.db.delIds.contains (← unhex id) then "1" else "0")
  | "OFF", [off] => do
    let off ← off.toNat?
    if off ≥ s.end then some (s, "err") else
    match getByOffset s off with
    | some e => some (s, s!"some {toHex (encodeEvent e)}")
    | none => some (s, "unknown")
  | "NAD", [kind, pk, d] => do
    match delAddrGet s.db.delAddrs (← kind.toNat?, ← unhex pk, ← unhex d) with
    | some t => some (s, s!"some {t}")
    | none => some (s, "none")
  | "FRP", [pk, kind] => do
    match findReplaceable s.db.live (← unhex pk) (← kind.toNat?) with
    | .ok (some x) => some (s, s!"some {toHex x.e.id}")
    | .ok none => some (s, "none")
    | _ => some (s, "wrongkind")
  | "FPR", [kind, pk, d] => do
    match findParam s.db.live (← kind.toNat?) (← unhex pk) (← unhex d) with
    | .ok (some x) => some (s, s!"some {toHex x.e.id}")
    | .ok none => some (s, "none")
    | _ => some (s, "wrongkind")
  | "STA", _ =>
    let n := s.db.live.length
    let tg := tagEntryCount s.db.live
    let custom := joinOr (s.db.extra.map fun (nm, rows) => s!"{nm}:{rows.length}")
    some (s, s!"end={s.end} general={9 + s.db.extra.length} i={n} ci={n} tc={tg} ac={n} akc={n} atc={tg} ktc={tg} del={s.db.delIds.length} naddr={s.db.delAddrs.length} custom={custom}")
  | "KYS", _ =>
    let parts := ["ci", "tc", "ac", "akc", "atc", "ktc"].flatMap fun t => (tableKeys s.db.live t).map fun k => s!"{t}:{toHex k}"
    some (s, "ok " ++ joinOr parts)
  | "XPT", [name, k, v] => do
    let k ← unhex k
    let v ← unhex v
    if s.db.extra.any (·.1 == name) then
      if k.isEmpty || k.length > 511 then some (s, "err") else
      some ({ s with db := { s.db with extra := s.db.extra.map fun (nm, rows) =>
        if nm == name then (nm, insertRow rows k v) else (nm, rows) } }, "ok")
    else some (s, "notable")
  | "XDL", [name, k] => do
    let k ← unhex k
    if s.db.extra.any (·.1 == name) then
      some ({ s with db := { s.db with extra := s.db.extra.map fun (nm, rows) =>
        if nm == name then (nm, rows.filter (·.1 != k)) else (nm, rows) } }, "ok")
    else some (s, "notable")
  | "XDP", [name] =>
    match s.db.extra.find? (·.1 == name) with
    | some (_, rows) => some (s, s!"rows {joinOr (rows.map fun (k, v) => s!"{toHex k}={toHex v}")}")
    | none => some (s, "notable")
  | _, _ => none

def emFresh : EMap := match emOpen DEBUG_CHUNK 0 0 with
  | .ok m => m
  | _ => { fileLen := 0, marker := 0, memLen := 0, mapLen := 0 }

/-- follow the event-map file through a store request: an append happened iff the end moved -/
def emAfter (em : EMap) (cmd : String) (s s' : Store) : EMap :=
  match cmd with
  | "NEW" | "RMD" => emFresh
  | "OPN" | "CLS" => (match emOpen DEBUG_CHUNK em.fileLen em.marker with | .ok m => m | _ => em)
  | "RBD" =>
    -- a new file: the live events are appended again, in the order of the rebuilt log
    s'.log.foldl (fun m x => match emStore DEBUG_CHUNK m (eventLen x.e) with | .ok (_, m') => m' | _ => m) emFresh
  | "STO" =>
    if s'.end = s.end then em
    else match s'.log.getLast? with
      | some x => (match emStore DEBUG_CHUNK em (eventLen x.e) with | .ok (_, m') => m' | _ => em)
      | none => em
  | _ => em

/-- follow the ABSTRACT store (`Spec/AbsStore.lean`, the one the refinement theorems are about) through a request,
independently of the concrete model -/
def absAfter (ab : Abs) (cmd : String) (a : List String) : Abs :=
  match cmd, a with
  | "NEW", _ => {}
  | "PRE", _ => {}
  | "RMD", _ => {}
  | "RBD", _ => absRebuild ab
  | "STO", a =>
    (match buildEvent a with
     | some e => if tagsSize e.tags > 65535 then ab else (absStore ab e).2
     | none => ab)
  | "REM", [id] => (match unhex id with | some i => absRemove ab i | none => ab)
  | "VAN", [pk] => (match unhex pk with | some k => absVanish ab k | none => ab)
  | _, _ => ab

/-- `SPC`: the abstract state in one line (retrievable ids, id markers, address markers with times, end of the log), and
whether the concrete model's state still stands for it (`full_history_refines` says it always does) -/
def spcLine (ab : Abs) (s : Store) : String :=
  let live := joinOr (ab.live.map fun e => toHex e.id)
  let di := joinOr (ab.delIds.map toHex)
  let da := joinOr (ab.delAddrs.map fun ((k, au, d), t) => s!"{k}:{toHex au}:{toHex d}={t}")
  let ok := if Abs.of s == ab then "" else " MODEL-INCONSISTENT abstract state differs from Abs.of (concrete state)"
  s!"live={live} del={di} addr={da} end={ab.end}{ok}"

partial def loop (h : IO.FS.Stream) (out : IO.FS.Stream) (s : Store) (em : EMap) (ab : Abs) : IO Unit := do
  let line ← h.getLine
  if line.isEmpty then return ()
  let line := line.trimAscii.toString
  let mut s := s
  let mut em := em
  let mut ab := ab
  if line.isEmpty || line.startsWith "#" then
    out.putStrLn "#"
  else
    let toks := line.splitOn " "
    match toks with
    | cmd :: a =>
      if cmd == "MLN" then
        -- the file length, and a cross-check of the two models: the map's end marker is the store's end
        out.putStrLn (if em.marker = s.end then s!"{em.fileLen}" else s!"{em.fileLen} MODEL-INCONSISTENT marker={em.marker} end={s.end}")
      else if cmd == "SPC" then
        out.putStrLn (spcLine ab s)
      else
      match handleTypes cmd a with
      | some r => out.putStrLn r
      | none =>
        match handleStore s cmd a with
        | some (s', r) =>
          em := if cmd == "PRE" then
              -- a directory whose event.map already exists, zero-filled, `len` bytes long, and has never been opened
              { fileLen := (a.getD 1 "0").toNat?.getD 0, marker := 0, memLen := 0, mapLen := 0 }
            else emAfter em cmd s s'
          ab := absAfter ab cmd a
          s := s'
          out.putStrLn r
        | none => out.putStrLn "bad-request"
    | [] => out.putStrLn "bad-request"
  out.flush
  loop h out s em ab

def main : IO Unit := do
  loop (← IO.getStdin) (← IO.getStdout) {} emFresh {}
