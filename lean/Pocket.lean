import Pocket.Model.Basic
import Pocket.Model.Kind
import Pocket.Model.Utf8
