-- This module serves as the root of the `Pocket` library.
-- Import modules here that should be built as part of the library.
import Pocket.Basic
