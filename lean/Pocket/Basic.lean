def hello := "world"
