import Pocket.Model.Store
/- The abstract store (DESIGN.md Appendix D), in Lean: what the store properties are about, with no
offsets inside the tables, no index plans, no committed-versus-transaction views — retrievable events,
the two kinds of deletion markers, and the append log.  `Lemmas/Refine.lean` proves that the concrete
model (`Model/Store.lean`, which mirrors the code) computes exactly this, step for step. -/
namespace Pocket

structure Abs where
  /-- retrievable events, oldest store first -/
  live : List EventRec := []
  /-- ids named by accepted deletion requests -/
  delIds : List Bytes := []
  /-- address ↦ time up to which it is deleted -/
  delAddrs : List (AddrKey × Nat) := []
  /-- (offset, event) of every append to the current map file, refused stores included -/
  log : List (Nat × EventRec) := []
  «end» : Nat := 8
deriving Repr, DecidableEq

/-- the event holds address `k` -/
def atAddr (k : AddrKey) (h : EventRec) : Bool := addrOf h == some k

/-- covered by an address deletion: the marker of the event's own address is not older than the event -/
def coveredBy (da : List (AddrKey × Nat)) (e : EventRec) : Bool :=
  match (addrOf e).bind (delAddrGet da) with
  | some t => decide (e.createdAt ≤ t)
  | none => false

/-- the retrievable events without the holders of `e`'s address, and whether a strictly newer holder exists -/
def absPre (live : List EventRec) (e : EventRec) : List EventRec × Bool :=
  match addrOf e with
  | some k => (live.filter (fun h => !(atAddr k h)),
               live.any (fun h => atAddr k h && decide (h.createdAt > e.createdAt)))
  | none => (live, false)

inductive AbsDel where
  | ok (live : List EventRec) (delIds : List Bytes) (delAddrs : List (AddrKey × Nat))
  | invalid
  | err
deriving Repr, DecidableEq

/-- one tag of a deletion request; `committed` = the retrievable events when the request arrived -/
def absDelTag (committed : List EventRec) (req : EventRec) (tag : List Bytes)
    (l : List EventRec) (di : List Bytes) (da : List (AddrKey × Nat)) : AbsDel :=
  match tag with
  | name :: v :: _ =>
    if name == KEY_E then
      match readHex 32 v with
      | .ok id =>
        if id == req.id then .ok l di da
        else match committed.find? (fun x => x.id == id) with
          | some target =>
            if target.pubkey != req.pubkey then .invalid
            else .ok (l.filter fun x => x.id != id) (addDelId di id) da
          | none => .ok l (addDelId di id) da
      | _ => .ok l di da
    else if name == KEY_A then
      match parseAddr v with
      | some (kind, author, d0) =>
        if author != req.pubkey then .invalid
        else if addrKeyTooLong (normD kind d0) then .err
        else .ok (l.filter fun x => !(atAddr (kind, author, normD kind d0) x && decide (x.createdAt ≤ req.createdAt)))
               di (delAddrPut da (kind, author, normD kind d0) (laterTime da (kind, author, normD kind d0) req.createdAt))
      | none => .ok l di da
    else .ok l di da
  | _ => .ok l di da

def absDeletion (committed : List EventRec) (req : EventRec) :
    TagsRec → List EventRec → List Bytes → List (AddrKey × Nat) → AbsDel
  | [], l, di, da => .ok l di da
  | tag :: rest, l, di, da =>
    match absDelTag committed req tag l di da with
    | .ok l' di' da' => absDeletion committed req rest l' di' da'
    | .invalid => .invalid
    | .err => .err

/-- storing an event -/
def absStore (a : Abs) (e : EventRec) : Reply × Abs :=
  if a.live.any (fun x => x.id == e.id) then (.duplicate, a)
  else if a.delIds.contains e.id then (.deleted, a)
  else if coveredBy a.delAddrs e then (.deleted, a)
  else if (absPre a.live e).2 then (.replaced, a)
  else
    let off := align8 a.end
    let a1 : Abs := { a with log := a.log ++ [(off, e)], «end» := off + eventLen e }
    let live2 := if isEphemeral e.kind then (absPre a.live e).1 else (absPre a.live e).1 ++ [e]
    if e.kind = 5 then
      match absDeletion a.live e e.tags live2 a.delIds a.delAddrs with
      | .ok l di da => (.ok off, { a1 with live := l, delIds := di, delAddrs := da })
      | .invalid => (.invalidDelete, a1)
      | .err => (.other, a1)
    else (.ok off, { a1 with live := live2 })

def absRemove (a : Abs) (id : Bytes) : Abs := { a with live := a.live.filter fun x => x.id != id }

/-- the abstract state a concrete model state stands for -/
def Abs.of (s : Store) : Abs :=
  { live := s.db.live.map (·.e), delIds := s.db.delIds, delAddrs := s.db.delAddrs,
    log := s.log.map (fun x => (x.off, x.e)), «end» := s.end }

/-- `vanish`: the key's own events and the gift wraps naming it are no longer retrievable; markers and log untouched -/
def absVanish (a : Abs) (pk : Bytes) : Abs :=
  { a with live := a.live.filter fun e =>
      !(e.pubkey == pk) && !(e.kind == 1059 && tagsMatch e.tags KEY_P (hexOf pk)) }

def insertByIdE (x : EventRec) : List EventRec → List EventRec
  | [] => [x]
  | y :: ys => if bytesLt x.id y.id then x :: y :: ys else y :: insertByIdE x ys

def relogE : List EventRec → Nat → List (Nat × EventRec) × Nat
  | [], e => ([], e)
  | x :: xs, e => ((align8 e, x) :: (relogE xs (align8 e + eventLen x)).1, (relogE xs (align8 e + eventLen x)).2)

/-- rebuilding the abstract store: the retrievable events, in id order, appended to a fresh map;
markers untouched -/
def absRebuild (a : Abs) : Abs :=
  { a with live := a.live.foldr insertByIdE [],
           log := (relogE (a.live.foldr insertByIdE []) 8).1,
           «end» := (relogE (a.live.foldr insertByIdE []) 8).2 }

/-- one operation of a history on the abstract store -/
def absOp (a : Abs) : Op → Abs
  | .store e => (absStore a e).2
  | .remove id => absRemove a id
  | .vanish pk => absVanish a pk
  | .reopen => a
  | .rebuild => absRebuild a

end Pocket
