import Pocket.Model.Store
/-
Crash model (C13): the durable states an API call passes through.  The process can be killed in
any of them (page cache survives a process kill, so what was written through the shared mapping
or committed by LMDB is what the next open sees).  The index commit is the last durable effect of
a call and is atomic (LMDB); everything before it only appends beyond the old end marker and
moves the marker.
-/
namespace Pocket

/-- the durable states of `store_event s e`, in order -/
def storeCrashStates (s : Store) (e : EventRec) : List Store :=
  match refusal s.db e with
  | some _ => [s]
  | none =>
    if (preRemove s.db.live e).2 then [s]
    else
      [s,                                   -- write txn open, checks, pre-removal: all private
       { s with «end» := align8 s.end },    -- alignment padding appended (marker moved)
                                            -- (bytes copied beyond the marker are not reachable)
       { appendLog s e with db := s.db },   -- event bytes in place, marker moved; index not committed
       (storeEvent s e).2]                  -- index committed (or the txn aborted: invalid delete)

/-- the durable states of `remove_event` -/
def removeCrashStates (s : Store) (id : Bytes) : List Store := [s, removeEvent s id]

/-- the durable states of removing `evs` one by one (each removal is its own transaction) -/
def removeAllStates (live : List SEv) : List SEv → List (List SEv)
  | [] => [live]
  | x :: evs => live :: removeAllStates (removeId live x.e.id) evs

/-- the event-map file as `EventStore::new` can find it -/
inductive MapFile where
  | absent                -- not created yet
  | empty                 -- created, length 0
  | sized                 -- grown to the initial size, header never written (reads as 0)
  | initialised (e : Nat) -- header holds the end offset
deriving Repr, DecidableEq

/-- the end offset `EventStore::new` continues from: a file shorter than the header, or whose
header holds less than the header's own size, is (re)initialised -/
def openMap : MapFile → Nat
  | .absent => 8
  | .empty => 8
  | .sized => 8
  | .initialised e => if e < 8 then 8 else e

/-- the durable states of creating a store directory -/
def creationStates : List MapFile := [.absent, .empty, .sized, .initialised 8]

end Pocket
