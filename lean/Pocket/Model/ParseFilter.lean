import Pocket.Model.ParseEvent
/- `parse_json_filter` (filter.rs) -/
namespace Pocket

structure FlSt where
  startIds : Option Bytes := none
  startAuthors : Option Bytes := none
  startKinds : Option Bytes := none
  since : Option Nat := none
  «until» : Option Nat := none
  limit : Option Nat := none
  /-- the saved positions `start_tags`, in order of appearance: the letter found there and the
  input that follows it -/
  tagStarts : List (Nat × Bytes) := []
  /-- letters seen (`found_tags` bit set) -/
  letters : List Nat := []
deriving Repr, DecidableEq

def kIds : Bytes := [105, 100, 115, 34]
def kAuthors : Bytes := [97, 117, 116, 104, 111, 114, 115, 34]
def kKinds : Bytes := [107, 105, 110, 100, 115, 34]
def kSince : Bytes := [115, 105, 110, 99, 101, 34]
def kUntil : Bytes := [117, 110, 116, 105, 108, 34]
def kLimit : Bytes := [108, 105, 109, 105, 116, 34]

/-- "Burn the field": `while inpos < len && input[inpos] != b']' { inpos += 1 }` -/
def skipToBracket : Bytes → Bytes
  | [] => []
  | b :: rest => if b = 93 then b :: rest else skipToBracket rest

def isLetter (b : Nat) : Bool := (65 ≤ b && b ≤ 90) || (97 ≤ b && b ≤ 122)

/-- after the key and colon of `ids`/`authors`/`kinds`: `[`, remember the position, skip to `]` -/
def flArrayField (r : Bytes) : Outcome (Bytes × Bytes) :=
  match verifyChar 91 r with
  | .ok start =>
    match verifyChar 93 (skipToBracket start) with
    | .ok r' => .ok (start, r')
    | .err => .err
    | .panic => .panic
  | .err => .err
  | .panic => .panic

/-- one member of the filter object; `q` starts at the key's opening quote -/
def flMember (st : FlSt) (q : Bytes) : Outcome (FlSt × Bytes) :=
  match verifyChar 34 q with
  | .err => .err
  | .panic => .panic
  | .ok field =>
    if startsWith kIds field then
      if st.startIds.isSome then .err
      else match eatColon (field.drop 4) with
        | .ok r => match flArrayField r with
          | .ok (s, r') => .ok ({ st with startIds := some s }, r')
          | .err => .err
          | .panic => .panic
        | .err => .err
        | .panic => .panic
    else if startsWith kAuthors field then
      if st.startAuthors.isSome then .err
      else match eatColon (field.drop 8) with
        | .ok r => match flArrayField r with
          | .ok (s, r') => .ok ({ st with startAuthors := some s }, r')
          | .err => .err
          | .panic => .panic
        | .err => .err
        | .panic => .panic
    else if startsWith kKinds field then
      if st.startKinds.isSome then .err
      else match eatColon (field.drop 6) with
        | .ok r => match flArrayField r with
          | .ok (s, r') => .ok ({ st with startKinds := some s }, r')
          | .err => .err
          | .panic => .panic
        | .err => .err
        | .panic => .panic
    else if startsWith kSince field then
      if st.since.isSome then .err
      else match eatColon (field.drop 6) with
        | .ok r => match readU64 r with
          | .ok (v, r') => .ok ({ st with since := some v }, r')
          | .err => .err
          | .panic => .panic
        | .err => .err
        | .panic => .panic
    else if startsWith kUntil field then
      if st.until.isSome then .err
      else match eatColon (field.drop 6) with
        | .ok r => match readU64 r with
          | .ok (v, r') => .ok ({ st with «until» := some v }, r')
          | .err => .err
          | .panic => .panic
        | .err => .err
        | .panic => .panic
    else if startsWith kLimit field then
      if st.limit.isSome then .err
      else match eatColon (field.drop 6) with
        | .ok r => match readU64 r with
          | .ok (v, r') => .ok ({ st with limit := some (if v > U32MAX then U32MAX else v) }, r')
          | .err => .err
          | .panic => .panic
        | .err => .err
        | .panic => .panic
    else
      match field with
      | h :: l :: qq :: after =>
        if h = 35 ∧ isLetter l ∧ qq = 34 then
          if st.tagStarts.length ≥ 52 then .err
          else if st.letters.contains l then .err
          else match eatColon after with
            | .ok r => match verifyChar 91 r with
              | .ok r1 => match burnArray (burnFuel r1) r1 0 with
                | .ok r' =>
                  .ok ({ st with tagStarts := st.tagStarts ++ [(l, qq :: after)],
                                 letters := l :: st.letters }, r')
                | .err => .err
                | .panic => .panic
              | .err => .err
              | .panic => .panic
            | .err => .err
            | .panic => .panic
        else match burnKeyValue q 0 with
          | .ok r' => .ok (st, r')
          | .err => .err
          | .panic => .panic
      | _ => match burnKeyValue q 0 with
          | .ok r' => .ok (st, r')
          | .err => .err
          | .panic => .panic

/-- the member loop (`eat_whitespace_and_commas`, then `}` or a member) -/
def flLoop : Nat → FlSt → Bytes → Outcome (FlSt × Bytes)
  | 0, _, _ => .err
  | fuel + 1, st, inp =>
    match eatWsC inp with
    | [] => .err
    | b :: rest =>
      if b = 125 then .ok (st, rest)
      else match flMember st (b :: rest) with
        | .ok (st', r) => flLoop fuel st' r
        | .err => .err
        | .panic => .panic

/-- "Copy ids"/"Copy authors": `(items)`; `endPos` = where the next item goes -/
def copyHex32 : Nat → Bytes → Nat → Nat → Nat → Outcome (List Bytes)
  | 0, _, _, _, _ => .err
  | fuel + 1, inp, endPos, cap, n =>
    match eatWsC inp with
    | [] => .err
    | b :: rest =>
      if b = 93 then .ok []
      else if endPos > cap then .err
      else if cap - endPos < 32 then .err
      else match readHexField 32 (b :: rest) with
        | .ok (v, r) =>
          if n + 1 > 65535 then .err
          else match copyHex32 fuel r (endPos + 32) cap (n + 1) with
            | .ok vs => .ok (v :: vs)
            | .err => .err
            | .panic => .panic
        | .err => .err
        | .panic => .panic

/-- "Copy kinds" -/
def copyKinds : Nat → Bytes → Nat → Nat → Nat → Outcome (List Nat)
  | 0, _, _, _, _ => .err
  | fuel + 1, inp, endPos, cap, n =>
    match eatWsC inp with
    | [] => .err
    | b :: rest =>
      if b = 93 then .ok []
      else match readU64 (b :: rest) with
        | .ok (u, r) =>
          if u > 65535 then .err
          else if cap < endPos + 2 then .err
          else if n + 1 > 65535 then .err
          else match copyKinds fuel r (endPos + 2) cap (n + 1) with
            | .ok ks => .ok (u :: ks)
            | .err => .err
            | .panic => .panic
        | .err => .err
        | .panic => .panic

/-- the value loop of one tag field: `(values)`; `endPos` = where the next length goes -/
def copyTagValues : Nat → Bytes → Nat → Nat → Nat → Outcome (List Bytes)
  | 0, _, _, _, _ => .err
  | fuel + 1, inp, endPos, cap, count =>
    match eatWsC inp with
    | [] => .err
    | b :: rest =>
      if b = 93 then .ok []
      else match verifyChar 34 (b :: rest) with
        | .ok r =>
          if endPos + 2 > cap then .err
          else match jsonUnescape r (cap - (endPos + 2)) with
            | .ok (inlen, s) =>
              if count + 1 > 65535 then .err
              else match copyTagValues fuel (r.drop (inlen + 1)) (endPos + 2 + s.length) cap (count + 1) with
                | .ok vs => .ok (s :: vs)
                | .err => .err
                | .panic => .panic
            | .err => .err
            | .panic => .panic
        | .err => .err
        | .panic => .panic

/-- one tag field of "Copy tags": from the saved position on the letter; `(tag)` -/
def copyTagField (start : Nat × Bytes) (endPos cap : Nat) : Outcome (List Bytes) :=
  match start with
  | (letter, r0) =>
    -- count slot at endPos, then `1u16` at endPos+2, letter at endPos+4
    if cap < endPos + 4 then .err
    else if cap < endPos + 5 then .err
    else match verifyChar 34 r0 with
      | .ok r1 => match eatColon r1 with
        | .ok r2 => match verifyChar 91 r2 with
          | .ok r3 =>
            match copyTagValues (r3.length + 1) r3 (endPos + 5) cap 1 with
            | .ok vs => .ok ([letter] :: vs)
            | .err => .err
            | .panic => .panic
          | .err => .err
          | .panic => .panic
        | .err => .err
        | .panic => .panic
      | .err => .err
      | .panic => .panic

/-- the `for w in 0..num_tag_fields` loop: `(offsets, tags)`; `wts` = write_tags_start -/
def copyTagFields : List (Nat × Bytes) → Nat → Nat → Nat → Nat → Outcome (List Nat × TagsRec)
  | [], _, _, _, _ => .ok ([], [])
  | s :: ss, w, wts, endPos, cap =>
    if cap < wts + 4 + 2 * w + 2 then .err
    else match copyTagField s endPos cap with
      | .ok t =>
        match copyTagFields ss (w + 1) wts (endPos + tagSize t) cap with
        | .ok (offs, ts) => .ok ((endPos - wts) % 65536 :: offs, t :: ts)
        | .err => .err
        | .panic => .panic
      | .err => .err
      | .panic => .panic

/-- "Copy ids"/"Copy authors" from the remembered position, if the member was present -/
def copyOpt32 (start : Option Bytes) (endPos cap : Nat) : Outcome (List Bytes) :=
  match start with
  | none => .ok []
  | some s => copyHex32 (s.length + 1) s endPos cap 0

def copyOptKinds (start : Option Bytes) (endPos cap : Nat) : Outcome (List Nat) :=
  match start with
  | none => .ok []
  | some s => copyKinds (s.length + 1) s endPos cap 0

/-- `Filter::from_json(json, output_buffer)`: `(consumed, length, whole buffer afterwards)` -/
def parseFilter (inp buf : Bytes) : Outcome (Nat × Nat × Bytes) :=
  let cap := buf.length
  if inp.length < 2 then .err
  else if cap < 32 then .err
  else match verifyChar 123 (eatWs inp) with
    | .ok r =>
      match flLoop (r.length + 1) {} r with
      | .ok (st, rest) =>
        match copyOpt32 st.startIds 32 cap with
        | .ok ids =>
          let end1 := 32 + 32 * ids.length
          match copyOpt32 st.startAuthors end1 cap with
          | .ok authors =>
            let end2 := end1 + 32 * authors.length
            match copyOptKinds st.startKinds end2 cap with
            | .ok kinds =>
              let wts := end2 + 2 * kinds.length
              let n := st.tagStarts.length
              if cap < wts + 4 then .err
              else match copyTagFields st.tagStarts 0 wts (wts + 4 + 2 * n) cap with
                | .ok (offs, tags) =>
                  let tlen := 4 + 2 * n + tagsBodySize tags
                  if tlen > 65535 then .err
                  else if wts + tlen > U32MAX then .err
                  else
                    let tb := le16 tlen ++ le16 n ++ encOffList offs ++ encTagsBody tags
                    let bytes := encodeFilterWith ids authors kinds tb
                      (st.since.getD 0) (st.until.getD U64MAX) (st.limit.getD U32MAX)
                    .ok (inp.length - rest.length, bytes.length, bytes ++ buf.drop bytes.length)
                | .err => .err
                | .panic => .panic
            | .err => .err
            | .panic => .panic
          | .err => .err
          | .panic => .panic
        | .err => .err
        | .panic => .panic
      | .err => .err
      | .panic => .panic
    | .err => .err
    | .panic => .panic

end Pocket
