import Pocket.Model.Tags
namespace Pocket

structure EventRec where
  id : Bytes
  pubkey : Bytes
  sig : Bytes
  kind : Nat
  createdAt : Nat
  tags : TagsRec
  content : Bytes
deriving Repr, DecidableEq, Inhabited

/-- `Event::output_size_needed` -/
def eventSize (tagsLen contentLen : Nat) : Nat := 144 + tagsLen + 4 + contentLen

/-- the byte layout `Event::from_parts` writes, given the already-encoded tag section -/
def encodeEventWith (id pk sig : Bytes) (kind t : Nat) (tagBytes content : Bytes) : Bytes :=
  le32 (eventSize tagBytes.length content.length) ++ le16 kind ++ [0, 0] ++ le64 t ++
    id ++ pk ++ sig ++ tagBytes ++ le32 content.length ++ content

def encodeEvent (e : EventRec) : Bytes :=
  encodeEventWith e.id e.pubkey e.sig e.kind e.createdAt (encodeTags e.tags) e.content

/-- `Event::from_parts(.., tags: &Tags, .., output)`: the whole buffer afterwards -/
def eventFromParts (id pk sig : Bytes) (kind t : Nat) (tagBytes content buf : Bytes) :
    Outcome Bytes :=
  let n := eventSize tagBytes.length content.length
  if n > 4294967295 then .err
  else if buf.length < n then .err
  else .ok (encodeEventWith id pk sig kind t tagBytes content ++ buf.drop n)

/-- `OwnedTags::new` then `Event::from_parts` (what the worker's `EVP` request does) -/
def eventFromRec (e : EventRec) (buf : Bytes) : Outcome Bytes :=
  if tagsSize e.tags > 65535 then .err
  else eventFromParts e.id e.pubkey e.sig e.kind e.createdAt (encodeTags e.tags) e.content buf

/-- `Event::delineate` -/
def eventDelineate (inp : Bytes) : Outcome Bytes :=
  if inp.length < 152 then .err
  else match rd32 inp 0 with
    | .ok len => if inp.length < len then .err else .ok (inp.take len)
    | .err => .err
    | .panic => .panic

/-- the decision of `Event::delineate` as a function of the first bytes and the length of its input
(what it returns for a slice of `total` bytes beginning with `head`): the length of the event -/
def eventDelineateLen (head : Bytes) (total : Nat) : Outcome Nat :=
  if total < 152 then .err
  else match rd32 head 0 with
    | .ok len => if total < len then .err else .ok len
    | .err => .err
    | .panic => .panic

/-- every accessor of `Event` applied to the bytes `b` (each slicing step can panic) -/
def eventDecode (b : Bytes) : Outcome EventRec :=
  match rd16 b 4, rd64 b 8, slice b 16 32, slice b 48 32, slice b 80 64 with
  | .ok kind, .ok t, .ok id, .ok pk, .ok sig =>
    if b.length < 144 then .panic
    else match tagsDelineate (b.drop 144) with
      | .ok tb =>
        match tagsDecode tb with
        | .ok tags =>
          match rd16 b 144 with
          | .ok tl =>
            match rd32 b (144 + tl) with
            | .ok cl =>
              match slice b (144 + tl + 4) cl with
              | .ok content => .ok ⟨id, pk, sig, kind, t, tags, content⟩
              | _ => .panic
            | _ => .panic
          | _ => .panic
        | .err => .err
        | .panic => .panic
      | .err => .err
      | .panic => .panic
  | _, _, _, _, _ => .panic

def hexOf : Bytes → Bytes
  | [] => []
  | b :: bs => hexDigitLower (b / 16 % 16) :: hexDigitLower (b % 16) :: hexOf bs

def decDigits : Nat → Nat → Bytes
  | 0, _ => []
  | fuel + 1, n => if n < 10 then [48 + n] else decDigits fuel (n / 10) ++ [48 + n % 10]

/-- `format!("{}", n)` -/
def decOf (n : Nat) : Bytes := decDigits (n + 1) n

/-- `Event::as_json` -/
def eventJson (e : EventRec) : Outcome Bytes :=
  match tagsJson e.tags with
  | .ok tj =>
    match jsonEscape e.content with
    | .ok ec =>
      .ok ([123, 34, 105, 100, 34, 58, 34] /- {"id":" -/ ++ hexOf e.id ++ [34, 44, 34, 112, 117, 98, 107, 101, 121, 34, 58, 34] /- ","pubkey":" -/ ++ hexOf e.pubkey ++
        [34, 44, 34, 107, 105, 110, 100, 34, 58] /- ","kind": -/ ++ decOf e.kind ++ [44, 34, 99, 114, 101, 97, 116, 101, 100, 95, 97, 116, 34, 58] /- ,"created_at": -/ ++ decOf e.createdAt ++
        [44, 34, 116, 97, 103, 115, 34, 58] /- ,"tags": -/ ++ tj ++ [44, 34, 99, 111, 110, 116, 101, 110, 116, 34, 58, 34] /- ,"content":" -/ ++ ec ++
        [34, 44, 34, 115, 105, 103, 34, 58, 34] /- ","sig":" -/ ++ hexOf e.sig ++ [34, 125] /- "} -/)
    | .err => .err
    | .panic => .panic
  | .err => .err
  | .panic => .panic

/-- the NIP-01 serialization hashed by `verify`/`sign_new`:
`[0,"<pubkey>",<created_at>,<kind>,<tags>,"<content>"]` -/
def canon (e : EventRec) : Outcome Bytes :=
  match jsonEscape e.content with
  | .ok ec =>
    match tagsJson e.tags with
    | .ok tj =>
      .ok ([91, 48, 44, 34] /- [0," -/ ++ hexOf e.pubkey ++ [34, 44] /- ", -/ ++ decOf e.createdAt ++ [44] ++
        decOf e.kind ++ [44] ++ tj ++ [44, 34] /- ," -/ ++ ec ++ [34, 93] /- "] -/)
    | .err => .err
    | .panic => .panic
  | .err => .err
  | .panic => .panic

end Pocket
