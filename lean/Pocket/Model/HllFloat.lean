import Pocket.Model.Hll
/- The floating-point stage of `Hll8::estimate_count`, executable only (Float is opaque to the
kernel; nothing is proved about it).  Used by the correspondence check alone. -/
namespace Pocket

def hllEstimate (r : Regs) : Nat :=
  let zc := zeroCount r
  let sum : Float := r.foldl (fun acc m => acc + Float.exp2 (-(Float.ofNat m))) 0.0
  let M : Float := 256.0
  let alpha : Float := 0.7213 / (1.0 + 1.079 / M)
  let est0 := alpha * (M * M) / sum
  let est :=
    if est0 <= (5.0 / 2.0) * M then
      if zc != 0 then M * Float.log (M / Float.ofNat zc) else est0
    else est0      -- (no large-range correction: the registers are not fed by a 32-bit hash)
  let r := est.round
  if r.isNaN then 0 else if r <= 0.0 then 0 else r.toUInt64.toNat

end Pocket
