/-
Model conventions (DESIGN.md §3).  Import-free: core Lean only, so the driver links as an exe.

* a byte is a `Nat` (< 256 wherever it comes from the driver; lemmas that need the bound say so);
* fixed-width integers are `Nat` with explicit `%`/`/` arithmetic, native endianness = little;
* `Outcome` distinguishes a returned `Err(_)` (`err`) from every way of not returning (`panic`).
-/
namespace Pocket

abbrev Bytes := List Nat

inductive Outcome (α : Type) where
  | ok (a : α)
  | err
  | panic
deriving Repr, DecidableEq, Inhabited

namespace Outcome
def bind {α β : Type} (o : Outcome α) (f : α → Outcome β) : Outcome β :=
  match o with
  | ok a => f a
  | err => err
  | panic => panic

def map {α β : Type} (f : α → β) (o : Outcome α) : Outcome β :=
  match o with
  | ok a => ok (f a)
  | err => err
  | panic => panic

def isOk {α : Type} : Outcome α → Bool
  | ok _ => true
  | _ => false
end Outcome

def le16 (n : Nat) : Bytes := [n % 256, n / 256 % 256]
def le32 (n : Nat) : Bytes := [n % 256, n / 256 % 256, n / 65536 % 256, n / 16777216 % 256]
def le64 (n : Nat) : Bytes := le32 n ++ le32 (n / 4294967296)

def be16 (n : Nat) : Bytes := [n / 256 % 256, n % 256]
def be64 (n : Nat) : Bytes := (le64 n).reverse

/-- little-endian value of a byte list -/
def leVal : Bytes → Nat
  | [] => 0
  | b :: bs => b + 256 * leVal bs

/-- `parse_uN!(bytes, off)`: slicing out of range panics -/
def rdN (w : Nat) (b : Bytes) (off : Nat) : Outcome Nat :=
  if off + w ≤ b.length then .ok (leVal ((b.drop off).take w)) else .panic

def rd16 := rdN 2
def rd32 := rdN 4
def rd64 := rdN 8

/-- `&b[off..off+len]`: out of range panics -/
def slice (b : Bytes) (off len : Nat) : Outcome Bytes :=
  if off + len ≤ b.length then .ok ((b.drop off).take len) else .panic

def AllBytes (b : Bytes) : Prop := ∀ x ∈ b, x < 256

/-- the seeded "dirty" caller buffer shared with the Rust worker (xorshift64) -/
def xorshiftStep (x : UInt64) : UInt64 :=
  let x := x ^^^ (x <<< 13)
  let x := x ^^^ (x >>> 7)
  x ^^^ (x <<< 17)

def dirtyBuf (len : Nat) (seed : UInt64) : Bytes :=
  let rec go : Nat → UInt64 → List Nat → List Nat
    | 0, _, acc => acc.reverse
    | n + 1, x, acc =>
      let x := xorshiftStep x
      go n x ((x &&& 255).toNat :: acc)
  go len (seed ||| 1) []

end Pocket
