import Pocket.Model.Filter
import Pocket.Model.Hll
/-
The hand-written JSON readers of `json/json_parse.rs`, on the *remaining suffix* of the input
(DESIGN.md §3 "Cursors instead of indices").  `peek(input, pos)?` is "head of the suffix, `err`
when empty".  Output capacity checks (`put`, `get_mut(..)`, `output_slice!`) are explicit
arithmetic on `cap`.  Loops take fuel = remaining length + 1; `…_fuel` lemmas show it suffices.
-/
namespace Pocket

/-- `Filter::hyperloglog_offset` (NIP-45): only `{"#p":[<64 hex>],"kinds":[3]}` and
`{"#e":[<64 hex>],"kinds":[7]}` with nothing else set; the offset is the value of hex character 32
plus 8.  A byte that is not a hex character (incl. bytes ≥ 0x80) gives `None`. -/
def hllOffset (f : FilterRec) : Option Nat :=
  if f.ids.length ≠ 0 ∨ f.authors.length ≠ 0 ∨ f.kinds.length ≠ 1 ∨ f.limit ≠ U32MAX ∨ f.since ≠ 0 ∨
      f.until ≠ U64MAX ∨ f.tags.length ≠ 1 then none
  else
    let letter : Option Bytes :=
      match f.kinds.head? with
      | some 3 => some [112]
      | some 7 => some [101]
      | _ => none
    match letter, f.tags with
    | some l, [t] =>
      if t[0]? ≠ some l then none
      else match t[1]? with
        | some hex =>
          if hex.length ≠ 64 then none
          else match hexInv (hex.getD 32 0) with
            | some v => some (v + 8)
            | none => none
        | none => none
    | _, _ => none

def isWs (b : Nat) : Bool := b == 32 || b == 9 || b == 10 || b == 13

/-- `eat_whitespace` -/
def eatWs : Bytes → Bytes
  | [] => []
  | b :: rest => if isWs b then eatWs rest else b :: rest

/-- `eat_whitespace_and_commas` -/
def eatWsC : Bytes → Bytes
  | [] => []
  | b :: rest => if isWs b || b == 44 then eatWsC rest else b :: rest

/-- `verify_char` -/
def verifyChar (ch : Nat) : Bytes → Outcome Bytes
  | [] => .err
  | b :: rest => if b = ch then .ok rest else .err

/-- `eat_colon_with_whitespace` -/
def eatColon (inp : Bytes) : Outcome Bytes :=
  match verifyChar 58 (eatWs inp) with
  | .ok r => .ok (eatWs r)
  | .err => .err
  | .panic => .panic

/-- `next_object_field`: `true` = the object ended -/
def nextObjectField (inp : Bytes) : Outcome (Bool × Bytes) :=
  match eatWs inp with
  | [] => .err
  | b :: rest => if b = 125 then .ok (true, rest) else if b = 44 then .ok (false, rest) else .err

/-- `read_id` / `read_pubkey` (`n = 32`) and the hex part of `read_sig` (`n = 64`):
opening quote, `2n` hex characters (with at least one more byte after them), closing quote -/
def readHexField (n : Nat) (inp : Bytes) : Outcome (Bytes × Bytes) :=
  match verifyChar 34 inp with
  | .ok r =>
    if r.length ≤ 2 * n then .err
    else match readHex n (r.take (2 * n)) with
      | .ok v =>
        match verifyChar 34 (r.drop (2 * n)) with
        | .ok r' => .ok (v, r')
        | .err => .err
        | .panic => .panic
      | .err => .err
      | .panic => .panic
  | .err => .err
  | .panic => .panic

def isDigit (b : Nat) : Bool := 48 ≤ b && b ≤ 57

/-- the digit loop of `read_u64`, with checked arithmetic -/
def readU64Loop : Bytes → Nat → Bool → Outcome (Nat × Bool × Bytes)
  | [], acc, any => .ok (acc, any, [])
  | b :: rest, acc, any =>
    if isDigit b then
      let v := acc * 10 + (b - 48)
      if v > U64MAX then .err else readU64Loop rest v true
    else .ok (acc, any, b :: rest)

/-- `read_u64` -/
def readU64 (inp : Bytes) : Outcome (Nat × Bytes) :=
  match readU64Loop inp 0 false with
  | .ok (v, any, rest) => if any then .ok (v, rest) else .err
  | .err => .err
  | .panic => .panic

def readKindLoop : Bytes → Nat → Bool → Outcome (Nat × Bool × Bytes)
  | [], acc, any => .ok (acc, any, [])
  | b :: rest, acc, any =>
    if isDigit b then
      let v := acc * 10 + (b - 48)
      if v > 65535 then .err else readKindLoop rest v true
    else .ok (acc, any, b :: rest)

/-- `read_kind` -/
def readKind (inp : Bytes) : Outcome (Nat × Bytes) :=
  match readKindLoop inp 0 false with
  | .ok (v, any, rest) => if any then .ok (v, rest) else .err
  | .err => .err
  | .panic => .panic

/-- `burn_string`: from after the opening quote to after the closing quote -/
def burnString : Bytes → Outcome Bytes
  | [] => .err
  | [b] => if b = 34 then .ok [] else .err
  | b :: c :: rest =>
    if b = 34 then .ok (c :: rest)
    else if b = 92 then burnString rest
    else burnString (c :: rest)

/-- the `while peek == ','` loop of `burn_tag` -/
def burnTagLoop : Nat → Bytes → Outcome Bytes
  | 0, _ => .err
  | fuel + 1, inp =>
    match inp with
    | [] => .err
    | b :: rest =>
      if b = 44 then
        match verifyChar 34 (eatWs rest) with
        | .ok r =>
          match burnString r with
          | .ok r' => burnTagLoop fuel (eatWs r')
          | .err => .err
          | .panic => .panic
        | .err => .err
        | .panic => .panic
      else verifyChar 93 (b :: rest)

/-- `burn_tag`: from after `[` to after `]` -/
def burnTag (inp : Bytes) : Outcome Bytes :=
  match eatWs inp with
  | [] => .err
  | b :: rest =>
    if b = 93 then .ok rest
    else match verifyChar 34 (b :: rest) with
      | .ok r =>
        match burnString r with
        | .ok r' => burnTagLoop (r'.length + 1) (eatWs r')
        | .err => .err
        | .panic => .panic
      | .err => .err
      | .panic => .panic

def countTagsLoop : Nat → Bytes → Nat → Outcome Nat
  | 0, _, _ => .err
  | fuel + 1, inp, count =>
    match inp with
    | [] => .err
    | b :: rest =>
      if b = 93 then .ok count
      else if b = 44 then
        match verifyChar 91 (eatWs rest) with
        | .ok r =>
          match burnTag r with
          | .ok r' => countTagsLoop fuel (eatWs r') (count + 1)
          | .err => .err
          | .panic => .panic
        | .err => .err
        | .panic => .panic
      else .err

/-- `count_tags`: from the first non-blank character after the outer `[`; does not consume -/
def countTags (inp : Bytes) : Outcome Nat :=
  match inp with
  | [] => .err
  | b :: rest =>
    if b = 93 then .ok 0
    else if b = 91 then
      match burnTag rest with
      | .ok r => countTagsLoop (r.length + 1) (eatWs r) 1
      | .err => .err
      | .panic => .panic
    else .err

def numberChars : List Nat :=
  [46, 43, 45, 48, 49, 50, 51, 52, 53, 54, 55, 56, 57, 97, 98, 99, 100, 101, 102,
   65, 66, 67, 68, 69, 70, 95, 111, 79, 120, 88, 110]

/-- `burn_number` -/
def burnNumber : Bytes → Bytes
  | [] => []
  | b :: rest => if numberChars.contains b then burnNumber rest else b :: rest

def burnLit (lit : Bytes) (inp : Bytes) : Outcome Bytes :=
  if inp.take lit.length = lit then .ok (inp.drop lit.length) else .err

def MAX_BURN_DEPTH : Nat := 64

mutual
/-- `burn_value(input, inposp, depth)` -/
def burnValue : Nat → Bytes → Nat → Outcome Bytes
  | 0, _, _ => .err
  | fuel + 1, inp, depth =>
    if depth > MAX_BURN_DEPTH then .err
    else match inp with
      | [] => .err
      | b :: rest =>
        if b = 34 then burnString rest
        else if b = 91 then burnArray fuel rest depth
        else if b = 123 then burnObject fuel rest depth
        else if b = 116 then burnLit [116, 114, 117, 101] (b :: rest)
        else if b = 102 then burnLit [102, 97, 108, 115, 101] (b :: rest)
        else if b = 110 then burnLit [110, 117, 108, 108] (b :: rest)
        else if b = 45 then .ok (burnNumber (b :: rest))
        else if isDigit b then .ok (burnNumber (b :: rest))
        else .err
/-- `burn_array`: from after `[` -/
def burnArray : Nat → Bytes → Nat → Outcome Bytes
  | 0, _, _ => .err
  | fuel + 1, inp, depth =>
    match eatWsC inp with
    | [] => .err
    | b :: rest =>
      if b = 93 then .ok rest
      else match burnValue fuel (b :: rest) (depth + 1) with
        | .ok r => burnArray fuel r depth
        | .err => .err
        | .panic => .panic
/-- `burn_object`: from after `{` -/
def burnObject : Nat → Bytes → Nat → Outcome Bytes
  | 0, _, _ => .err
  | fuel + 1, inp, depth =>
    match eatWsC inp with
    | [] => .err
    | b :: rest =>
      if b = 125 then .ok rest
      else match verifyChar 34 (b :: rest) with
        | .ok r =>
          match burnString r with
          | .ok r' =>
            match eatColon r' with
            | .ok r'' =>
              match burnValue fuel r'' (depth + 1) with
              | .ok r3 => burnObject fuel r3 depth
              | .err => .err
              | .panic => .panic
            | .err => .err
            | .panic => .panic
          | .err => .err
          | .panic => .panic
        | .err => .err
        | .panic => .panic
end

/-- fuel that always suffices for the burn family: every call that spends fuel has consumed a
byte or descends one of at most `MAX_BURN_DEPTH` levels -/
def burnFuel (inp : Bytes) : Nat := 2 * inp.length + MAX_BURN_DEPTH + 4

/-- `burn_key_and_value(input, inposp, depth)` -/
def burnKeyValue (inp : Bytes) (depth : Nat) : Outcome Bytes :=
  match verifyChar 34 inp with
  | .ok r =>
    match burnString r with
    | .ok r' =>
      match eatColon r' with
      | .ok r'' => burnValue (burnFuel r'') r'' depth
      | .err => .err
      | .panic => .panic
    | .err => .err
    | .panic => .panic
  | .err => .err
  | .panic => .panic

/-- the string loop of `read_tag`: `(rest, strings)`; `outpos` = where the next length goes -/
def readTagStrs : Nat → Bytes → Nat → Nat → Outcome (Bytes × List Bytes)
  | 0, _, _, _ => .err
  | fuel + 1, inp, outpos, cap =>
    if outpos + 2 > cap then .err
    else match jsonUnescape inp (cap - (outpos + 2)) with
      | .ok (inlen, s) =>
        match eatWs (inp.drop (inlen + 1)) with
        | [] => .err
        | b :: rest =>
          if b = 44 then
            match verifyChar 34 (eatWs rest) with
            | .ok r =>
              match readTagStrs fuel r (outpos + 2 + s.length) cap with
              | .ok (r', ss) => .ok (r', s :: ss)
              | .err => .err
              | .panic => .panic
            | .err => .err
            | .panic => .panic
          else if b = 93 then .ok (rest, [s])
          else .err
      | .err => .err
      | .panic => .panic

/-- `read_tag`: from after the tag's `[` (blanks eaten) to after its `]` -/
def readTag (inp : Bytes) (outpos cap : Nat) : Outcome (Bytes × List Bytes) :=
  match inp with
  | [] => .err
  | b :: rest =>
    if b = 93 then (if cap < outpos + 2 then .err else .ok (rest, []))
    else match verifyChar 34 (b :: rest) with
      | .ok r => readTagStrs (r.length + 1) r (outpos + 2) cap
      | .err => .err
      | .panic => .panic

/-- the tag loop of `read_tags_array`: `(rest, offsets written, tags)` -/
def readTagsLoop : Nat → Bytes → Nat → Nat → Nat → Nat → Outcome (Bytes × List Nat × TagsRec)
  | 0, _, _, _, _, _ => .err
  | fuel + 1, inp, tagNum, numTags, outpos, cap =>
    if outpos > 65535 then .err
    else match readTag inp outpos cap with
      | .ok (r, t) =>
        let outpos' := outpos + tagSize t
        match eatWs r with
        | [] => .err
        | b :: rest =>
          if b = 93 then
            if tagNum ≠ numTags - 1 then .err else .ok (rest, [outpos], [t])
          else if b = 44 then
            match verifyChar 91 (eatWs rest) with
            | .ok r' =>
              if tagNum + 1 ≥ numTags then .err
              else match readTagsLoop fuel (eatWs r') (tagNum + 1) numTags outpos' cap with
                | .ok (r'', offs, ts) => .ok (r'', outpos :: offs, t :: ts)
                | .err => .err
                | .panic => .panic
            | .err => .err
            | .panic => .panic
          else .err
      | .err => .err
      | .panic => .panic

def encOffList : List Nat → Bytes
  | [] => []
  | o :: os => le16 o ++ encOffList os

/-- `read_tags_array(input, inposp, output)`: `(rest, the tag-section bytes written at the start of
`output`)`; `cap = output.len()` -/
def readTagsArray (inp : Bytes) (cap : Nat) : Outcome (Bytes × Bytes) :=
  match verifyChar 91 inp with
  | .ok r0 =>
    let r := eatWs r0
    if cap < 4 then .err
    else match countTags r with
      | .ok numTags =>
        if numTags > 65535 then .err
        else if numTags = 0 then
          match burnArray (burnFuel r) r 0 with
          | .ok r' => .ok (r', le16 4 ++ le16 0)
          | .err => .err
          | .panic => .panic
        else match verifyChar 91 r with
          | .ok r1 =>
            let outpos := 4 + numTags * 2
            if cap < outpos then .err
            else match readTagsLoop (r1.length + 1) (eatWs r1) 0 numTags outpos cap with
              | .ok (r', offs, ts) =>
                let total := outpos + tagsBodySize ts
                if total > 65535 then .err
                else .ok (r', le16 total ++ le16 numTags ++ encOffList offs ++ encTagsBody ts)
              | .err => .err
              | .panic => .panic
          | .err => .err
          | .panic => .panic
      | .err => .err
      | .panic => .panic
  | .err => .err
  | .panic => .panic

/-- `Tags::from_json(json, output)`: `(consumed, section length, whole buffer)` -/
def tagsFromJson (inp buf : Bytes) : Outcome (Nat × Nat × Bytes) :=
  match readTagsArray inp buf.length with
  | .ok (r, tb) => .ok (inp.length - r.length, tb.length, tb ++ buf.drop tb.length)
  | .err => .err
  | .panic => .panic

/-- `read_content(input, inposp, output, after_tags)`: `(rest, content)`; `cap` = whole output -/
def readContent (inp : Bytes) (cap afterTags : Nat) : Outcome (Bytes × Bytes) :=
  match verifyChar 34 inp with
  | .ok r =>
    if afterTags + 4 > cap then .err
    else match jsonUnescape r (cap - (afterTags + 4)) with
      | .ok (inlen, c) =>
        if afterTags + 4 + c.length > U32MAX then .err
        else .ok (r.drop (inlen + 1), c)
      | .err => .err
      | .panic => .panic
  | .err => .err
  | .panic => .panic

end Pocket
