import Pocket.Model.Event
namespace Pocket

/-- `Event::verify`, with SHA-256 (`H`) and BIP-340 verification (`SV pubkey msg sig`) as
parameters: they are not modelled (DESIGN.md §3 "External functions are parameters") -/
def verify (H : Bytes → Bytes) (SV : Bytes → Bytes → Bytes → Bool) (e : EventRec) : Outcome Unit :=
  match canon e with
  | .ok c => if H c = e.id then (if SV e.pubkey (H c) e.sig then .ok () else .err) else .err
  | .err => .err
  | .panic => .panic

/-- `OwnedEvent::sign_new` for an abstract signer -/
def signNew (H : Bytes → Bytes) (sign : Bytes → Bytes) (pk : Bytes) (kind t : Nat) (tags : TagsRec)
    (content : Bytes) : Outcome EventRec :=
  let e0 : EventRec := ⟨[], pk, [], kind, t, tags, content⟩
  match canon e0 with
  | .ok c => .ok { e0 with id := H c, sig := sign (H c) }
  | .err => .err
  | .panic => .panic

end Pocket
