import Pocket.Model.Store
/- The event-map file as `EventStore` (event_store.rs) and `MmapAppend` (the mmap-append dependency)
manage it: the file's length and the persisted end marker (durable), the length this `EventStore`
remembers and the length of its mapping (volatile).  `set_len(n)` sets the file's length to exactly
`n` — it TRUNCATES when `n` is smaller — so "the file never shrinks" is a theorem, not a given. -/
namespace Pocket

structure EMap where
  /-- length of `event.map` on disk -/
  fileLen : Nat
  /-- the end offset persisted in the first 8 bytes -/
  marker : Nat
  /-- `event_map_file_len`: what this `EventStore` believes the file length is -/
  memLen : Nat
  /-- length of the memory mapping (`MmapAppend::inner.len()`) -/
  mapLen : Nat
deriving Repr, DecidableEq, Inhabited

/-- `EventStore::new` on a file of length `fileLen` (0 = absent or just created) whose first 8 bytes,
if it has them, hold `marker` -/
def emOpen (chunk fileLen marker : Nat) : Outcome EMap :=
  let new := decide (fileLen < 8) || decide (marker < 8)
  let len := if new && decide (fileLen < chunk) then chunk else fileLen
  -- `MmapAppend::new`: the whole file is mapped; too short for the header is an error
  if len < 8 then .err
  else .ok { fileLen := len, marker := if new then 8 else marker, memLen := len, mapLen := len }

/-- `MmapAppend::append(n, …)`: `none` = "Out of space" -/
def emAppend (m : EMap) (n : Nat) : Option EMap :=
  if m.marker + n > m.mapLen then none else some { m with marker := m.marker + n }

/-- one round of the grow path: `set_len(remembered + CHUNK)`, `resize`, remember -/
def emGrow (chunk : Nat) (m : EMap) : EMap :=
  let nl := m.memLen + chunk
  { m with fileLen := nl, mapLen := nl, memLen := nl }

/-- the append-or-grow loop of `EventStore::store_event`: `(offset, map afterwards)` -/
def emStoreLoop : Nat → Nat → EMap → Nat → Outcome (Nat × EMap)
  | 0, _, _, _ => .err
  | fuel + 1, chunk, m, size =>
    match emAppend m size with
    | some m' => .ok (m.marker, m')
    | none => emStoreLoop fuel chunk (emGrow chunk m) size

def emPad (m : EMap) : Nat := if m.marker % 8 = 0 then 0 else 8 - m.marker % 8

/-- `EventStore::store_event(event)` for an event of `size` bytes -/
def emStore (chunk : Nat) (m : EMap) (size : Nat) : Outcome (Nat × EMap) :=
  -- the padding append is outside the grow-and-retry loop: "Out of space" there is returned
  match (if emPad m = 0 then some m else emAppend m (emPad m)) with
  | none => .err
  | some m1 => emStoreLoop (size / chunk + 2) chunk m1 size

/-- the durable `(fileLen, marker)` pairs the loop passes through (a kill can leave any of them) -/
def emLoopStates : Nat → Nat → EMap → Nat → List (Nat × Nat)
  | 0, _, m, _ => [(m.fileLen, m.marker)]
  | fuel + 1, chunk, m, size =>
    match emAppend m size with
    | some m' => [(m.fileLen, m.marker), (m'.fileLen, m'.marker)]
    | none => (m.fileLen, m.marker) :: emLoopStates fuel chunk (emGrow chunk m) size

def emStoreStates (chunk : Nat) (m : EMap) (size : Nat) : List (Nat × Nat) :=
  match (if emPad m = 0 then some m else emAppend m (emPad m)) with
  | none => [(m.fileLen, m.marker)]
  | some m1 => (m.fileLen, m.marker) :: emLoopStates (size / chunk + 2) chunk m1 size

end Pocket
