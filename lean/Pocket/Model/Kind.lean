import Pocket.Model.Basic
namespace Pocket

/-- `Kind::is_replaceable` -/
def isReplaceable (k : Nat) : Bool := (10000 ≤ k && k < 20000) || k == 0 || k == 3
/-- `Kind::is_ephemeral` -/
def isEphemeral (k : Nat) : Bool := 20000 ≤ k && k < 30000
/-- `Kind::is_parameterized_replaceable` -/
def isParamReplaceable (k : Nat) : Bool := 30000 ≤ k && k < 40000

end Pocket
