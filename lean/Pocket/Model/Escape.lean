import Pocket.Model.Utf8
namespace Pocket

def hexDigitLower (n : Nat) : Nat := if n < 10 then 48 + n else 87 + n

/-- what `json_escape` emits for one code point that is not safe; `none` = the error branch
(a code point beyond 0x10FFFF) -/
def escapePiece (cp : Nat) : Option Bytes :=
  if cp = 8 then some [92, 98]
  else if cp = 9 then some [92, 116]
  else if cp = 10 then some [92, 110]
  else if cp = 12 then some [92, 102]
  else if cp = 13 then some [92, 114]
  else if cp = 34 then some [92, 34]
  else if cp = 92 then some [92, 92]
  else if cp > 32 then none
  else some [92, 117, 48, 48, hexDigitLower (cp / 16 % 16), hexDigitLower (cp % 16)]

/-- `json_escape(input, out)`: the bytes appended to `out`.  Fuel = remaining length (every
iteration consumes at least one byte). -/
def jsonEscapeF : Nat → Bytes → Outcome Bytes
  | 0, _ => .ok []
  | fuel + 1, inp =>
    match nextCodePoint inp with
    | .panic => .panic
    | .err => .err
    | .ok none => .ok []
    | .ok (some (cp, size)) =>
      let piece : Option Bytes := if isSafeChar cp then some (inp.take size) else escapePiece cp
      match piece with
      | none => .err
      | some p =>
        match jsonEscapeF fuel (inp.drop size) with
        | .ok r => .ok (p ++ r)
        | .err => .err
        | .panic => .panic

def jsonEscape (inp : Bytes) : Outcome Bytes := jsonEscapeF inp.length inp

/-- state of the `json_unescape` loop -/
inductive EscSt where
  | normal
  | inesc
  | uesc (digit total : Nat)
deriving Repr, DecidableEq

def hexVal (cp : Nat) : Option Nat :=
  if 48 ≤ cp ∧ cp ≤ 57 then some (cp - 48)
  else if 65 ≤ cp ∧ cp ≤ 70 then some (cp - 65 + 10)
  else if 97 ≤ cp ∧ cp ≤ 102 then some (cp - 97 + 10)
  else none

/-- `json_unescape(input, out)` from the current position: `(bytes consumed from here,
bytes written from here)`.  `pos` = bytes already written, `cap` = `out.len()`.
`output_slice!`/`output_byte!`/`encode_utf8` check `cap` exactly as the code does. -/
def unescF : Nat → Bytes → EscSt → Nat → Nat → Outcome (Nat × Bytes)
  | 0, _, _, _, _ => .ok (0, [])
  | fuel + 1, inp, st, pos, cap =>
    match nextCodePoint inp with
    | .panic => .panic
    | .err => .err
    | .ok none => .ok (0, [])
    | .ok (some (cp, size)) =>
      -- `emit w st'`: write `w` (capacity-checked), continue in state `st'`
      let emit (w : Bytes) (st' : EscSt) : Outcome (Nat × Bytes) :=
        if cap < pos + w.length then .err
        else match unescF fuel (inp.drop size) st' (pos + w.length) cap with
          | .ok (c, o) => .ok (size + c, w ++ o)
          | .err => .err
          | .panic => .panic
      match st with
      | .inesc =>
        if cp > 255 then .err
        else if cp = 34 ∨ cp = 92 ∨ cp = 47 then emit (inp.take size) .normal
        else if cp = 98 then emit [8] .normal
        else if cp = 102 then emit [12] .normal
        else if cp = 110 then emit [10] .normal
        else if cp = 114 then emit [13] .normal
        else if cp = 116 then emit [9] .normal
        else if cp = 117 then emit [] (.uesc 0 0)
        else .err
      | .uesc digit total =>
        match hexVal cp with
        | none => .err
        | some dv =>
          let total := total + dv * 16 ^ (3 - digit)
          if digit ≥ 3 then
            if 55296 ≤ total ∧ total ≤ 57343 then .err
            else emit (utf8Bytes total) .normal
          else emit [] (.uesc (digit + 1) total)
      | .normal =>
        if cp = 92 then emit [] .inesc
        else if isSafeChar cp then emit (inp.take size) .normal
        else if cp = 34 then .ok (0, [])
        else .err

def jsonUnescape (inp : Bytes) (cap : Nat) : Outcome (Nat × Bytes) :=
  unescF inp.length inp .normal 0 cap

end Pocket
