import Pocket.Model.Escape
namespace Pocket

/-- the parts of a tag section: tags, each a list of byte strings -/
abbrev TagsRec := List (List Bytes)

def encStr (s : Bytes) : Bytes := le16 s.length ++ s
def encStrs : List Bytes → Bytes
  | [] => []
  | s :: ss => encStr s ++ encStrs ss
def encTag (t : List Bytes) : Bytes := le16 t.length ++ encStrs t
def encTagsBody : TagsRec → Bytes
  | [] => []
  | t :: ts => encTag t ++ encTagsBody ts

def strsSize : List Bytes → Nat
  | [] => 0
  | s :: ss => 2 + s.length + strsSize ss
def tagSize (t : List Bytes) : Nat := 2 + strsSize t
def tagsBodySize : TagsRec → Nat
  | [] => 0
  | t :: ts => tagSize t + tagsBodySize ts

/-- `Tags::output_size_needed` -/
def tagsSize (ts : TagsRec) : Nat := 4 + 2 * ts.length + tagsBodySize ts

/-- the offset table written by `from_parts`: tag `n` starts where the previous ones end -/
def encOffsets : Nat → TagsRec → Bytes
  | _, [] => []
  | p, t :: ts => le16 p ++ encOffsets (p + tagSize t) ts

/-- the byte layout of a tag section -/
def encodeTags (ts : TagsRec) : Bytes :=
  le16 (tagsSize ts) ++ le16 ts.length ++ encOffsets (4 + 2 * ts.length) ts ++ encTagsBody ts

/-- `Tags::from_parts(parts, output)`: the whole output buffer afterwards -/
def tagsFromParts (ts : TagsRec) (buf : Bytes) : Outcome Bytes :=
  let n := tagsSize ts
  if n > 65535 then .err
  else if buf.length < n then .err
  else .ok (encodeTags ts ++ buf.drop n)

/-! ### readers over the byte layout (`Tags` methods) -/

/-- `Tags::delineate(&input)`: the section is the first `len` bytes -/
def tagsDelineate (inp : Bytes) : Outcome Bytes :=
  if inp.length < 2 then .err
  else match rd16 inp 0 with
    | .ok len => if inp.length < len then .err else .ok (inp.take len)
    | .err => .err
    | .panic => .panic

/-- `Tags::count` -/
def tagsCount (b : Bytes) : Outcome Nat := rd16 b 2

/-- `TagsStringIter`: read `count` strings starting at `off` -/
def readStrs (b : Bytes) : Nat → Nat → Outcome (List Bytes)
  | 0, _ => .ok []
  | n + 1, off =>
    match rd16 b off with
    | .ok len =>
      match slice b (off + 2) len with
      | .ok s =>
        match readStrs b n (off + 2 + len) with
        | .ok ss => .ok (s :: ss)
        | .err => .err
        | .panic => .panic
      | .err => .err
      | .panic => .panic
    | .err => .err
    | .panic => .panic

/-- `TagsIter`: tags `i .. count-1` through the offset table -/
def readTagsFrom (b : Bytes) (count : Nat) : Nat → Nat → Outcome TagsRec
  | 0, _ => .ok []
  | n + 1, i =>
    if i ≥ count then .ok []
    else match rd16 b (4 + i * 2) with
      | .ok off =>
        match rd16 b off with
        | .ok cnt =>
          match readStrs b cnt (off + 2) with
          | .ok t =>
            match readTagsFrom b count n (i + 1) with
            | .ok ts => .ok (t :: ts)
            | .err => .err
            | .panic => .panic
          | .err => .err
          | .panic => .panic
        | .err => .err
        | .panic => .panic
      | .err => .err
      | .panic => .panic

/-- `tags.iter()` collected -/
def tagsDecode (b : Bytes) : Outcome TagsRec :=
  match tagsCount b with
  | .ok c => readTagsFrom b c c 0
  | .err => .err
  | .panic => .panic

/-- skip `n` strings inside `get_string`, with its `offset > end` safety check -/
def gsSkip (b : Bytes) («end» : Nat) : Nat → Nat → Outcome (Option Nat)
  | 0, off => .ok (some off)
  | n + 1, off =>
    match rd16 b off with
    | .ok len =>
      let off' := off + 2 + len
      if off' > «end» then .ok none else gsSkip b «end» n off'
    | .err => .err
    | .panic => .panic

/-- `Tags::get_string(tag, string)` -/
def getString (b : Bytes) (tag string : Nat) : Outcome (Option Bytes) :=
  match tagsCount b with
  | .ok c =>
    if tag ≥ c then .ok none
    else match rd16 b (4 + tag * 2) with
      | .ok off =>
        match rd16 b off with
        | .ok cnt =>
          if string ≥ cnt then .ok none
          else match rd16 b 0 with
            | .ok e =>
              match gsSkip b e string (off + 2) with
              | .ok (some o) =>
                match rd16 b o with
                | .ok len =>
                  if o + 2 + len > e then .ok none
                  else match slice b (o + 2) len with
                    | .ok s => .ok (some s)
                    | .err => .err
                    | .panic => .panic
                | .err => .err
                | .panic => .panic
              | .ok none => .ok none
              | .err => .err
              | .panic => .panic
            | .err => .err
            | .panic => .panic
        | .err => .err
        | .panic => .panic
      | .err => .err
      | .panic => .panic
  | .err => .err
  | .panic => .panic

/-! ### record-level counterparts -/

/-- `Tags::get_value(key)`: second string of the first tag whose first string is `key`
(`none` also when that tag has no second string) -/
def getValue : TagsRec → Bytes → Option Bytes
  | [], _ => none
  | t :: ts, key =>
    match t with
    | [] => getValue ts key
    | k :: rest => if k = key then rest.head? else getValue ts key

/-- `Tags::matches(letter, value)` -/
def tagsMatch (ts : TagsRec) (letter value : Bytes) : Bool :=
  ts.any fun t => t[0]? == some letter && t[1]? == some value

/-- `Tags::as_json`: `json_escape(..).unwrap()` panics where escaping fails -/
def strsJson : List Bytes → Bool → Outcome Bytes
  | [], _ => .ok []
  | s :: ss, first =>
    match jsonEscape s with
    | .ok e =>
      match strsJson ss false with
      | .ok r => .ok ((if first then [] else [44]) ++ [34] ++ e ++ [34] ++ r)
      | .err => .err
      | .panic => .panic
    | .err => .panic
    | .panic => .panic

def tagsJsonBody : TagsRec → Bool → Outcome Bytes
  | [], _ => .ok []
  | t :: ts, first =>
    match strsJson t true with
    | .ok sj =>
      match tagsJsonBody ts false with
      | .ok r => .ok ((if first then [] else [44]) ++ [91] ++ sj ++ [93] ++ r)
      | .err => .err
      | .panic => .panic
    | .err => .err
    | .panic => .panic

def tagsJson (ts : TagsRec) : Outcome Bytes :=
  match tagsJsonBody ts true with
  | .ok b => .ok ([91] ++ b ++ [93])
  | .err => .err
  | .panic => .panic

end Pocket
