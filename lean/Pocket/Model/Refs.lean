import Pocket.Model.Store
/-
Event references (C15): a `&Event` handed out by the store is an address inside the current
memory mapping of the event map: `base + offset`.  When the backing file grows, mmap-append maps
the file anew and drops the old mapping, so the OS chooses a new `base`; the model lets a growth
step replace `base` by any address.
-/
namespace Pocket

structure MapView where
  base : Nat
  /-- does a mapping exist at `base` -/
  mapped : Bool := true
deriving Repr, DecidableEq

/-- a reference taken from the store -/
structure Ref where
  addr : Nat
  off : Nat
  len : Nat
deriving Repr, DecidableEq

def takeRef (v : MapView) (x : SEv) : Ref := ⟨v.base + x.off, x.off, eventLen x.e⟩

/-- one step of the map's life: an append that fits (`stay`), or a growth that remaps at `newBase` -/
inductive MapStep where
  | stay
  | grow (newBase : Nat)
deriving Repr

def mapStep (v : MapView) : MapStep → MapView
  | .stay => v
  | .grow b => { v with base := b }

/-- a reference is valid in a view if it points where the view maps its offset -/
def refValid (v : MapView) (r : Ref) : Prop := r.addr = v.base + r.off

end Pocket
