import Pocket.Model.Store
/- The byte keys of the six query indexes (`key_*_index` in `lmdb/mod.rs`) and the bounds of their range
scans (`*_iter`).  Every key is `fixed-width prefix ++ be64(u64::MAX - created_at) ++ id`; LMDB orders
keys bytewise. -/
namespace Pocket

/-- `(u64::MAX - created_at).to_be_bytes()` -/
def revTime (t : Nat) : Bytes := be64 (U64MAX - t)

def keyCi (t : Nat) (id : Bytes) : Bytes := revTime t ++ id
def keyAc (author : Bytes) (t : Nat) (id : Bytes) : Bytes := author ++ (revTime t ++ id)
def keyAkc (author : Bytes) (kind t : Nat) (id : Bytes) : Bytes := (author ++ be16 kind) ++ (revTime t ++ id)
def keyTc (letter : Nat) (value : Bytes) (t : Nat) (id : Bytes) : Bytes := (letter :: pad182 value) ++ (revTime t ++ id)
def keyAtc (author : Bytes) (letter : Nat) (value : Bytes) (t : Nat) (id : Bytes) : Bytes :=
  (author ++ letter :: pad182 value) ++ (revTime t ++ id)
def keyKtc (kind letter : Nat) (value : Bytes) (t : Nat) (id : Bytes) : Bytes :=
  (be16 kind ++ letter :: pad182 value) ++ (revTime t ++ id)

def zeros32 : Bytes := List.replicate 32 0
def ffs32 : Bytes := List.replicate 32 255

/-- `Bound::Included(lo) ..= Bound::Included(hi)` in bytewise order (keys of one table have one length) -/
def inRange (lo hi k : Bytes) : Bool := !bytesLt k lo && !bytesLt hi k

/-- the keys one event contributes to each table, as `Lmdb::index` writes them -/
def eventKeys (e : EventRec) : List (String × Bytes) :=
  [("ci", keyCi e.createdAt e.id), ("ac", keyAc e.pubkey e.createdAt e.id),
   ("akc", keyAkc e.pubkey e.kind e.createdAt e.id)] ++
  (e.tags.filterMap fun t =>
    match t with
    | [l] :: v :: _ => some [("tc", keyTc l v e.createdAt e.id), ("atc", keyAtc e.pubkey l v e.createdAt e.id),
                             ("ktc", keyKtc e.kind l v e.createdAt e.id)]
    | _ => none).flatten

def insertBytes (k : Bytes) : List Bytes → List Bytes
  | [] => [k]
  | y :: ys => if bytesLt k y then k :: y :: ys else if k == y then y :: ys else y :: insertBytes k ys

/-- what one of the six tables holds for the live events: its keys, bytewise ascending, each once -/
def tableKeys (live : List SEv) (table : String) : List Bytes :=
  ((live.flatMap fun x => (eventKeys x.e).filterMap fun (t, k) => if t == table then some k else none).foldr insertBytes [])

end Pocket
