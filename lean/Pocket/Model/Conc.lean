import Pocket.Model.Store
/-
Concurrency model (C14): several threads share one store.  A writer (`store_event`,
`remove_event`) runs entirely inside one LMDB write transaction: it blocks until it holds the
single writer lock, computes on the committed tables as they are at that moment (plus its private
transaction), and its commit installs the result and releases the lock.  A reader opens a read
transaction: a snapshot of the committed tables at that instant.  The lock, the snapshot and the
atomic commit are LMDB's (trusted, DESIGN.md §9); the appended event bytes are in the map before
the commit that makes them reachable.
-/
namespace Pocket

inductive Phase where
  | waiting            -- has not got the write lock yet
  | holding            -- inside its write transaction
  | done (r : Reply)   -- committed (or aborted) and returned
deriving Repr, DecidableEq

structure Sys where
  committed : Store
  lock : Option Nat
  threads : List (EventRec × Phase)
  /-- thread indices in the order in which their transactions ended -/
  order : List Nat
deriving Repr

def setPhase (ts : List (EventRec × Phase)) (i : Nat) (p : Phase) : List (EventRec × Phase) :=
  ts.mapIdx fun j t => if j = i then (t.1, p) else t

/-- one scheduler turn of thread `i` -/
def turn (sys : Sys) (i : Nat) : Sys :=
  match sys.threads[i]? with
  | none => sys
  | some (e, .waiting) =>
    match sys.lock with
    | none => { sys with lock := some i, threads := setPhase sys.threads i .holding }
    | some _ => sys                                   -- blocked
  | some (e, .holding) =>
    { committed := (storeEvent sys.committed e).2, lock := none,
      threads := setPhase sys.threads i (.done (storeEvent sys.committed e).1),
      order := sys.order ++ [i] }
  | some (_, .done _) => sys

def runSched (sys : Sys) (sched : List Nat) : Sys := sched.foldl turn sys

def initSys (s : Store) (evs : List EventRec) : Sys :=
  { committed := s, lock := none, threads := evs.map fun e => (e, .waiting), order := [] }

/-- the events of the threads listed in `order` -/
def eventsOf (ts : List (EventRec × Phase)) (order : List Nat) : List EventRec :=
  order.filterMap fun i => (ts[i]?).map (·.1)

end Pocket
