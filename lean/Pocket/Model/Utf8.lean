import Pocket.Model.Basic
namespace Pocket

/-- `next_code_point(&input[p..])` on the remaining suffix: `(code point, size)`, `none` at the end
of input, `err` when a multi-byte sequence is cut short.  Continuation bytes are *not* validated
(the decoder is lenient, exactly like the code). -/
def nextCodePoint : Bytes → Outcome (Option (Nat × Nat))
  | [] => .ok none
  | x :: rest =>
    if x < 128 then .ok (some (x, 1))
    else
      let init := x % 32
      match rest with
      | [] => .err
      | y :: rest2 =>
        if x ≥ 224 then
          match rest2 with
          | [] => .err
          | z :: rest3 =>
            let yz := (y % 64) * 64 + z % 64
            if x ≥ 240 then
              match rest3 with
              | [] => .err
              | w :: _ => .ok (some ((init % 8) * 262144 + (yz * 64 + w % 64), 4))
            else .ok (some (init * 4096 + yz, 3))
        else .ok (some (init * 64 + y % 64, 2))

/-- the bytes `encode_utf8(code, dst)` writes (its length is the returned count) -/
def utf8Bytes (c : Nat) : Bytes :=
  if c < 128 then [c % 256]
  else if c < 2048 then [c / 64 % 32 + 192, c % 64 + 128]
  else if c < 65536 then [c / 4096 % 16 + 224, c / 64 % 64 + 128, c % 64 + 128]
  else [c / 262144 % 8 + 240, c / 4096 % 64 + 128, c / 64 % 64 + 128, c % 64 + 128]

/-- `is_safe_char` -/
def isSafeChar (c : Nat) : Bool :=
  (32 ≤ c && c ≤ 33) || (35 ≤ c && c ≤ 91) || (93 ≤ c && c ≤ 1114111)

end Pocket
