import Pocket.Model.Event
namespace Pocket

structure FilterRec where
  ids : List Bytes
  authors : List Bytes
  kinds : List Nat
  tags : TagsRec
  since : Nat
  «until» : Nat
  limit : Nat
deriving Repr, DecidableEq, Inhabited

def U64MAX : Nat := 18446744073709551615
def U32MAX : Nat := 4294967295

def flat32 : List Bytes → Bytes
  | [] => []
  | x :: xs => x ++ flat32 xs
def flatKinds : List Nat → Bytes
  | [] => []
  | k :: ks => le16 k ++ flatKinds ks

/-- `Filter::output_size_needed` -/
def filterSize (nIds nAuthors nKinds tagsLen : Nat) : Nat :=
  32 + nIds * 32 + nAuthors * 32 + nKinds * 2 + tagsLen

def encodeFilterWith (ids authors : List Bytes) (kinds : List Nat) (tagBytes : Bytes)
    (since «until» limit : Nat) : Bytes :=
  le32 (filterSize ids.length authors.length kinds.length tagBytes.length) ++
    le16 ids.length ++ le16 authors.length ++ le16 kinds.length ++ [0, 0] ++
    le32 limit ++ le64 since ++ le64 «until» ++ flat32 ids ++ flat32 authors ++ flatKinds kinds ++
    tagBytes

def encodeFilter (f : FilterRec) : Bytes :=
  encodeFilterWith f.ids f.authors f.kinds (encodeTags f.tags) f.since f.until f.limit

/-- `Filter::from_parts` (options already defaulted: since 0, until u64::MAX, limit u32::MAX) -/
def filterFromParts (ids authors : List Bytes) (kinds : List Nat) (tagBytes : Bytes)
    (since «until» limit : Nat) (buf : Bytes) : Outcome Bytes :=
  let n := filterSize ids.length authors.length kinds.length tagBytes.length
  if ids.length > 65535 ∨ authors.length > 65535 ∨ kinds.length > 65535 then .err
  else if n > 4294967295 then .err
  else if buf.length < n then .err
  else .ok (encodeFilterWith ids authors kinds tagBytes since «until» limit ++ buf.drop n)

def filterFromRec (f : FilterRec) (buf : Bytes) : Outcome Bytes :=
  if tagsSize f.tags > 65535 then .err
  else filterFromParts f.ids f.authors f.kinds (encodeTags f.tags) f.since f.until f.limit buf

/-- `Filter::delineate` -/
def filterDelineate (inp : Bytes) : Outcome Bytes :=
  if inp.length < 32 then .err
  else match rd32 inp 0 with
    | .ok len => if inp.length < len then .err else .ok (inp.take len)
    | .err => .err
    | .panic => .panic

/-- `FilterIdIter`/`FilterAuthorIter` on the suffix that starts at the first item: up to `n`
32-byte items; an item that would run past the end makes the iterator yield `None`, which ends
every consumer's loop -/
def readItems32 : Nat → Bytes → List Bytes
  | 0, _ => []
  | n + 1, s =>
    if (s.take 32).length < 32 then []
    else s.take 32 :: readItems32 n (s.drop 32)

def readKinds : Nat → Bytes → List Nat
  | 0, _ => []
  | n + 1, s =>
    match s with
    | a :: b :: rest => (a + 256 * (b + 256 * 0)) :: readKinds n rest
    | _ => []

/-- all accessors of `Filter` -/
def filterDecode (b : Bytes) : Outcome FilterRec :=
  match rd16 b 4, rd16 b 6, rd16 b 8, rd32 b 12, rd64 b 16, rd64 b 24 with
  | .ok ni, .ok na, .ok nk, .ok limit, .ok since, .ok «until» =>
    let st := 32 + ni * 32 + na * 32 + nk * 2
    if b.length < st then .panic
    else match tagsDelineate (b.drop st) with
      | .ok tb =>
        match tagsDecode tb with
        | .ok tags =>
          .ok ⟨readItems32 ni (b.drop 32), readItems32 na (b.drop (32 + ni * 32)),
               readKinds nk (b.drop (32 + ni * 32 + na * 32)), tags, since, «until», limit⟩
        | .err => .err
        | .panic => .panic
      | .err => .err
      | .panic => .panic
  | _, _, _, _, _, _ => .panic

/-- the tag loop of `Filter::event_matches`: `while let Some(letter) = filter_tags.get_string(i, 0)`
ends at the first filter tag without a name -/
def filterTagLoop (etags : TagsRec) : TagsRec → Bool
  | [] => true
  | ft :: rest =>
    match ft with
    | [] => true
    | letter :: values =>
      if values.any (fun v => tagsMatch etags letter v) then filterTagLoop etags rest else false

/-- `Filter::event_matches` on the decoded values -/
def eventMatches (f : FilterRec) (e : EventRec) : Bool :=
  if !f.ids.isEmpty && !f.ids.any (· == e.id) then false
  else if !f.authors.isEmpty && !f.authors.any (· == e.pubkey) then false
  else if !f.kinds.isEmpty && !f.kinds.any (· == e.kind) then false
  else if e.createdAt < f.since then false
  else if e.createdAt > f.until then false
  else if !f.tags.isEmpty then
    if e.tags.isEmpty then false else filterTagLoop e.tags f.tags
  else true

/-- `event_matches` on the binary forms: decode through the accessor models, then match -/
def eventMatchesB (fb eb : Bytes) : Outcome Bool :=
  match filterDecode fb, eventDecode eb with
  | .ok f, .ok e => .ok (eventMatches f e)
  | .panic, _ => .panic
  | _, .panic => .panic
  | _, _ => .err

/-- `Filter::as_json` -/
def idsJson : List Bytes → Bool → Bytes
  | [], _ => []
  | x :: xs, first => (if first then [] else [44]) ++ [34] ++ hexOf x ++ [34] ++ idsJson xs false
def kindsJson : List Nat → Bool → Bytes
  | [], _ => []
  | k :: ks, first => (if first then [] else [44]) ++ decOf k ++ kindsJson ks false

/-- the strings of one filter tag: name first, then values -/
def ftagValuesJson : List Bytes → Bool → Outcome Bytes
  | [], _ => .ok []
  | v :: vs, first =>
    match jsonEscape v, ftagValuesJson vs false with
    | .ok e, .ok r => .ok ((if first then [] else [44]) ++ [34] ++ e ++ [34] ++ r)
    | .panic, _ => .panic
    | _, .panic => .panic
    | _, _ => .err

/-- members are emitted as `piece`s; `first` tracks whether a comma is needed -/
def ftagsJson : TagsRec → Bool → Outcome (Bytes × Bool)
  | [], first => .ok ([], first)
  | t :: ts, first =>
    let sep : Bytes := if first then [] else [44]
    match t with
    | [] =>
      -- a tag with no strings writes just the closing bracket
      match ftagsJson ts false with
      | .ok (r, f') => .ok (sep ++ [93] ++ r, f')
      | .err => .err
      | .panic => .panic
    | name :: values =>
      match jsonEscape name, ftagValuesJson values true, ftagsJson ts false with
      | .ok en, .ok vj, .ok (r, f') => .ok (sep ++ [34, 35] ++ en ++ [34, 58, 91] ++ vj ++ [93] ++ r, f')
      | .panic, _, _ => .panic
      | _, .panic, _ => .panic
      | _, _, .panic => .panic
      | _, _, _ => .err

def filterJson (f : FilterRec) : Outcome Bytes :=
  let p1 : Bytes := if f.ids.isEmpty then [] else
    [34, 105, 100, 115, 34, 58, 91] ++ idsJson f.ids true ++ [93]
  let first1 := f.ids.isEmpty
  let p2 : Bytes := if f.authors.isEmpty then [] else
    (if first1 then [] else [44]) ++ [34, 97, 117, 116, 104, 111, 114, 115, 34, 58, 91] ++
      idsJson f.authors true ++ [93]
  let first2 := first1 && f.authors.isEmpty
  let p3 : Bytes := if f.kinds.isEmpty then [] else
    (if first2 then [] else [44]) ++ [34, 107, 105, 110, 100, 115, 34, 58, 91] ++
      kindsJson f.kinds true ++ [93]
  let first3 := first2 && f.kinds.isEmpty
  match ftagsJson f.tags first3 with
  | .ok (p4, first4) =>
    let p5 : Bytes := if f.limit = U32MAX then [] else
      (if first4 then [] else [44]) ++ [34, 108, 105, 109, 105, 116, 34, 58] ++ decOf f.limit
    let first5 := first4 && f.limit = U32MAX
    let p6 : Bytes := if f.since = 0 then [] else
      (if first5 then [] else [44]) ++ [34, 115, 105, 110, 99, 101, 34, 58] ++ decOf f.since
    let first6 := first5 && f.since = 0
    let p7 : Bytes := if f.until = U64MAX then [] else
      (if first6 then [] else [44]) ++ [34, 117, 110, 116, 105, 108, 34, 58] ++ decOf f.until
    .ok ([123] ++ p1 ++ p2 ++ p3 ++ p4 ++ p5 ++ p6 ++ p7 ++ [125])
  | .err => .err
  | .panic => .panic

end Pocket
