import Pocket.Model.Filter
import Pocket.Model.Hll
import Pocket.Model.Kind
/-
The store (pocket-db): the event map and the LMDB tables, as far as pocket relies on them
(DESIGN.md §3 "LMDB", "The event map").

* The seven index tables are functions of the set of *indexed* events `live` (every code path that
  adds or removes an index entry adds or removes all entries of one event: `index`,
  `deindex` + `deindex_id`); a range scan returns the entries whose fixed-width key fields equal
  the probe's, `since ≤ created_at ≤ until`, in key order = newest first, then ascending id.
  Tag values enter keys zero-padded / truncated to 182 bytes (`pad182`).
* A write transaction works on a private copy of the tables; reads through a *read* transaction
  opened meanwhile (`get_event_by_id` in `handle_deletion_event`, `loop_txn` in the pre-removal
  scans) see the committed tables.
* The event map is an append-only log with an end marker; offsets are 8-aligned.
-/
namespace Pocket

/-- an event in the map, with the offset it was appended at -/
structure SEv where
  off : Nat
  e : EventRec
deriving Repr, DecidableEq, Inhabited

abbrev AddrKey := Nat × Bytes × Bytes   -- kind, author, d

/-- the LMDB tables that are not derived from `live` -/
structure Db where
  live : List SEv := []
  delIds : List Bytes := []
  delAddrs : List (AddrKey × Nat) := []
  extra : List (String × List (Bytes × Bytes)) := []
deriving Repr, DecidableEq, Inhabited

structure Store where
  db : Db := {}
  /-- everything ever appended to the current map file, refused stores included -/
  log : List SEv := []
  «end» : Nat := 8
deriving Repr, DecidableEq, Inhabited

inductive Reply where
  | ok (off : Nat)
  | duplicate | deleted | replaced | invalidDelete | other
deriving Repr, DecidableEq

def align8 (n : Nat) : Nat := if n % 8 = 0 then n else n + (8 - n % 8)

def eventLen (e : EventRec) : Nat := eventSize (tagsSize e.tags) e.content.length

/-- tag values in index keys: zero-padded to 182 bytes, or cut to 182 -/
def pad182 (v : Bytes) : Bytes :=
  if v.length ≤ 182 then v ++ List.replicate (182 - v.length) 0 else v.take 182

def KEY_D : Bytes := [100]
def KEY_E : Bytes := [101]
def KEY_A : Bytes := [97]
def KEY_P : Bytes := [112]

/-- does the event have an index entry under `(letter, value)`: some tag whose name is the single
byte `letter` and whose value pads to the same key bytes -/
def hasTagKey (e : EventRec) (letter : Nat) (value : Bytes) : Bool :=
  e.tags.any fun t =>
    match t with
    | name :: v :: _ => name == [letter] && pad182 v == pad182 value
    | _ => false

/-- the distinct `(letter, padded value)` keys an event contributes to each tag index -/
def tagKeys (e : EventRec) : List (Nat × Bytes) :=
  (e.tags.filterMap fun t =>
    match t with
    | [l] :: v :: _ => some (l, pad182 v)
    | _ => none).eraseDups

def bytesLt : Bytes → Bytes → Bool
  | [], [] => false
  | [], _ :: _ => true
  | _ :: _, [] => false
  | a :: as, b :: bs => a < b || (a == b && bytesLt as bs)

/-- key order of every index: newest first, then ascending id -/
def scanBefore (x y : SEv) : Bool :=
  x.e.createdAt > y.e.createdAt || (x.e.createdAt == y.e.createdAt && bytesLt x.e.id y.e.id)

def insertSorted (x : SEv) : List SEv → List SEv
  | [] => [x]
  | y :: ys => if scanBefore x y then x :: y :: ys else y :: insertSorted x ys

def sortScan (l : List SEv) : List SEv := l.foldr insertSorted []

/-- a range scan over one index: the live events selected by `p`, `since ≤ t ≤ until`, key order -/
def scan (live : List SEv) (p : EventRec → Bool) (since «until» : Nat) : List SEv :=
  sortScan (live.filter fun x => p x.e && since ≤ x.e.createdAt && x.e.createdAt ≤ «until»)

def akcScan (live : List SEv) (author : Bytes) (kind since «until» : Nat) :=
  scan live (fun e => e.pubkey == author && e.kind == kind) since «until»
def acScan (live : List SEv) (author : Bytes) (since «until» : Nat) :=
  scan live (fun e => e.pubkey == author) since «until»
def ciScan (live : List SEv) (since «until» : Nat) := scan live (fun _ => true) since «until»
def tcScan (live : List SEv) (letter : Nat) (value : Bytes) (since «until» : Nat) :=
  scan live (fun e => hasTagKey e letter value) since «until»
def atcScan (live : List SEv) (author : Bytes) (letter : Nat) (value : Bytes) (since «until» : Nat) :=
  scan live (fun e => e.pubkey == author && hasTagKey e letter value) since «until»
def ktcScan (live : List SEv) (kind letter : Nat) (value : Bytes) (since «until» : Nat) :=
  scan live (fun e => e.kind == kind && hasTagKey e letter value) since «until»

def findById (live : List SEv) (id : Bytes) : Option SEv := live.find? fun x => x.e.id == id

def removeId (live : List SEv) (id : Bytes) : List SEv := live.filter fun x => x.e.id != id

def delAddrGet (m : List (AddrKey × Nat)) (k : AddrKey) : Option Nat :=
  (m.find? fun x => x.1 == k).map (·.2)

def delAddrPut (m : List (AddrKey × Nat)) (k : AddrKey) (t : Nat) : List (AddrKey × Nat) :=
  match m with
  | [] => [(k, t)]
  | x :: xs => if x.1 == k then (k, t) :: xs else x :: delAddrPut xs k t

/-- LMDB refuses keys longer than 511 bytes; the address key is 35 + max(|d|, 182) bytes -/
def addrKeyTooLong (d : Bytes) : Bool := 35 + max d.length 182 > 511

/-- the holder of a parameterized address: same author and kind, and the *first* `d` tag's value
is exactly `d` -/
def isParamHolder (x : EventRec) (kind : Nat) (author d : Bytes) : Bool :=
  x.pubkey == author && x.kind == kind && getValue x.tags KEY_D == some d

/-- `remove_replaceable(txn, author, kind, until)`: entries are enumerated in the committed view -/
def removeReplaceable (committed txn : List SEv) (author : Bytes) (kind «until» : Nat) : List SEv :=
  let victims := committed.filter fun x => x.e.pubkey == author && x.e.kind == kind && x.e.createdAt ≤ «until»
  txn.filter fun x => !(victims.any fun v => v.off == x.off)

/-- `remove_parameterized_replaceable(txn, addr, until)` -/
def removeParam (committed txn : List SEv) (kind : Nat) (author d : Bytes) («until» : Nat) : List SEv :=
  let victims := committed.filter fun x => isParamHolder x.e kind author d && x.e.createdAt ≤ «until»
  txn.filter fun x => !(victims.any fun v => v.off == x.off)

/-! ### `Addr::try_from_bytes` -/

def splitOnColon : Bytes → Bytes × Option Bytes
  | [] => ([], none)
  | b :: rest =>
    if b = 58 then ([], some rest)
    else
      let (h, t) := splitOnColon rest
      (b :: h, t)

def parseDigitsU16 : Bytes → Nat → Option Nat
  | [], acc => some acc
  | b :: rest, acc =>
    if isDigitB b then
      let v := acc * 10 + (b - 48)
      if v > 65535 then none else parseDigitsU16 rest v
    else none
where isDigitB (b : Nat) : Bool := 48 ≤ b && b ≤ 57

/-- `str::parse::<u16>`: optional `+`, at least one digit, value ≤ 65535 -/
def parseU16 (s : Bytes) : Option Nat :=
  match s with
  | [] => none
  | b :: rest =>
    if b = 43 then (if rest.isEmpty then none else parseDigitsU16 rest 0)
    else parseDigitsU16 (b :: rest) 0

def parseAddr (inp : Bytes) : Option AddrKey :=
  match splitOnColon inp with
  | (kindB, some r1) =>
    match parseU16 kindB with
    | some kind =>
      match splitOnColon r1 with
      | (authorB, some d) =>
        match readHex 32 authorB with
        | .ok author => some (kind, author, d)
        | _ => none
      | _ => none
    | none => none
  | _ => none

/-! ### storing -/

/-- the tables a deletion request works on inside its write transaction -/
structure DelSt where
  live : List SEv
  delIds : List Bytes
  delAddrs : List (AddrKey × Nat)
deriving Repr, DecidableEq

inductive DelOut where
  | ok (st : DelSt)
  | invalid
  | lmdbErr
deriving Repr, DecidableEq

def addDelId (di : List Bytes) (id : Bytes) : List Bytes := if di.contains id then di else di ++ [id]

/-- an `["e", <hex id>, …]` tag of a deletion request -/
def delE (committed : List SEv) (req : EventRec) (id : Bytes) (st : DelSt) : DelOut :=
  if id == req.id then .ok st
  else
    match findById committed id with
    | some target =>
      if target.e.pubkey != req.pubkey then .invalid
      else .ok { st with live := removeId st.live id, delIds := addDelId st.delIds id }
    | none => .ok { st with delIds := addDelId st.delIds id }

/-- the later of the stored and the new deletion time -/
def laterTime (da : List (AddrKey × Nat)) (k : AddrKey) (t : Nat) : Nat :=
  match delAddrGet da k with
  | some prev => if prev > t then prev else t
  | none => t

/-- a non-parameterized replaceable address has no identifier: whatever follows the second colon
is dropped -/
def normD (kind : Nat) (d0 : Bytes) : Bytes := if isReplaceable kind then [] else d0

/-- the events at an address that a deletion request created at `t` removes -/
def removeAt (committed live : List SEv) (kind : Nat) (author d : Bytes) (t : Nat) : List SEv :=
  if isReplaceable kind then removeReplaceable committed live author kind t
  else if isParamReplaceable kind then removeParam committed live kind author d t
  else live

/-- an `["a", "kind:author:d", …]` tag of a deletion request (address already parsed) -/
def delA (committed : List SEv) (req : EventRec) (kind : Nat) (author d0 : Bytes) (st : DelSt) : DelOut :=
  if author != req.pubkey then .invalid
  else if addrKeyTooLong (normD kind d0) then .lmdbErr
  else .ok {
    live := removeAt committed st.live kind author (normD kind d0) req.createdAt,
    delIds := st.delIds,
    delAddrs := delAddrPut st.delAddrs (kind, author, normD kind d0)
      (laterTime st.delAddrs (kind, author, normD kind d0) req.createdAt) }

/-- one tag of `handle_deletion_event` -/
def delTag (committed : List SEv) (req : EventRec) (tag : List Bytes) (st : DelSt) : DelOut :=
  match tag with
  | name :: v :: _ =>
    if name == KEY_E then
      match readHex 32 v with
      | .ok id => delE committed req id st
      | _ => .ok st
    else if name == KEY_A then
      match parseAddr v with
      | some (kind, author, d0) => delA committed req kind author d0 st
      | none => .ok st
    else .ok st
  | _ => .ok st

/-- `handle_deletion_event`: the tags of a kind-5 event, in order -/
def handleDeletion (committed : List SEv) (req : EventRec) : TagsRec → DelSt → DelOut
  | [], st => .ok st
  | tag :: rest, st =>
    match delTag committed req tag st with
    | .ok st' => handleDeletion committed req rest st'
    | .invalid => .invalid
    | .lmdbErr => .lmdbErr

/-- is the event covered by a deletion marker of its address: the marker's time is not older than
the event -/
def delByAddr (db : Db) (e : EventRec) : Bool :=
  match addrMarker db e with
  | some t => decide (e.createdAt ≤ t)
  | none => false
where
  /-- the deletion time recorded for the event's own address, if any -/
  addrMarker (db : Db) (e : EventRec) : Option Nat :=
    if isReplaceable e.kind then delAddrGet db.delAddrs (e.kind, e.pubkey, [])
    else if isParamReplaceable e.kind then
      match getValue e.tags KEY_D with
      | some d => delAddrGet db.delAddrs (e.kind, e.pubkey, d)
      | none => none
    else none

/-- is the event refused before anything is written: duplicate, or covered by a deletion marker -/
def refusal (db : Db) (e : EventRec) : Option Reply :=
  if (findById db.live e.id).isSome then some .duplicate
  else if db.delIds.contains e.id then some .deleted
  else if delByAddr db e then some .deleted
  else none

/-- the pre-removal of what the event replaces: the index afterwards, and whether a holder of the
event's address remains (then the event is refused as replaced) -/
def preRemove (c : List SEv) (e : EventRec) : List SEv × Bool :=
  if isReplaceable e.kind then
    (removeReplaceable c c e.pubkey e.kind e.createdAt,
     (removeReplaceable c c e.pubkey e.kind e.createdAt).any fun x => x.e.pubkey == e.pubkey && x.e.kind == e.kind)
  else if isParamReplaceable e.kind then
    match getValue e.tags KEY_D with
    | some d =>
      (removeParam c c e.kind e.pubkey d e.createdAt,
       (removeParam c c e.kind e.pubkey d e.createdAt).any fun x => isParamHolder x.e e.kind e.pubkey d)
    | none => (c, false)
  else (c, false)

/-- the event map after appending `e` -/
def appendLog (s : Store) (e : EventRec) : Store :=
  { s with log := s.log ++ [⟨align8 s.end, e⟩], «end» := align8 s.end + eventLen e }

/-- the index inside the write transaction after pre-removal and indexing of the new event -/
def txnLive (s : Store) (e : EventRec) : List SEv :=
  if isEphemeral e.kind then (preRemove s.db.live e).1
  else (preRemove s.db.live e).1 ++ [⟨align8 s.end, e⟩]

def commitDel (s : Store) (e : EventRec) (st : DelSt) : Store :=
  { appendLog s e with db := { s.db with live := st.live, delIds := st.delIds, delAddrs := st.delAddrs } }

def commitPlain (s : Store) (e : EventRec) : Store :=
  { appendLog s e with db := { s.db with live := txnLive s e } }

/-- `Store::store_event` -/
def storeEvent (s : Store) (e : EventRec) : Reply × Store :=
  match refusal s.db e with
  | some r => (r, s)
  | none =>
    if (preRemove s.db.live e).2 then (.replaced, s)
    else if e.kind = 5 then
      match handleDeletion s.db.live e e.tags ⟨txnLive s e, s.db.delIds, s.db.delAddrs⟩ with
      | .ok st => (.ok (align8 s.end), commitDel s e st)
      | .invalid => (.invalidDelete, appendLog s e)
      | .lmdbErr => (.other, appendLog s e)
    else (.ok (align8 s.end), commitPlain s e)

/-- `Store::remove_event` -/
def removeEvent (s : Store) (id : Bytes) : Store :=
  { s with db := { s.db with live := removeId s.db.live id } }

/-! ### queries -/

inductive Screen where
  | «match» | mismatch | redacted
deriving DecidableEq

structure FindState where
  out : List SEv := []
  since : Nat
  redacted : Bool := false

def insertOut (out : List SEv) (x : SEv) : List SEv :=
  if out.any (fun y => y.e.id == x.e.id) then out else out ++ [x]

/-- `filter.event_matches(event)? && screen(event)`, with the screen's side effect -/
def accept (f : FilterRec) (scr : EventRec → Screen) (x : SEv) (st : FindState) : Bool × FindState :=
  if eventMatches f x.e then
    match scr x.e with
    | .match => (true, st)
    | .mismatch => (false, st)
    | .redacted => (false, { st with redacted := true })
  else (false, st)

/-- one index range consumed by the `'per_event` loop of the author/kind/tag plans -/
def consumeRange (f : FilterRec) (scr : EventRec → Screen) (stopOnFirst : Bool) :
    List SEv → Nat → FindState → FindState
  | [], _, st => st
  | x :: rest, count, st =>
    if x.e.createdAt < st.since then st
    else
      let (ok, st1) := accept f scr x st
      if ok then
        let st2 := { st1 with out := insertOut st1.out x }
        let count' := count + 1
        if count' ≥ f.limit then
          { st2 with since := if x.e.createdAt > st2.since then x.e.createdAt else st2.since }
        else if stopOnFirst then st2
        else consumeRange f scr stopOnFirst rest count' st2
      else consumeRange f scr stopOnFirst rest count st1

/-- the `ac` plan's loop compares with the filter's own `since` (never moved) -/
def consumeRangeAc (f : FilterRec) (scr : EventRec → Screen) : List SEv → Nat → FindState → FindState
  | [], _, st => st
  | x :: rest, count, st =>
    if x.e.createdAt < f.since then st
    else
      let (ok, st1) := accept f scr x st
      if ok then
        let st2 := { st1 with out := insertOut st1.out x }
        let count' := count + 1
        if count' ≥ f.limit then
          { st2 with since := if x.e.createdAt > st2.since then x.e.createdAt else st2.since }
        else consumeRangeAc f scr rest count' st2
      else consumeRangeAc f scr rest count st1

def consumeScrape (f : FilterRec) (scr : EventRec → Screen) : List SEv → FindState → FindState
  | [], st => st
  | x :: rest, st =>
    if st.out.length ≥ f.limit then st
    else
      let (ok, st1) := accept f scr x st
      consumeScrape f scr rest (if ok then { st1 with out := insertOut st1.out x } else st1)

/-- the (letter, value) pairs the tag plans scan: first byte of each constraint's name, then each
of its values; constraints with an empty name (or no strings) are skipped -/
def tagProbes (ftags : TagsRec) : List (Nat × Bytes) :=
  ftags.flatMap fun t =>
    match t with
    | (l :: _) :: values => values.map fun v => (l, v)
    | _ => []

/-- the final `output.iter().rev().take(limit)`: newest first, ties by descending id -/
def outBefore (x y : SEv) : Bool :=
  x.e.createdAt > y.e.createdAt || (x.e.createdAt == y.e.createdAt && bytesLt y.e.id x.e.id)
def insertOutSorted (x : SEv) : List SEv → List SEv
  | [] => [x]
  | y :: ys => if outBefore x y then x :: y :: ys else y :: insertOutSorted x ys
def sortOut (l : List SEv) : List SEv := l.foldr insertOutSorted []

inductive FindReply where
  | ok (events : List SEv) (redacted : Bool)
  | scraper

/-- the ids plan: look every listed id up, keep what matches and passes the screen -/
def planIds (live : List SEv) (f : FilterRec) (scr : EventRec → Screen) : List Bytes → FindState → FindState
  | [], st => st
  | id :: ids, st =>
    match findById live id with
    | some x =>
      if (accept f scr x st).1 then
        planIds live f scr ids { (accept f scr x st).2 with out := insertOut (accept f scr x st).2.out x }
      else planIds live f scr ids (accept f scr x st).2
    | none => planIds live f scr ids st

/-- a sequence of index ranges, each opened with the *current* (possibly advanced) `since` -/
def planRanges (f : FilterRec) (scr : EventRec → Screen) :
    List (Bool × (Nat → List SEv)) → FindState → FindState
  | [], st => st
  | (stop, range) :: rest, st => planRanges f scr rest (consumeRange f scr stop (range st.since) 0 st)

def planAc (live : List SEv) (f : FilterRec) (scr : EventRec → Screen) : List Bytes → FindState → FindState
  | [], st => st
  | a :: rest, st => planAc live f scr rest (consumeRangeAc f scr (acScan live a st.since f.until) 0 st)

def pairs {α β : Type} (as : List α) (bs : List β) : List (α × β) :=
  as.flatMap fun a => bs.map fun b => (a, b)

/-- the ranges each plan walks, in order -/
def akcRanges (live : List SEv) (f : FilterRec) : List (Bool × (Nat → List SEv)) :=
  (pairs f.authors f.kinds).map fun (a, k) => (isReplaceable k, fun since => akcScan live a k since f.until)
def atcRanges (live : List SEv) (f : FilterRec) : List (Bool × (Nat → List SEv)) :=
  (pairs f.authors (tagProbes f.tags)).map fun (a, p) => (false, fun since => atcScan live a p.1 p.2 since f.until)
def ktcRanges (live : List SEv) (f : FilterRec) : List (Bool × (Nat → List SEv)) :=
  (pairs f.kinds (tagProbes f.tags)).map fun (k, p) => (false, fun since => ktcScan live k p.1 p.2 since f.until)
def tcRanges (live : List SEv) (f : FilterRec) : List (Bool × (Nat → List SEv)) :=
  (tagProbes f.tags).map fun p => (false, fun since => tcScan live p.1 p.2 since f.until)

/-- the scrape allowance -/
def scrapeAllowed (f : FilterRec) (allow : Bool) (allowLimit allowSecs now : Nat) : Bool :=
  allow || decide (f.limit ≤ allowLimit) ||
    decide ((if f.until < now then f.until else now) - f.since < allowSecs)

/-- the state after the plan the filter selects has run (`none`: refused as scraping) -/
def findState (live : List SEv) (f : FilterRec) (allow : Bool) (allowLimit allowSecs now : Nat)
    (scr : EventRec → Screen) : Option FindState :=
  let st0 : FindState := { since := f.since }
  if !f.ids.isEmpty then some (planIds live f scr f.ids st0)
  else if !f.authors.isEmpty && !f.kinds.isEmpty then some (planRanges f scr (akcRanges live f) st0)
  else if !f.authors.isEmpty && !f.tags.isEmpty then some (planRanges f scr (atcRanges live f) st0)
  else if !f.kinds.isEmpty && !f.tags.isEmpty then some (planRanges f scr (ktcRanges live f) st0)
  else if !f.tags.isEmpty then some (planRanges f scr (tcRanges live f) st0)
  else if !f.authors.isEmpty then some (planAc live f scr f.authors st0)
  else if scrapeAllowed f allow allowLimit allowSecs now then
    some (consumeScrape f scr (ciScan live f.since f.until) st0)
  else none

/-- `Store::find_events` -/
def findEvents (live : List SEv) (f : FilterRec) (allow : Bool) (allowLimit allowSecs now : Nat)
    (scr : EventRec → Screen) : FindReply :=
  match findState live f allow allowLimit allowSecs now scr with
  | some st => .ok ((sortOut st.out).take f.limit) st.redacted
  | none => .scraper

def removeAll (live : List SEv) (evs : List SEv) : List SEv :=
  evs.foldl (fun l x => removeId l x.e.id) live

/-- remove whatever a query found (a refused query finds nothing) -/
def removeFound (live : List SEv) : FindReply → List SEv
  | .ok evs _ => removeAll live evs
  | .scraper => live

def authorFilter (pk : Bytes) : FilterRec := ⟨[], [pk], [], [], 0, U64MAX, U32MAX⟩
def wrapFilter (pk : Bytes) : FilterRec := ⟨[], [], [1059], [[KEY_P, hexOf pk]], 0, U64MAX, U32MAX⟩

/-- first half of `vanish`: everything the key authored (found through the author index) -/
def vanishAuthored (live : List SEv) (pk : Bytes) : List SEv :=
  removeFound live (findEvents live (authorFilter pk) true 0 0 0 (fun _ => .match))

/-- second half: gift wraps (kind 1059) whose `p` tag names the key -/
def vanishWraps (live : List SEv) (pk : Bytes) : List SEv :=
  removeFound live (findEvents live (wrapFilter pk) true 0 0 0 (fun _ => .match))

/-- `Store::vanish` -/
def vanish (s : Store) (pk : Bytes) : Store :=
  { s with db := { s.db with live := vanishWraps (vanishAuthored s.db.live pk) pk } }

/-- `find_replaceable_event` -/
def findReplaceable (live : List SEv) (author : Bytes) (kind : Nat) : Outcome (Option SEv) :=
  if !isReplaceable kind then .err
  else .ok (akcScan live author kind 0 U64MAX).head?

/-- `find_parameterized_replaceable_event` -/
def findParam (live : List SEv) (kind : Nat) (author d : Bytes) : Outcome (Option SEv) :=
  if !isParamReplaceable kind then .err
  else .ok ((atcScan live author 100 d 0 U64MAX).find? fun x => x.e.kind == kind && getValue x.e.tags KEY_D == some d)

def insertById (x : SEv) : List SEv → List SEv
  | [] => [x]
  | y :: ys => if bytesLt x.e.id y.e.id then x :: y :: ys else y :: insertById x ys

/-- re-append events to a fresh map starting at `e` -/
def relog : List SEv → Nat → List SEv × Nat
  | [], e => ([], e)
  | x :: xs, e =>
    ((⟨align8 e, x.e⟩ : SEv) :: (relog xs (align8 e + eventLen x.e)).1,
     (relog xs (align8 e + eventLen x.e)).2)

/-- `Store::rebuild`: a new map holding the indexed events in id order; markers and extra tables copied -/
def rebuild (s : Store) : Store :=
  let r := relog (s.db.live.foldr insertById []) 8
  { db := { s.db with live := r.1 }, log := r.1, «end» := r.2 }

/-- `get_event_by_offset` for offsets at which an event was appended -/
def getByOffset (s : Store) (off : Nat) : Option EventRec :=
  if off ≥ s.end then none else (s.log.find? fun x => x.off == off).map (·.e)

/-- `get_event_by_id` -/
def getById (s : Store) (id : Bytes) : Option EventRec := (findById s.db.live id).map (·.e)

/-- index entry counts (`stats`) -/
def tagEntryCount (live : List SEv) : Nat := live.foldl (fun n x => n + (tagKeys x.e).length) 0

end Pocket

namespace Pocket

/-- the operations of a history -/
inductive Op where
  | store (e : EventRec)
  | remove (id : Bytes)
  | vanish (pk : Bytes)
  | reopen
  | rebuild
deriving Repr

def step (s : Store) : Op → Store
  | .store e => (storeEvent s e).2
  | .remove id => removeEvent s id
  | .vanish pk => vanish s pk
  | .reopen => s
  | .rebuild => rebuild s

def run (s : Store) (ops : List Op) : Store := ops.foldl step s

/-- the replaceable address of an event, if its kind has one -/
def addrOf (e : EventRec) : Option AddrKey :=
  if isReplaceable e.kind then some (e.kind, e.pubkey, [])
  else if isParamReplaceable e.kind then (getValue e.tags KEY_D).map fun d => (e.kind, e.pubkey, d)
  else none

end Pocket
