import Pocket.Model.JsonParse
/- `parse_json_event` (event.rs) -/
namespace Pocket

/-- what has been read so far (`complete` flag word, `tags_size`, `content_input_start`) -/
structure EvSt where
  id : Option Bytes := none
  pk : Option Bytes := none
  sig : Option Bytes := none
  kind : Option Nat := none
  t : Option Nat := none
  tags : Option Bytes := none
  content : Option Bytes := none
  contentStart : Option Bytes := none
deriving Repr, DecidableEq

def startsWith (p l : Bytes) : Bool := l.take p.length == p

def kId : Bytes := [105, 100, 34]
def kSig : Bytes := [115, 105, 103, 34]
def kKind : Bytes := [107, 105, 110, 100, 34]
def kTags : Bytes := [116, 97, 103, 115, 34]
def kPubkey : Bytes := [112, 117, 98, 107, 101, 121, 34]
def kContent : Bytes := [99, 111, 110, 116, 101, 110, 116, 34]
def kCreatedAt : Bytes := [99, 114, 101, 97, 116, 101, 100, 95, 97, 116, 34]

/-- one member of the event object; `q` starts at the key's opening quote, `cap = output.len()` -/
def evMember (st : EvSt) (q : Bytes) (cap : Nat) : Outcome (EvSt × Bytes) :=
  match verifyChar 34 q with
  | .err => .err
  | .panic => .panic
  | .ok field =>
    if startsWith kId field then
      if st.id.isSome then .err
      else match eatColon (field.drop 3) with
        | .ok r => match readHexField 32 r with
          | .ok (v, r') => .ok ({ st with id := some v }, r')
          | .err => .err
          | .panic => .panic
        | .err => .err
        | .panic => .panic
    else if startsWith kSig field then
      if st.sig.isSome then .err
      else match eatColon (field.drop 4) with
        | .ok r => match readHexField 64 r with
          | .ok (v, r') => .ok ({ st with sig := some v }, r')
          | .err => .err
          | .panic => .panic
        | .err => .err
        | .panic => .panic
    else if startsWith kKind field then
      if st.kind.isSome then .err
      else match eatColon (field.drop 5) with
        | .ok r => match readKind r with
          | .ok (v, r') => .ok ({ st with kind := some v }, r')
          | .err => .err
          | .panic => .panic
        | .err => .err
        | .panic => .panic
    else if startsWith kTags field then
      if st.tags.isSome then .err
      else match eatColon (field.drop 5) with
        | .ok r => match readTagsArray r (cap - 144) with
          | .ok (r', tb) =>
            match st.contentStart with
            | some cs =>
              -- content came first: read it now that the tags are in place
              match readContent cs cap (144 + tb.length) with
              | .ok (_, c) => .ok ({ st with tags := some tb, content := some c }, r')
              | .err => .err
              | .panic => .panic
            | none => .ok ({ st with tags := some tb }, r')
          | .err => .err
          | .panic => .panic
        | .err => .err
        | .panic => .panic
    else if startsWith kPubkey field then
      if st.pk.isSome then .err
      else match eatColon (field.drop 7) with
        | .ok r => match readHexField 32 r with
          | .ok (v, r') => .ok ({ st with pk := some v }, r')
          | .err => .err
          | .panic => .panic
        | .err => .err
        | .panic => .panic
    else if startsWith kContent field then
      if st.content.isSome then .err
      else match eatColon (field.drop 8) with
        | .ok r =>
          match st.tags with
          | none =>
            -- tags not seen yet: remember where the content starts, skip it
            match verifyChar 34 r with
            | .ok r1 => match burnString r1 with
              | .ok r' => .ok ({ st with contentStart := some r }, r')
              | .err => .err
              | .panic => .panic
            | .err => .err
            | .panic => .panic
          | some tb =>
            match readContent r cap (144 + tb.length) with
            | .ok (r', c) => .ok ({ st with content := some c }, r')
            | .err => .err
            | .panic => .panic
        | .err => .err
        | .panic => .panic
    else if startsWith kCreatedAt field then
      if st.t.isSome then .err
      else match eatColon (field.drop 11) with
        | .ok r => match readU64 r with
          | .ok (v, r') => .ok ({ st with t := some v }, r')
          | .err => .err
          | .panic => .panic
        | .err => .err
        | .panic => .panic
    else
      -- unknown member: skipped from its opening quote
      match burnKeyValue q 0 with
      | .ok r' => .ok (st, r')
      | .err => .err
      | .panic => .panic

/-- the member loop -/
def evLoop : Nat → EvSt → Bytes → Nat → Outcome (EvSt × Bytes)
  | 0, _, _, _ => .err
  | fuel + 1, st, inp, cap =>
    match evMember st (eatWs inp) cap with
    | .ok (st', r) =>
      match nextObjectField r with
      | .ok (true, r') => .ok (st', r')
      | .ok (false, r') => evLoop fuel st' r' cap
      | .err => .err
      | .panic => .panic
    | .err => .err
    | .panic => .panic

/-- `Event::from_json(json, output_buffer)`: `(consumed, event length, whole buffer afterwards)` -/
def parseEvent (inp buf : Bytes) : Outcome (Nat × Nat × Bytes) :=
  if inp.length < 204 then .err
  else if buf.length < 152 then .err
  else match verifyChar 123 (eatWs inp) with
    | .ok r =>
      match evLoop (r.length + 1) {} r buf.length with
      | .ok (st, rest) =>
        match st.id, st.pk, st.sig, st.kind, st.t, st.tags, st.content with
        | some id, some pk, some sig, some kind, some t, some tb, some c =>
          let bytes := encodeEventWith id pk sig kind t tb c
          .ok (inp.length - rest.length, bytes.length, bytes ++ buf.drop bytes.length)
        | _, _, _, _, _, _, _ => .err
      | .err => .err
      | .panic => .panic
    | .err => .err
    | .panic => .panic

end Pocket
