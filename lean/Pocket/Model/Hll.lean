import Pocket.Model.Event
namespace Pocket

/-- the 256 registers of an `Hll8` -/
abbrev Regs := List Nat

def hllNew : Regs := List.replicate 256 0

/-- `u8::leading_zeros` -/
def clz8 (b : Nat) : Nat :=
  if b ≥ 128 then 0 else if b ≥ 64 then 1 else if b ≥ 32 then 2 else if b ≥ 16 then 3
  else if b ≥ 8 then 4 else if b ≥ 4 then 5 else if b ≥ 2 then 6 else if b ≥ 1 then 7 else 8

/-- the zero count of `add_element`: leading zero bits of `input[offset+1 ..= 31]`, stopping at
the first byte that is not zero -/
def countZeros : Bytes → Nat
  | [] => 0
  | b :: bs => if clz8 b < 8 then clz8 b else 8 + countZeros bs

def setReg : Regs → Nat → Nat → Regs
  | [], _, _ => []
  | r :: rs, 0, v => (if v > r then v else r) :: rs
  | r :: rs, i + 1, v => r :: setReg rs i v

/-- `Hll8::add_element(input, offset)`; the `u8` additions are checked (overflow = panic) -/
def hllAdd (regs : Regs) (input : Bytes) (offset : Nat) : Outcome Regs :=
  if offset ≥ 24 then .err
  else
    let index := input.getD offset 0
    let zeros := countZeros (input.drop (offset + 1))
    if zeros + 1 > 255 then .panic
    else .ok (setReg regs index (zeros + 1))

/-- `AddAssign`: register-wise maximum -/
def hllMerge : Regs → Regs → Regs
  | a :: as, b :: bs => (if b > a then b else a) :: hllMerge as bs
  | as, [] => as
  | [], _ => []

def hexInv (c : Nat) : Option Nat :=
  if 48 ≤ c ∧ c ≤ 57 then some (c - 48)
  else if 65 ≤ c ∧ c ≤ 70 then some (c - 55)
  else if 97 ≤ c ∧ c ≤ 102 then some (c - 87)
  else none

/-- the loop of `read_hex!`: pairs of hex characters to bytes -/
def unhexPairs : Bytes → Outcome Bytes
  | [] => .ok []
  | [_] => .err
  | h :: l :: rest =>
    match hexInv h, hexInv l with
    | some hv, some lv =>
      match unhexPairs rest with
      | .ok r => .ok ((hv * 16 + lv) :: r)
      | .err => .err
      | .panic => .panic
    | _, _ => .err

/-- `read_hex!(input, output, n)`: exactly `2n` hex characters -/
def readHex (n : Nat) (inp : Bytes) : Outcome Bytes :=
  if inp.length ≠ 2 * n then .err else unhexPairs inp

def hllFromHex (s : Bytes) : Outcome Regs := readHex 256 s
def hllToHex (r : Regs) : Bytes := hexOf r

/-- number of zero registers (the integer stage of `estimate_count`) -/
def zeroCount (r : Regs) : Nat := (r.filter (· == 0)).length

end Pocket
