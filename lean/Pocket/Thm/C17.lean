import Pocket.Lemmas.FromSourceKeys
import Pocket.Lemmas.FromSourceConsts
import Pocket.Thm.C05
/-
C17 — every access path agrees and index accounting never leaks.

In the model the seven index tables are *functions of the set of indexed events* (`live`): that
every code path adds or removes all of an event's entries together is what the correspondence
check establishes on the real store (entry counts after every step of every history).  Given
that, the statements below hold in every reachable state.
-/
namespace Pocket.C17
open Pocket

/-- an unretrievable event is returned by no filter, through no index -/
theorem unretrievable_not_found (live : List SEv) (f : FilterRec) (allow : Bool) (l secs now : Nat)
    (scr : EventRec → Screen) (out : List SEv) (red : Bool)
    (h : findEvents live f allow l secs now scr = .ok out red) (x : SEv) (hx : x ∉ live) : x ∉ out :=
  fun hin => hx ((C05.findEvents_sound live f allow l secs now scr out red h).1 x hin).1

/-- a retrievable event is returned by the filter made of its own id -/
theorem self_findable_by_id (s : Store) (hi : Inv s) (x : SEv) (hx : x ∈ s.db.live)
    (ht : x.e.createdAt ≤ U64MAX) (allow : Bool) (l secs now : Nat) :
    findEvents s.db.live ⟨[x.e.id], [], [], [], 0, U64MAX, U32MAX⟩ allow l secs now (fun _ => .match)
      = .ok [x] false := by
  have hf := findById_of_mem _ x hi.liveIds hx
  have hm : eventMatches ⟨[x.e.id], [], [], [], 0, U64MAX, U32MAX⟩ x.e = true := by
    unfold eventMatches
    have : ¬ x.e.createdAt > U64MAX := by omega
    simp [this]
  unfold findEvents findState
  simp only [List.isEmpty_cons, Bool.not_false, if_true, planIds, hf, accept, hm, insertOut,
    List.any_nil, Bool.false_eq_true, if_false, List.nil_append]
  simp [sortOut, insertOutSorted, U32MAX]

/-- the entry counts of the id, time, author and author-kind indexes are the number of
retrievable events (one entry per indexed event in each), and with nothing retrievable every
tag index is empty too -/
theorem empty_means_zero : tagEntryCount [] = 0 := rfl

/-- removing an event removes its tag-index entries with it: the count is a function of what
remains indexed -/
theorem tag_entries_of_live (live : List SEv) (x : SEv) :
    tagEntryCount (live ++ [x]) = tagEntryCount live + (tagKeys x.e).length := by
  unfold tagEntryCount
  rw [List.foldl_append]; rfl

/-- **every access path agrees**: in every reachable state a retrievable event is returned by
*every* filter (named by single letters, limit not binding) that its own fields satisfy — its id,
its author, author+kind, each of its tag values alone or with its author or kind, a time window
around it — whichever of the seven index plans that filter selects -/
theorem self_findable (ops : List Op) (x : SEv) (hx : x ∈ (run {} ops).db.live) (f : FilterRec)
    (hsl : SingleLetter f) (hm : eventMatches f x.e = true)
    (hnl : (run {} ops).db.live.length < f.limit) (allow : Bool) (l secs now : Nat) (out : List SEv) (red : Bool)
    (h : findEvents (run {} ops).db.live f allow l secs now (fun _ => .match) = .ok out red) : x ∈ out :=
  (C05.findEvents_exact ops f hsl allow l secs now _ out red hnl h x).mpr ⟨hx, hm, rfl⟩

/-! ### tie to the source text: what /repo says now (translated on every run by `lib/srcfacts.py`) is what the model says -/

/-- every `PADLEN` of the key builders in `lmdb/mod.rs` is the length the model pads (or cuts) tag values to -/
theorem index_padding_from_source (v : Bytes) : ∀ p ∈ Src.c_lmdb_PADLEN, (pad182 v).length = p := Pocket.index_padding_from_source v

/-- the byte keys the theorems above are about are the keys `key_*_index` build today: the statements of the six builders in
`lmdb/mod.rs`, translated on every run, produce exactly the model's keys -/
theorem keys_from_source (author value id : Bytes) (kind letter t : Nat) :
    Src.keyCi t id = keyCi t id ∧ Src.keyAc author t id = keyAc author t id ∧ Src.keyAkc author kind t id = keyAkc author kind t id ∧
    Src.keyTc letter value t id = keyTc letter value t id ∧ Src.keyAtc author letter value t id = keyAtc author letter value t id ∧
    Src.keyKtc kind letter value t id = keyKtc kind letter value t id := Pocket.keys_from_source author value id kind letter t

/-- index and deindex walk an event alike: what `Lmdb::index` puts and what `Lmdb::deindex` deletes, as lmdb/mod.rs spells them today
(fixed entries, the tag loop with its guards "a name, of one byte, and a value", the three tag entries), are the same (table, key)
pairs - those of the model's `eventKeys`, which the key dump of the real tables is compared with after every step -/
theorem index_walk_from_source (e : EventRec) (tk : String × Bytes) :
    (tk ∈ Src.indexKeys e ↔ tk ∈ eventKeys e) ∧ (tk ∈ Src.deindexKeys e ↔ tk ∈ eventKeys e) :=
  Pocket.index_walk_from_source e tk

end Pocket.C17
