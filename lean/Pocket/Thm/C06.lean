import Pocket.Model.Filter
/-
C06 — the filter/event match predicate equals NIP-01 semantics.
Property theorems only; helper lemmas are local `private` statements proved here because they are
specific to this predicate.
-/
namespace Pocket.C06
open Pocket

/-- NIP-01 matching, as the property states it.  A tag constraint is `name :: values`. -/
def matchesSpec (f : FilterRec) (e : EventRec) : Prop :=
  (f.ids = [] ∨ e.id ∈ f.ids) ∧
  (f.authors = [] ∨ e.pubkey ∈ f.authors) ∧
  (f.kinds = [] ∨ e.kind ∈ f.kinds) ∧
  f.since ≤ e.createdAt ∧ e.createdAt ≤ f.until ∧
  ∀ c ∈ f.tags, ∃ t ∈ e.tags, ∃ v ∈ c.tail, t[0]? = c.head? ∧ t[1]? = some v

/-- every tag constraint has a name (an unnamed one can only be built with `from_parts`) -/
def TagsNamed (f : FilterRec) : Prop := ∀ c ∈ f.tags, c ≠ []

private theorem any_beq_mem {α} [BEq α] [LawfulBEq α] (l : List α) (x : α) :
    (l.any (· == x)) = true ↔ x ∈ l := by
  simp [List.any_eq_true]

private theorem clause_iff {α} [BEq α] [LawfulBEq α] (l : List α) (x : α) :
    (!l.isEmpty && !l.any (· == x)) = true ↔ ¬ (l = [] ∨ x ∈ l) := by
  have := any_beq_mem l x
  cases l with
  | nil => simp
  | cons a l =>
    rw [Bool.and_eq_true, Bool.not_eq_true', Bool.not_eq_true']
    constructor
    · intro ⟨_, h⟩ hc
      rcases hc with hc | hc
      · cases hc
      · rw [this.mpr hc] at h; cases h
    · intro h
      refine ⟨by simp, ?_⟩
      cases hb : ((a :: l).any fun y => y == x) with
      | false => rfl
      | true => exact absurd (Or.inr (this.mp hb)) h

private theorem tagsMatch_iff (ts : TagsRec) (letter v : Bytes) :
    tagsMatch ts letter v = true ↔ ∃ t ∈ ts, t[0]? = some letter ∧ t[1]? = some v := by
  unfold tagsMatch
  simp [List.any_eq_true]

private theorem loop_iff (etags : TagsRec) (ftags : TagsRec) (h : ∀ c ∈ ftags, c ≠ []) :
    filterTagLoop etags ftags = true ↔
      ∀ c ∈ ftags, ∃ t ∈ etags, ∃ v ∈ c.tail, t[0]? = c.head? ∧ t[1]? = some v := by
  induction ftags with
  | nil => simp [filterTagLoop]
  | cons c rest ih =>
    have hc : c ≠ [] := h c (by simp)
    have hr : ∀ c ∈ rest, c ≠ [] := fun c hc' => h c (by simp [hc'])
    cases c with
    | nil => exact absurd rfl hc
    | cons letter values =>
      simp only [filterTagLoop, List.mem_cons, forall_eq_or_imp, List.tail_cons, List.head?_cons]
      by_cases hv : (values.any fun v => tagsMatch etags letter v) = true
      · simp only [hv, if_true, ih hr]
        constructor
        · intro hrest
          refine ⟨?_, hrest⟩
          obtain ⟨v, hvm, hm⟩ := List.any_eq_true.mp hv
          obtain ⟨t, ht, h0, h1⟩ := (tagsMatch_iff _ _ _).mp hm
          exact ⟨t, ht, v, hvm, h0, h1⟩
        · exact fun h => h.2
      · simp only [hv]
        constructor
        · intro hf; exact absurd hf (by simp)
        · intro ⟨⟨t, ht, v, hvm, h0, h1⟩, _⟩
          exact absurd (List.any_eq_true.mpr ⟨v, hvm, (tagsMatch_iff _ _ _).mpr ⟨t, ht, h0, h1⟩⟩) hv

/-- **C06.** For every filter whose tag constraints are named and every event, the match
predicate is true exactly when NIP-01 says so. -/
theorem eventMatches_iff_spec (f : FilterRec) (e : EventRec) (hn : TagsNamed f) :
    eventMatches f e = true ↔ matchesSpec f e := by
  unfold eventMatches matchesSpec
  have hloop := loop_iff e.tags f.tags hn
  by_cases c1 : (!f.ids.isEmpty && !f.ids.any (· == e.id)) = true
  · have := (clause_iff f.ids e.id).mp c1
    simp only [c1, if_true]; constructor
    · intro h; cases h
    · intro h; exact absurd h.1 this
  have s1 : f.ids = [] ∨ e.id ∈ f.ids := Classical.not_not.mp (mt (clause_iff f.ids e.id).mpr c1)
  by_cases c2 : (!f.authors.isEmpty && !f.authors.any (· == e.pubkey)) = true
  · have := (clause_iff f.authors e.pubkey).mp c2
    simp only [c1, c2, if_true]; constructor
    · intro h; cases h
    · intro h; exact absurd h.2.1 this
  have s2 : f.authors = [] ∨ e.pubkey ∈ f.authors :=
    Classical.not_not.mp (mt (clause_iff f.authors e.pubkey).mpr c2)
  by_cases c3 : (!f.kinds.isEmpty && !f.kinds.any (· == e.kind)) = true
  · have := (clause_iff f.kinds e.kind).mp c3
    simp only [c1, c2, c3, if_true]; constructor
    · intro h; cases h
    · intro h; exact absurd h.2.2.1 this
  have s3 : f.kinds = [] ∨ e.kind ∈ f.kinds :=
    Classical.not_not.mp (mt (clause_iff f.kinds e.kind).mpr c3)
  by_cases c4 : e.createdAt < f.since
  · simp only [c1, c2, c3, c4, if_true]; constructor
    · intro h; cases h
    · intro h; omega
  by_cases c5 : e.createdAt > f.until
  · simp only [c1, c2, c3, c4, c5, if_true]; constructor
    · intro h; cases h
    · intro h; omega
  simp only [c1, c2, c3, c4, c5]
  have s4 : f.since ≤ e.createdAt := by omega
  have s5 : e.createdAt ≤ f.until := by omega
  by_cases ft : f.tags = []
  · simp [ft, s1, s2, s3, s4, s5]
  · have hft : (!f.tags.isEmpty) = true := by simp [ft]
    simp only [hft, if_true]
    by_cases et : e.tags = []
    · simp only [et, List.isEmpty_nil, if_true]; constructor
      · intro h; cases h
      · intro h
        obtain ⟨c, rest, hc⟩ := List.exists_cons_of_ne_nil ft
        obtain ⟨t, ht, _⟩ := h.2.2.2.2.2 c (by simp [hc])
        simp at ht
    · have het : e.tags.isEmpty = false := by simp [et]
      simp only [het, Bool.false_eq_true, if_false]
      rw [hloop]
      exact ⟨fun h => ⟨s1, s2, s3, s4, s5, h⟩, fun h => h.2.2.2.2.2⟩

/-- the predicate is total on decoded operands: it is a `Bool`-valued function, and its byte-level
form returns `ok` whenever both operands decode -/
theorem eventMatchesB_ok (fb eb : Bytes) (f : FilterRec) (e : EventRec)
    (hf : filterDecode fb = .ok f) (he : eventDecode eb = .ok e) :
    eventMatchesB fb eb = .ok (eventMatches f e) := by
  simp [eventMatchesB, hf, he]

/-- non-vacuity: a filter with a two-valued named constraint and an event that satisfies it -/
example :
    let f : FilterRec := ⟨[], [[1]], [1, 7], [[[116], [97], [98]]], 5, 10, 3⟩
    let e : EventRec := ⟨[9], [1], [], 7, 10, [[[116], [98], [99]]], []⟩
    TagsNamed f ∧ eventMatches f e = true := by
  refine ⟨?_, by decide⟩
  intro c hc; simp at hc; subst hc; simp

/-- the excluded point: an unnamed constraint ends the scan, hiding a later unmet constraint
(run on the real code by the check as well) -/
theorem unnamed_constraint_witness :
    let f : FilterRec := ⟨[], [], [], [[], [[116], [97]]], 0, U64MAX, U32MAX⟩
    let e : EventRec := ⟨[9], [1], [], 7, 10, [[[120], [98]]], []⟩
    eventMatches f e = true ∧ ¬ matchesSpec f e := by
  refine ⟨by decide, ?_⟩
  intro h
  have := h.2.2.2.2.2 [] (by simp)
  simp at this

end Pocket.C06
