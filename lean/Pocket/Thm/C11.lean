import Pocket.Lemmas.StoreDel
/-
C11 — accepted deletions are permanent and deletion times never move backwards.
-/
namespace Pocket.C11
open Pocket

theorem step_markers_mono (s : Store) (hi : Inv s) (op : Op) :
    (∀ id ∈ s.db.delIds, id ∈ (step s op).db.delIds) ∧
    (∀ key t, delAddrGet s.db.delAddrs key = some t →
        ∃ t', t ≤ t' ∧ delAddrGet (step s op).db.delAddrs key = some t') := by
  cases op with
  | store e => exact ⟨(storeEvent_markers s hi e).2.1, (storeEvent_markers s hi e).2.2.2⟩
  | remove id => exact ⟨fun _ h => h, fun _ t h => ⟨t, Nat.le_refl _, h⟩⟩
  | vanish pk => exact ⟨fun _ h => h, fun _ t h => ⟨t, Nat.le_refl _, h⟩⟩
  | reopen => exact ⟨fun _ h => h, fun _ t h => ⟨t, Nat.le_refl _, h⟩⟩
  | rebuild => exact ⟨fun _ h => h, fun _ t h => ⟨t, Nat.le_refl _, h⟩⟩

/-- an id marker, once set, stays set in every continuation of the history (more stores, further
deletion requests in any timestamp order, removals, vanish, reopen, rebuild) -/
theorem id_marker_permanent (s : Store) (hi : Inv s) (ops : List Op) (id : Bytes) (h : id ∈ s.db.delIds) :
    id ∈ (run s ops).db.delIds := by
  induction ops generalizing s with
  | nil => exact h
  | cons op ops ih => exact ih _ (Inv_step s op hi) ((step_markers_mono s hi op).1 id h)

/-- the deletion time reported for an address never decreases, in any continuation -/
theorem address_time_monotone (s : Store) (hi : Inv s) (ops : List Op) (key : AddrKey) (t : Nat)
    (h : delAddrGet s.db.delAddrs key = some t) :
    ∃ t', t ≤ t' ∧ delAddrGet (run s ops).db.delAddrs key = some t' := by
  induction ops generalizing s t with
  | nil => exact ⟨t, Nat.le_refl _, h⟩
  | cons op ops ih =>
    obtain ⟨t1, ht1, h1⟩ := (step_markers_mono s hi op).2 key t h
    obtain ⟨t2, ht2, h2⟩ := ih _ (Inv_step s op hi) t1 h1
    exact ⟨t2, Nat.le_trans ht1 ht2, h2⟩

/-- every later attempt to store an event whose id is marked is refused (as deleted, or as a
duplicate) — it never succeeds -/
theorem marked_id_refused (s : Store) (e : EventRec) (h : e.id ∈ s.db.delIds) :
    ∀ off, (storeEvent s e).1 ≠ .ok off := by
  intro off hok
  have hr : refusal s.db e = some .duplicate ∨ refusal s.db e = some .deleted := by
    unfold refusal
    split
    · exact Or.inl rfl
    · have : s.db.delIds.contains e.id = true := by simpa using h
      rw [if_pos this]; exact Or.inr rfl
  rcases storeEvent_cases s e with ⟨r, hr', hne, hs⟩ | hs | ⟨_, hn, _⟩ | ⟨_, hn, _⟩ | hs | hs
  · rw [hs] at hok; exact hne off hok
  · rw [hs] at hok; cases hok
  · rcases hr with hr | hr <;> rw [hr] at hn <;> cases hn
  · rcases hr with hr | hr <;> rw [hr] at hn <;> cases hn
  · rw [hs] at hok; cases hok
  · rw [hs] at hok; cases hok

/-- … in every continuation -/
theorem marked_id_refused_forever (s : Store) (hi : Inv s) (ops : List Op) (e : EventRec)
    (h : e.id ∈ s.db.delIds) : ∀ off, (storeEvent (run s ops) e).1 ≠ .ok off :=
  marked_id_refused _ e (id_marker_permanent s hi ops e.id h)

/-- an event at a deleted address, not newer than the deletion time, is refused -/
theorem covered_by_address_refused (s : Store) (e : EventRec) (a : AddrKey) (t : Nat)
    (ha : addrOf e = some a) (hm : delAddrGet s.db.delAddrs a = some t) (hle : e.createdAt ≤ t) :
    ∀ off, (storeEvent s e).1 ≠ .ok off := by
  intro off hok
  have hr : refusal s.db e ≠ none := by
    have hd : delByAddr s.db e = true := by
      unfold delByAddr
      rw [addrMarker_eq, ha]
      simp [hm, hle]
    unfold refusal
    repeat' split
    all_goals simp_all
  rcases storeEvent_cases s e with ⟨r, _, hne, hs⟩ | hs | ⟨_, hn, _⟩ | ⟨_, hn, _⟩ | hs | hs
  · rw [hs] at hok; exact hne off hok
  · rw [hs] at hok; cases hok
  · exact hr hn
  · exact hr hn
  · rw [hs] at hok; cases hok
  · rw [hs] at hok; cases hok

/-- … also after any continuation (the time only grows) -/
theorem covered_by_address_refused_forever (s : Store) (hi : Inv s) (ops : List Op) (e : EventRec)
    (a : AddrKey) (t : Nat) (ha : addrOf e = some a) (hm : delAddrGet s.db.delAddrs a = some t)
    (hle : e.createdAt ≤ t) : ∀ off, (storeEvent (run s ops) e).1 ≠ .ok off := by
  obtain ⟨t', ht', hm'⟩ := address_time_monotone s hi ops a t hm
  exact covered_by_address_refused _ e a t' ha hm' (by omega)

/-- an event newer than the deletion time of its address is never refused *as deleted* on account
of that address (its id not being marked) -/
theorem newer_not_refused (s : Store) (e : EventRec) (hid : e.id ∉ s.db.delIds)
    (hnew : ∀ a t, addrOf e = some a → delAddrGet s.db.delAddrs a = some t → t < e.createdAt) :
    refusal s.db e ≠ some .deleted := by
  have hc : s.db.delIds.contains e.id = false := by simpa using hid
  have hd : delByAddr s.db e = false := by
    unfold delByAddr
    rw [addrMarker_eq]
    cases ha : addrOf e with
    | none => simp
    | some a =>
      cases hm : delAddrGet s.db.delAddrs a with
      | none => simp [hm]
      | some t =>
        have := hnew a t ha hm
        simp [hm]; omega
  unfold refusal
  split
  · simp
  · simp [hd]; exact hid

end Pocket.C11
