import Pocket.Lemmas.Refine2
import Pocket.Lemmas.StoreCover
import Pocket.Lemmas.AddrRT
/-
C11 — accepted deletions are permanent and deletion times never move backwards.
-/
namespace Pocket.C11
open Pocket

theorem step_markers_mono (s : Store) (hi : Inv s) (op : Op) :
    (∀ id ∈ s.db.delIds, id ∈ (step s op).db.delIds) ∧
    (∀ key t, delAddrGet s.db.delAddrs key = some t →
        ∃ t', t ≤ t' ∧ delAddrGet (step s op).db.delAddrs key = some t') := by
  cases op with
  | store e => exact ⟨(storeEvent_markers s hi e).2.1, (storeEvent_markers s hi e).2.2.2⟩
  | remove id => exact ⟨fun _ h => h, fun _ t h => ⟨t, Nat.le_refl _, h⟩⟩
  | vanish pk => exact ⟨fun _ h => h, fun _ t h => ⟨t, Nat.le_refl _, h⟩⟩
  | reopen => exact ⟨fun _ h => h, fun _ t h => ⟨t, Nat.le_refl _, h⟩⟩
  | rebuild => exact ⟨fun _ h => h, fun _ t h => ⟨t, Nat.le_refl _, h⟩⟩

/-- an id marker, once set, stays set in every continuation of the history (more stores, further
deletion requests in any timestamp order, removals, vanish, reopen, rebuild) -/
theorem id_marker_permanent (s : Store) (hi : Inv s) (ops : List Op) (id : Bytes) (h : id ∈ s.db.delIds) :
    id ∈ (run s ops).db.delIds := by
  induction ops generalizing s with
  | nil => exact h
  | cons op ops ih => exact ih _ (Inv_step s op hi) ((step_markers_mono s hi op).1 id h)

/-- the deletion time reported for an address never decreases, in any continuation -/
theorem address_time_monotone (s : Store) (hi : Inv s) (ops : List Op) (key : AddrKey) (t : Nat)
    (h : delAddrGet s.db.delAddrs key = some t) :
    ∃ t', t ≤ t' ∧ delAddrGet (run s ops).db.delAddrs key = some t' := by
  induction ops generalizing s t with
  | nil => exact ⟨t, Nat.le_refl _, h⟩
  | cons op ops ih =>
    obtain ⟨t1, ht1, h1⟩ := (step_markers_mono s hi op).2 key t h
    obtain ⟨t2, ht2, h2⟩ := ih _ (Inv_step s op hi) t1 h1
    exact ⟨t2, Nat.le_trans ht1 ht2, h2⟩

/-- every later attempt to store an event whose id is marked is refused (as deleted, or as a
duplicate) — it never succeeds -/
theorem marked_id_refused (s : Store) (e : EventRec) (h : e.id ∈ s.db.delIds) :
    ∀ off, (storeEvent s e).1 ≠ .ok off := by
  intro off hok
  have hr : refusal s.db e = some .duplicate ∨ refusal s.db e = some .deleted := by
    unfold refusal
    split
    · exact Or.inl rfl
    · have : s.db.delIds.contains e.id = true := by simpa using h
      rw [if_pos this]; exact Or.inr rfl
  rcases storeEvent_cases s e with ⟨r, hr', hne, hs⟩ | hs | ⟨_, hn, _⟩ | ⟨_, hn, _⟩ | hs | hs
  · rw [hs] at hok; exact hne off hok
  · rw [hs] at hok; cases hok
  · rcases hr with hr | hr <;> rw [hr] at hn <;> cases hn
  · rcases hr with hr | hr <;> rw [hr] at hn <;> cases hn
  · rw [hs] at hok; cases hok
  · rw [hs] at hok; cases hok

/-- … in every continuation -/
theorem marked_id_refused_forever (s : Store) (hi : Inv s) (ops : List Op) (e : EventRec)
    (h : e.id ∈ s.db.delIds) : ∀ off, (storeEvent (run s ops) e).1 ≠ .ok off :=
  marked_id_refused _ e (id_marker_permanent s hi ops e.id h)

/-- an event at a deleted address, not newer than the deletion time, is refused -/
theorem covered_by_address_refused (s : Store) (e : EventRec) (a : AddrKey) (t : Nat)
    (ha : addrOf e = some a) (hm : delAddrGet s.db.delAddrs a = some t) (hle : e.createdAt ≤ t) :
    ∀ off, (storeEvent s e).1 ≠ .ok off := by
  intro off hok
  have hr : refusal s.db e ≠ none := by
    have hd : delByAddr s.db e = true := by
      unfold delByAddr
      rw [addrMarker_eq, ha]
      simp [hm, hle]
    unfold refusal
    repeat' split
    all_goals simp_all
  rcases storeEvent_cases s e with ⟨r, _, hne, hs⟩ | hs | ⟨_, hn, _⟩ | ⟨_, hn, _⟩ | hs | hs
  · rw [hs] at hok; exact hne off hok
  · rw [hs] at hok; cases hok
  · exact hr hn
  · exact hr hn
  · rw [hs] at hok; cases hok
  · rw [hs] at hok; cases hok

/-- … also after any continuation (the time only grows) -/
theorem covered_by_address_refused_forever (s : Store) (hi : Inv s) (ops : List Op) (e : EventRec)
    (a : AddrKey) (t : Nat) (ha : addrOf e = some a) (hm : delAddrGet s.db.delAddrs a = some t)
    (hle : e.createdAt ≤ t) : ∀ off, (storeEvent (run s ops) e).1 ≠ .ok off := by
  obtain ⟨t', ht', hm'⟩ := address_time_monotone s hi ops a t hm
  exact covered_by_address_refused _ e a t' ha hm' (by omega)

/-- an event newer than the deletion time of its address is never refused *as deleted* on account
of that address (its id not being marked) -/
theorem newer_not_refused (s : Store) (e : EventRec) (hid : e.id ∉ s.db.delIds)
    (hnew : ∀ a t, addrOf e = some a → delAddrGet s.db.delAddrs a = some t → t < e.createdAt) :
    refusal s.db e ≠ some .deleted := by
  have hc : s.db.delIds.contains e.id = false := by simpa using hid
  have hd : delByAddr s.db e = false := by
    unfold delByAddr
    rw [addrMarker_eq]
    cases ha : addrOf e with
    | none => simp
    | some a =>
      cases hm : delAddrGet s.db.delAddrs a with
      | none => simp [hm]
      | some t =>
        have := hnew a t ha hm
        simp [hm]; omega
  unfold refusal
  split
  · simp
  · simp [hd]; exact hid

/-- in every reachable state the markers and the retrievable set agree: a marked id is not
retrievable, and every retrievable event is newer than the deletion time of its address -/
theorem covered_unretrievable (ops : List Op) :
    let s := run {} ops
    (∀ id ∈ s.db.delIds, getById s id = none) ∧
    (∀ x ∈ s.db.live, ∀ a t, addrOf x.e = some a → delAddrGet s.db.delAddrs a = some t → t < x.e.createdAt) := by
  intro s
  have hc : Covered s.db.live s.db.delIds s.db.delAddrs :=
    Covered_run {} ops ⟨fun id h => by simp at h, fun x h => by simp at h⟩
  refine ⟨fun id hid => ?_, hc.addrs⟩
  unfold getById
  cases hf : findById s.db.live id with
  | none => rfl
  | some x =>
    obtain ⟨hx, hxid⟩ := findById_some_mem _ _ _ hf
    exact absurd (List.mem_map.mpr ⟨x, hx, hxid⟩) (hc.ids id hid)

theorem mem_addDelId_self (di : List Bytes) (id : Bytes) : id ∈ addDelId di id := by
  unfold addDelId; split
  · rename_i h; simpa using h
  · simp

/-- an accepted deletion request marks every id it names (other than its own) … -/
theorem accepted_marks_ids (c : List SEv) (req : EventRec) (tags : TagsRec) (st st' : DelSt)
    (h : handleDeletion c req tags st = .ok st') (hu : Uniq c) (v : Bytes) (rest : List Bytes) (id : Bytes)
    (htag : (KEY_E :: v :: rest) ∈ tags) (hhex : readHex 32 v = .ok id) (hne : id ≠ req.id) :
    id ∈ st'.delIds := by
  induction tags generalizing st with
  | nil => cases htag
  | cons tag tags ih =>
    unfold handleDeletion at h
    split at h
    · rename_i st1 h1
      rcases List.mem_cons.mp htag with heq | hin
      · subst heq
        have hmono := (handleDeletion_markers c hu req tags st1 st' h).2.1
        apply hmono
        unfold delTag at h1
        have hke : (KEY_E == KEY_E) = true := by decide
        simp only [hke, if_true, hhex] at h1
        unfold delE at h1
        have : (id == req.id) = false := by simpa using hne
        rw [if_neg (by simp [this])] at h1
        split at h1
        · split at h1
          · cases h1
          · simp only [DelOut.ok.injEq] at h1; subst h1
            exact mem_addDelId_self _ _
        · simp only [DelOut.ok.injEq] at h1; subst h1
          exact mem_addDelId_self _ _
      · exact ih _ h hin
    · cases h
    · cases h

/-- … and every address it names, with a time not older than the request -/
theorem accepted_marks_addresses (c : List SEv) (req : EventRec) (tags : TagsRec) (st st' : DelSt)
    (h : handleDeletion c req tags st = .ok st') (hu : Uniq c) (v : Bytes) (rest : List Bytes)
    (k : Nat) (a d : Bytes) (htag : (KEY_A :: v :: rest) ∈ tags) (hparse : parseAddr v = some (k, a, d)) :
    ∃ t, req.createdAt ≤ t ∧ delAddrGet st'.delAddrs (k, a, normD k d) = some t := by
  induction tags generalizing st with
  | nil => cases htag
  | cons tag tags ih =>
    unfold handleDeletion at h
    split at h
    · rename_i st1 h1
      rcases List.mem_cons.mp htag with heq | hin
      · subst heq
        have hmono := (handleDeletion_markers c hu req tags st1 st' h).2.2.2
        unfold delTag at h1
        have hke : (KEY_A == KEY_E) = false := by decide
        have hka : (KEY_A == KEY_A) = true := by decide
        simp only [hke, Bool.false_eq_true, if_false, hka, if_true, hparse] at h1
        unfold delA at h1
        split at h1
        · cases h1
        · split at h1
          · cases h1
          · simp only [DelOut.ok.injEq] at h1; subst h1
            have hget : delAddrGet (delAddrPut st.delAddrs (k, a, normD k d)
                (laterTime st.delAddrs (k, a, normD k d) req.createdAt)) (k, a, normD k d) =
                some (laterTime st.delAddrs (k, a, normD k d) req.createdAt) := by
              rw [delAddrGet_put]; simp
            obtain ⟨t', ht', hk'⟩ := hmono _ _ hget
            refine ⟨t', ?_, hk'⟩
            have : req.createdAt ≤ laterTime st.delAddrs (k, a, normD k d) req.createdAt := by
              unfold laterTime; split
              · split <;> omega
              · omega
            omega
      · exact ih _ h hin
    · cases h
    · cases h

/-- the address text `kind:pubkey-hex:d` of an `a` tag denotes exactly that address (any `d`, colons
included), so an accepted request that names an address in this form marks *that* address -/
theorem address_text_marked (c : List SEv) (req : EventRec) (tags : TagsRec) (st st' : DelSt)
    (h : handleDeletion c req tags st = .ok st') (hu : Uniq c) (rest : List Bytes)
    (k : Nat) (pk d : Bytes) (hk : k < 65536) (hpk : pk.length = 32) (hb : ∀ b ∈ pk, b < 256)
    (htag : (KEY_A :: (decOf k ++ 58 :: (hexOf pk ++ 58 :: d)) :: rest) ∈ tags) :
    ∃ t, req.createdAt ≤ t ∧ delAddrGet st'.delAddrs (k, pk, normD k d) = some t :=
  accepted_marks_addresses c req tags st st' h hu _ rest k pk d htag (parseAddr_text k pk d hk hpk hb)

/-! ### the property read on the specification (the abstract store of `Spec/AbsStore.lean`, which `full_history_refines` proves
the concrete model computes for every history) -/

/-- in every state the abstract store reaches, an id named by an accepted deletion is not retrievable, and every
retrievable event is newer than the deletion time of its address -/
theorem spec_covered (ops : List Op) (ht : ∀ op ∈ ops, opTimeOk op) (hlen : ops.length < U32MAX) :
    (∀ id ∈ (ops.foldl absOp {}).delIds, ∀ x ∈ (ops.foldl absOp {}).live, x.id ≠ id) ∧
    (∀ x ∈ (ops.foldl absOp {}).live, ∀ a t, addrOf x = some a → delAddrGet (ops.foldl absOp {}).delAddrs a = some t → t < x.createdAt) := by
  have href := full_history_refines ops ht hlen
  have e0 : Abs.of ({} : Store) = ({} : Abs) := rfl
  rw [e0] at href
  rw [← href]
  have hc : Covered (run {} ops).db.live (run {} ops).db.delIds (run {} ops).db.delAddrs :=
    Covered_run {} ops ⟨fun id h => by simp at h, fun x h => by simp at h⟩
  constructor
  · intro id hid x hx hxid
    simp only [Abs.of, List.mem_map] at hx hid
    obtain ⟨x', hx', rfl⟩ := hx
    exact hc.ids id hid (List.mem_map.2 ⟨x', hx', hxid⟩)
  · intro x hx a t ha hg
    simp only [Abs.of, List.mem_map] at hx hg
    obtain ⟨x', hx', rfl⟩ := hx
    exact hc.addrs x' hx' a t ha hg

end Pocket.C11
