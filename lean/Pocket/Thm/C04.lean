import Pocket.Spec.AbsStore
import Pocket.Lemmas.FromSourceConsts
import Pocket.Lemmas.StoreRead
import Pocket.Lemmas.Layout
import Pocket.Lemmas.EventMap
import Pocket.Lemmas.FromSourceEventMap
/-
C04 — stored events read back byte-identical, forever.
`Inv` (Lemmas/StoreInv) holds in every state reachable from the empty store by any history
(`Inv_run`).  An event's bytes are a function of the event (`encodeEvent`), so "the same event
record reads back" is "a byte-for-byte copy reads back".
-/
namespace Pocket.C04
open Pocket

/-- every reachable state satisfies the invariant (all histories, all events) -/
theorem reachable_inv (ops : List Op) : Inv (run {} ops) := Inv_run {} ops Inv_init

/-- once a store has returned an offset, that offset reads back the stored event … -/
theorem store_read_back (s : Store) (hi : Inv s) (e : EventRec) (off : Nat)
    (h : (storeEvent s e).1 = .ok off) : getByOffset (storeEvent s e).2 off = some e := by
  obtain ⟨_, hlog, _⟩ := storeEvent_ok_log s e off h
  have hi' := Inv_storeEvent s e hi
  have hx : (⟨off, e⟩ : SEv) ∈ (storeEvent s e).2.log := by rw [hlog]; simp
  exact getByOffset_of_mem _ hi' ⟨off, e⟩ hx

/-- … and keeps doing so after any number of later stores (including refused ones and ones that
grow the file), removals, vanishes, deletions and reopens -/
theorem read_back_forever (s : Store) (hi : Inv s) (x : SEv) (hx : x ∈ s.log) (ops : List Op)
    (hno : NoRebuild ops) : getByOffset (run s ops) x.off = some x.e :=
  getByOffset_of_mem _ (Inv_run s ops hi) x (run_log_mono s ops hno x hx)

/-- a retrievable event is returned, by id, exactly as stored -/
theorem by_id_read_back (s : Store) (hi : Inv s) (x : SEv) (hx : x ∈ s.db.live) :
    getById s x.e.id = some x.e ∧ getByOffset s x.off = some x.e :=
  ⟨getById_of_mem s hi x hx, getByOffset_of_mem s hi x (hi.liveInLog x hx)⟩

/-- offsets of one map file are pairwise distinct, 8-aligned, past the header, and strictly
increasing in append order; they are never reused (the log only grows) -/
theorem offsets_distinct (s : Store) (hi : Inv s) :
    s.log.Pairwise (fun a b => a.off < b.off) ∧ ∀ x ∈ s.log, 8 ≤ x.off ∧ x.off % 8 = 0 :=
  ⟨hi.logSorted, fun x hx => ⟨(hi.logBound x hx).1, (hi.logBound x hx).2.1⟩⟩

/-- a successful store returns an offset beyond every earlier one -/
theorem new_offset_fresh (s : Store) (hi : Inv s) (e : EventRec) (off : Nat)
    (h : (storeEvent s e).1 = .ok off) : ∀ x ∈ s.log, x.off < off := by
  obtain ⟨rfl, _, _⟩ := storeEvent_ok_log s e off h
  intro x hx
  have := hi.logBound x hx
  have := eventLen_pos x.e
  have := align8_ge s.end
  omega

/-- **delineation on read ignores whatever follows the event in the map**: the slice handed to
`Event::delineate` is the stored bytes followed by ANY amount of later data (no bound: 4 GiB and
more); the event it cuts out is exactly the stored bytes -/
theorem delineate_ignores_what_follows (e : EventRec) (hs : EventSized e) (rest : Bytes) :
    eventDelineate (encodeEvent e ++ rest) = .ok (encodeEvent e) := by
  have hlen : (encodeEvent e).length = eventSize (tagsSize e.tags) e.content.length := by
    unfold encodeEvent
    rw [encodeEventWith_length _ _ _ _ _ _ _ hs.id hs.pk hs.sig, encodeTags_length]
  have hc := hs.content
  have hge : 152 ≤ eventSize (tagsSize e.tags) e.content.length := by unfold eventSize tagsSize; omega
  have hrd : rd32 (encodeEvent e ++ rest) 0 = .ok (eventSize (tagsSize e.tags) e.content.length) := by
    have := rd32_of_drop (encodeEvent e ++ rest) 0 (eventSize (tagsSize e.tags) e.content.length)
      (le16 e.kind ++ [0, 0] ++ le64 e.createdAt ++ e.id ++ e.pubkey ++ e.sig ++ encodeTags e.tags ++
        le32 e.content.length ++ e.content ++ rest)
      (by simp [encodeEvent, encodeEventWith, encodeTags_length])
    rw [this]; congr 1; omega
  unfold eventDelineate
  rw [if_neg (by simp only [List.length_append]; omega), hrd]
  simp only []
  rw [if_neg (by simp only [List.length_append]; omega), ← hlen, List.take_left' rfl]

/-- … stated on lengths: for every number of bytes that follow, the length `delineate` reports is
the event's own -/
theorem delineate_length_any_total (e : EventRec) (hs : EventSized e) (total : Nat)
    (ht : (encodeEvent e).length ≤ total) :
    eventDelineateLen (encodeEvent e) total = .ok (encodeEvent e).length := by
  have hlen : (encodeEvent e).length = eventSize (tagsSize e.tags) e.content.length := by
    unfold encodeEvent
    rw [encodeEventWith_length _ _ _ _ _ _ _ hs.id hs.pk hs.sig, encodeTags_length]
  have hc := hs.content
  have hge : 152 ≤ eventSize (tagsSize e.tags) e.content.length := by unfold eventSize tagsSize; omega
  have hrd : rd32 (encodeEvent e) 0 = .ok (eventSize (tagsSize e.tags) e.content.length) := by
    have := rd32_of_drop (encodeEvent e) 0 (eventSize (tagsSize e.tags) e.content.length)
      (le16 e.kind ++ [0, 0] ++ le64 e.createdAt ++ e.id ++ e.pubkey ++ e.sig ++ encodeTags e.tags ++
        le32 e.content.length ++ e.content)
      (by simp [encodeEvent, encodeEventWith, encodeTags_length])
    rw [this]; congr 1; omega
  unfold eventDelineateLen
  rw [if_neg (by omega), hrd]
  simp only []
  rw [if_neg (by omega), hlen]

/-- **the map file never shrinks and an append never fails** (the grow-and-retry loop, with `set_len`
modelled as setting the length exactly — truncating when smaller): on a consistent map `store_event`
returns the 8-aligned old end, advances the end by exactly the event's size, needs no more growth
rounds than `size / CHUNK + 1`, and the file is at least as long as before; the alignment padding never
runs out of space -/
theorem map_store (chunk : Nat) (hc : chunk % 8 = 0) (hpos : 0 < chunk) (m : EMap) (hi : EMInv m) (size : Nat) :
    ∃ m', emStore chunk m size = .ok (align8 m.marker, m') ∧ EMInv m' ∧ m'.marker = align8 m.marker + size ∧
      m.fileLen ≤ m'.fileLen := emStore_ok chunk hc hpos m hi size

/-- reopening finds the same end and the real file length — also when the map is full to its last byte -/
theorem map_reopen (chunk : Nat) (m : EMap) (hi : EMInv m) :
    ∃ m', emOpen chunk m.fileLen m.marker = .ok m' ∧ EMInv m' ∧ m'.marker = m.marker ∧ m'.fileLen = m.fileLen :=
  emOpen_existing chunk m.fileLen m.marker hi.hdr (by rw [← hi.mapFile]; exact hi.inMap) hi.al

/-- the exactly-full map is a state the model reaches and reopens unchanged -/
example : emOpen 2048 2048 2048 = .ok ⟨2048, 2048, 2048, 2048⟩ := by decide

/-- closing and reopening changes nothing -/
theorem reopen_reads (s : Store) : step s .reopen = s := rfl

/-- non-vacuity: a concrete history with a refused store in the middle -/
example :
    let e1 : EventRec := ⟨List.replicate 32 1, List.replicate 32 9, [], 1, 5, [], [104]⟩
    let e2 : EventRec := ⟨List.replicate 32 2, List.replicate 32 9, [], 1, 6, [], []⟩
    let s := run {} [.store e1, .store e1, .store e2]
    getByOffset s 8 = some e1 ∧ getByOffset s 168 = some e2 ∧ s.log.length = 2 := by
  decide +kernel

/-! ### tie to the source text: what /repo says now (translated on every run by `lib/srcfacts.py`) is what the model says -/

/-- the growth chunk of both build configurations (`EVENT_MAP_CHUNK`, debug and release) satisfies what the event-map
theorems assume of it: a multiple of 8, at least the header -/
theorem map_chunks_from_source :
    ∀ c ∈ Src.c_event_store_EVENT_MAP_CHUNK_debug ++ Src.c_event_store_EVENT_MAP_CHUNK_release, c % 8 = 0 ∧ 8 ≤ c :=
  Pocket.map_chunks_from_source

/-! ### the property read on the specification (`Spec/AbsStore.lean`) -/

/-- C04 read on the specification: the log of the abstract store only grows under store / remove / vanish / reopen - an
(offset, event) pair once in it stays in it - and a successful store puts the event at the offset it returns -/
theorem spec_log_grows (a : Abs) (op : Op) (hop : op ≠ .rebuild) (x : Nat × EventRec) (hx : x ∈ a.log) : x ∈ (absOp a op).log := by
  cases op with
  | store e =>
    simp only [absOp, absStore]
    split
    · exact hx
    · split
      · exact hx
      · split
        · exact hx
        · split
          · exact hx
          · split
            · split <;> simp [hx]
            · simp [hx]
  | remove id => exact hx
  | vanish pk => exact hx
  | reopen => exact hx
  | rebuild => exact absurd rfl hop

theorem spec_store_logged (a : Abs) (e : EventRec) (off : Nat) (h : (absStore a e).1 = .ok off) : (off, e) ∈ (absStore a e).2.log := by
  unfold absStore at h ⊢
  by_cases c1 : (a.live.any fun x => x.id == e.id) = true
  · rw [if_pos c1] at h; cases h
  rw [if_neg c1] at h ⊢
  by_cases c2 : a.delIds.contains e.id = true
  · rw [if_pos c2] at h; cases h
  rw [if_neg c2] at h ⊢
  by_cases c3 : coveredBy a.delAddrs e = true
  · rw [if_pos c3] at h; cases h
  rw [if_neg c3] at h ⊢
  by_cases c4 : (absPre a.live e).2 = true
  · rw [if_pos c4] at h; cases h
  rw [if_neg c4] at h ⊢
  by_cases c5 : e.kind = 5
  · simp only [c5, if_true] at h ⊢
    split at h
    · simp only [Reply.ok.injEq] at h
      subst h
      simp
    · cases h
    · cases h
  · simp only [c5, if_false, Reply.ok.injEq] at h ⊢
    subst h; simp

/-- the event-map model these theorems are about is `event_store.rs` as it reads today (matched and translated on every run):
`EventStore::new` takes a file for new, sizes it and remembers its length exactly as `emOpen` does; `store_event` pads to a multiple of
8 as `emPad` does; and one round of its grow path sets file, mapping and remembered length to the REMEMBERED length plus one chunk,
in the order set_len / resize / remember, as `emGrow` does -/
theorem event_map_from_source (chunk fileLen marker : Nat) (m : EMap) :
    (emOpen chunk fileLen marker =
      (let len := Src.esInitLen chunk fileLen marker 8 8
       if len < 8 then .err
       else .ok { fileLen := len, marker := if Src.esNew fileLen marker 8 8 then 8 else marker,
                  memLen := Src.esRemembered len, mapLen := len })) ∧
    emPad m = Src.esPad m.marker ∧
    emGrow chunk m =
      { m with fileLen := (Src.esGrow chunk m.fileLen m.mapLen m.memLen).1,
               mapLen := (Src.esGrow chunk m.fileLen m.mapLen m.memLen).2.1,
               memLen := (Src.esGrow chunk m.fileLen m.mapLen m.memLen).2.2 } :=
  ⟨em_open_from_source chunk fileLen marker, em_pad_from_source m, em_grow_from_source chunk m⟩

end Pocket.C04
