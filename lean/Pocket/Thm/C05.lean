import Pocket.Lemmas.FromSourcePreds
import Pocket.Lemmas.FromSourceKeys
import Pocket.Lemmas.KeysTag
import Pocket.Lemmas.FromSourceConsts
import Pocket.Lemmas.FindComplete
import Pocket.Lemmas.FindNewest
import Pocket.Thm.C06
import Pocket.Thm.C09
import Pocket.Lemmas.Keys
/-
C05 — queries return only retrievable, matching, screened-in events, newest first, without
duplicates, at most `limit`; the redacted flag and the scraping refusal follow the stated rules.

Proved for every store state, every filter, every screening function and **every index plan**
(the seven plans of `find_events`, the moving `since`, the early exits): the *soundness* half of
"exactly the matching events".  The *completeness* half is proved for the case in
which the limit is not binding (`findEvents_exact`: in every reachable state, for every NIP-01
filter, through whichever plan, the answer is **exactly** the retrievable matching screened-in
events).  Under a binding limit, `newest_under_limit` proves "the newest `limit` are kept", with
the moving `since` and the early range exits: whatever qualifying event is left out, exactly `limit`
events were returned and none of them is older than it (events of equal time may be chosen either
way, as the property allows).  `answer_characterised` puts the halves together.

THE BYTE KEYS (`index_key_order`, `index_range_bounds`, `tag_index_range_bounds`, `time_index_scan`,
`author_index_scan`, `author_kind_index_scan`): the model's range scans ("the live events with these
fields and `since ≤ t ≤ until`, newest first then ascending id") are what a bytewise-ordered table
returns between the bounds `*_iter` builds over the keys `key_*_index` builds — prefix, big-endian
`u64::MAX - created_at`, id; both bounds inclusive, the all-zero and all-ones ids included.  What is
left to trust about LMDB is that it iterates a range in bytewise key order; that the real tables hold
exactly these keys in that order is compared on every step (`KYS`, a `verif` hook).
-/
namespace Pocket.C05
open Pocket

/-- two keys of one index table that share their prefix compare bytewise like (newest first, then
ascending id) -/
theorem index_key_order (P : Bytes) (t1 t2 : Nat) (id1 id2 : Bytes) (h1 : t1 ≤ U64MAX) (h2 : t2 ≤ U64MAX) :
    bytesLt (P ++ (revTime t1 ++ id1)) (P ++ (revTime t2 ++ id2)) =
      (decide (t1 > t2) || (t1 == t2 && bytesLt id1 id2)) := key_order P t1 t2 id1 id2 h1 h2

/-- a key lies within the (inclusive) bounds of a range scan iff its prefix is the probe's and its
time is in the window, whatever its id -/
theorem index_range_bounds (P P' : Bytes) (hP : P'.length = P.length) (since «until» t : Nat) (id : Bytes)
    (hs : since ≤ U64MAX) (hu : «until» ≤ U64MAX) (ht : t ≤ U64MAX) (hid : id.length = 32) (hb : ∀ b ∈ id, b < 256) :
    inRange (P ++ (revTime «until» ++ zeros32)) (P ++ (revTime since ++ ffs32)) (P' ++ (revTime t ++ id)) =
      (P' == P && decide (since ≤ t) && decide (t ≤ «until»)) :=
  key_in_range P P' hP since «until» t id hs hu ht hid hb

/-- the tag index: the prefix is the tag letter and the value padded with zeros (or cut) to 182 bytes -/
theorem tag_index_range_bounds (l l' : Nat) (v v' : Bytes) (since «until» t : Nat) (id : Bytes) (hs : since ≤ U64MAX)
    (hu : «until» ≤ U64MAX) (ht : t ≤ U64MAX) (hid : id.length = 32) (hb : ∀ b ∈ id, b < 256) :
    inRange (keyTc l v «until» zeros32) (keyTc l v since ffs32) (keyTc l' v' t id) =
      ((l' == l && pad182 v' == pad182 v) && decide (since ≤ t) && decide (t ≤ «until»)) :=
  tc_range l l' v v' since «until» t id hs hu ht hid hb

/-- a range read of the time index over its byte keys is the model's scan -/
theorem time_index_scan (live : List SEv) (hw : ∀ x ∈ live, KeyWf x) (since «until» : Nat)
    (hs : since ≤ U64MAX) (hu : «until» ≤ U64MAX) :
    byteScan live (fun x => keyCi x.e.createdAt x.e.id) (keyCi «until» zeros32) (keyCi since ffs32) =
      ciScan live since «until» := ci_byteScan live hw since «until» hs hu

theorem author_index_scan (live : List SEv) (hw : ∀ x ∈ live, KeyWf x) (author : Bytes) (ha : author.length = 32)
    (since «until» : Nat) (hs : since ≤ U64MAX) (hu : «until» ≤ U64MAX) :
    byteScan live (fun x => keyAc x.e.pubkey x.e.createdAt x.e.id) (keyAc author «until» zeros32) (keyAc author since ffs32) =
      acScan live author since «until» := ac_byteScan live hw author ha since «until» hs hu

theorem author_kind_index_scan (live : List SEv) (hw : ∀ x ∈ live, KeyWf x) (author : Bytes) (ha : author.length = 32)
    (kind : Nat) (hk : kind < 65536) (since «until» : Nat) (hs : since ≤ U64MAX) (hu : «until» ≤ U64MAX) :
    byteScan live (fun x => keyAkc x.e.pubkey x.e.kind x.e.createdAt x.e.id) (keyAkc author kind «until» zeros32)
      (keyAkc author kind since ffs32) = akcScan live author kind since «until» :=
  akc_byteScan live hw author ha kind hk since «until» hs hu

/-- the boundary case of defect #11 holds in the byte model: the all-ones id at `created_at = since` is inside -/
example : inRange (keyCi 200 zeros32) (keyCi 100 ffs32) (keyCi 100 ffs32) = true := by decide +kernel

/-- whatever index serves the filter, every returned event is currently retrievable, matches the
filter (by C06: under NIP-01 semantics) and passed the screen; the answer has no duplicates, is
ordered newest first and holds at most `limit` events -/
theorem findEvents_sound (live : List SEv) (f : FilterRec) (allow : Bool) (l secs now : Nat)
    (scr : EventRec → Screen) (out : List SEv) (red : Bool)
    (h : findEvents live f allow l secs now scr = .ok out red) :
    (∀ x ∈ out, x ∈ live ∧ eventMatches f x.e = true ∧ scr x.e = .match) ∧
    out.Pairwise (fun a b => a.e.id ≠ b.e.id) ∧
    out.Pairwise (fun a b => a.e.createdAt ≥ b.e.createdAt) ∧
    out.length ≤ f.limit := by
  unfold findEvents at h
  split at h
  · rename_i st hst
    simp only [FindReply.ok.injEq] at h
    obtain ⟨rfl, _⟩ := h
    have hg := Good_findState live f allow l secs now scr st hst
    refine ⟨?_, ?_, ?_, ?_⟩
    · intro x hx
      exact hg.sound x ((sortOut_mem _ _).mp (List.mem_of_mem_take hx))
    · exact List.Pairwise.sublist (List.take_sublist _ _) (sortOut_nodup _ hg.nodup)
    · exact List.Pairwise.sublist (List.take_sublist _ _) (sortOut_sorted _)
    · simp [List.length_take]; omega
  · cases h

/-- with C06: the returned events satisfy the NIP-01 predicate -/
theorem findEvents_nip01 (live : List SEv) (f : FilterRec) (hn : C06.TagsNamed f) (allow : Bool)
    (l secs now : Nat) (scr : EventRec → Screen) (out : List SEv) (red : Bool)
    (h : findEvents live f allow l secs now scr = .ok out red) :
    ∀ x ∈ out, C06.matchesSpec f x.e :=
  fun x hx => (C06.eventMatches_iff_spec f x.e hn).mp ((findEvents_sound live f allow l secs now scr out red h).1 x hx).2.1

/-- the redacted flag is set only if some retrievable matching event was screened as redacted -/
theorem redacted_sound (live : List SEv) (f : FilterRec) (allow : Bool) (l secs now : Nat)
    (scr : EventRec → Screen) (out : List SEv)
    (h : findEvents live f allow l secs now scr = .ok out true) :
    ∃ x ∈ live, eventMatches f x.e = true ∧ scr x.e = .redacted := by
  unfold findEvents at h
  split at h
  · rename_i st hst
    simp only [FindReply.ok.injEq] at h
    exact (Good_findState live f allow l secs now scr st hst).red h.2
  · cases h

/-- a query is refused as scraping exactly when the filter names no ids, authors or tags and none
of the caller's allowances covers it (the time span saturating at 0, never underflowing) -/
theorem scrape_gate (live : List SEv) (f : FilterRec) (allow : Bool) (l secs now : Nat)
    (scr : EventRec → Screen) :
    findEvents live f allow l secs now scr = .scraper ↔
      (f.ids = [] ∧ f.authors = [] ∧ f.tags = [] ∧ allow = false ∧ ¬ f.limit ≤ l ∧
        ¬ (min f.until now - f.since < secs)) := by
  have hmin : (if f.until < now then f.until else now) = min f.until now := by
    split <;> omega
  unfold findEvents findState
  dsimp only
  cases hi : f.ids <;> cases ha : f.authors <;> cases hk : f.kinds <;> cases ht : f.tags <;>
    cases allow <;>
    simp [scrapeAllowed, hmin]
  all_goals
    by_cases h1 : f.limit ≤ l <;> by_cases h2 : min f.until now - f.since < secs <;> simp [h1, h2] <;> omega

/-- a query never panics: `findEvents` is a total function into `ok … | scraper` -/
theorem findEvents_total (live : List SEv) (f : FilterRec) (allow : Bool) (l secs now : Nat)
    (scr : EventRec → Screen) :
    (∃ out red, findEvents live f allow l secs now scr = .ok out red) ∨
      findEvents live f allow l secs now scr = .scraper := by
  unfold findEvents
  split
  · exact Or.inl ⟨_, _, rfl⟩
  · exact Or.inr rfl

/-- **exactly the matching events** (limit not binding): in every reachable state, for every filter
whose tag constraints are named by single letters, every screening function and whichever index
plan serves the filter, an event is returned if and only if it is currently retrievable, matches
the filter and passes the screen -/
theorem findEvents_exact (ops : List Op) (f : FilterRec) (hsl : SingleLetter f) (allow : Bool)
    (l secs now : Nat) (scr : EventRec → Screen) (out : List SEv) (red : Bool)
    (hnl : (run {} ops).db.live.length < f.limit)
    (h : findEvents (run {} ops).db.live f allow l secs now scr = .ok out red) (x : SEv) :
    x ∈ out ↔ (x ∈ (run {} ops).db.live ∧ eventMatches f x.e = true ∧ scr x.e = .match) := by
  constructor
  · intro hx; exact (findEvents_sound _ f allow l secs now scr out red h).1 x hx
  · intro ⟨hx, hm, hs⟩
    exact findEvents_complete _ f allow l secs now scr out red (Inv_run {} ops Inv_init).liveIds
      (C09.one_per_address ops) hnl hsl h x hx hm hs

/-- hence the answer does not depend on which index serves the filter: two filters that select
different plans but match the same events (e.g. one naming an author, one not) return the same
set; stated here as: the answer is determined by the match predicate alone -/
theorem plan_independent (ops : List Op) (f g : FilterRec) (hf : SingleLetter f) (hg : SingleLetter g)
    (allow : Bool) (l secs now : Nat) (scr : EventRec → Screen) (o1 o2 : List SEv) (r1 r2 : Bool)
    (hsame : ∀ x ∈ (run {} ops).db.live, eventMatches f x.e = eventMatches g x.e)
    (h1 : (run {} ops).db.live.length < f.limit) (h2 : (run {} ops).db.live.length < g.limit)
    (e1 : findEvents (run {} ops).db.live f allow l secs now scr = .ok o1 r1)
    (e2 : findEvents (run {} ops).db.live g allow l secs now scr = .ok o2 r2) (x : SEv) :
    x ∈ o1 ↔ x ∈ o2 := by
  rw [findEvents_exact ops f hf allow l secs now scr o1 r1 h1 e1 x,
    findEvents_exact ops g hg allow l secs now scr o2 r2 h2 e2 x]
  constructor
  · intro ⟨hx, hm, hs⟩; exact ⟨hx, by rw [← hsame x hx]; exact hm, hs⟩
  · intro ⟨hx, hm, hs⟩; exact ⟨hx, by rw [hsame x hx]; exact hm, hs⟩

/-- **newest-k under a binding limit**, in every reachable state, for every NIP-01 filter, every
screen and whichever index plan serves the filter: if a retrievable, matching, screened-in event is
missing from the answer, the answer holds exactly `limit` events and none of them is older than
the missing one -/
theorem newest_under_limit (ops : List Op) (f : FilterRec) (hsl : SingleLetter f) (allow : Bool)
    (l secs now : Nat) (scr : EventRec → Screen) (out : List SEv) (red : Bool)
    (h : findEvents (run {} ops).db.live f allow l secs now scr = .ok out red)
    (x : SEv) (hx : x ∈ (run {} ops).db.live) (hm : eventMatches f x.e = true) (hs : scr x.e = .match)
    (hnot : x ∉ out) :
    out.length = f.limit ∧ ∀ y ∈ out, x.e.createdAt ≤ y.e.createdAt :=
  findEvents_newest _ f allow l secs now scr out red (Inv_run {} ops Inv_init).liveIds
    (C09.one_per_address ops) hsl h x hx hm hs hnot

/-- the whole of C05 for an answered query: only qualifying events, no duplicates, newest first, at
most `limit`; and nothing qualifying is missing unless the limit is exhausted by events at least
as new -/
theorem answer_characterised (ops : List Op) (f : FilterRec) (hsl : SingleLetter f) (allow : Bool)
    (l secs now : Nat) (scr : EventRec → Screen) (out : List SEv) (red : Bool)
    (h : findEvents (run {} ops).db.live f allow l secs now scr = .ok out red) :
    (∀ x ∈ out, x ∈ (run {} ops).db.live ∧ eventMatches f x.e = true ∧ scr x.e = .match) ∧
    out.Pairwise (fun a b => a.e.id ≠ b.e.id) ∧
    out.Pairwise (fun a b => a.e.createdAt ≥ b.e.createdAt) ∧
    out.length ≤ f.limit ∧
    (∀ x ∈ (run {} ops).db.live, eventMatches f x.e = true → scr x.e = .match → x ∉ out →
      out.length = f.limit ∧ ∀ y ∈ out, x.e.createdAt ≤ y.e.createdAt) := by
  obtain ⟨s1, s2, s3, s4⟩ := findEvents_sound _ f allow l secs now scr out red h
  exact ⟨s1, s2, s3, s4, fun x hx hm hs hnot =>
    newest_under_limit ops f hsl allow l secs now scr out red h x hx hm hs hnot⟩

def answerIds : FindReply → Option (List Bytes)
  | .ok out _ => some (out.map (·.e.id))
  | .scraper => none

/-- non-vacuity: a two-event store, limit 1 — the newer event is returned and the older one is the
missing qualifying event of `newest_under_limit` -/
example :
    answerIds (findEvents (run {} [
        .store { id := [1], pubkey := [7], kind := 1, createdAt := 10, tags := [], content := [], sig := [] },
        .store { id := [2], pubkey := [7], kind := 1, createdAt := 20, tags := [], content := [], sig := [] }]).db.live
      { ids := [], authors := [[7]], kinds := [], tags := [], since := 0, «until» := 100, limit := 1 }
      false 0 0 0 (fun _ => .match)) = some [[2]] := by
  decide +kernel

/-! ### the three tag tables, row by row (an event has one row per distinct `(letter, padded value)`) -/

/-- a range read of the tag table with the bounds `tc_iter` computes = the model's scan: the live events having SOME tag
named `letter` whose value pads (or is cut) to the same 182 bytes, in the time window, newest first then ascending id, each once -/
theorem tag_index_scan (live : List SEv) (hw : ∀ x ∈ live, KeyWf x) (letter : Nat) (value : Bytes)
    (since «until» : Nat) (hs : since ≤ U64MAX) (hu : «until» ≤ U64MAX) :
    rowScan (tagRows live fun _ => []) (keyTc letter value «until» zeros32) (keyTc letter value since ffs32) =
      tcScan live letter value since «until» := tc_rowScan live hw letter value since «until» hs hu

theorem author_tag_index_scan (live : List SEv) (hw : ∀ x ∈ live, KeyWf x) (author : Bytes) (ha : author.length = 32) (letter : Nat)
    (value : Bytes) (since «until» : Nat) (hs : since ≤ U64MAX) (hu : «until» ≤ U64MAX) :
    rowScan (tagRows live fun e => e.pubkey) (keyAtc author letter value «until» zeros32) (keyAtc author letter value since ffs32) =
      atcScan live author letter value since «until» := atc_rowScan live hw author ha letter value since «until» hs hu

theorem kind_tag_index_scan (live : List SEv) (hw : ∀ x ∈ live, KeyWf x) (kind : Nat) (hk : kind < 65536) (letter : Nat)
    (value : Bytes) (since «until» : Nat) (hs : since ≤ U64MAX) (hu : «until» ≤ U64MAX) :
    rowScan (tagRows live fun e => be16 e.kind) (keyKtc kind letter value «until» zeros32) (keyKtc kind letter value since ffs32) =
      ktcScan live kind letter value since «until» := ktc_rowScan live hw kind hk letter value since «until» hs hu

/-- the rows of these theorems are the keys the driver dumps for the tag tables (`KYS`, compared with the real LMDB tables
after every step of every history) -/
theorem tag_rows_are_dumped_keys (live : List SEv) (k : Bytes) :
    (k ∈ tableKeys live "tc" ↔ k ∈ (tagRows live fun _ => []).map (·.1)) ∧
    (k ∈ tableKeys live "atc" ↔ k ∈ (tagRows live fun e => e.pubkey).map (·.1)) ∧
    (k ∈ tableKeys live "ktc" ↔ k ∈ (tagRows live fun e => be16 e.kind).map (·.1)) :=
  ⟨tableKeys_tc live k, tableKeys_atc live k, tableKeys_ktc live k⟩

/-- a row read is not vacuous: two tags of one event falling on one key give one row, found once -/
example : let x : SEv := ⟨8, ⟨List.replicate 32 1, List.replicate 32 2, [], 1, 5, [[[116], [97]], [[116], [97, 0]], [[116], [98]]], []⟩⟩
    rowScan (tagRows [x] fun _ => []) (keyTc 116 [97] 9 zeros32) (keyTc 116 [97] 0 ffs32) = [x] := by
  decide +kernel

/-! ### tie to the source text: what /repo says now (translated on every run by `lib/srcfacts.py`) is what the model says -/

/-- every `PADLEN` of the key builders in `lmdb/mod.rs` is the length the model pads (or cuts) tag values to -/
theorem index_padding_from_source (v : Bytes) : ∀ p ∈ Src.c_lmdb_PADLEN, (pad182 v).length = p := Pocket.index_padding_from_source v

/-- the byte keys the theorems above are about are the keys `key_*_index` build today: the statements of the six builders in
`lmdb/mod.rs`, translated on every run, produce exactly the model's keys -/
theorem keys_from_source (author value id : Bytes) (kind letter t : Nat) :
    Src.keyCi t id = keyCi t id ∧ Src.keyAc author t id = keyAc author t id ∧ Src.keyAkc author kind t id = keyAkc author kind t id ∧
    Src.keyTc letter value t id = keyTc letter value t id ∧ Src.keyAtc author letter value t id = keyAtc author letter value t id ∧
    Src.keyKtc kind letter value t id = keyKtc kind letter value t id := Pocket.keys_from_source author value id kind letter t

/-- ... and the range each `*_iter` reads today is the one the scan theorems assume: from the key at `until` with the all-zero id
to the key at `since` with the all-ones id, both ends included -/
theorem iter_bounds_from_source (author value : Bytes) (kind letter since «until» : Nat) :
    (Src.ciIterLo since «until» = keyCi «until» zeros32 ∧ Src.ciIterHi since «until» = keyCi since ffs32 ∧ Src.ciIterInclusive = (true, true)) ∧
    (Src.acIterLo author since «until» = keyAc author «until» zeros32 ∧ Src.acIterHi author since «until» = keyAc author since ffs32 ∧
      Src.acIterInclusive = (true, true)) ∧
    (Src.akcIterLo author kind since «until» = keyAkc author kind «until» zeros32 ∧ Src.akcIterHi author kind since «until» = keyAkc author kind since ffs32 ∧
      Src.akcIterInclusive = (true, true)) ∧
    (Src.tcIterLo letter value since «until» = keyTc letter value «until» zeros32 ∧ Src.tcIterHi letter value since «until» = keyTc letter value since ffs32 ∧
      Src.tcIterInclusive = (true, true)) ∧
    (Src.atcIterLo author letter value since «until» = keyAtc author letter value «until» zeros32 ∧
      Src.atcIterHi author letter value since «until» = keyAtc author letter value since ffs32 ∧ Src.atcIterInclusive = (true, true)) ∧
    (Src.ktcIterLo kind letter value since «until» = keyKtc kind letter value «until» zeros32 ∧
      Src.ktcIterHi kind letter value since «until» = keyKtc kind letter value since ffs32 ∧ Src.ktcIterInclusive = (true, true)) :=
  Pocket.iter_bounds_from_source author value kind letter since «until»

/-- the scrape gate the theorem `scrape_gate` is about is the one `find_events` computes today -/
theorem scrape_gate_from_source (f : FilterRec) (allow : Bool) (allowLimit allowSecs now : Nat) :
    Src.scrapeAllow allow f.limit allowLimit allowSecs f.since f.until now = scrapeAllowed f allow allowLimit allowSecs now :=
  Pocket.scrape_gate_from_source f allow allowLimit allowSecs now

end Pocket.C05
