import Pocket.Lemmas.Find
import Pocket.Thm.C06
/-
C05 — queries return only retrievable, matching, screened-in events, newest first, without
duplicates, at most `limit`; the redacted flag and the scraping refusal follow the stated rules.

Proved for every store state, every filter, every screening function and **every index plan**
(the seven plans of `find_events`, the moving `since`, the early exits): the *soundness* half of
"exactly the matching events".  The *completeness* half (no qualifying event is missed; under a
limit the newest are kept) is decided by the correspondence check against the abstract
specification's `ValidAnswer` after every step of every history; it is not claimed as a theorem.
-/
namespace Pocket.C05
open Pocket

/-- whatever index serves the filter, every returned event is currently retrievable, matches the
filter (by C06: under NIP-01 semantics) and passed the screen; the answer has no duplicates, is
ordered newest first and holds at most `limit` events -/
theorem findEvents_sound (live : List SEv) (f : FilterRec) (allow : Bool) (l secs now : Nat)
    (scr : EventRec → Screen) (out : List SEv) (red : Bool)
    (h : findEvents live f allow l secs now scr = .ok out red) :
    (∀ x ∈ out, x ∈ live ∧ eventMatches f x.e = true ∧ scr x.e = .match) ∧
    out.Pairwise (fun a b => a.e.id ≠ b.e.id) ∧
    out.Pairwise (fun a b => a.e.createdAt ≥ b.e.createdAt) ∧
    out.length ≤ f.limit := by
  unfold findEvents at h
  split at h
  · rename_i st hst
    simp only [FindReply.ok.injEq] at h
    obtain ⟨rfl, _⟩ := h
    have hg := Good_findState live f allow l secs now scr st hst
    refine ⟨?_, ?_, ?_, ?_⟩
    · intro x hx
      exact hg.sound x ((sortOut_mem _ _).mp (List.mem_of_mem_take hx))
    · exact List.Pairwise.sublist (List.take_sublist _ _) (sortOut_nodup _ hg.nodup)
    · exact List.Pairwise.sublist (List.take_sublist _ _) (sortOut_sorted _)
    · simp [List.length_take]; omega
  · cases h

/-- with C06: the returned events satisfy the NIP-01 predicate -/
theorem findEvents_nip01 (live : List SEv) (f : FilterRec) (hn : C06.TagsNamed f) (allow : Bool)
    (l secs now : Nat) (scr : EventRec → Screen) (out : List SEv) (red : Bool)
    (h : findEvents live f allow l secs now scr = .ok out red) :
    ∀ x ∈ out, C06.matchesSpec f x.e :=
  fun x hx => (C06.eventMatches_iff_spec f x.e hn).mp ((findEvents_sound live f allow l secs now scr out red h).1 x hx).2.1

/-- the redacted flag is set only if some retrievable matching event was screened as redacted -/
theorem redacted_sound (live : List SEv) (f : FilterRec) (allow : Bool) (l secs now : Nat)
    (scr : EventRec → Screen) (out : List SEv)
    (h : findEvents live f allow l secs now scr = .ok out true) :
    ∃ x ∈ live, eventMatches f x.e = true ∧ scr x.e = .redacted := by
  unfold findEvents at h
  split at h
  · rename_i st hst
    simp only [FindReply.ok.injEq] at h
    exact (Good_findState live f allow l secs now scr st hst).red h.2
  · cases h

/-- a query is refused as scraping exactly when the filter names no ids, authors or tags and none
of the caller's allowances covers it (the time span saturating at 0, never underflowing) -/
theorem scrape_gate (live : List SEv) (f : FilterRec) (allow : Bool) (l secs now : Nat)
    (scr : EventRec → Screen) :
    findEvents live f allow l secs now scr = .scraper ↔
      (f.ids = [] ∧ f.authors = [] ∧ f.tags = [] ∧ allow = false ∧ ¬ f.limit ≤ l ∧
        ¬ (min f.until now - f.since < secs)) := by
  have hmin : (if f.until < now then f.until else now) = min f.until now := by
    split <;> omega
  unfold findEvents findState
  dsimp only
  cases hi : f.ids <;> cases ha : f.authors <;> cases hk : f.kinds <;> cases ht : f.tags <;>
    cases allow <;>
    simp [scrapeAllowed, hmin]
  all_goals
    by_cases h1 : f.limit ≤ l <;> by_cases h2 : min f.until now - f.since < secs <;> simp [h1, h2] <;> omega

/-- a query never panics: `findEvents` is a total function into `ok … | scraper` -/
theorem findEvents_total (live : List SEv) (f : FilterRec) (allow : Bool) (l secs now : Nat)
    (scr : EventRec → Screen) :
    (∃ out red, findEvents live f allow l secs now scr = .ok out red) ∨
      findEvents live f allow l secs now scr = .scraper := by
  unfold findEvents
  split
  · exact Or.inl ⟨_, _, rfl⟩
  · exact Or.inr rfl

end Pocket.C05
