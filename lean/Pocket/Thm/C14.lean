import Pocket.Model.Conc
import Pocket.Lemmas.StoreDel
/-
C14 — concurrent stores serialize; concurrent queries see only whole committed states.
PARTIAL (DESIGN.md §6/C14): the model has the writer lock, snapshot reads and atomic commit by
construction; that LMDB's writer mutex, its `NO_TLS` read transactions and the locks inside
`mmap-append` behave so, and the memory model, are trusted.  The correspondence check forces
schedules through the `verif` yield points on the real store and compares with this model.
-/
namespace Pocket.C14
open Pocket

theorem setPhase_events (ts : List (EventRec × Phase)) (i : Nat) (p : Phase) (j : Nat) :
    ((setPhase ts i p)[j]?).map (·.1) = (ts[j]?).map (·.1) := by
  unfold setPhase
  simp only [List.getElem?_mapIdx]
  cases ts[j]? with
  | none => rfl
  | some t => simp only [Option.map_some]; split <;> rfl

theorem eventsOf_setPhase (ts : List (EventRec × Phase)) (i : Nat) (p : Phase) (order : List Nat) :
    eventsOf (setPhase ts i p) order = eventsOf ts order := by
  unfold eventsOf
  congr 1
  funext j
  exact setPhase_events ts i p j

/-- **linearizability**: under every schedule, the committed state is the result of executing the
finished store calls one at a time, in the order in which their transactions ended -/
theorem committed_is_serial (s : Store) (evs : List EventRec) (sched : List Nat) :
    (runSched (initSys s evs) sched).committed =
      run s ((eventsOf (runSched (initSys s evs) sched).threads (runSched (initSys s evs) sched).order).map Op.store) := by
  have gen : ∀ (sys : Sys), sys.committed = run s ((eventsOf sys.threads sys.order).map Op.store) →
      (runSched sys sched).committed =
        run s ((eventsOf (runSched sys sched).threads (runSched sys sched).order).map Op.store) := by
    induction sched with
    | nil => intro sys h; exact h
    | cons i rest ih =>
      intro sys h
      apply ih
      unfold turn
      split
      · exact h
      · split
        · simp only [eventsOf_setPhase]; exact h
        · exact h
      · rename_i e hget
        simp only [eventsOf_setPhase]
        have : eventsOf sys.threads (sys.order ++ [i]) = eventsOf sys.threads sys.order ++ [e] := by
          unfold eventsOf
          simp [List.filterMap_append, hget]
        rw [this, List.map_append]
        unfold run
        rw [List.foldl_append]
        unfold run at h
        rw [← h]
        rfl
      · exact h
  exact gen (initSys s evs) (by simp [initSys, eventsOf, run])

/-- mutual exclusion: at most one thread is inside a write transaction, and it is the lock holder -/
def LockInv (sys : Sys) : Prop :=
  ∀ j e, sys.threads[j]? = some (e, .holding) → sys.lock = some j

theorem lockInv_turn (sys : Sys) (i : Nat) (h : LockInv sys) : LockInv (turn sys i) := by
  unfold turn
  split
  · exact h
  · split
    · rename_i e hget hl
      intro j e' hj
      simp only [setPhase, List.getElem?_mapIdx] at hj
      cases hg : sys.threads[j]? with
      | none => simp [hg] at hj
      | some t =>
        simp only [hg, Option.map_some, Option.some.injEq] at hj
        by_cases hji : j = i
        · simp [hji]
        · simp only [hji, if_false] at hj
          have := h j e' (by rw [hg, hj])
          rw [hl] at this; cases this
    · exact h
  · rename_i e hget
    intro j e' hj
    simp only [setPhase, List.getElem?_mapIdx] at hj
    cases hg : sys.threads[j]? with
    | none => simp [hg] at hj
    | some t =>
      simp only [hg, Option.map_some, Option.some.injEq] at hj
      by_cases hji : j = i
      · simp [hji] at hj
      · simp only [hji, if_false] at hj
        have h1 := h j e' (by rw [hg, hj])
        have h2 := h i e hget
        rw [h1] at h2
        simp only [Option.some.injEq] at h2
        exact absurd h2 hji
  · exact h

theorem mutual_exclusion (s : Store) (evs : List EventRec) (sched : List Nat) :
    LockInv (runSched (initSys s evs) sched) := by
  have gen : ∀ sys, LockInv sys → LockInv (runSched sys sched) := by
    induction sched with
    | nil => intro sys h; exact h
    | cons i rest ih => intro sys h; exact ih _ (lockInv_turn sys i h)
  apply gen
  intro j e hj
  simp only [initSys, List.getElem?_map] at hj
  cases evs[j]? <;> simp at hj

/-- every state a concurrent reader can take its snapshot of is the result of a prefix of the
serial order: a whole committed state, never a partially applied store, and it satisfies the store
invariant (every index entry leads to complete event bytes: the append precedes the commit) -/
theorem reader_sees_whole_state (s : Store) (hi : Inv s) (evs : List EventRec) (sched : List Nat) :
    Inv (runSched (initSys s evs) sched).committed := by
  rw [committed_is_serial]
  exact Inv_run s _ hi

/-- a non-ephemeral event that was stored successfully is retrievable in the resulting state -/
theorem store_ok_live (s : Store) (hi : Inv s) (e : EventRec) (off : Nat)
    (hok : (storeEvent s e).1 = .ok off) (hne : isEphemeral e.kind = false) :
    (findById (storeEvent s e).2.db.live e.id).isSome = true := by
  have hu := Uniq_of_Inv s hi
  have hfresh : ∀ x ∈ s.db.live, x.off ≠ align8 s.end := by
    intro x hx
    have := hi.logBound x (hi.liveInLog x hx)
    have := eventLen_pos x.e
    have := align8_ge s.end
    omega
  have hin_txn : (⟨align8 s.end, e⟩ : SEv) ∈ txnLive s e := by
    unfold txnLive; simp [hne]
  have hmem : (⟨align8 s.end, e⟩ : SEv) ∈ (storeEvent s e).2.db.live := by
    rcases storeEvent_cases s e with ⟨r, _, hr, h⟩ | h | ⟨_, _, h⟩ | ⟨_, _, st, hd, h⟩ | h | h
    · rw [h] at hok; exact absurd hok (hr off)
    · rw [h] at hok; cases hok
    · rw [h]; exact hin_txn
    · rw [h]
      -- deletion handling never removes the request itself
      have keep : ∀ (tags : TagsRec) (st st' : DelSt), handleDeletion s.db.live e tags st = .ok st' →
          (⟨align8 s.end, e⟩ : SEv) ∈ st.live → (⟨align8 s.end, e⟩ : SEv) ∈ st'.live := by
        intro tags
        induction tags with
        | nil => intro st st' h hm; simp [handleDeletion] at h; subst h; exact hm
        | cons tag rest ih =>
          intro st st' h hm
          unfold handleDeletion at h
          split at h
          · rename_i st1 h1
            refine ih st1 st' h ?_
            unfold delTag at h1
            repeat' split at h1
            all_goals first
              | (simp only [DelOut.ok.injEq] at h1; subst h1; exact hm)
              | skip
            · rename_i id _
              unfold delE at h1
              by_cases hid : (id == e.id) = true
              · rw [if_pos hid] at h1; simp only [DelOut.ok.injEq] at h1; subst h1; exact hm
              · rw [if_neg hid] at h1
                split at h1
                · split at h1
                  · cases h1
                  · simp only [DelOut.ok.injEq] at h1; subst h1
                    simp only [removeId, List.mem_filter, bne_iff_ne, ne_eq]
                    exact ⟨hm, fun heq => hid (by simp [heq])⟩
                · simp only [DelOut.ok.injEq] at h1; subst h1; exact hm
            · unfold delA at h1
              repeat' split at h1
              all_goals first
                | (cases h1; done)
                | skip
              simp only [DelOut.ok.injEq] at h1; subst h1
              unfold removeAt
              repeat' split
              · simp only [removeReplaceable, List.mem_filter, Bool.not_eq_true', List.any_eq_false,
                  beq_iff_eq]
                exact ⟨hm, fun x hx hoff => hfresh x hx.1 hoff⟩
              · simp only [removeParam, List.mem_filter, Bool.not_eq_true', List.any_eq_false, beq_iff_eq]
                exact ⟨hm, fun x hx hoff => hfresh x hx.1 hoff⟩
              · exact hm
          · cases h
          · cases h
      exact keep e.tags _ st hd hin_txn
    · rw [h] at hok; cases hok
    · rw [h] at hok; cases hok
  unfold findById
  rw [List.find?_isSome]
  exact ⟨_, hmem, by simp⟩

/-- **of two submissions of the same (non-ephemeral) event, executed in either serial order, exactly
one succeeds**: the second is refused as a duplicate -/
theorem one_winner (s : Store) (hi : Inv s) (e : EventRec) (off : Nat)
    (hok : (storeEvent s e).1 = .ok off) (hne : isEphemeral e.kind = false) :
    (storeEvent (storeEvent s e).2 e).1 = .duplicate := by
  have hl := store_ok_live s hi e off hok hne
  have hr : refusal (storeEvent s e).2.db e = some .duplicate := by
    unfold refusal; rw [if_pos hl]
  generalize (storeEvent s e).2 = s' at hr
  unfold storeEvent
  rw [hr]

/-! ### a query reads ONE snapshot -/

/-- an ids query whose every lookup went to a fresh snapshot: `states[i]` is the committed store at the
instant the i-th listed id is looked up (what the ids plan of `find_events` did before repair #33) -/
def idsFresh (states : List Store) (ids : List Bytes) : List Bytes :=
  ((ids.zip states).filterMap fun (id, st) => findById st.db.live id).map (·.e.id)

/-- the same query answered from one committed state -/
def idsIn (st : Store) (ids : List Bytes) : List Bytes := (ids.filterMap (findById st.db.live)).map (·.e.id)

/-- why the query must keep to the transaction it opened: if the three lookups of `ids = [x, a, y]` fall
before, between and after two stores, the answer `{a, y}` is the answer in NO committed state — neither
before both stores (`{a}`), nor between them (`{x, a}`), nor after both (`{x, a, y}`).  The model's
`findEvents` reads one state by construction; the schedule is forced on the real store by the C14 check. -/
theorem ids_fresh_snapshots_witness :
    let a : EventRec := ⟨List.replicate 32 1, List.replicate 32 9, [], 1, 5, [], []⟩
    let x : EventRec := ⟨List.replicate 32 2, List.replicate 32 9, [], 1, 6, [], []⟩
    let y : EventRec := ⟨List.replicate 32 3, List.replicate 32 9, [], 1, 7, [], []⟩
    let s0 := run {} [.store a]
    let s1 := run {} [.store a, .store x]
    let s2 := run {} [.store a, .store x, .store y]
    let ids := [x.id, a.id, y.id]
    idsFresh [s0, s0, s2] ids = [a.id, y.id] ∧
    idsIn s0 ids ≠ [a.id, y.id] ∧ idsIn s1 ids ≠ [a.id, y.id] ∧ idsIn s2 ids ≠ [a.id, y.id] := by
  decide +kernel

end Pocket.C14
