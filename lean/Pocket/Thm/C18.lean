import Pocket.Spec.AbsStore
import Pocket.Lemmas.FromSourceKind
import Pocket.Lemmas.StoreRead
import Pocket.Lemmas.Vanish
/-
C18 — explicit removal and vanish remove exactly their targets.
-/
namespace Pocket.C18
open Pocket

/-- `remove_event(id)` makes exactly the event with that id unretrievable; markers and extra
tables are untouched -/
theorem remove_exact (s : Store) (id : Bytes) :
    (removeEvent s id).db.live = s.db.live.filter (fun x => x.e.id != id) ∧
    (removeEvent s id).db.delIds = s.db.delIds ∧ (removeEvent s id).db.delAddrs = s.db.delAddrs ∧
    (removeEvent s id).db.extra = s.db.extra ∧ (removeEvent s id).log = s.log :=
  ⟨rfl, rfl, rfl, rfl, rfl⟩

theorem removed_is_gone (s : Store) (id : Bytes) : getById (removeEvent s id) id = none := by
  unfold getById removeEvent removeId findById
  simp only [Option.map_eq_none_iff, List.find?_eq_none, List.mem_filter]
  intro x ⟨_, hx⟩; simpa using hx

theorem others_stay (s : Store) (hi : Inv s) (id : Bytes) (x : SEv) (hx : x ∈ s.db.live) (hne : x.e.id ≠ id) :
    getById (removeEvent s id) x.e.id = some x.e := by
  apply getById_of_mem _ (Inv_removeEvent s id hi)
  simp only [removeEvent, removeId, List.mem_filter, bne_iff_ne, ne_eq]
  exact ⟨hx, hne⟩

/-- removal leaves no deletion marker: the removed event is not refused as deleted or duplicate
when resubmitted (the usual replacement rules still apply) -/
theorem resubmit_after_remove (s : Store) (e : EventRec) :
    refusal (removeEvent s e.id).db e = none ∨ refusal (removeEvent s e.id).db e = some .deleted := by
  unfold refusal
  have : findById (removeEvent s e.id).db.live e.id = none := by
    have := removed_is_gone s e.id
    unfold getById at this
    cases h : findById (removeEvent s e.id).db.live e.id with
    | none => rfl
    | some x => simp [h] at this
  simp only [this, Option.isSome_none, Bool.false_eq_true, if_false]
  repeat' split
  all_goals simp

theorem resubmit_not_deleted_by_removal (s : Store) (e : EventRec) (h : refusal s.db e = some .duplicate) :
    refusal (removeEvent s e.id).db e ≠ some .duplicate := by
  intro h2
  unfold refusal at h2
  have : findById (removeEvent s e.id).db.live e.id = none := by
    have := removed_is_gone s e.id
    unfold getById at this
    cases h : findById (removeEvent s e.id).db.live e.id with
    | none => rfl
    | some x => simp [h] at this
  simp only [this, Option.isSome_none, Bool.false_eq_true, if_false] at h2
  repeat' split at h2
  all_goals simp at h2

/-- vanish only removes index entries: nothing is added, markers and extra tables are untouched -/
theorem vanish_only_removes (s : Store) (pk : Bytes) :
    (vanish s pk).db.live.Sublist s.db.live ∧ (vanish s pk).db.delIds = s.db.delIds ∧
    (vanish s pk).db.delAddrs = s.db.delAddrs ∧ (vanish s pk).db.extra = s.db.extra ∧
    (vanish s pk).log = s.log :=
  ⟨vanish_sublist s pk, rfl, rfl, rfl, rfl⟩

/-- **vanish removes exactly its targets**: in every reachable state (fewer than 2^32−1 events,
`u64` timestamps), after `vanish(pk)` an event is retrievable iff it was retrievable, was not
authored by `pk`, and is not a gift wrap (kind 1059) one of whose `p` tags has `pk` (lower-case
hex) as its value -/
theorem vanish_exact (ops : List Op) (pk : Bytes) (x : SEv)
    (hlen : (run {} ops).db.live.length < U32MAX)
    (ht : ∀ y ∈ (run {} ops).db.live, y.e.createdAt ≤ U64MAX) :
    x ∈ (vanish (run {} ops) pk).db.live ↔
      (x ∈ (run {} ops).db.live ∧ x.e.pubkey ≠ pk ∧
        ¬ (x.e.kind = 1059 ∧ tagsMatch x.e.tags KEY_P (hexOf pk) = true)) :=
  Pocket.vanish_exact _ (Inv_run {} ops Inv_init).liveIds (C09.one_per_address ops) hlen ht pk x

/-- storing an ephemeral event succeeds (unless it is a duplicate/deleted id, which it cannot be:
it is never indexed) and leaves the set of retrievable events unchanged -/
theorem ephemeral_never_live (s : Store) (e : EventRec) (he : isEphemeral e.kind = true)
    (hr : refusal s.db e = none) :
    storeEvent s e = (.ok (align8 s.end), commitPlain s e) ∧ (commitPlain s e).db.live = s.db.live := by
  have hk : 20000 ≤ e.kind ∧ e.kind < 30000 := by
    unfold isEphemeral at he; simpa using he
  have h5 : e.kind ≠ 5 := by omega
  have hnr : isReplaceable e.kind = false := by unfold isReplaceable; simp; omega
  have hnp : isParamReplaceable e.kind = false := by unfold isParamReplaceable; simp; omega
  have hpre : preRemove s.db.live e = (s.db.live, false) := by
    unfold preRemove; simp [hnr, hnp]
  constructor
  · unfold storeEvent
    simp only [hr, hpre, Bool.false_eq_true, if_false, h5]
  · unfold commitPlain txnLive
    simp only [he, if_true, hpre]

/-! ### tie to the source text: what /repo says now (translated on every run by `lib/srcfacts.py`) is what the model says -/

/-- "ephemeral" is what `Kind::is_ephemeral` says today -/
theorem ephemeral_from_source (k : Nat) : Src.kindIsEphemeral k = isEphemeral k := (kind_predicates_from_source k).2.1

/-! ### the property read on the specification (`Spec/AbsStore.lean`) -/

/-- C18 read on the specification: `remove_event` takes away exactly the events with that id, `vanish` exactly the key's own
events and the kind-1059 events whose `p` tag names it (lower-case hex, first value); markers, log and everything else untouched -/
theorem spec_remove_vanish_exact (a : Abs) (id pk : Bytes) (x : EventRec) :
    (x ∈ (absRemove a id).live ↔ x ∈ a.live ∧ x.id ≠ id) ∧
    (x ∈ (absVanish a pk).live ↔ x ∈ a.live ∧ x.pubkey ≠ pk ∧ ¬(x.kind = 1059 ∧ tagsMatch x.tags KEY_P (hexOf pk) = true)) ∧
    (absRemove a id).delIds = a.delIds ∧ (absRemove a id).delAddrs = a.delAddrs ∧ (absRemove a id).log = a.log ∧
    (absVanish a pk).delIds = a.delIds ∧ (absVanish a pk).delAddrs = a.delAddrs ∧ (absVanish a pk).log = a.log := by
  refine ⟨?_, ?_, rfl, rfl, rfl, rfl, rfl, rfl⟩
  · simp [absRemove, List.mem_filter]
  · simp only [absVanish, List.mem_filter, Bool.and_eq_true, Bool.not_eq_true', beq_eq_false_iff_ne, ne_eq, Bool.and_eq_false_iff]
    constructor
    · rintro ⟨h1, h2, h3⟩
      refine ⟨h1, h2, ?_⟩
      rintro ⟨hk, ht⟩
      rcases h3 with h | h
      · exact h hk
      · rw [ht] at h; cases h
    · rintro ⟨h1, h2, h3⟩
      refine ⟨h1, h2, ?_⟩
      by_cases hk : x.kind = 1059
      · right
        cases ht : tagsMatch x.tags KEY_P (hexOf pk)
        · rfl
        · exact absurd ⟨hk, ht⟩ h3
      · exact Or.inl hk

end Pocket.C18
