import Pocket.Lemmas.Refine2
import Pocket.Lemmas.StoreDel
/-
C10 — a deletion request can never remove another author's events.
Stated for *every* stored event (not only kind 5): whatever one key submits — a deletion request
naming ids and addresses in any order, a replacement, anything — and whatever the call returns,
nothing of another key becomes unretrievable or marked.
-/
namespace Pocket.C10
open Pocket

/-- no history makes a retrievable event of one key unretrievable through an event submitted
by a different key -/
theorem foreign_delete_harmless (s : Store) (hi : Inv s) (req : EventRec) (v : SEv)
    (hv : v ∈ s.db.live) (hpk : v.e.pubkey ≠ req.pubkey) :
    v ∈ (storeEvent s req).2.db.live ∧ getById (storeEvent s req).2 v.e.id = some v.e := by
  have h1 := store_keeps_foreign s hi req v hv hpk
  exact ⟨h1, getById_of_mem _ (Inv_storeEvent s req hi) v h1⟩

/-- … and it leaves no deletion marker on the other author's stored event … -/
theorem no_marker_on_foreign_event (s : Store) (hi : Inv s) (req : EventRec) (v : SEv)
    (hv : v ∈ s.db.live) (hpk : v.e.pubkey ≠ req.pubkey) (hnot : v.e.id ∉ s.db.delIds) :
    v.e.id ∉ (storeEvent s req).2.db.delIds := by
  intro hin
  rcases (storeEvent_markers s hi req).1 _ hin with h | h
  · exact hnot h
  · exact hpk (h v hv rfl)

/-- … nor on any address of another author, so that author's events are not refused later -/
theorem no_marker_on_foreign_address (s : Store) (hi : Inv s) (req : EventRec) (k : Nat) (a d : Bytes)
    (ha : a ≠ req.pubkey) :
    delAddrGet (storeEvent s req).2.db.delAddrs (k, a, d) = delAddrGet s.db.delAddrs (k, a, d) :=
  (storeEvent_markers s hi req).2.2.1 k a d ha

/-- over whole histories: the victim stays retrievable as long as only *other* keys submit events -/
theorem foreign_history_harmless (s : Store) (hi : Inv s) (v : SEv) (hv : v ∈ s.db.live)
    (reqs : List EventRec) (hall : ∀ r ∈ reqs, r.pubkey ≠ v.e.pubkey) :
    v ∈ (run s (reqs.map Op.store)).db.live := by
  induction reqs generalizing s with
  | nil => exact hv
  | cons r rs ih =>
    have h1 := store_keeps_foreign s hi r v hv (fun h => hall r (by simp) h.symm)
    exact ih _ (Inv_storeEvent s r hi) h1 (fun r' hr' => hall r' (by simp [hr']))

/-- non-vacuity: a request that names a foreign event after an own one is refused as a whole,
the foreign event stays, and the own one too -/
example :
    let a := List.replicate 32 10
    let b := List.replicate 32 11
    let e1 : EventRec := ⟨List.replicate 32 1, a, [], 1, 5, [], []⟩
    let e2 : EventRec := ⟨List.replicate 32 2, b, [], 30000, 5, [[[100], [120]]], []⟩
    let req : EventRec := ⟨List.replicate 32 3, a, [], 5, 9,
      [[[101], hexOf (List.replicate 32 1)], [[97], [51, 48, 48, 48, 48, 58] ++ hexOf b ++ [58, 120]]], []⟩
    let s := run {} [.store e1, .store e2]
    (storeEvent s req).1 = .invalidDelete ∧ ((storeEvent s req).2.db.live.map (·.e.id)).length = 2 := by
  decide +kernel

/-! ### the property read on the specification (the abstract store of `Spec/AbsStore.lean`, which `full_history_refines` proves
the concrete model computes for every history) -/

/-- after any history, an event that is retrievable in the abstract store stays retrievable through every continuation made of
events (deletion requests included) signed by OTHER keys -/
theorem spec_foreign_history_harmless (pre : List Op) (reqs : List EventRec) (v : EventRec)
    (ht : ∀ op ∈ pre ++ reqs.map Op.store, opTimeOk op) (hlen : (pre ++ reqs.map Op.store).length < U32MAX)
    (hv : v ∈ (pre.foldl absOp {}).live) (hall : ∀ r ∈ reqs, r.pubkey ≠ v.pubkey) :
    v ∈ ((pre ++ reqs.map Op.store).foldl absOp {}).live := by
  have e0 : Abs.of ({} : Store) = ({} : Abs) := rfl
  have h1 := full_history_refines pre (fun op h => ht op (List.mem_append_left _ h))
    (by simp only [List.length_append] at hlen; omega)
  have h2 := full_history_refines (pre ++ reqs.map Op.store) ht hlen
  rw [e0] at h1 h2
  rw [← h1] at hv
  rw [← h2]
  simp only [Abs.of, List.mem_map] at hv ⊢
  obtain ⟨x, hx, rfl⟩ := hv
  refine ⟨x, ?_, rfl⟩
  have hr : run {} (pre ++ reqs.map Op.store) = run (run {} pre) (reqs.map Op.store) := by
    simp [run, List.foldl_append]
  rw [hr]
  exact foreign_history_harmless (run {} pre) (Inv_run {} pre Inv_init) x hx reqs hall

end Pocket.C10
