import Pocket.Lemmas.EventMap
import Pocket.Model.Refs
import Pocket.Lemmas.StoreRead
/-
C15 — event references stay valid and unchanged while the store lives.
The *bytes* an offset denotes never change (C04).  The *address* does: the property is FALSE of
the code whenever the map grows, because mmap-append remaps at a new address and unmaps the old
one.  Recorded as an open known finding (DESIGN.md §7 #22); the theorems state exactly when
references stay valid, and exhibit an execution in which one dangles.
-/
namespace Pocket.C15
open Pocket

/-- the bytes at an offset are stable for ever (any continuation without rebuild) -/
theorem bytes_stable (s : Store) (hi : Inv s) (x : SEv) (hx : x ∈ s.log) (ops : List Op)
    (hno : NoRebuild ops) : getByOffset (run s ops) x.off = some x.e :=
  getByOffset_of_mem _ (Inv_run s ops hi) x (run_log_mono s ops hno x hx)

/-- without a growth step every reference stays valid -/
theorem refs_stable_no_growth (v : MapView) (x : SEv) (steps : List MapStep)
    (hs : ∀ st ∈ steps, st = MapStep.stay) : refValid (steps.foldl mapStep v) (takeRef v x) := by
  induction steps generalizing v with
  | nil => rfl
  | cons st rest ih =>
    have : st = .stay := hs st (by simp)
    subst this
    exact ih v (fun s' hs' => hs s' (by simp [hs']))

/-- a reference stays valid across a sequence of steps iff the mapping ends where it began -/
theorem refs_stable_iff (v : MapView) (x : SEv) (steps : List MapStep) :
    refValid (steps.foldl mapStep v) (takeRef v x) ↔ (steps.foldl mapStep v).base = v.base := by
  unfold refValid takeRef
  constructor
  · intro h; simp only at h; omega
  · intro h; simp only; omega

/-- **witness**: one growth step that moves the mapping leaves an earlier reference dangling -/
theorem growth_may_move_witness :
    ∃ (v : MapView) (x : SEv) (steps : List MapStep),
      ¬ refValid (steps.foldl mapStep v) (takeRef v x) :=
  ⟨⟨4096, true⟩, ⟨8, default⟩, [.grow 8192], by unfold refValid takeRef; simp [mapStep]⟩

/-- **what was written stays inside the file**: a store — whatever growth rounds it needs, `set_len`
being able to truncate — only appends at or beyond the old end marker and never leaves the file shorter
than that marker, so the bytes under every earlier reference are still the file's bytes at that offset
(that they are still at the same ADDRESS is the open finding: the mapping may move) -/
theorem written_region_survives_store (chunk : Nat) (hc : chunk % 8 = 0) (hpos : 0 < chunk) (m : EMap) (hi : EMInv m)
    (size : Nat) :
    ∃ m', emStore chunk m size = .ok (align8 m.marker, m') ∧ m.marker ≤ align8 m.marker ∧
      align8 m.marker + size = m'.marker ∧ m'.marker ≤ m'.fileLen ∧ m.fileLen ≤ m'.fileLen := by
  obtain ⟨m', h1, h2, h3, h4⟩ := emStore_ok chunk hc hpos m hi size
  exact ⟨m', h1, align8_ge m.marker, h3.symm, by rw [← h2.mapFile]; exact h2.inMap, h4⟩

end Pocket.C15
