import Pocket.Lemmas.FromSourceHex
import Pocket.Lemmas.ParseWF
import Pocket.Lemmas.Digits
import Pocket.Lemmas.EventOrder
import Pocket.Lemmas.EventUnknown
/-
C01 — event JSON parsing is faithful to an independent JSON parser.

Proved here (all inputs, no bound): whatever text is accepted, the result is the encoding of an
event whose seven parts are within their fields and which every accessor reads back
(`accepted_is_wellformed`); integer literals are read exactly, and literals that do not fit
(`created_at ≥ 2^64`, `kind > 65535`, any number of digits) are rejected, never wrapped.
Completeness, proved for the texts whose member *values* are rendered as `as_json` renders them
(every escape it uses, every UTF-8 string, every size): the seven members, each exactly once, in
ANY of the 5040 orders, with ANY whitespace after `{`, before each key, around each colon and
after each value, preceded by any whitespace and followed by anything, are accepted with exactly
the values of the event, into any sufficient buffer (`any_order_any_whitespace`) — including the
orders in which `content` precedes `tags` (skipped first, read when the tags are in place).
UNKNOWN MEMBERS (`any_order_any_whitespace_unknown_members`): the same with any number of additional
members interleaved anywhere, each `"key" : value` with ANY JSON string as key other than the seven
names and ANY JSON value nested at most 64 deep (an inductive grammar `JT`: strings with any escapes,
numbers, `true`/`false`/`null`, arrays and objects with any whitespace) — skipped exactly, leaving the
seven values untouched.
EVERY JSON SPELLING (`complete_any_json_spelling`): the same for the tags array and the content in
ANY JSON spelling — whitespace inside the arrays wherever JSON allows it, every string written with
any legal escapes (raw UTF-8, `\" \\ \/ \b \f \n \r \t`, `\uXXXX` in either hex case for every
non-surrogate code point below 0x10000): the relations `TagsText` and `Spells` are the grammar, and
`read_tags_array` (both passes) and `json_unescape` are proved to read every text of it back.
What remains outside the theorems: upper-case hex in id/pubkey/sig, integer members written with a
fraction or exponent, duplicate members, unknown values nested deeper than 64 — decided by the
correspondence check against Python's `json` over the concrete-syntax-tree generator.
-/
namespace Pocket.C01
open Pocket

/-- an accepted text yields exactly the encoding of a sized event, inside the buffer, with the
rest of the buffer untouched; the consumed length is within the input -/
theorem accepted_is_wellformed (inp buf : Bytes) (c n : Nat) (out : Bytes)
    (h : parseEvent inp buf = .ok (c, n, out)) :
    ∃ e, EventSized e ∧ out = encodeEvent e ++ buf.drop n ∧ n = (encodeEvent e).length ∧
      eventDecode (out.take n) = .ok e ∧ c ≤ inp.length := by
  obtain ⟨e, hs, rfl, hn, _, hc⟩ := parseEvent_wf inp buf c n out h
  exact ⟨e, hs, rfl, hn, by rw [List.take_left' hn.symm]; exact eventDecode_encode e hs, hc⟩

/-- never a reduced (wrapped) integer: the accepted kind and created_at are within range -/
theorem accepted_values_in_range (inp buf : Bytes) (c n : Nat) (out : Bytes)
    (h : parseEvent inp buf = .ok (c, n, out)) :
    ∃ e, eventDecode (out.take n) = .ok e ∧ e.kind < 65536 ∧ e.createdAt < 18446744073709551616 := by
  obtain ⟨e, hs, _, _, hd, _⟩ := accepted_is_wellformed inp buf c n out h
  exact ⟨e, hd, hs.kind, hs.t⟩

/-- a decimal literal that fits is read exactly, whatever follows it (that is not a digit) -/
theorem created_at_literal (n : Nat) (rest : Bytes) (hn : n < 18446744073709551616)
    (hr : NoLeadingDigit rest) : readU64 (decOf n ++ rest) = .ok (n, rest) :=
  readU64_decOf n rest hn hr

/-- a decimal literal of 2^64 or more — with any number of digits — is rejected -/
theorem created_at_wide_rejected (n : Nat) (rest : Bytes) (hn : n ≥ 18446744073709551616)
    (hr : NoLeadingDigit rest) : readU64 (decOf n ++ rest) = .err :=
  readU64_decOf_wide n rest hn hr

theorem kind_literal (n : Nat) (rest : Bytes) (hn : n < 65536) (hr : NoLeadingDigit rest) :
    readKind (decOf n ++ rest) = .ok (n, rest) := readKind_decOf n rest hn hr

theorem kind_wide_rejected (n : Nat) (rest : Bytes) (hn : n ≥ 65536) (hr : NoLeadingDigit rest) :
    readKind (decOf n ++ rest) = .err := readKind_decOf_wide n rest hn hr

/-- **order independence and whitespace tolerance**: for every well-sized UTF-8 event, the seven
members (values as `as_json` renders them) each exactly once, in any order, with any whitespace
before each key, around each colon and after each value, after any leading whitespace and `{`,
followed by anything: accepted, consuming up to the closing brace, with exactly the bytes
`from_parts` writes — so every accessor returns the event's value -/
theorem any_order_any_whitespace (e : EventRec) (hs : EventSized e)
    (hbid : ∀ b ∈ e.id, b < 256) (hbpk : ∀ b ∈ e.pubkey, b < 256) (hbsig : ∀ b ∈ e.sig, b < 256)
    (hut : TagsUtf8 e.tags) (huc : IsUtf8 e.content) (buf : Bytes)
    (hbuf : (encodeEvent e).length ≤ buf.length)
    (ms : List MemSpec) (hws : ∀ x ∈ ms, x.WsOk) (hnd : (ms.map (·.m)).Nodup)
    (hall : ∀ m : EMem, m ∈ ms.map (·.m)) (lead : Bytes) (hlead : AllWs lead) (R : Bytes) :
    ∃ tj ec, tagsJson e.tags = .ok tj ∧ jsonEscape e.content = .ok ec ∧
      parseEvent (lead ++ 123 :: evText e tj ec ms R) buf =
        .ok ((lead ++ 123 :: evText e tj ec ms R).length - R.length, (encodeEvent e).length,
          encodeEvent e ++ buf.drop (encodeEvent e).length) ∧
      eventDecode ((encodeEvent e ++ buf.drop (encodeEvent e).length).take (encodeEvent e).length) = .ok e := by
  obtain ⟨tj, htj⟩ := tagsJson_ok e.tags hut
  obtain ⟨ec, hec⟩ := IsUtf8_escape e.content huc
  have hlen : (encodeEvent e).length = eventSize (tagsSize e.tags) e.content.length := by
    unfold encodeEvent
    rw [encodeEventWith_length _ _ _ _ _ _ _ hs.id hs.pk hs.sig, encodeTags_length]
  have hc : ECtx e tj ec buf.length :=
    ⟨hs, hbid, hbpk, hbsig, tagsJson_text e.tags hut tj htj, jsonEscape_spells e.content ec huc hec,
      by rw [hlen] at hbuf; unfold eventSize at hbuf; exact hbuf⟩
  refine ⟨tj, ec, htj, hec, parseEvent_any_order e tj ec buf hc ms hws hnd hall lead hlead R, ?_⟩
  rw [List.take_left' rfl]
  exact eventDecode_encode e hs

/-- **… and any additional unknown members**: the seven members in any order interleaved with any
number of unknown members (any other JSON string as key, any JSON value nested at most 64 deep as
value), any whitespace at every token boundary: accepted with exactly the bytes `from_parts` writes -/
theorem any_order_any_whitespace_unknown_members (e : EventRec) (hs : EventSized e)
    (hbid : ∀ b ∈ e.id, b < 256) (hbpk : ∀ b ∈ e.pubkey, b < 256) (hbsig : ∀ b ∈ e.sig, b < 256)
    (hut : TagsUtf8 e.tags) (huc : IsUtf8 e.content) (buf : Bytes)
    (hbuf : (encodeEvent e).length ≤ buf.length)
    (ms : List ESpec) (hws : ∀ x ∈ ms, x.WsOk) (hnd : (ms.filterMap ESpec.mem?).Nodup)
    (hall : ∀ m : EMem, m ∈ ms.filterMap ESpec.mem?) (lead : Bytes) (hlead : AllWs lead) (R : Bytes) :
    ∃ tj ec, tagsJson e.tags = .ok tj ∧ jsonEscape e.content = .ok ec ∧
      parseEvent (lead ++ 123 :: evTextU e tj ec ms R) buf =
        .ok ((lead ++ 123 :: evTextU e tj ec ms R).length - R.length, (encodeEvent e).length,
          encodeEvent e ++ buf.drop (encodeEvent e).length) ∧
      eventDecode ((encodeEvent e ++ buf.drop (encodeEvent e).length).take (encodeEvent e).length) = .ok e := by
  obtain ⟨tj, htj⟩ := tagsJson_ok e.tags hut
  obtain ⟨ec, hec⟩ := IsUtf8_escape e.content huc
  have hlen : (encodeEvent e).length = eventSize (tagsSize e.tags) e.content.length := by
    unfold encodeEvent
    rw [encodeEventWith_length _ _ _ _ _ _ _ hs.id hs.pk hs.sig, encodeTags_length]
  have hc : ECtx e tj ec buf.length :=
    ⟨hs, hbid, hbpk, hbsig, tagsJson_text e.tags hut tj htj, jsonEscape_spells e.content ec huc hec,
      by rw [hlen] at hbuf; unfold eventSize at hbuf; exact hbuf⟩
  refine ⟨tj, ec, htj, hec, parseEvent_any_order_unknown e tj ec buf hc ms hws hnd hall lead hlead R, ?_⟩
  rw [List.take_left' rfl]
  exact eventDecode_encode e hs

/-- **completeness for every JSON spelling**: the tags array in ANY JSON spelling (`TagsText`: whitespace
after every `[`, before every `]`, round every comma; every string with any legal escapes — raw UTF-8,
the short escapes incl. `\/`, `\uXXXX` with either hex case for every non-surrogate code point below
0x10000) and the content likewise (`Spells`); id, pubkey and sig as lower-case hex, kind and created_at
as decimal integers; the seven members in any order, any number of unknown members of any JSON shape
(nested at most 64 deep) in between, any whitespace at every token boundary, after any leading
whitespace and followed by anything: accepted into any sufficient buffer, consuming up to the closing
brace, with exactly the bytes `from_parts` writes — every accessor returns the event's value -/
theorem complete_any_json_spelling (e : EventRec) (hs : EventSized e)
    (hbid : ∀ b ∈ e.id, b < 256) (hbpk : ∀ b ∈ e.pubkey, b < 256) (hbsig : ∀ b ∈ e.sig, b < 256)
    (tj ec : Bytes) (htj : TagsText e.tags tj) (hec : Spells e.content ec) (buf : Bytes)
    (hbuf : (encodeEvent e).length ≤ buf.length)
    (ms : List ESpec) (hws : ∀ x ∈ ms, x.WsOk) (hnd : (ms.filterMap ESpec.mem?).Nodup)
    (hall : ∀ m : EMem, m ∈ ms.filterMap ESpec.mem?) (lead : Bytes) (hlead : AllWs lead) (R : Bytes) :
    parseEvent (lead ++ 123 :: evTextU e tj ec ms R) buf =
      .ok ((lead ++ 123 :: evTextU e tj ec ms R).length - R.length, (encodeEvent e).length,
        encodeEvent e ++ buf.drop (encodeEvent e).length) ∧
    eventDecode ((encodeEvent e ++ buf.drop (encodeEvent e).length).take (encodeEvent e).length) = .ok e := by
  have hlen : (encodeEvent e).length = eventSize (tagsSize e.tags) e.content.length := by
    unfold encodeEvent
    rw [encodeEventWith_length _ _ _ _ _ _ _ hs.id hs.pk hs.sig, encodeTags_length]
  have hc : ECtx e tj ec buf.length :=
    ⟨hs, hbid, hbpk, hbsig, htj, hec, by rw [hlen] at hbuf; unfold eventSize at hbuf; exact hbuf⟩
  refine ⟨parseEvent_any_order_unknown e tj ec buf hc ms hws hnd hall lead hlead R, ?_⟩
  rw [List.take_left' rfl]
  exact eventDecode_encode e hs

/-- the spelling grammar is inhabited by non-canonical spellings: the tags `[["e","é\n"],[]]` written
`[ [ "\u0065" , "\u00E9\n" ] , [ ] ]` and the content `a/"` written `\u0061\/\"` -/
example : TagsText [[utf8Of [101], utf8Of [233, 10]], []]
      (91 :: ([32] ++ 91 :: ([32] ++ ((34 :: ([92, 117, 48, 48, 54, 53] ++ 34 ::
        ([32] ++ 44 :: ([32] ++ 34 :: (([92, 117, 48, 48, 69, 57] ++ ([92, 110] ++ [])) ++ 34 :: ([32] ++ [93])))))) ++
        ([32] ++ 44 :: ([32] ++ 91 :: ([32] ++ ([93] ++ ([32] ++ [93]))))))))) ∧
    Spells (utf8Of [97, 47, 34]) ([92, 117, 48, 48, 54, 49] ++ ([92, 47] ++ ([92, 34] ++ []))) := by
  have ws : AllWs [32] := by intro b hb; simp at hb; subst hb; decide
  have wn : AllWs [] := by intro b hb; cases hb
  refine ⟨.tags _ _ [32] [32] _ _ ws ws (.strs _ _ _ _ ?_ (.more _ _ [32] [32] _ _ ws ws ?_ (.close [32] ws)))
    (.more [] [] [32] [32] [32] [93] _ ws ws ws .empty (.close [32] ws)), ?_⟩
  · exact ⟨[101], by
      have := SpelledL.cons 101 [] _ [] (Spelling.u 48 48 54 53 0 0 6 5 (by decide) (by decide) (by decide) (by decide) (by decide)) .nil
      simpa using this, rfl⟩
  · exact ⟨[233, 10], .cons 233 [10] _ _ (Spelling.u 48 48 69 57 0 0 14 9 (by decide) (by decide) (by decide) (by decide) (by decide))
      (.cons 10 [] _ [] .n .nil), rfl⟩
  · exact ⟨[97, 47, 34], .cons 97 _ _ _ (Spelling.u 48 48 54 49 0 0 6 1 (by decide) (by decide) (by decide) (by decide) (by decide))
      (.cons 47 _ _ _ .slash (.cons 34 [] _ [] .quote .nil)), rfl⟩

/-- the grammar of skipped values is inhabited by nested, mixed values: `{"a":[1,true],"b":"x\"y"}` -/
example : JT .val 2 (123 :: ([] ++ 34 :: ([97] ++ 34 :: ([] ++ 58 :: ([] ++
    ((91 :: ([] ++ ([49] ++ ([44] ++ ([116, 114, 117, 101] ++ ([] ++ [93])))))) ++
     ([44] ++ 34 :: ([98] ++ 34 :: ([] ++ 58 :: ([] ++ ((34 :: ([120, 92, 34, 121] ++ [34])) ++ ([] ++ [125])))))))))))) := by
  refine .obj _ (.mCons [] [97] [] [] _ _ (by intro b hb; cases hb) (.raw 97 [] (by decide) (by decide) .nil)
    (by intro b hb; cases hb) (by intro b hb; cases hb) ?_ ?_ ?_)
  · refine .arr _ (.eCons [] [49] _ (by intro b hb; cases hb) (.num [49] ⟨49, [], rfl, Or.inr (by decide), by simp⟩) ?_ ?_)
    · refine .eCons [44] [116, 114, 117, 101] _ (by intro b hb; simp at hb; exact Or.inr hb) .tru
        (.eEnd [] (by intro b hb; cases hb)) ?_
      intro b r h; simp at h; obtain ⟨rfl, _⟩ := h; decide
    · intro b r h; simp at h; obtain ⟨rfl, _⟩ := h; decide
  · refine .mCons [44] [98] [] [] _ _ (by intro b hb; simp at hb; exact Or.inr hb) (.raw 98 [] (by decide) (by decide) .nil)
      (by intro b hb; cases hb) (by intro b hb; cases hb)
      (.str [120, 92, 34, 121] (.raw 120 _ (by decide) (by decide) (.esc 34 _ (.raw 121 _ (by decide) (by decide) .nil))))
      (.mEnd [] (by intro b hb; cases hb)) ?_
    intro b r h; simp at h; obtain ⟨rfl, _⟩ := h; decide
  · intro b r h; simp at h; obtain ⟨rfl, _⟩ := h; decide

/-- … and the member-list hypotheses by a text with two unknown members among the seven -/
example : ∃ ms : List ESpec, (∀ x ∈ ms, x.WsOk) ∧ (ms.filterMap ESpec.mem?).Nodup ∧
    (∀ m : EMem, m ∈ ms.filterMap ESpec.mem?) ∧ ms.length = 9 := by
  refine ⟨[.unknown [32] [120] [] [32] [110, 117, 108, 108] [], .known ⟨[32], [9], [10], [13], .sig⟩,
    .known ⟨[], [32, 32], [], [10], .content⟩, .known ⟨[10], [], [], [], .kind⟩,
    .unknown [] [105, 100, 115] [] [] [45, 49, 46, 53, 101, 43, 51] [10],
    .known ⟨[], [], [32], [], .tags⟩, .known ⟨[], [], [], [], .id⟩, .known ⟨[9], [], [], [32], .createdAt⟩,
    .known ⟨[], [], [], [10, 10], .pubkey⟩], ?_, by decide, ?_, rfl⟩
  · intro x hx
    simp only [List.mem_cons, List.not_mem_nil, or_false] at hx
    have wsok : ∀ w : Bytes, (∀ b ∈ w, b = 32 ∨ b = 9 ∨ b = 10 ∨ b = 13) → AllWs w := by
      intro w h b hb
      rcases h b hb with rfl | rfl | rfl | rfl <;> decide
    rcases hx with rfl | rfl | rfl | rfl | rfl | rfl | rfl | rfl | rfl
    · refine ⟨wsok _ (by simp), wsok _ (by simp), wsok _ (by simp), wsok _ (by simp),
        .raw 120 [] (by decide) (by decide) .nil, by decide, 0, by decide, .nul⟩
    · exact ⟨wsok _ (by simp), wsok _ (by simp), wsok _ (by simp), wsok _ (by simp)⟩
    · exact ⟨wsok _ (by simp), wsok _ (by simp), wsok _ (by simp), wsok _ (by simp)⟩
    · exact ⟨wsok _ (by simp), wsok _ (by simp), wsok _ (by simp), wsok _ (by simp)⟩
    · refine ⟨wsok _ (by simp), wsok _ (by simp), wsok _ (by simp), wsok _ (by simp),
        .raw 105 _ (by decide) (by decide) (.raw 100 _ (by decide) (by decide) (.raw 115 _ (by decide) (by decide) .nil)),
        by decide, 0, by decide, .num _ ⟨45, [49, 46, 53, 101, 43, 51], rfl, Or.inl rfl, by decide⟩⟩
    · exact ⟨wsok _ (by simp), wsok _ (by simp), wsok _ (by simp), wsok _ (by simp)⟩
    · exact ⟨wsok _ (by simp), wsok _ (by simp), wsok _ (by simp), wsok _ (by simp)⟩
    · exact ⟨wsok _ (by simp), wsok _ (by simp), wsok _ (by simp), wsok _ (by simp)⟩
    · exact ⟨wsok _ (by simp), wsok _ (by simp), wsok _ (by simp), wsok _ (by simp)⟩
  · intro m; cases m <;> decide

/-- the canonical text itself (`as_json`) is accepted with the event's values -/
theorem canonical_text_faithful (e : EventRec) (hs : EventSized e)
    (hbid : ∀ b ∈ e.id, b < 256) (hbpk : ∀ b ∈ e.pubkey, b < 256) (hbsig : ∀ b ∈ e.sig, b < 256)
    (hut : TagsUtf8 e.tags) (huc : IsUtf8 e.content) (rest buf : Bytes)
    (hbuf : (encodeEvent e).length ≤ buf.length) :
    ∃ txt c n out, eventJson e = .ok txt ∧ parseEvent (txt ++ rest) buf = .ok (c, n, out) ∧
      c = txt.length ∧ eventDecode (out.take n) = .ok e := by
  obtain ⟨txt, ht⟩ := eventJson_ok e hut huc
  have hp := parseEvent_eventJson e hs hbid hbpk hbsig hut huc txt ht rest buf hbuf
  refine ⟨txt, _, _, _, ht, hp, rfl, ?_⟩
  rw [List.take_left' rfl]
  exact eventDecode_encode e hs

/-- the hypotheses on the member list are satisfiable by an order with `content` before `tags`,
`sig` first, and whitespace everywhere -/
example : ∃ ms : List MemSpec, (∀ x ∈ ms, x.WsOk) ∧ (ms.map (·.m)).Nodup ∧ (∀ m : EMem, m ∈ ms.map (·.m)) ∧
    ms.map (·.m) = [.sig, .content, .kind, .tags, .id, .createdAt, .pubkey] := by
  refine ⟨[⟨[32], [9], [10], [13], .sig⟩, ⟨[], [32, 32], [], [10], .content⟩, ⟨[10], [], [], [], .kind⟩,
    ⟨[], [], [32], [], .tags⟩, ⟨[], [], [], [], .id⟩, ⟨[9], [], [], [32], .createdAt⟩, ⟨[], [], [], [10, 10], .pubkey⟩], ?_, ?_, ?_, rfl⟩
  · intro x hx
    simp only [List.mem_cons, List.not_mem_nil, or_false] at hx
    rcases hx with rfl | rfl | rfl | rfl | rfl | rfl | rfl <;>
      (refine ⟨?_, ?_, ?_, ?_⟩ <;> intro b hb <;> simp at hb <;> (try rcases hb with rfl | rfl) <;> (try subst hb) <;> decide)
  · decide
  · intro m; cases m <;> decide

/-! ### tie to the source text: what /repo says now (translated on every run by `lib/srcfacts.py`) is what the model says -/

/-- the hex decoding of id / pubkey / sig: `read_hex!`'s lookup in the source's `HEX_INVERSE` table (index by byte; 255 and
bytes outside the table are not hex characters) is the model's `hexInv`, for every byte value -/
theorem hex_table_from_source (b : Nat) (hb : b < 256) :
    hexInv b = (match Src.hexInverse[b]? with | some h => if h = 255 then none else some h | none => none) :=
  Pocket.hex_table_from_source b hb

end Pocket.C01
