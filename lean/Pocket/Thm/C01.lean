import Pocket.Lemmas.ParseWF
import Pocket.Lemmas.Digits
/-
C01 — event JSON parsing is faithful to an independent JSON parser.

Proved here (all inputs, no bound): whatever text is accepted, the result is the encoding of an
event whose seven parts are within their fields and which every accessor reads back
(`accepted_is_wellformed`); integer literals are read exactly, and literals that do not fit
(`created_at ≥ 2^64`, `kind > 65535`, any number of digits) are rejected, never wrapped.
The completeness direction (every NIP-01 text is accepted, with the values an independent parser
extracts) is established by the correspondence check against Python's `json` over the
concrete-syntax-tree generator; its proof (`parseEvent_complete`, DESIGN.md §6/C01) is not
closed yet and is not claimed.
-/
namespace Pocket.C01
open Pocket

/-- an accepted text yields exactly the encoding of a sized event, inside the buffer, with the
rest of the buffer untouched; the consumed length is within the input -/
theorem accepted_is_wellformed (inp buf : Bytes) (c n : Nat) (out : Bytes)
    (h : parseEvent inp buf = .ok (c, n, out)) :
    ∃ e, EventSized e ∧ out = encodeEvent e ++ buf.drop n ∧ n = (encodeEvent e).length ∧
      eventDecode (out.take n) = .ok e ∧ c ≤ inp.length := by
  obtain ⟨e, hs, rfl, hn, _, hc⟩ := parseEvent_wf inp buf c n out h
  exact ⟨e, hs, rfl, hn, by rw [List.take_left' hn.symm]; exact eventDecode_encode e hs, hc⟩

/-- never a reduced (wrapped) integer: the accepted kind and created_at are within range -/
theorem accepted_values_in_range (inp buf : Bytes) (c n : Nat) (out : Bytes)
    (h : parseEvent inp buf = .ok (c, n, out)) :
    ∃ e, eventDecode (out.take n) = .ok e ∧ e.kind < 65536 ∧ e.createdAt < 18446744073709551616 := by
  obtain ⟨e, hs, _, _, hd, _⟩ := accepted_is_wellformed inp buf c n out h
  exact ⟨e, hd, hs.kind, hs.t⟩

/-- a decimal literal that fits is read exactly, whatever follows it (that is not a digit) -/
theorem created_at_literal (n : Nat) (rest : Bytes) (hn : n < 18446744073709551616)
    (hr : NoLeadingDigit rest) : readU64 (decOf n ++ rest) = .ok (n, rest) :=
  readU64_decOf n rest hn hr

/-- a decimal literal of 2^64 or more — with any number of digits — is rejected -/
theorem created_at_wide_rejected (n : Nat) (rest : Bytes) (hn : n ≥ 18446744073709551616)
    (hr : NoLeadingDigit rest) : readU64 (decOf n ++ rest) = .err :=
  readU64_decOf_wide n rest hn hr

theorem kind_literal (n : Nat) (rest : Bytes) (hn : n < 65536) (hr : NoLeadingDigit rest) :
    readKind (decOf n ++ rest) = .ok (n, rest) := readKind_decOf n rest hn hr

theorem kind_wide_rejected (n : Nat) (rest : Bytes) (hn : n ≥ 65536) (hr : NoLeadingDigit rest) :
    readKind (decOf n ++ rest) = .err := readKind_decOf_wide n rest hn hr

end Pocket.C01
