import Pocket.Lemmas.FromSourcePreds
import Pocket.Lemmas.FromSourceConsts
import Pocket.Model.Verify
import Pocket.Lemmas.Total
import Pocket.Lemmas.CanonInj
/-
C08 — verification accepts exactly correctly hashed and signed events.
SHA-256 (`H`) and BIP-340 (`SV`) are parameters; nothing is assumed about them except where a
theorem states it as a hypothesis.  The serialization determines the hashed fields
(`canon_determines_fields`: injectivity of `canon` on well-formed UTF-8 events, via the parsers as
its inverse), so ANY change to pubkey, created_at, kind, tags or content of a verifying event is
detected as soon as the hash does not collide on the two serializations (`field_tamper_detected`).
-/
namespace Pocket.C08
open Pocket

/-- verification succeeds exactly when the id is the hash of the canonical serialization of the
event's own fields and the signature verifies over that id under the event's pubkey -/
theorem verify_iff (H : Bytes → Bytes) (SV : Bytes → Bytes → Bytes → Bool) (e : EventRec) :
    verify H SV e = .ok () ↔ ∃ c, canon e = .ok c ∧ e.id = H c ∧ SV e.pubkey e.id e.sig = true := by
  unfold verify
  cases hc : canon e with
  | ok c =>
    by_cases h1 : H c = e.id
    · cases h2 : SV e.pubkey (H c) e.sig with
      | true =>
        simp only [h1, if_true]
        rw [h1] at h2
        simp only [h2, if_true, true_iff]
        exact ⟨c, rfl, h1.symm, trivial⟩
      | false =>
        simp only [h1, if_true]
        rw [h1] at h2
        simp only [h2, Bool.false_eq_true, if_false]
        constructor
        · intro h; cases h
        · intro ⟨c', _, _, hsv⟩; exact absurd hsv (by simp)
    · simp only [h1, if_false]
      constructor
      · intro h; cases h
      · intro ⟨c', hc', hid, _⟩; cases hc'; exact absurd hid.symm h1
  | err => simp
  | panic => simp

/-- verification never panics on an event whose tag strings serialize (in particular on every
event whose tag strings are valid UTF-8): it returns `Ok` or an error -/
theorem verify_total (H : Bytes → Bytes) (SV : Bytes → Bytes → Bytes → Bool) (e : EventRec)
    (ht : tagsJson e.tags ≠ .panic) : verify H SV e ≠ .panic := by
  have hc : canon e ≠ .panic := by
    unfold canon
    repeat' split
    all_goals simp_all
  unfold verify
  repeat' split
  all_goals simp_all

/-- every event the signing constructor produces verifies, for any signer whose signatures
verify (`SV pk m (sign m)`) -/
theorem signNew_verifies (H : Bytes → Bytes) (SV : Bytes → Bytes → Bytes → Bool) (sign : Bytes → Bytes)
    (pk : Bytes) (hs : ∀ m, SV pk m (sign m) = true) (kind t : Nat) (tags : TagsRec) (content : Bytes)
    (e : EventRec) (h : signNew H sign pk kind t tags content = .ok e) : verify H SV e = .ok () := by
  unfold signNew at h
  dsimp only at h
  split at h
  · rename_i c hc
    simp only [Outcome.ok.injEq] at h; subst h
    have : canon { id := H c, pubkey := pk, sig := sign (H c), kind := kind, createdAt := t, tags := tags, content := content }
        = .ok c := by
      unfold canon at hc ⊢; exact hc
    unfold verify
    simp [this, hs]
  · cases h
  · cases h

/-- changing the id of a verifying event (everything else kept) makes verification fail -/
theorem id_tamper_detected (H : Bytes → Bytes) (SV : Bytes → Bytes → Bytes → Bool) (e : EventRec)
    (id' : Bytes) (hv : verify H SV e = .ok ()) (hne : id' ≠ e.id) :
    verify H SV { e with id := id' } = .err := by
  obtain ⟨c, hc, hid, _⟩ := (verify_iff H SV e).mp hv
  have : canon { e with id := id' } = .ok c := by unfold canon at hc ⊢; exact hc
  unfold verify
  rw [this]
  have : H c ≠ id' := by rw [← hid]; exact fun h => hne h.symm
  simp [this]

/-- a change to any hashed field that changes the canonical serialization is detected, given a
collision-free hash on the two serializations (collision resistance idealised as a hypothesis) -/
theorem content_tamper_detected (H : Bytes → Bytes) (SV : Bytes → Bytes → Bytes → Bool) (e e' : EventRec)
    (c c' : Bytes) (hv : verify H SV e = .ok ()) (hc : canon e = .ok c) (hc' : canon e' = .ok c')
    (hid : e'.id = e.id) (hcol : c ≠ c' → H c ≠ H c') (hdiff : c ≠ c') : verify H SV e' = .err := by
  obtain ⟨c0, hc0, hid0, _⟩ := (verify_iff H SV e).mp hv
  rw [hc] at hc0; cases hc0
  unfold verify
  rw [hc']
  have : H c' ≠ e'.id := by rw [hid, hid0]; exact fun h => hcol hdiff h.symm
  simp [this]

/-- the hashed serialization determines every hashed field -/
theorem canon_determines_fields (e₁ e₂ : EventRec) (s₁ : EventSized e₁) (s₂ : EventSized e₂)
    (b₁ : ∀ x ∈ e₁.pubkey, x < 256) (b₂ : ∀ x ∈ e₂.pubkey, x < 256)
    (t₁ : TagsUtf8 e₁.tags) (t₂ : TagsUtf8 e₂.tags) (u₁ : IsUtf8 e₁.content) (u₂ : IsUtf8 e₂.content)
    (c : Bytes) (h₁ : canon e₁ = .ok c) (h₂ : canon e₂ = .ok c) :
    e₁.pubkey = e₂.pubkey ∧ e₁.createdAt = e₂.createdAt ∧ e₁.kind = e₂.kind ∧ e₁.tags = e₂.tags ∧
      e₁.content = e₂.content :=
  canon_injective e₁ e₂ s₁ s₂ b₁ b₂ t₁ t₂ u₁ u₂ c h₁ h₂

/-- **any single-field change is detected**: `e` verifies; `e'` is a well-formed event with the same
id that differs from `e` in pubkey, created_at, kind, tags or content (sig may differ or not); if the
hash does not collide on their two serializations, `e'` is rejected -/
theorem field_tamper_detected (H : Bytes → Bytes) (SV : Bytes → Bytes → Bytes → Bool) (e e' : EventRec)
    (s : EventSized e) (s' : EventSized e') (b : ∀ x ∈ e.pubkey, x < 256) (b' : ∀ x ∈ e'.pubkey, x < 256)
    (t : TagsUtf8 e.tags) (t' : TagsUtf8 e'.tags) (u : IsUtf8 e.content) (u' : IsUtf8 e'.content)
    (hv : verify H SV e = .ok ()) (hid : e'.id = e.id)
    (hdiff : e'.pubkey ≠ e.pubkey ∨ e'.createdAt ≠ e.createdAt ∨ e'.kind ≠ e.kind ∨ e'.tags ≠ e.tags ∨
      e'.content ≠ e.content)
    (hcol : ∀ c c', canon e = .ok c → canon e' = .ok c' → c ≠ c' → H c ≠ H c') :
    verify H SV e' = .err := by
  obtain ⟨c, hc, _, _⟩ := (verify_iff H SV e).mp hv
  cases hc' : canon e' with
  | ok c' =>
    have hne : c ≠ c' := by
      intro heq
      subst heq
      obtain ⟨h1, h2, h3, h4, h5⟩ := canon_injective e e' s s' b b' t t' u u' c hc hc'
      rcases hdiff with h | h | h | h | h
      · exact h h1.symm
      · exact h h2.symm
      · exact h h3.symm
      · exact h h4.symm
      · exact h h5.symm
    exact content_tamper_detected H SV e e' c c' hv hc hc' hid (hcol c c' hc hc') hne
  | err => simp [verify, hc']
  | panic =>
    -- serialization of a UTF-8 event never panics
    exfalso
    obtain ⟨tj, htj⟩ := tagsJson_ok e'.tags t'
    obtain ⟨ec, hec⟩ := IsUtf8_escape e'.content u'
    simp [canon, htj, hec] at hc'

/-! ### tie to the source text: what /repo says now (translated on every run by `lib/srcfacts.py`) is what the model says -/

/-- the escaper's named characters (`json_escape.rs`) are escaped by the model as the source names them -/
theorem escape_constants_from_source :
    (∀ q ∈ Src.c_json_escape_BACKSLASH, ∀ c ∈ Src.c_json_escape_BACKSPACE, escapePiece c = some [q, 98]) ∧
    (∀ q ∈ Src.c_json_escape_BACKSLASH, ∀ c ∈ Src.c_json_escape_TAB, escapePiece c = some [q, 116]) ∧
    (∀ q ∈ Src.c_json_escape_BACKSLASH, ∀ c ∈ Src.c_json_escape_LINEFEED, escapePiece c = some [q, 110]) ∧
    (∀ q ∈ Src.c_json_escape_BACKSLASH, ∀ c ∈ Src.c_json_escape_FORMFEED, escapePiece c = some [q, 102]) ∧
    (∀ q ∈ Src.c_json_escape_BACKSLASH, ∀ c ∈ Src.c_json_escape_CR, escapePiece c = some [q, 114]) ∧
    (∀ q ∈ Src.c_json_escape_BACKSLASH, ∀ c ∈ Src.c_json_escape_QUOTE, escapePiece c = some [q, c]) ∧
    (∀ q ∈ Src.c_json_escape_BACKSLASH, escapePiece q = some [q, q]) := Pocket.escape_constants_from_source

/-- the characters `json_escape` copies unescaped are those `is_safe_char` lists in the source today -/
theorem safe_char_from_source (c : Nat) : Src.isSafeChar c = isSafeChar c := Pocket.safe_char_from_source c

end Pocket.C08
