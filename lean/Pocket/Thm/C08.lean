import Pocket.Model.Verify
import Pocket.Lemmas.Total
/-
C08 — verification accepts exactly correctly hashed and signed events.
SHA-256 (`H`) and BIP-340 (`SV`) are parameters; nothing is assumed about them except where a
theorem states it as a hypothesis.  PARTIAL: that the serialization determines the fields
(injectivity of `canon`, needed for "any single-field change is detected") is checked by
mutation on the real code, not proved here.
-/
namespace Pocket.C08
open Pocket

/-- verification succeeds exactly when the id is the hash of the canonical serialization of the
event's own fields and the signature verifies over that id under the event's pubkey -/
theorem verify_iff (H : Bytes → Bytes) (SV : Bytes → Bytes → Bytes → Bool) (e : EventRec) :
    verify H SV e = .ok () ↔ ∃ c, canon e = .ok c ∧ e.id = H c ∧ SV e.pubkey e.id e.sig = true := by
  unfold verify
  cases hc : canon e with
  | ok c =>
    by_cases h1 : H c = e.id
    · cases h2 : SV e.pubkey (H c) e.sig with
      | true =>
        simp only [h1, if_true]
        rw [h1] at h2
        simp only [h2, if_true, true_iff]
        exact ⟨c, rfl, h1.symm, trivial⟩
      | false =>
        simp only [h1, if_true]
        rw [h1] at h2
        simp only [h2, Bool.false_eq_true, if_false]
        constructor
        · intro h; cases h
        · intro ⟨c', _, _, hsv⟩; exact absurd hsv (by simp)
    · simp only [h1, if_false]
      constructor
      · intro h; cases h
      · intro ⟨c', hc', hid, _⟩; cases hc'; exact absurd hid.symm h1
  | err => simp
  | panic => simp

/-- verification never panics on an event whose tag strings serialize (in particular on every
event whose tag strings are valid UTF-8): it returns `Ok` or an error -/
theorem verify_total (H : Bytes → Bytes) (SV : Bytes → Bytes → Bytes → Bool) (e : EventRec)
    (ht : tagsJson e.tags ≠ .panic) : verify H SV e ≠ .panic := by
  have hc : canon e ≠ .panic := by
    unfold canon
    repeat' split
    all_goals simp_all
  unfold verify
  repeat' split
  all_goals simp_all

/-- every event the signing constructor produces verifies, for any signer whose signatures
verify (`SV pk m (sign m)`) -/
theorem signNew_verifies (H : Bytes → Bytes) (SV : Bytes → Bytes → Bytes → Bool) (sign : Bytes → Bytes)
    (pk : Bytes) (hs : ∀ m, SV pk m (sign m) = true) (kind t : Nat) (tags : TagsRec) (content : Bytes)
    (e : EventRec) (h : signNew H sign pk kind t tags content = .ok e) : verify H SV e = .ok () := by
  unfold signNew at h
  dsimp only at h
  split at h
  · rename_i c hc
    simp only [Outcome.ok.injEq] at h; subst h
    have : canon { id := H c, pubkey := pk, sig := sign (H c), kind := kind, createdAt := t, tags := tags, content := content }
        = .ok c := by
      unfold canon at hc ⊢; exact hc
    unfold verify
    simp [this, hs]
  · cases h
  · cases h

/-- changing the id of a verifying event (everything else kept) makes verification fail -/
theorem id_tamper_detected (H : Bytes → Bytes) (SV : Bytes → Bytes → Bytes → Bool) (e : EventRec)
    (id' : Bytes) (hv : verify H SV e = .ok ()) (hne : id' ≠ e.id) :
    verify H SV { e with id := id' } = .err := by
  obtain ⟨c, hc, hid, _⟩ := (verify_iff H SV e).mp hv
  have : canon { e with id := id' } = .ok c := by unfold canon at hc ⊢; exact hc
  unfold verify
  rw [this]
  have : H c ≠ id' := by rw [← hid]; exact fun h => hne h.symm
  simp [this]

/-- a change to any hashed field that changes the canonical serialization is detected, given a
collision-free hash on the two serializations (collision resistance idealised as a hypothesis) -/
theorem content_tamper_detected (H : Bytes → Bytes) (SV : Bytes → Bytes → Bytes → Bool) (e e' : EventRec)
    (c c' : Bytes) (hv : verify H SV e = .ok ()) (hc : canon e = .ok c) (hc' : canon e' = .ok c')
    (hid : e'.id = e.id) (hcol : c ≠ c' → H c ≠ H c') (hdiff : c ≠ c') : verify H SV e' = .err := by
  obtain ⟨c0, hc0, hid0, _⟩ := (verify_iff H SV e).mp hv
  rw [hc] at hc0; cases hc0
  unfold verify
  rw [hc']
  have : H c' ≠ e'.id := by rw [hid, hid0]; exact fun h => hcol hdiff h.symm
  simp [this]

end Pocket.C08
