import Pocket.Lemmas.FromSourceConsts
import Pocket.Model.Crash
import Pocket.Lemmas.StoreRead
import Pocket.Lemmas.EventMap
import Pocket.Lemmas.FromSourceEventMap
/-
C13 — killing the process at any instant leaves a consistent, reopenable store.
PARTIAL (DESIGN.md §6/C13): process kill only; LMDB's commit atomicity, the kernel's page cache
and the absence of reordering across the `SeqCst` fence are trusted; the correspondence check
enumerates the real kill points (`verif` hooks), reopens with the real code and compares.
-/
namespace Pocket.C13
open Pocket

theorem Inv_bump (s : Store) (hi : Inv s) : Inv { s with «end» := align8 s.end } := by
  have := align8_ge s.end
  exact ⟨hi.liveInLog, hi.logSorted, fun x hx => by have := hi.logBound x hx; simp only; omega,
    hi.liveIds, by have := hi.endGe; simp only; omega⟩

theorem Inv_appended (s : Store) (e : EventRec) (hi : Inv s) : Inv { appendLog s e with db := s.db } := by
  obtain ⟨h1, h2, h3⟩ := Inv_appendLog s e hi
  exact ⟨fun x hx => by simp only [appendLog]; exact List.mem_append_left _ (hi.liveInLog x hx),
    h1, h2, hi.liveIds, h3⟩

/-- **every state a `store_event` call can be killed in is consistent** (every index entry leads
to a complete event inside the end marker, ids unique), reflects every earlier call completely
(all earlier offsets still read back) and reflects the interrupted call either completely or not
at all -/
theorem store_crash_consistent (s : Store) (hi : Inv s) (e : EventRec) (c : Store)
    (hc : c ∈ storeCrashStates s e) :
    Inv c ∧ (c.db = s.db ∨ c.db = (storeEvent s e).2.db) ∧ (∀ x ∈ s.log, x ∈ c.log) ∧
    (∀ x ∈ c.db.live, getById c x.e.id = some x.e ∧ getByOffset c x.off = some x.e) := by
  have main : Inv c ∧ (c.db = s.db ∨ c.db = (storeEvent s e).2.db) ∧ (∀ x ∈ s.log, x ∈ c.log) := by
    unfold storeCrashStates at hc
    split at hc
    · simp only [List.mem_singleton] at hc; subst hc; exact ⟨hi, Or.inl rfl, fun x hx => hx⟩
    · split at hc
      · simp only [List.mem_singleton] at hc; subst hc; exact ⟨hi, Or.inl rfl, fun x hx => hx⟩
      · simp only [List.mem_cons, List.not_mem_nil, or_false] at hc
        rcases hc with rfl | rfl | rfl | rfl
        · exact ⟨hi, Or.inl rfl, fun x hx => hx⟩
        · exact ⟨Inv_bump s hi, Or.inl rfl, fun x hx => hx⟩
        · exact ⟨Inv_appended s e hi, Or.inl rfl,
            fun x hx => by simp only [appendLog]; exact List.mem_append_left _ hx⟩
        · exact ⟨Inv_storeEvent s e hi, Or.inr rfl,
            fun x hx => step_log_mono s (.store e) (by intro h; cases h) x hx⟩
  obtain ⟨h1, h2, h3⟩ := main
  exact ⟨h1, h2, h3, fun x hx => ⟨getById_of_mem c h1 x hx, getByOffset_of_mem c h1 x (h1.liveInLog x hx)⟩⟩

/-- the same for `remove_event` -/
theorem remove_crash_consistent (s : Store) (hi : Inv s) (id : Bytes) (c : Store)
    (hc : c ∈ removeCrashStates s id) : Inv c ∧ (c = s ∨ c = removeEvent s id) := by
  simp only [removeCrashStates, List.mem_cons, List.not_mem_nil, or_false] at hc
  rcases hc with rfl | rfl
  · exact ⟨hi, Or.inl rfl⟩
  · exact ⟨Inv_removeEvent s id hi, Or.inr rfl⟩

/-- `vanish` removes its targets one transaction at a time: a kill leaves a subset of them gone,
nothing else touched -/
theorem vanish_crash_subset (live : List SEv) (evs : List SEv) (c : List SEv)
    (hc : c ∈ removeAllStates live evs) : c.Sublist live ∧ (removeAll live evs).Sublist c := by
  induction evs generalizing live with
  | nil =>
    simp only [removeAllStates, List.mem_singleton] at hc; subst hc
    exact ⟨List.Sublist.refl _, List.Sublist.refl _⟩
  | cons x evs ih =>
    simp only [removeAllStates, List.mem_cons] at hc
    rcases hc with rfl | hc
    · exact ⟨List.Sublist.refl _, removeAll_sublist _ _⟩
    · obtain ⟨h1, h2⟩ := ih _ hc
      exact ⟨h1.trans (removeId_sublist _ _), h2⟩

/-- whatever state the creation of a store directory is killed in, the next open starts from an
empty, correctly initialised event map (in particular a file that was sized but whose header was
never written is not mistaken for an initialised one) -/
theorem creation_crash_consistent (m : MapFile) (hm : m ∈ creationStates) : openMap m = 8 := by
  simp only [creationStates, List.mem_cons, List.not_mem_nil, or_false] at hm
  rcases hm with rfl | rfl | rfl | rfl <;> rfl

/-- an initialised map is reopened at its recorded end -/
theorem reopen_end (e : Nat) (he : 8 ≤ e) : openMap (.initialised e) = e := by
  simp [openMap]; omega

/-- **the map file through a killed `store_event`** (lengths and the persisted end marker, with the
grow-and-retry loop and `set_len`'s truncating semantics modelled): whatever durable state the kill
leaves — before or after the alignment padding, after any number of `set_len` growth rounds, after the
append — the file is at least as long as before the call, the marker is the old, the aligned or the
final one and lies inside the file; the next `EventStore::new` succeeds, keeps that marker, sees the
real file length, and every later store from there can only extend the file -/
theorem store_kill_map_states (chunk : Nat) (hc : chunk % 8 = 0) (hpos : 0 < chunk) (m : EMap) (hi : EMInv m)
    (size fl mk : Nat) (h : (fl, mk) ∈ emStoreStates chunk m size) :
    m.fileLen ≤ fl ∧ (mk = m.marker ∨ mk = align8 m.marker ∨ mk = align8 m.marker + size) ∧
    ∃ m', emOpen chunk fl mk = .ok m' ∧ EMInv m' ∧ m'.marker = mk ∧ m'.fileLen = fl ∧
      ∀ size', ∃ m'', emStore chunk m' size' = .ok (align8 mk, m'') ∧ EMInv m'' ∧ fl ≤ m''.fileLen := by
  obtain ⟨h1, h2, h3, h4, h5⟩ := emStore_crash_states chunk hc m hi size fl mk h
  obtain ⟨m', ho, hi', hm, hf⟩ := emOpen_existing chunk fl mk h3 h4 h2
  refine ⟨h1, h5, m', ho, hi', hm, hf, fun size' => ?_⟩
  obtain ⟨m'', hs, hi'', _, hle⟩ := emStore_ok chunk hc hpos m' hi' size'
  exact ⟨m'', by rw [← hm]; exact hs, hi'', by rw [← hf]; exact hle⟩

/-- creation at map level: an absent, empty, or sized-but-never-initialised file opens as an empty
initialised map of one chunk -/
theorem creation_map_states (chunk : Nat) (hc : chunk % 8 = 0) (hc8 : 8 ≤ chunk) (fl mk : Nat)
    (h : (fl, mk) ∈ [(0, 0), (chunk, 0)]) :
    emOpen chunk fl mk = .ok ⟨chunk, 8, chunk, chunk⟩ ∧ EMInv ⟨chunk, 8, chunk, chunk⟩ := by
  have h2 : ¬ chunk < 8 := by omega
  refine ⟨?_, ⟨Nat.le_refl _, hc8, rfl, rfl, hc⟩⟩
  simp only [List.mem_cons, Prod.mk.injEq, List.not_mem_nil, or_false] at h
  rcases h with ⟨rfl, rfl⟩ | ⟨rfl, rfl⟩
  · have h1 : (0 : Nat) < chunk := by omega
    simp [emOpen, h1, h2]
  · simp [emOpen, h2]

/-- non-vacuity: a store of 5000 bytes into a fresh one-chunk map passes through two growth rounds -/
example : emStoreStates 2048 ⟨2048, 8, 2048, 2048⟩ 5000 = [(2048, 8), (2048, 8), (4096, 8), (6144, 8), (6144, 5008)] := by
  decide

/-! ### tie to the source text: what /repo says now (translated on every run by `lib/srcfacts.py`) is what the model says -/

/-- the growth chunk of both build configurations (`EVENT_MAP_CHUNK`, debug and release) satisfies what the event-map
theorems assume of it: a multiple of 8, at least the header -/
theorem map_chunks_from_source :
    ∀ c ∈ Src.c_event_store_EVENT_MAP_CHUNK_debug ++ Src.c_event_store_EVENT_MAP_CHUNK_release, c % 8 = 0 ∧ 8 ≤ c :=
  Pocket.map_chunks_from_source

/-- the event-map model these theorems are about is `event_store.rs` as it reads today (matched and translated on every run):
`EventStore::new` takes a file for new, sizes it and remembers its length exactly as `emOpen` does; `store_event` pads to a multiple of
8 as `emPad` does; and one round of its grow path sets file, mapping and remembered length to the REMEMBERED length plus one chunk,
in the order set_len / resize / remember, as `emGrow` does -/
theorem event_map_from_source (chunk fileLen marker : Nat) (m : EMap) :
    (emOpen chunk fileLen marker =
      (let len := Src.esInitLen chunk fileLen marker 8 8
       if len < 8 then .err
       else .ok { fileLen := len, marker := if Src.esNew fileLen marker 8 8 then 8 else marker,
                  memLen := Src.esRemembered len, mapLen := len })) ∧
    emPad m = Src.esPad m.marker ∧
    emGrow chunk m =
      { m with fileLen := (Src.esGrow chunk m.fileLen m.mapLen m.memLen).1,
               mapLen := (Src.esGrow chunk m.fileLen m.mapLen m.memLen).2.1,
               memLen := (Src.esGrow chunk m.fileLen m.mapLen m.memLen).2.2 } :=
  ⟨em_open_from_source chunk fileLen marker, em_pad_from_source m, em_grow_from_source chunk m⟩

end Pocket.C13
