import Pocket.Thm.C19
import Pocket.Lemmas.ParseWF
/-
C02 — the binary form is canonical; the round trip is lossless.

Proved (all inputs): whatever text `Event::from_json` accepts into whatever buffer, the bytes it
produces are *exactly* the bytes `Event::from_parts` produces from the values the accessors return
(`from_json_is_from_parts`) — in particular every byte of the value, padding included, is
determined by the seven values and not by the prior contents of the buffer
(`canonical_any_buffer`).  Texts denoting the same event therefore give byte-identical values as
soon as the parser extracts the same values from them, which is the C01 correspondence.
-/
namespace Pocket.C02
open Pocket

/-- parsing writes precisely what building from the decoded parts writes -/
theorem from_json_is_from_parts (inp buf : Bytes) (c n : Nat) (out : Bytes)
    (h : parseEvent inp buf = .ok (c, n, out)) :
    ∃ e, eventDecode (out.take n) = .ok e ∧ eventFromRec e buf = .ok out := by
  obtain ⟨e, hs, rfl, hn, hnb, _⟩ := parseEvent_wf inp buf c n out h
  refine ⟨e, by rw [List.take_left' hn.symm]; exact eventDecode_encode e hs, ?_⟩
  have hl : (encodeEvent e).length = eventSize (tagsSize e.tags) e.content.length := by
    have := encodeEventWith_length e.id e.pubkey e.sig e.kind e.createdAt (encodeTags e.tags) e.content
      hs.id hs.pk hs.sig
    rw [encodeTags_length] at this; exact this
  unfold eventFromRec eventFromParts
  rw [encodeTags_length]
  have h1 : ¬ tagsSize e.tags > 65535 := by have := hs.tags; omega
  have h2 : ¬ eventSize (tagsSize e.tags) e.content.length > 4294967295 := by have := hs.content; omega
  have h3 : ¬ buf.length < eventSize (tagsSize e.tags) e.content.length := by omega
  simp only [h1, h2, h3, if_false]
  rw [hn, hl]; rfl

/-- two accepted texts (any member order, whitespace, escapes, unknown members) parsed into two
buffers with any prior contents: if the accessors return the same seven values, the two binary
events are byte-identical -/
theorem canonical_any_buffer (inp₁ inp₂ buf₁ buf₂ : Bytes) (c₁ c₂ n₁ n₂ : Nat) (out₁ out₂ : Bytes)
    (h₁ : parseEvent inp₁ buf₁ = .ok (c₁, n₁, out₁)) (h₂ : parseEvent inp₂ buf₂ = .ok (c₂, n₂, out₂))
    (hv : eventDecode (out₁.take n₁) = eventDecode (out₂.take n₂)) :
    out₁.take n₁ = out₂.take n₂ := by
  obtain ⟨e₁, hs₁, rfl, hn₁, _, _⟩ := parseEvent_wf _ _ _ _ _ h₁
  obtain ⟨e₂, hs₂, rfl, hn₂, _, _⟩ := parseEvent_wf _ _ _ _ _ h₂
  rw [List.take_left' hn₁.symm, List.take_left' hn₂.symm] at hv ⊢
  rw [eventDecode_encode e₁ hs₁, eventDecode_encode e₂ hs₂] at hv
  cases hv; rfl

/-- serialization is total (value or error, never a panic) on every event whose tag strings
escape without error — in particular on every valid-UTF-8 event -/
theorem serialize_total_on_valid (e : EventRec) (h : tagsJson e.tags ≠ .panic) :
    eventJson e ≠ .panic := by
  unfold eventJson
  split
  · split <;> simp_all
  · simp
  · contradiction

end Pocket.C02
