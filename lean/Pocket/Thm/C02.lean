import Pocket.Lemmas.FromSourceLayout
import Pocket.Lemmas.FromSourcePreds
import Pocket.Lemmas.FromSourceConsts
import Pocket.Thm.C19
import Pocket.Lemmas.ParseWF
import Pocket.Lemmas.RoundTrip
import Pocket.Lemmas.EventUnknown
/-
C02 — the binary form is canonical; the round trip is lossless.

Proved (all inputs): whatever text `Event::from_json` accepts into whatever buffer, the bytes it
produces are *exactly* the bytes `Event::from_parts` produces from the values the accessors return
(`from_json_is_from_parts`) — in particular every byte of the value, padding included, is
determined by the seven values and not by the prior contents of the buffer
(`canonical_any_buffer`).  Texts denoting the same event therefore give byte-identical values as
soon as the parser extracts the same values from them, which is the C01 correspondence.

The round trip itself (`round_trip`): for EVERY event whose fields fit the format and whose strings
are UTF-8 — all sizes, all tag shapes, every code point incl. the ones `as_json` escapes — `as_json`
succeeds, and `from_json` of that text (with anything after it, into any large-enough buffer with
any prior contents) consumes exactly the text and yields exactly the bytes of `from_parts`, whose
accessors return the original event (`round_trip_values`).  Underneath: `json_unescape ∘ json_escape
= id` (`unescape_escape_id`), hex and decimal fields read back, the tags array reads back as the
tag section.  Consequently escaping is injective (`escape_injective`).

CANONICAL OVER EVERY SPELLING (`canonical_any_spelling`): two texts that denote the same event —
any member order, any whitespace (also inside the tags array), any legal escapes in tag strings and
content, any unknown members (values nested at most 64 deep) — parsed into two buffers with any prior
contents are byte-identical, and identical to `from_parts` of the seven values.
-/
namespace Pocket.C02
open Pocket

/-- parsing writes precisely what building from the decoded parts writes -/
theorem from_json_is_from_parts (inp buf : Bytes) (c n : Nat) (out : Bytes)
    (h : parseEvent inp buf = .ok (c, n, out)) :
    ∃ e, eventDecode (out.take n) = .ok e ∧ eventFromRec e buf = .ok out := by
  obtain ⟨e, hs, rfl, hn, hnb, _⟩ := parseEvent_wf inp buf c n out h
  refine ⟨e, by rw [List.take_left' hn.symm]; exact eventDecode_encode e hs, ?_⟩
  have hl : (encodeEvent e).length = eventSize (tagsSize e.tags) e.content.length := by
    have := encodeEventWith_length e.id e.pubkey e.sig e.kind e.createdAt (encodeTags e.tags) e.content
      hs.id hs.pk hs.sig
    rw [encodeTags_length] at this; exact this
  unfold eventFromRec eventFromParts
  rw [encodeTags_length]
  have h1 : ¬ tagsSize e.tags > 65535 := by have := hs.tags; omega
  have h2 : ¬ eventSize (tagsSize e.tags) e.content.length > 4294967295 := by have := hs.content; omega
  have h3 : ¬ buf.length < eventSize (tagsSize e.tags) e.content.length := by omega
  simp only [h1, h2, h3, if_false]
  rw [hn, hl]; rfl

/-- two accepted texts (any member order, whitespace, escapes, unknown members) parsed into two
buffers with any prior contents: if the accessors return the same seven values, the two binary
events are byte-identical -/
theorem canonical_any_buffer (inp₁ inp₂ buf₁ buf₂ : Bytes) (c₁ c₂ n₁ n₂ : Nat) (out₁ out₂ : Bytes)
    (h₁ : parseEvent inp₁ buf₁ = .ok (c₁, n₁, out₁)) (h₂ : parseEvent inp₂ buf₂ = .ok (c₂, n₂, out₂))
    (hv : eventDecode (out₁.take n₁) = eventDecode (out₂.take n₂)) :
    out₁.take n₁ = out₂.take n₂ := by
  obtain ⟨e₁, hs₁, rfl, hn₁, _, _⟩ := parseEvent_wf _ _ _ _ _ h₁
  obtain ⟨e₂, hs₂, rfl, hn₂, _, _⟩ := parseEvent_wf _ _ _ _ _ h₂
  rw [List.take_left' hn₁.symm, List.take_left' hn₂.symm] at hv ⊢
  rw [eventDecode_encode e₁ hs₁, eventDecode_encode e₂ hs₂] at hv
  cases hv; rfl

/-- serialization is total (value or error, never a panic) on every event whose tag strings
escape without error — in particular on every valid-UTF-8 event -/
theorem serialize_total_on_valid (e : EventRec) (h : tagsJson e.tags ≠ .panic) :
    eventJson e ≠ .panic := by
  unfold eventJson
  split
  · split <;> simp_all
  · simp
  · contradiction

/-- `json_unescape ∘ json_escape = id`: the escaped text of the UTF-8 encoding of any code points,
followed by the closing quote and anything else, reads back as those bytes and the reader consumes
exactly the escaped text -/
theorem unescape_escape_id (cps : List Nat) (hc : ∀ c ∈ cps, c < 1114112) (rest : Bytes) (cap : Nat)
    (hcap : (utf8Of cps).length ≤ cap) :
    ∃ t, jsonEscape (utf8Of cps) = .ok t ∧
      jsonUnescape (t ++ 34 :: rest) cap = .ok (t.length, utf8Of cps) :=
  ⟨escText cps, jsonEscape_utf8 cps hc, jsonUnescape_escText cps hc rest cap hcap⟩

/-- distinct UTF-8 strings have distinct escaped texts -/
theorem escape_injective (a b : List Nat) (ha : ∀ c ∈ a, c < 1114112) (hb : ∀ c ∈ b, c < 1114112)
    (ta tb : Bytes) (h1 : jsonEscape (utf8Of a) = .ok ta) (h2 : jsonEscape (utf8Of b) = .ok tb)
    (h : ta = tb) : utf8Of a = utf8Of b := by
  rw [jsonEscape_utf8 a ha] at h1
  rw [jsonEscape_utf8 b hb] at h2
  simp only [Outcome.ok.injEq] at h1 h2
  exact escText_injective a b ha hb (by rw [h1, h2, h])

/-- **the round trip**: `from_json (as_json e) = from_parts e`, byte for byte, consuming exactly
the text, for every well-sized UTF-8 event, every trailing input and every sufficient buffer -/
theorem round_trip (e : EventRec) (hs : EventSized e)
    (hbid : ∀ b ∈ e.id, b < 256) (hbpk : ∀ b ∈ e.pubkey, b < 256) (hbsig : ∀ b ∈ e.sig, b < 256)
    (hut : TagsUtf8 e.tags) (huc : IsUtf8 e.content) (rest buf : Bytes)
    (hbuf : (encodeEvent e).length ≤ buf.length) :
    ∃ txt, eventJson e = .ok txt ∧
      parseEvent (txt ++ rest) buf =
        .ok (txt.length, (encodeEvent e).length, encodeEvent e ++ buf.drop (encodeEvent e).length) := by
  obtain ⟨txt, ht⟩ := eventJson_ok e hut huc
  exact ⟨txt, ht, parseEvent_eventJson e hs hbid hbpk hbsig hut huc txt ht rest buf hbuf⟩

/-- … and the accessors of the parsed value return the original event -/
theorem round_trip_values (e : EventRec) (hs : EventSized e)
    (hbid : ∀ b ∈ e.id, b < 256) (hbpk : ∀ b ∈ e.pubkey, b < 256) (hbsig : ∀ b ∈ e.sig, b < 256)
    (hut : TagsUtf8 e.tags) (huc : IsUtf8 e.content) (rest buf : Bytes)
    (hbuf : (encodeEvent e).length ≤ buf.length) :
    ∃ txt c n out, eventJson e = .ok txt ∧ parseEvent (txt ++ rest) buf = .ok (c, n, out) ∧
      c = txt.length ∧ eventDecode (out.take n) = .ok e := by
  obtain ⟨txt, ht, hp⟩ := round_trip e hs hbid hbpk hbsig hut huc rest buf hbuf
  refine ⟨txt, _, _, _, ht, hp, rfl, ?_⟩
  rw [List.take_left' rfl]
  exact eventDecode_encode e hs

/-- **the binary form is canonical over every JSON spelling**: two texts denoting the same event —
differing in member order, whitespace (also inside the tags array), choice of escapes in the tag
strings and the content, and unknown members — parsed into two buffers with any prior contents give
byte-identical binary events, identical to what `from_parts` builds from the seven values -/
theorem canonical_any_spelling (e : EventRec) (hs : EventSized e)
    (hbid : ∀ b ∈ e.id, b < 256) (hbpk : ∀ b ∈ e.pubkey, b < 256) (hbsig : ∀ b ∈ e.sig, b < 256)
    (tj₁ ec₁ tj₂ ec₂ : Bytes) (ht₁ : TagsText e.tags tj₁) (hc₁ : Spells e.content ec₁)
    (ht₂ : TagsText e.tags tj₂) (hc₂ : Spells e.content ec₂) (buf₁ buf₂ : Bytes)
    (hb₁ : (encodeEvent e).length ≤ buf₁.length) (hb₂ : (encodeEvent e).length ≤ buf₂.length)
    (ms₁ ms₂ : List ESpec) (hw₁ : ∀ x ∈ ms₁, x.WsOk) (hw₂ : ∀ x ∈ ms₂, x.WsOk)
    (hn₁ : (ms₁.filterMap ESpec.mem?).Nodup) (hn₂ : (ms₂.filterMap ESpec.mem?).Nodup)
    (ha₁ : ∀ m : EMem, m ∈ ms₁.filterMap ESpec.mem?) (ha₂ : ∀ m : EMem, m ∈ ms₂.filterMap ESpec.mem?)
    (l₁ l₂ R₁ R₂ : Bytes) (hl₁ : AllWs l₁) (hl₂ : AllWs l₂) :
    ∃ c₁ c₂ n out₁ out₂,
      parseEvent (l₁ ++ 123 :: evTextU e tj₁ ec₁ ms₁ R₁) buf₁ = .ok (c₁, n, out₁) ∧
      parseEvent (l₂ ++ 123 :: evTextU e tj₂ ec₂ ms₂ R₂) buf₂ = .ok (c₂, n, out₂) ∧
      out₁.take n = out₂.take n ∧ out₁.take n = encodeEvent e ∧ eventFromRec e buf₁ = .ok out₁ := by
  have hlen : (encodeEvent e).length = eventSize (tagsSize e.tags) e.content.length := by
    unfold encodeEvent
    rw [encodeEventWith_length _ _ _ _ _ _ _ hs.id hs.pk hs.sig, encodeTags_length]
  have hx₁ : ECtx e tj₁ ec₁ buf₁.length :=
    ⟨hs, hbid, hbpk, hbsig, ht₁, hc₁, by rw [hlen] at hb₁; unfold eventSize at hb₁; exact hb₁⟩
  have hx₂ : ECtx e tj₂ ec₂ buf₂.length :=
    ⟨hs, hbid, hbpk, hbsig, ht₂, hc₂, by rw [hlen] at hb₂; unfold eventSize at hb₂; exact hb₂⟩
  have p₁ := parseEvent_any_order_unknown e tj₁ ec₁ buf₁ hx₁ ms₁ hw₁ hn₁ ha₁ l₁ hl₁ R₁
  have p₂ := parseEvent_any_order_unknown e tj₂ ec₂ buf₂ hx₂ ms₂ hw₂ hn₂ ha₂ l₂ hl₂ R₂
  refine ⟨_, _, _, _, _, p₁, p₂, ?_, ?_, ?_⟩
  · rw [List.take_left' rfl, List.take_left' rfl]
  · rw [List.take_left' rfl]
  · obtain ⟨e', hd, hf⟩ := from_json_is_from_parts _ _ _ _ _ p₁
    rw [List.take_left' rfl, eventDecode_encode e hs] at hd
    cases hd
    exact hf

/-- the hypotheses are satisfiable by an event with a tag, an escape-needing content and non-ASCII text -/
example : ∃ e : EventRec, EventSized e ∧ TagsUtf8 e.tags ∧ IsUtf8 e.content ∧ e.content ≠ [] ∧ e.tags ≠ [] := by
  refine ⟨{ id := List.replicate 32 1, pubkey := List.replicate 32 2, sig := List.replicate 64 3, kind := 1,
            createdAt := 5, tags := [[utf8Of [101], utf8Of [233, 10]]], content := utf8Of [34, 92, 8364, 128512] }, ?_, ?_, ?_, ?_, ?_⟩
  · constructor <;> decide
  · intro t ht s hs
    simp only [List.mem_singleton] at ht
    subst ht
    simp only [List.mem_cons, List.not_mem_nil, or_false] at hs
    rcases hs with rfl | rfl
    · exact ⟨[101], by decide, rfl⟩
    · exact ⟨[233, 10], by decide, rfl⟩
  · exact ⟨[34, 92, 8364, 128512], by decide, rfl⟩
  · decide
  · decide

/-! ### tie to the source text: what /repo says now (translated on every run by `lib/srcfacts.py`) is what the model says -/

/-- the escaper's named characters (`json_escape.rs`) are escaped by the model as the source names them -/
theorem escape_constants_from_source :
    (∀ q ∈ Src.c_json_escape_BACKSLASH, ∀ c ∈ Src.c_json_escape_BACKSPACE, escapePiece c = some [q, 98]) ∧
    (∀ q ∈ Src.c_json_escape_BACKSLASH, ∀ c ∈ Src.c_json_escape_TAB, escapePiece c = some [q, 116]) ∧
    (∀ q ∈ Src.c_json_escape_BACKSLASH, ∀ c ∈ Src.c_json_escape_LINEFEED, escapePiece c = some [q, 110]) ∧
    (∀ q ∈ Src.c_json_escape_BACKSLASH, ∀ c ∈ Src.c_json_escape_FORMFEED, escapePiece c = some [q, 102]) ∧
    (∀ q ∈ Src.c_json_escape_BACKSLASH, ∀ c ∈ Src.c_json_escape_CR, escapePiece c = some [q, 114]) ∧
    (∀ q ∈ Src.c_json_escape_BACKSLASH, ∀ c ∈ Src.c_json_escape_QUOTE, escapePiece c = some [q, c]) ∧
    (∀ q ∈ Src.c_json_escape_BACKSLASH, escapePiece q = some [q, q]) := Pocket.escape_constants_from_source

/-- the characters `json_escape` copies unescaped are those `is_safe_char` lists in the source today -/
theorem safe_char_from_source (c : Nat) : Src.isSafeChar c = isSafeChar c := Pocket.safe_char_from_source c

/-- the binary layout the theorems above are about is the one `event.rs` writes and reads today: the contiguous writes of
`Event::from_parts` (translated statement by statement on every run) are the model's encoding, `output_size_needed` its size, and
every accessor reads where the model's decoder reads -/
theorem event_layout_from_source (id pk sig : Bytes) (kind t : Nat) (tagBytes content b : Bytes) :
    Src.encodeEventWith id pk sig kind t tagBytes content = encodeEventWith id pk sig kind t tagBytes content ∧
    Src.eventSize tagBytes.length content.length = eventSize tagBytes.length content.length ∧
    eventDecodeAt Src.evReads b = eventDecode b :=
  ⟨event_writer_from_source id pk sig kind t tagBytes content, rfl, event_readers_from_source b⟩

/-- the tag section the theorems above are about is the one `tags.rs` writes and reads today: `Tags::output_size_needed` (its additions,
translated on every run) is the model's size for every list of tags; `Tags::from_parts` refuses exactly a section beyond `u16::MAX` or a
short buffer and otherwise starts the buffer with the source's header, the offset table from the source's first `p`, and the tags; and
`delineate` / `count` / `TagsIter::next` / `TagsStringIter::next` read where the model's decoder reads, on every input -/
theorem tags_layout_from_source (ts : TagsRec) (buf inp : Bytes) :
    Src.tagsSize ts = tagsSize ts ∧
    (tagsFromParts ts buf =
      if Src.tagsRejects (Src.tagsSize ts) buf.length then .err
      else .ok (Src.tagsHeader (Src.tagsSize ts) ts.length ++ encOffsets (Src.tagsBodyStart ts.length) ts ++ encTagsBody ts
                ++ buf.drop (Src.tagsSize ts))) ∧
    tagsReadAt Src.tagReads inp =
      (match tagsDelineate inp with
       | .ok sec => .ok (sec, tagsDecode sec)
       | .err => .err
       | .panic => .panic) :=
  ⟨tags_size_from_source ts, tags_from_parts_from_source ts buf, tag_readers_from_source inp⟩

/-- **`Tags::from_parts` as a whole, as `tags.rs` spells it today**: its two rejections, then the header writes and the two write loops
(translated statement by statement on every run into random-access writes `output[a..b].copy_from_slice(v)` through the moving `p`).
For every list of tags and every output buffer it is the model's `tagsFromParts`; past the rejections the loops produce exactly
`encodeTags ts` and leave the rest of the buffer alone -/
theorem tags_writer_from_source (ts : TagsRec) (buf : Bytes) :
    (tagsFromParts ts buf = if Src.tagsRejects (Src.tagsSize ts) buf.length then .err else .ok (Src.tagsWrite ts buf)) ∧
    (tagsSize ts ≤ buf.length → Src.tagsWrite ts buf = encodeTags ts ++ buf.drop (tagsSize ts)) :=
  ⟨Pocket.tags_from_parts_whole_from_source ts buf, Pocket.tags_writer_from_source ts buf⟩

end Pocket.C02
