import Pocket.Model.Crash
import Pocket.Lemmas.StoreRead
import Pocket.Lemmas.Refine2
/-
C12 — a store call that fails changes nothing observable.
Every lookup, query, marker query and index entry count is a function of the committed tables
`db` (the driver computes them from `db` alone), so "the tables are unchanged" is the property.
The event map may have grown by the refused event's bytes (never indexed, reclaimed by rebuild);
offsets returned earlier still read back.
-/
namespace Pocket.C12
open Pocket

/-- whenever `store_event` returns an error — duplicate, deleted, replaced, invalid delete, or any
other — every table is exactly what it was before the call -/
theorem failed_store_noop (s : Store) (e : EventRec) (h : ∀ off, (storeEvent s e).1 ≠ .ok off) :
    (storeEvent s e).2.db = s.db := storeEvent_fail_db s e h

/-- hence every observable derived from the tables is unchanged: lookups, markers, queries, counts -/
theorem failed_store_observables (s : Store) (e : EventRec) (h : ∀ off, (storeEvent s e).1 ≠ .ok off) :
    let s' := (storeEvent s e).2
    (∀ id, getById s' id = getById s id) ∧
    (∀ id, s'.db.delIds.contains id = s.db.delIds.contains id) ∧
    (∀ k, delAddrGet s'.db.delAddrs k = delAddrGet s.db.delAddrs k) ∧
    (∀ f a l secs now scr, findEvents s'.db.live f a l secs now scr = findEvents s.db.live f a l secs now scr) ∧
    s'.db.live.length = s.db.live.length ∧ tagEntryCount s'.db.live = tagEntryCount s.db.live ∧
    s'.db.extra = s.db.extra := by
  intro s'
  have hdb : s'.db = s.db := storeEvent_fail_db s e h
  refine ⟨fun id => by simp [getById, hdb], fun id => by rw [hdb], fun k => by rw [hdb],
    fun f a l secs now scr => by rw [hdb], by rw [hdb], by rw [hdb], by rw [hdb]⟩

/-- and every offset returned before still reads back the same bytes -/
theorem failed_store_keeps_offsets (s : Store) (hi : Inv s) (e : EventRec) (x : SEv) (hx : x ∈ s.log) :
    getByOffset (storeEvent s e).2 x.off = some x.e :=
  read_back s hi e x hx
where
  read_back (s : Store) (hi : Inv s) (e : EventRec) (x : SEv) (hx : x ∈ s.log) :
      getByOffset (storeEvent s e).2 x.off = some x.e :=
    getByOffset_of_mem _ (Inv_storeEvent s e hi) x (step_log_mono s (.store e) (by intro h; cases h) x hx)

/-- non-vacuity: a deletion request refused at its second tag (a foreign target) after an
effective first tag leaves the first target in place -/
example :
    let a := List.replicate 32 10
    let b := List.replicate 32 11
    let e1 : EventRec := ⟨List.replicate 32 1, a, [], 1, 5, [], []⟩
    let e2 : EventRec := ⟨List.replicate 32 2, b, [], 1, 5, [], []⟩
    let req : EventRec := ⟨List.replicate 32 3, a, [], 5, 9,
      [[[101], hexOf (List.replicate 32 1)], [[101], hexOf (List.replicate 32 2)]], []⟩
    let s := run {} [.store e1, .store e2]
    (storeEvent s req).1 = .invalidDelete ∧ (storeEvent s req).2.db = s.db := by
  decide +kernel

/-! ### the same through the abstract store (`Spec/AbsStore.lean`)

The concrete model mirrors the code (victims enumerated in the committed view and removed from the
transaction view by offset, "anything left ⇒ replaced", markers folded tag by tag).  The abstract store
is what the property texts describe.  They are proved equal, reply and state, on every consistent state
and therefore along every history — so a property can be read off the short abstract definition. -/

/-- the concrete model of `store_event` computes exactly the abstract store -/
theorem store_refines_abstract (s : Store) (hi : Inv s) (e : EventRec) :
    (storeEvent s e).1 = (absStore (Abs.of s) e).1 ∧ Abs.of (storeEvent s e).2 = (absStore (Abs.of s) e).2 :=
  storeEvent_refines s hi e

/-- … along every history of stores (accepted or refused, deletion requests included), removals and
reopens from the empty store -/
theorem history_refines_abstract (ops : List AOp) :
    Abs.of (run {} (ops.map AOp.toOp)) = ops.foldl absStep (Abs.of {}) :=
  run_refines ops {} Inv_init

/-- … and along EVERY history — vanishes and rebuilds included — of fewer than 2^32 − 1 operations with
`u64` timestamps: the state of the concrete model is the state of the abstract store -/
theorem every_history_refines_abstract (ops : List Op) (ht : ∀ op ∈ ops, opTimeOk op) (hlen : ops.length < U32MAX) :
    Abs.of (run {} ops) = ops.foldl absOp (Abs.of {}) :=
  full_history_refines ops ht hlen

/-- on the abstract store C12 is a one-line reading: whatever the refusal, the retrievable events and
both kinds of markers are untouched (only the append log may have grown) -/
theorem abstract_failed_store (a : Abs) (e : EventRec) (h : ∀ off, (absStore a e).1 ≠ .ok off) :
    (absStore a e).2.live = a.live ∧ (absStore a e).2.delIds = a.delIds ∧ (absStore a e).2.delAddrs = a.delAddrs := by
  unfold absStore at h ⊢
  by_cases c1 : (a.live.any fun x => x.id == e.id) = true
  · simp only [c1, if_true, and_self]
  simp only [c1, Bool.false_eq_true, if_false] at h ⊢
  by_cases c2 : a.delIds.contains e.id = true
  · simp only [c2, if_true, and_self]
  simp only [c2, Bool.false_eq_true, if_false] at h ⊢
  by_cases c3 : coveredBy a.delAddrs e = true
  · simp only [c3, if_true, and_self]
  simp only [c3, Bool.false_eq_true, if_false] at h ⊢
  by_cases c4 : (absPre a.live e).2 = true
  · simp only [c4, if_true, and_self]
  simp only [c4, Bool.false_eq_true, if_false] at h ⊢
  by_cases c5 : e.kind = 5
  · simp only [c5, if_true] at h ⊢
    cases hd : absDeletion a.live e e.tags
        (if isEphemeral 5 = true then (absPre a.live e).1 else (absPre a.live e).1 ++ [e]) a.delIds a.delAddrs with
    | ok l di da => rw [hd] at h; exact absurd rfl (h (align8 a.end))
    | invalid => exact ⟨rfl, rfl, rfl⟩
    | err => exact ⟨rfl, rfl, rfl⟩
  · simp only [c5, if_false] at h
    exact absurd rfl (h (align8 a.end))

/-- the "any other error" clause, on the micro-step model of a store call (`Model/Crash.lean`: transaction open and checks,
padding appended, event bytes in place, index committed): whatever makes the call stop before its commit - a lookup that
fails because no reader slot is free, an I/O error while the map grows - every table is exactly what it was; only the commit,
the last step, changes them.  (The two faults are injected into the real store by the worker requests `RDF` and `FSZ`.) -/
theorem error_before_commit_noop (s : Store) (e : EventRec) :
    ∀ st ∈ (storeCrashStates s e).dropLast, st.db = s.db := by
  intro st hst
  unfold storeCrashStates at hst
  split at hst
  · simp at hst
  · split at hst
    · simp at hst
    · simp only [List.dropLast, List.mem_cons, List.not_mem_nil, or_false] at hst
      rcases hst with h | h | h <;> rw [h]

/-- not vacuous: an accepted store passes through three states before its commit -/
example : (storeCrashStates {} ⟨List.replicate 32 1, List.replicate 32 2, [], 1, 5, [], []⟩).dropLast.length = 3 := by decide +kernel

end Pocket.C12
