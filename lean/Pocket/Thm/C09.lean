import Pocket.Lemmas.FromSourceConsts
import Pocket.Lemmas.FromSourceKind
import Pocket.Lemmas.StoreAddr
/-
C09 — at most one event per replaceable address; newer wins, older is refused.
`addrOf e` is `(kind, author, [])` for kinds 0, 3, 10000–19999 and `(kind, author, d)` for kinds
30000–39999, where `d` is the value of the first tag named `d` (an event of a parameterized kind
without such a value has no address — the code's reading, DESIGN.md §6/C09).
-/
namespace Pocket.C09
open Pocket

/-- the kind classes are exactly the NIP-01 ranges, for every kind -/
theorem classify (k : Nat) :
    (isReplaceable k = true ↔ (k = 0 ∨ k = 3 ∨ (10000 ≤ k ∧ k < 20000))) ∧
    (isEphemeral k = true ↔ (20000 ≤ k ∧ k < 30000)) ∧
    (isParamReplaceable k = true ↔ (30000 ≤ k ∧ k < 40000)) := by
  refine ⟨?_, ?_, ?_⟩
  · unfold isReplaceable
    simp only [Bool.or_eq_true, Bool.and_eq_true, decide_eq_true_eq, beq_iff_eq]
    constructor <;> intro h <;> omega
  · unfold isEphemeral
    simp only [Bool.and_eq_true, decide_eq_true_eq]
  · unfold isParamReplaceable
    simp only [Bool.and_eq_true, decide_eq_true_eq]

theorem step_addrUniq (s : Store) (op : Op) (hu : AddrUniq s.db.live) (hi : Inv s) :
    AddrUniq (step s op).db.live := by
  cases op with
  | store e => exact AddrUniq_storeEvent s e hu
  | remove id => exact AddrUniq_subset _ _ hu (fun x hx => (removeId_sublist _ _).subset hx)
  | vanish pk => exact AddrUniq_subset _ _ hu (fun x hx => (vanish_sublist s pk).subset hx)
  | reopen => exact hu
  | rebuild =>
    -- the rebuilt index holds the same events at new offsets
    intro x hx y hy hxy hne
    have hi' := Inv_rebuild s hi
    have hp : ((rebuild s).db.live.map (·.e)).Perm (s.db.live.map (·.e)) := by
      unfold rebuild; dsimp only; rw [relog_events]; exact (sortById_perm s.db.live).map _
    obtain ⟨x', hx', hxe⟩ := List.mem_map.mp (hp.subset (List.mem_map.mpr ⟨x, hx, rfl⟩))
    obtain ⟨y', hy', hye⟩ := List.mem_map.mp (hp.subset (List.mem_map.mpr ⟨y, hy, rfl⟩))
    have := hu x' hx' y' hy' (by rw [hxe, hye]; exact hxy) (by rw [hxe]; exact hne)
    have hid : x.e.id = y.e.id := by rw [← hxe, ← hye, this]
    exact nodup_ids_inj _ hi'.liveIds x hx y hy hid

/-- **for every history, at most one event per replaceable address is retrievable** -/
theorem one_per_address (ops : List Op) : AddrUniq (run {} ops).db.live := by
  have : ∀ (s : Store), AddrUniq s.db.live → Inv s → AddrUniq (run s ops).db.live := by
    induction ops with
    | nil => intro s hu _; exact hu
    | cons op ops ih => intro s hu hi; exact ih _ (step_addrUniq s op hu hi) (Inv_step s op hi)
  exact this {} (by intro x hx; cases hx) Inv_init

/-- an event strictly older than the current holder of its address is refused — as replaced, or as
deleted/duplicate if a marker or the id index covers it — and changes nothing -/
theorem store_older (s : Store) (hi : Inv s) (e : EventRec) (h : SEv) (hh : h ∈ s.db.live)
    (ha : addrOf h.e = addrOf e) (hsome : addrOf e ≠ none) (hold : e.createdAt < h.e.createdAt) :
    (storeEvent s e).2 = s ∧ ((storeEvent s e).1 = .replaced ∨ (storeEvent s e).1 = .deleted ∨
      (storeEvent s e).1 = .duplicate) := by
  have hu := Uniq_of_Inv s hi
  -- the holder survives the pre-removal (it is newer), so the event is refused as replaced
  have hrep : (preRemove s.db.live e).2 = true := by
    unfold preRemove
    by_cases he : isReplaceable e.kind = true
    · simp only [he, if_true]
      have hk := (repl_holder_iff e h.e he).mpr ha
      apply List.any_eq_true.mpr
      exact ⟨h, mem_removeReplaceable _ _ hu _ _ _ h hh hh (fun hh' => by omega), by simp [hk.1, hk.2]⟩
    · simp only [he, Bool.false_eq_true, if_false]
      by_cases hp : isParamReplaceable e.kind = true
      · simp only [hp, if_true]
        cases hd : getValue e.tags KEY_D with
        | none => exact absurd (by simp [addrOf, he, hp, hd]) hsome
        | some d =>
          dsimp only
          have hae : addrOf e = some (e.kind, e.pubkey, d) := by simp [addrOf, he, hp, hd]
          rw [hae] at ha
          have hk := (param_holder_iff h.e e.kind e.pubkey d hp).mpr ha
          apply List.any_eq_true.mpr
          exact ⟨h, mem_removeParam _ _ hu _ _ _ _ h hh hh (fun hh' => by omega), hk⟩
      · exact absurd (by simp [addrOf, he, hp]) hsome
  unfold storeEvent
  cases hr : refusal s.db e with
  | some r =>
    refine ⟨rfl, ?_⟩
    rcases refusal_cases _ _ _ hr with h | h
    · exact Or.inr (Or.inr h)
    · exact Or.inr (Or.inl h)
  | none =>
    dsimp only
    rw [if_pos hrep]
    exact ⟨rfl, Or.inl rfl⟩

/-- frame: an event whose address differs from the stored event's (in author, kind, or in any byte
or the length of `d`), or that has no address, is untouched by a store of a non-deletion event -/
theorem frame (s : Store) (hi : Inv s) (e : EventRec) (h5 : e.kind ≠ 5) (x : SEv) (hx : x ∈ s.db.live)
    (hdiff : addrOf x.e ≠ addrOf e ∨ addrOf e = none) : x ∈ (storeEvent s e).2.db.live := by
  have hu := Uniq_of_Inv s hi
  have hpre : x ∈ (preRemove s.db.live e).1 := by
    unfold preRemove
    by_cases he : isReplaceable e.kind = true
    · simp only [he, if_true]
      refine mem_removeReplaceable _ _ hu _ _ _ x hx hx (fun hh => ?_)
      have := (repl_holder_iff e x.e he).mp ⟨hh.1, hh.2.1⟩
      rcases hdiff with hd | hd
      · exact hd this
      · simp [addrOf, he] at hd
    · simp only [he, Bool.false_eq_true, if_false]
      by_cases hp : isParamReplaceable e.kind = true
      · simp only [hp, if_true]
        cases hd : getValue e.tags KEY_D with
        | none => exact hx
        | some d =>
          dsimp only
          refine mem_removeParam _ _ hu _ _ _ _ x hx hx (fun hh => ?_)
          have := (param_holder_iff x.e e.kind e.pubkey d hp).mp hh.1
          have hae : addrOf e = some (e.kind, e.pubkey, d) := by simp [addrOf, he, hp, hd]
          rcases hdiff with hd' | hd'
          · exact hd' (this.trans hae.symm)
          · rw [hae] at hd'; cases hd'
      · simp only [hp, Bool.false_eq_true, if_false]; exact hx
  rcases storeEvent_cases s e with ⟨r, _, _, h⟩ | h | ⟨_, _, h⟩ | ⟨h5', _, _⟩ | h | h
  · rw [h]; exact hx
  · rw [h]; exact hx
  · rw [h]; unfold commitPlain txnLive; dsimp only; split
    · exact hpre
    · exact List.mem_append_left _ hpre
  · exact absurd h5' h5
  · rw [h]; exact hx
  · rw [h]; exact hx

/-! ### tie to the source text: what /repo says now (translated on every run by `lib/srcfacts.py`) is what the model says -/

/-- the kind classification the theorems above rest on is the one `kind.rs` states today: the three predicates, translated
from the source text on every run, equal the model's for every kind number -/
theorem classification_from_source (k : Nat) :
    Src.kindIsReplaceable k = isReplaceable k ∧ Src.kindIsEphemeral k = isEphemeral k ∧
      Src.kindIsParamReplaceable k = isParamReplaceable k := kind_predicates_from_source k

/-- the identifier part of an address key is padded or cut to the source's `PADLEN` -/
theorem address_padding_from_source (v : Bytes) : ∀ p ∈ Src.c_lmdb_PADLEN, (pad182 v).length = p := index_padding_from_source v

end Pocket.C09
