import Pocket.Lemmas.FromSourceConsts
import Pocket.Lemmas.FromSourceHex
import Pocket.Lemmas.ParseWF
import Pocket.Lemmas.ParseFilterWF
/-
C03 — all parsers are total and memory-safe on arbitrary bytes and buffer sizes.

Every Rust operation that can leave a function other than by returning (indexing, slicing,
checked arithmetic, `unwrap`, `panic!`) is an explicit `.panic` branch or guard in the model
(DESIGN.md §3), so "`≠ .panic`" below means: for **every** input byte string and **every** output
buffer the entry point returns a value or an error.  Termination is by construction (the model
functions are total; recursion depth of the skip family is bounded by `MAX_BURN_DEPTH`).
-/
namespace Pocket.C03
open Pocket

theorem nextCodePoint_total (inp : Bytes) : nextCodePoint inp ≠ .panic := by simp
theorem jsonEscape_total (inp : Bytes) : jsonEscape inp ≠ .panic := by simp
theorem jsonUnescape_total (inp : Bytes) (cap : Nat) : jsonUnescape inp cap ≠ .panic := by simp
theorem readHex_total (n : Nat) (inp : Bytes) : readHex n inp ≠ .panic := by simp
theorem parseEvent_total (inp buf : Bytes) : parseEvent inp buf ≠ .panic := by simp
theorem parseFilter_total (inp buf : Bytes) : parseFilter inp buf ≠ .panic := by simp
theorem tagsFromJson_total (inp buf : Bytes) : tagsFromJson inp buf ≠ .panic := by simp

/-- `json_unescape` writes only inside the buffer it was given (this is the guard of its
`unsafe get_unchecked_mut` and of `encode_utf8`'s) and reports a consumed length within the input -/
theorem unescape_bounds (inp : Bytes) (cap c : Nat) (o : Bytes)
    (h : jsonUnescape inp cap = .ok (c, o)) : o.length ≤ cap ∧ c ≤ inp.length :=
  jsonUnescape_bounds inp cap c o h

/-- the skip family refuses, rather than recurses into, nesting beyond `MAX_BURN_DEPTH`: its
recursion depth is bounded whatever the input -/
theorem burn_depth_limited (fuel : Nat) (inp : Bytes) (depth : Nat) (h : depth > MAX_BURN_DEPTH) :
    burnValue fuel inp depth = .err := by
  cases fuel with
  | zero => simp [burnValue]
  | succ fuel => simp [burnValue, h]

/-- **a successful `Event::from_json` is structurally well-formed**: it wrote, inside the buffer,
exactly the encoding of an event all of whose parts fit their fields; the consumed length is
within the input; and every accessor and iterator (`eventDecode`) then reads that event back
without leaving the value -/
theorem parseEvent_wellformed (inp buf : Bytes) (c n : Nat) (out : Bytes)
    (h : parseEvent inp buf = .ok (c, n, out)) :
    c ≤ inp.length ∧ n ≤ buf.length ∧ out.length = buf.length ∧ out.drop n = buf.drop n ∧
    ∃ e, eventDecode (out.take n) = .ok e ∧ EventSized e := by
  obtain ⟨e, hs, rfl, hn, hnb, hc⟩ := parseEvent_wf inp buf c n out h
  refine ⟨hc, hnb, ?_, ?_, e, ?_, hs⟩
  · simp [← hn]; omega
  · rw [List.drop_left' hn.symm]
  · rw [List.take_left' hn.symm]; exact eventDecode_encode e hs

/-- a successful `Tags::from_json` wrote a well-formed tag section -/
theorem tagsFromJson_wellformed (inp buf : Bytes) (c n : Nat) (out : Bytes)
    (h : tagsFromJson inp buf = .ok (c, n, out)) :
    c ≤ inp.length ∧ ∃ ts, tagsDecode (out.take n) = .ok ts ∧ tagsSize ts ≤ 65535 := by
  unfold tagsFromJson at h
  split at h
  · rename_i r tb hr
    simp only [Outcome.ok.injEq, Prod.mk.injEq] at h
    obtain ⟨rfl, rfl, rfl⟩ := h
    obtain ⟨ts, rfl, hfit⟩ := readTagsArray_spec _ _ _ _ hr
    refine ⟨by omega, ts, ?_, hfit⟩
    rw [List.take_left' rfl]
    have := tagsDecode_encode ts hfit []
    simpa using this
  · cases h
  · cases h

/-- **a successful `Filter::from_json` is structurally well-formed**: it wrote, inside the buffer,
exactly the encoding of a filter whose counts, lengths and offsets are consistent; every accessor
and iterator (`filterDecode`) reads that filter back without leaving the value -/
theorem parseFilter_wellformed (inp buf : Bytes) (c n : Nat) (out : Bytes)
    (h : parseFilter inp buf = .ok (c, n, out)) :
    c ≤ inp.length ∧ n ≤ buf.length ∧ out.length = buf.length ∧ out.drop n = buf.drop n ∧
    ∃ f, filterDecode (out.take n) = .ok f ∧ FilterSized f := by
  obtain ⟨f, hs, rfl, hn, hnb, hc⟩ := parseFilter_wf inp buf c n out h
  refine ⟨hc, hnb, ?_, ?_, f, ?_, hs⟩
  · simp [← hn]; omega
  · rw [List.drop_left' hn.symm]
  · rw [List.take_left' hn.symm]; exact filterDecode_encode f hs

/-- non-vacuity: a concrete event text is accepted (so the hypotheses above are satisfiable), and
a truncated one is an error, not a panic -/
example : (tagsFromJson [91, 91, 34, 97, 34, 44, 34, 98, 34, 93, 44, 91, 93, 93] (List.replicate 40 7)).isOk = true ∧
    tagsFromJson [91, 91, 34, 97] (List.replicate 40 7) = .err := by decide

/-! ### tie to the source text: what /repo says now (translated on every run by `lib/srcfacts.py`) is what the model says -/

/-- the table `json_unescape` reads its `\\u` digits from, by code point -/
theorem unescape_hex_table_from_source (b : Nat) (hb : b < 256) :
    hexVal b = (match Src.hexInverse[b]? with | some h => if h = 255 then none else some h | none => none) :=
  hex_table_unescape_from_source b hb

/-- the nesting bound of `burn_value` and the size of the table of tag-member positions -/
theorem parser_bounds_from_source : Src.c_json_parse_MAX_BURN_DEPTH = [MAX_BURN_DEPTH] ∧ Src.startTagsLen = 52 :=
  Pocket.parser_bounds_from_source

end Pocket.C03
