import Pocket.Spec.AbsStore
import Pocket.Lemmas.StoreRead
/-
C16 — reopen and rebuild preserve everything observable.
-/
namespace Pocket.C16
open Pocket

/-- closing and reopening the store changes nothing (the map length and end marker are
re-derived from the file; the tables are LMDB's) -/
theorem reopen_preserves (s : Store) : step s .reopen = s := rfl

/-- rebuild keeps the deletion markers (ids, and addresses with their times) and the extra tables -/
theorem rebuild_preserves_markers (s : Store) :
    (rebuild s).db.delIds = s.db.delIds ∧ (rebuild s).db.delAddrs = s.db.delAddrs ∧
    (rebuild s).db.extra = s.db.extra := ⟨rfl, rfl, rfl⟩

/-- rebuild keeps exactly the retrievable events (as a multiset) -/
theorem rebuild_preserves_events (s : Store) :
    ((rebuild s).db.live.map (·.e)).Perm (s.db.live.map (·.e)) := by
  unfold rebuild
  dsimp only
  rw [relog_events]
  exact (sortById_perm s.db.live).map _

/-- every lookup by id gives the same answer after rebuild -/
theorem rebuild_getById (s : Store) (hi : Inv s) (id : Bytes) : getById (rebuild s) id = getById s id := by
  have hp := rebuild_preserves_events s
  have hi' := Inv_rebuild s hi
  cases h : findById s.db.live id with
  | some x =>
    obtain ⟨hx, hid⟩ := findById_some_mem _ _ _ h
    have : x.e ∈ (rebuild s).db.live.map (·.e) := hp.symm.subset (List.mem_map.mpr ⟨x, hx, rfl⟩)
    obtain ⟨y, hy, hye⟩ := List.mem_map.mp this
    have := getById_of_mem _ hi' y hy
    rw [hye, hid] at this
    rw [this]; simp [getById, h]
  | none =>
    have hnone : findById (rebuild s).db.live id = none := by
      cases h' : findById (rebuild s).db.live id with
      | none => rfl
      | some y =>
        obtain ⟨hy, hid⟩ := findById_some_mem _ _ _ h'
        have : y.e ∈ s.db.live.map (·.e) := hp.subset (List.mem_map.mpr ⟨y, hy, rfl⟩)
        obtain ⟨x, hx, hxe⟩ := List.mem_map.mp this
        have := findById_of_mem _ x hi.liveIds hx
        rw [hxe, hid, h] at this; cases this
    simp [getById, h, hnone]

/-- rebuild retains no bytes of unreferenced events: the new map holds only the retrievable
events, each 8-aligned -/
theorem rebuild_compacts (s : Store) :
    (rebuild s).log = (rebuild s).db.live ∧
    (rebuild s).end ≤ 8 + (s.db.live.map (fun x => eventLen x.e + 7)).sum := by
  refine ⟨rfl, ?_⟩
  have hgen : ∀ (xs : List SEv) (e : Nat), (relog xs e).2 ≤ e + (xs.map (fun x => eventLen x.e + 7)).sum := by
    intro xs
    induction xs with
    | nil => intro e; simp [relog]
    | cons x xs ih =>
      intro e
      have := ih (align8 e + eventLen x.e)
      have h8 : align8 e ≤ e + 7 := by unfold align8; split <;> omega
      simp only [relog, List.map_cons, List.sum_cons]
      omega
  have := hgen (s.db.live.foldr insertById []) 8
  have hperm : ((s.db.live.foldr insertById []).map (fun x => eventLen x.e + 7)).sum =
      (s.db.live.map (fun x => eventLen x.e + 7)).sum :=
    ((sortById_perm s.db.live).map _).sum_nat
  unfold rebuild
  dsimp only
  omega

/-- the invariant (everything indexed is in the map, offsets sound) holds again after rebuild -/
theorem rebuild_inv (s : Store) (hi : Inv s) : Inv (rebuild s) := Inv_rebuild s hi

/-! ### the property read on the specification (`Spec/AbsStore.lean`) -/

theorem mem_insertByIdE (z x : EventRec) (l : List EventRec) : z ∈ insertByIdE x l ↔ z = x ∨ z ∈ l := by
  induction l with
  | nil => simp [insertByIdE]
  | cons y ys ih =>
    simp only [insertByIdE]
    split
    · simp
    · simp only [List.mem_cons, ih]
      constructor
      · rintro (h | h | h)
        · exact Or.inr (Or.inl h)
        · exact Or.inl h
        · exact Or.inr (Or.inr h)
      · rintro (h | h | h)
        · exact Or.inr (Or.inl h)
        · exact Or.inl h
        · exact Or.inr (Or.inr h)

theorem length_insertByIdE (x : EventRec) (l : List EventRec) : (insertByIdE x l).length = l.length + 1 := by
  induction l with
  | nil => rfl
  | cons y ys ih =>
    simp only [insertByIdE]
    split
    · simp
    · simp [ih]

/-- C16 read on the specification: rebuilding the abstract store keeps exactly the retrievable events (each as often as
before) and both marker tables; what it changes is the log - the retrievable events alone, re-appended from offset 8 -/
theorem spec_rebuild_preserves (a : Abs) :
    (∀ x, x ∈ (absRebuild a).live ↔ x ∈ a.live) ∧ (absRebuild a).live.length = a.live.length ∧
    (absRebuild a).delIds = a.delIds ∧ (absRebuild a).delAddrs = a.delAddrs := by
  refine ⟨?_, ?_, rfl, rfl⟩
  · intro x
    show x ∈ a.live.foldr insertByIdE [] ↔ x ∈ a.live
    induction a.live with
    | nil => simp
    | cons y ys ih => rw [List.foldr_cons, mem_insertByIdE, ih]; simp
  · show (a.live.foldr insertByIdE []).length = a.live.length
    induction a.live with
    | nil => rfl
    | cons y ys ih => rw [List.foldr_cons, length_insertByIdE, ih]; simp

end Pocket.C16
