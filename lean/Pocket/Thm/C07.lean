import Pocket.Lemmas.FromSourceLayout
import Pocket.Lemmas.FromSourcePreds
import Pocket.Lemmas.FromSourceConsts
import Pocket.Lemmas.Total
import Pocket.Lemmas.Digits
import Pocket.Lemmas.FilterRT
import Pocket.Lemmas.Layout
import Pocket.Lemmas.ParseFilterWF
import Pocket.Lemmas.FilterOrder
/-
C07 — filter JSON parsing: integer members never wrap, duplicate tag letters are detected
whatever their position, and the parser is total.

THE ROUND TRIP (`round_trip`, `round_trip_values`): for every canonical filter — any numbers of ids,
authors and kinds, tag constraints named by distinct letters (any number of them: all 52) with UTF-8 values, any
since/until/limit, members present or defaulted — `as_json` succeeds and `from_json` of its text
(with any trailing input, into any sufficient buffer with any prior contents) consumes exactly the
text and yields exactly the bytes of `from_parts`, whose accessors return the filter.  Both passes
of the parser are covered: the first records positions and skips values, the second copies.

ANY ORDER, ANY SEPARATORS, UNKNOWN MEMBERS (`any_order_any_whitespace_unknown_members`): a filter text
is a list of members — the six NIP-01 members with values written as `as_json` writes them, `"#l":[…]`
for letters `l`, and unknown members `"key":value` with ANY JSON value nested at most 64 deep (strings
with any escapes, numbers, literals, arrays, objects, any whitespace) — in ANY order, separated by any
mix of whitespace and commas, any whitespace round each colon, after any leading whitespace, followed
by anything.  If each NIP-01 member occurs at most once and the tag letters are distinct, the parser
accepts it, consumes up to the closing brace, and writes exactly `from_parts` of the filter the members
denote (tag constraints in the order of the text; `limit` saturated at 2^32-1).

ORDER INDEPENDENCE (`order_independent`, `acceptance_order_independent`): two texts whose member lists
are permutations of each other (whatever their separators) are both accepted or both refused, and when
accepted denote the same ids, authors, kinds, since, until, limit and the same set of tag constraints.
A repeated member is refused wherever it stands (`repeated_member_refused`).

Not theorems: acceptance of other spellings of the NIP-01 member VALUES (whitespace inside the arrays,
upper-case hex, escapes inside tag values other than those `as_json` uses) and order independence for
member lists with ill-formed values — those rest on the correspondence check (Python `json`, CST
generator, ill-formed member groups in several orders).
-/
namespace Pocket.C07
open Pocket

theorem parseFilter_total (inp buf : Bytes) : parseFilter inp buf ≠ .panic := by simp

/-- `since`/`until` literals that fit are read exactly -/
theorem since_until_literal (n : Nat) (rest : Bytes) (hn : n < 18446744073709551616)
    (hr : NoLeadingDigit rest) : readU64 (decOf n ++ rest) = .ok (n, rest) :=
  readU64_decOf n rest hn hr

/-- … and those of 2^64 or more are rejected, never wrapped -/
theorem since_until_wide_rejected (n : Nat) (rest : Bytes) (hn : n ≥ 18446744073709551616)
    (hr : NoLeadingDigit rest) : readU64 (decOf n ++ rest) = .err :=
  readU64_decOf_wide n rest hn hr

/-- every kind the copy loop stores is below 65536 (larger members are an error) -/
theorem kind_member_bound (fuel : Nat) (inp : Bytes) (e cap n : Nat) (ks : List Nat)
    (h : copyKinds fuel inp e cap n = .ok ks) : ∀ k ∈ ks, k < 65536 := by
  induction fuel generalizing inp e n ks with
  | zero => simp [copyKinds] at h
  | succ fuel ih =>
    unfold copyKinds at h
    split at h
    · cases h
    · split at h
      · simp at h; subst h; simp
      · split at h
        · rename_i u r hu
          split at h
          · cases h
          · split at h
            · cases h
            · split at h
              · cases h
              · split at h
                · rename_i ks' hk
                  simp only [Outcome.ok.injEq] at h; subst h
                  intro k hk'
                  rcases List.mem_cons.mp hk' with rfl | hm
                  · omega
                  · exact ih _ _ _ _ hk k hm
                · cases h
                · cases h
        · cases h
        · cases h

/-- a second tag member with a letter already seen is rejected, wherever the first one was -/
theorem duplicate_letter_rejected (st : FlSt) (l : Nat) (after : Bytes) (hl : isLetter l = true)
    (hseen : l ∈ st.letters) (hfew : st.tagStarts.length < 52) :
    flMember st (34 :: 35 :: l :: 34 :: after) = .err := by
  unfold flMember
  simp only [verifyChar, if_true]
  have hne : ∀ k : Bytes, k.length ≥ 4 → k.head? ≠ some 35 → startsWith k (35 :: l :: 34 :: after) = false := by
    intro k hk hh
    unfold startsWith
    cases k with
    | nil => simp at hk
    | cons a k' =>
      simp only [List.head?_cons, ne_eq, Option.some.injEq] at hh
      simp only [List.length_cons, List.take_succ_cons, beq_eq_false_iff_ne, ne_eq, List.cons.injEq, not_and]
      intro h1; exact absurd h1.symm hh
  rw [hne kIds (by decide) (by decide), hne kAuthors (by decide) (by decide), hne kKinds (by decide) (by decide),
    hne kSince (by decide) (by decide), hne kUntil (by decide) (by decide), hne kLimit (by decide) (by decide)]
  simp only [Bool.false_eq_true, if_false, hl, and_self, if_true]
  have : ¬ st.tagStarts.length ≥ 52 := by omega
  simp only [this, if_false, List.contains_iff_mem, hseen, if_true]

/-- whatever text is accepted, the result is exactly the encoding of a sized filter (what
`from_parts` writes for the values the accessors return), inside the buffer, rest untouched -/
theorem accepted_is_wellformed (inp buf : Bytes) (c n : Nat) (out : Bytes)
    (h : parseFilter inp buf = .ok (c, n, out)) :
    ∃ f, FilterSized f ∧ out = encodeFilter f ++ buf.drop n ∧ n = (encodeFilter f).length ∧
      filterDecode (out.take n) = .ok f ∧ c ≤ inp.length := by
  obtain ⟨f, hs, rfl, hn, _, hc⟩ := parseFilter_wf inp buf c n out h
  exact ⟨f, hs, rfl, hn, by rw [List.take_left' hn.symm]; exact filterDecode_encode f hs, hc⟩

/-- **the round trip**: `from_json (as_json f) = from_parts f`, byte for byte, consuming exactly the
text, for every canonical filter, every trailing input and every sufficient buffer -/
theorem round_trip (f : FilterRec) (hc : FilterCanon f) (rest buf : Bytes)
    (hbuf : (encodeFilter f).length ≤ buf.length) :
    ∃ txt, filterJson f = .ok txt ∧
      parseFilter (txt ++ rest) buf =
        .ok (txt.length, (encodeFilter f).length, encodeFilter f ++ buf.drop (encodeFilter f).length) := by
  obtain ⟨txt, ht⟩ := filterJson_ok f hc
  exact ⟨txt, ht, parseFilter_filterJson f hc txt ht rest buf hbuf⟩

/-- … and the accessors of the parsed value return the original filter -/
theorem round_trip_values (f : FilterRec) (hc : FilterCanon f) (rest buf : Bytes)
    (hbuf : (encodeFilter f).length ≤ buf.length) :
    ∃ txt c n out, filterJson f = .ok txt ∧ parseFilter (txt ++ rest) buf = .ok (c, n, out) ∧
      c = txt.length ∧ filterDecode (out.take n) = .ok f := by
  obtain ⟨txt, ht, hp⟩ := round_trip f hc rest buf hbuf
  refine ⟨txt, _, _, _, ht, hp, rfl, ?_⟩
  rw [List.take_left' rfl]
  exact filterDecode_encode f hc.sized

/-- **any order, any separators, unknown members**: see the header -/
theorem any_order_any_whitespace_unknown_members (ms : List FSpec) (hws : ∀ x ∈ ms, x.WsOk)
    (hacc : ({} : FAbs).accepts (ms.map (·.m)))
    (lead wEnd rest buf : Bytes) (hlead : AllWs lead) (hwe : SepWs wEnd)
    (hs : FilterSized (({} : FAbs).run (ms.map (·.m))).toFilter)
    (hbuf : (encodeFilter (({} : FAbs).run (ms.map (·.m))).toFilter).length ≤ buf.length) :
    parseFilter (lead ++ 123 :: flText ms (wEnd ++ 125 :: rest)) buf =
      .ok ((lead ++ 123 :: flText ms (wEnd ++ 125 :: rest)).length - rest.length,
        (encodeFilter (({} : FAbs).run (ms.map (·.m))).toFilter).length,
        encodeFilter (({} : FAbs).run (ms.map (·.m))).toFilter ++
          buf.drop (encodeFilter (({} : FAbs).run (ms.map (·.m))).toFilter).length) :=
  parseFilter_any_order ms hws hacc lead wEnd rest buf hlead hwe hs hbuf

/-- the acceptance condition says nothing about positions: every member well-formed, no NIP-01 member
and no tag letter twice -/
theorem accepts_characterised (ms : List FMem) :
    ({} : FAbs).accepts ms ↔ (∀ m ∈ ms, FMemOk m) ∧ (ms.filterMap slot).Nodup := by
  rw [accepts_iff]
  constructor
  · rintro ⟨h1, h2, _⟩; exact ⟨h1, h2⟩
  · rintro ⟨h1, h2⟩
    refine ⟨h1, h2, fun m _ => ?_⟩
    cases m <;> simp [FAbs.fresh]

/-- a repeated NIP-01 member or tag letter is refused wherever it stands -/
theorem repeated_member_refused (ms : List FSpec) (hws : ∀ x ∈ ms, x.WsOk) (hok : ∀ x ∈ ms, FMemOk x.m)
    (hrep : ¬ ((ms.map (·.m)).filterMap slot).Nodup) (lead wEnd rest buf : Bytes) (hlead : AllWs lead)
    (hwe : SepWs wEnd) : parseFilter (lead ++ 123 :: flText ms (wEnd ++ 125 :: rest)) buf = .err :=
  parseFilter_reject ms hws hok (fun h => hrep ((accepts_characterised _).mp h).2) lead wEnd rest buf hlead hwe

/-- **order independence of the meaning**: two texts whose member lists are permutations of each other
(with whatever separators) denote the same filter up to the order of the tag constraints; both are
accepted into any buffers that hold the result -/
theorem order_independent (ms₁ ms₂ : List FSpec) (hp : (ms₁.map (·.m)).Perm (ms₂.map (·.m)))
    (hws₁ : ∀ x ∈ ms₁, x.WsOk) (hws₂ : ∀ x ∈ ms₂, x.WsOk) (hacc : ({} : FAbs).accepts (ms₁.map (·.m)))
    (lead₁ wEnd₁ rest₁ buf₁ lead₂ wEnd₂ rest₂ buf₂ : Bytes) (hl₁ : AllWs lead₁) (hl₂ : AllWs lead₂)
    (he₁ : SepWs wEnd₁) (he₂ : SepWs wEnd₂)
    (hs : FilterSized (({} : FAbs).run (ms₁.map (·.m))).toFilter)
    (hb₁ : (encodeFilter (({} : FAbs).run (ms₁.map (·.m))).toFilter).length ≤ buf₁.length)
    (hb₂ : (encodeFilter (({} : FAbs).run (ms₁.map (·.m))).toFilter).length ≤ buf₂.length) :
    ∃ f₁ f₂ c₁ c₂,
      parseFilter (lead₁ ++ 123 :: flText ms₁ (wEnd₁ ++ 125 :: rest₁)) buf₁ =
        .ok (c₁, (encodeFilter f₁).length, encodeFilter f₁ ++ buf₁.drop (encodeFilter f₁).length) ∧
      parseFilter (lead₂ ++ 123 :: flText ms₂ (wEnd₂ ++ 125 :: rest₂)) buf₂ =
        .ok (c₂, (encodeFilter f₂).length, encodeFilter f₂ ++ buf₂.drop (encodeFilter f₂).length) ∧
      f₁.ids = f₂.ids ∧ f₁.authors = f₂.authors ∧ f₁.kinds = f₂.kinds ∧ f₁.since = f₂.since ∧
      f₁.until = f₂.until ∧ f₁.limit = f₂.limit ∧ f₁.tags.Perm f₂.tags := by
  have hacc₂ := accepts_perm _ _ hp {} hacc
  have hnd := ((accepts_iff _ _).mp hacc).2.1
  have heq := toFilter_equiv _ _ (run_perm _ _ hp hnd {})
  obtain ⟨e1, e2, e3, e4, e5, e6, e7⟩ := heq
  obtain ⟨hs₂, hlen⟩ := sized_equiv _ _ hs e1 e2 e3 e4 e5 e6 e7
  exact ⟨_, _, _, _, parseFilter_any_order ms₁ hws₁ hacc lead₁ wEnd₁ rest₁ buf₁ hl₁ he₁ hs hb₁,
    parseFilter_any_order ms₂ hws₂ hacc₂ lead₂ wEnd₂ rest₂ buf₂ hl₂ he₂ hs₂ (by rw [hlen]; exact hb₂),
    e1, e2, e3, e4, e5, e6, e7⟩

/-- **order independence of acceptance**: for member lists with well-formed values whose result fits
the format and the buffer, one order is accepted iff every other order is -/
theorem acceptance_order_independent (ms₁ ms₂ : List FSpec) (hp : (ms₁.map (·.m)).Perm (ms₂.map (·.m)))
    (hws₁ : ∀ x ∈ ms₁, x.WsOk) (hws₂ : ∀ x ∈ ms₂, x.WsOk) (hok : ∀ x ∈ ms₁, FMemOk x.m)
    (lead₁ wEnd₁ rest₁ lead₂ wEnd₂ rest₂ buf : Bytes) (hl₁ : AllWs lead₁) (hl₂ : AllWs lead₂)
    (he₁ : SepWs wEnd₁) (he₂ : SepWs wEnd₂)
    (hfit : FilterSized (({} : FAbs).run (ms₁.map (·.m))).toFilter ∧
      (encodeFilter (({} : FAbs).run (ms₁.map (·.m))).toFilter).length ≤ buf.length) :
    (∃ r, parseFilter (lead₁ ++ 123 :: flText ms₁ (wEnd₁ ++ 125 :: rest₁)) buf = .ok r) ↔
    (∃ r, parseFilter (lead₂ ++ 123 :: flText ms₂ (wEnd₂ ++ 125 :: rest₂)) buf = .ok r) := by
  have hok₂ : ∀ x ∈ ms₂, FMemOk x.m := by
    intro x hx
    have : x.m ∈ ms₁.map (·.m) := hp.mem_iff.mpr (List.mem_map.mpr ⟨x, hx, rfl⟩)
    obtain ⟨y, hy, hym⟩ := List.mem_map.mp this
    rw [← hym]; exact hok y hy
  by_cases hacc : ({} : FAbs).accepts (ms₁.map (·.m))
  · obtain ⟨f₁, f₂, c₁, c₂, h1, h2, _⟩ := order_independent ms₁ ms₂ hp hws₁ hws₂ hacc lead₁ wEnd₁ rest₁ buf
      lead₂ wEnd₂ rest₂ buf hl₁ hl₂ he₁ he₂ hfit.1 hfit.2 hfit.2
    exact ⟨fun _ => ⟨_, h2⟩, fun _ => ⟨_, h1⟩⟩
  · have hacc₂ : ¬ ({} : FAbs).accepts (ms₂.map (·.m)) := fun h => hacc (accepts_perm _ _ hp.symm {} h)
    have r1 := parseFilter_reject ms₁ hws₁ hok hacc lead₁ wEnd₁ rest₁ buf hl₁ he₁
    have r2 := parseFilter_reject ms₂ hws₂ hok₂ hacc₂ lead₂ wEnd₂ rest₂ buf hl₂ he₂
    rw [r1, r2]

/-- the member-list hypotheses are satisfiable: `{ "x":{"a":[1,true]} , "#e":[] ,"since" : 7 }` -/
example : ∃ ms : List FSpec, (∀ x ∈ ms, x.WsOk) ∧ ({} : FAbs).accepts (ms.map (·.m)) ∧ ms.length = 3 ∧
    FilterSized (({} : FAbs).run (ms.map (·.m))).toFilter := by
  refine ⟨[⟨[32], [], [], .unknown [120] (123 :: ([] ++ 34 :: ([97] ++ 34 :: ([] ++ 58 :: ([] ++
              ((91 :: ([] ++ ([49] ++ ([44] ++ ([116, 114, 117, 101] ++ ([] ++ [93])))))) ++ ([] ++ [125])))))))⟩,
           ⟨[32, 44], [], [], .tag 101 [] []⟩, ⟨[44], [32], [32], .since 7⟩], ?_, ?_, rfl, ?_⟩
  · intro x hx
    simp only [List.mem_cons, List.not_mem_nil, or_false] at hx
    rcases hx with rfl | rfl | rfl <;> refine ⟨?_, ?_, ?_⟩ <;> intro b hb <;> simp at hb <;>
      first | (rcases hb with rfl | rfl <;> simp [isWs]) | (subst hb; simp [isWs])
  · refine (accepts_characterised _).mpr ⟨?_, by decide⟩
    intro m hm
    simp only [List.map_cons, List.map_nil, List.mem_cons, List.not_mem_nil, or_false] at hm
    rcases hm with rfl | rfl | rfl
    · refine ⟨.raw 120 [] (by decide) (by decide) .nil, by decide, ?_, 2, by decide, ?_⟩
      · intro l _ h; cases h
      · refine .obj _ (.mCons [] [97] [] [] _ _ (by intro b hb; cases hb) (.raw 97 [] (by decide) (by decide) .nil)
          (by intro b hb; cases hb) (by intro b hb; cases hb) ?_ (.mEnd [] (by intro b hb; cases hb)) ?_)
        · refine .arr _ (.eCons [] [49] _ (by intro b hb; cases hb) (.num [49] ⟨49, [], rfl, Or.inr (by decide), by simp⟩) ?_ ?_)
          · refine .eCons [44] [116, 114, 117, 101] _ (by intro b hb; simp at hb; exact Or.inr hb) .tru
              (.eEnd [] (by intro b hb; cases hb)) ?_
            intro b r h; simp at h; obtain ⟨rfl, _⟩ := h; decide
          · intro b r h; simp at h; obtain ⟨rfl, _⟩ := h; decide
        · intro b r h; simp at h; obtain ⟨rfl, _⟩ := h; decide
    · exact ⟨by decide, by simp, rfl, by simp⟩
    · simp [FMemOk]
  · constructor <;> simp [FAbs.run, FAbs.apply, FAbs.toFilter, U64MAX, U32MAX, satLimit, tagsSize, tagsBodySize, tagSize, strsSize]

/-- the hypotheses are satisfiable: ids, a kind, two tag constraints, a limit -/
example : ∃ f : FilterRec, FilterCanon f ∧ f.tags.length = 2 ∧ f.ids ≠ [] := by
  refine ⟨{ ids := [List.replicate 32 7], authors := [], kinds := [1], tags := [[[101], utf8Of [97]], [[112], utf8Of [233], utf8Of [10]]],
            since := 0, «until» := U64MAX, limit := 10 }, ?_, rfl, by simp⟩
  refine ⟨?_, ?_, ?_, ?_, ?_⟩
  · constructor <;> simp [U64MAX] <;> decide
  · intro x hx b hb
    simp only [List.mem_singleton] at hx; subst hx
    simp only [List.mem_replicate] at hb; omega
  · intro x hx; cases hx
  · intro t ht
    simp only [List.mem_cons, List.not_mem_nil, or_false] at ht
    rcases ht with rfl | rfl
    · exact ⟨101, [utf8Of [97]], rfl, by decide, fun v hv => by
        simp only [List.mem_singleton] at hv; subst hv; exact ⟨[97], by decide, rfl⟩, by decide⟩
    · exact ⟨112, [utf8Of [233], utf8Of [10]], rfl, by decide, fun v hv => by
        simp only [List.mem_cons, List.not_mem_nil, or_false] at hv
        rcases hv with rfl | rfl
        · exact ⟨[233], by decide, rfl⟩
        · exact ⟨[10], by decide, rfl⟩, by decide⟩
  · decide

/-! ### tie to the source text: what /repo says now (translated on every run by `lib/srcfacts.py`) is what the model says -/

/-- the binary filter's header layout (offsets and element sizes named in `filter.rs`) is the model's; the table of
tag-member positions has one slot per letter -/
theorem filter_layout_from_source :
    (∀ a ∈ Src.c_filter_ARRAYS_OFFSET, filterSize 0 0 0 0 = a) ∧
    (∀ s ∈ Src.c_filter_ID_SIZE, filterSize 1 0 0 0 = filterSize 0 0 0 0 + s) ∧
    (∀ s ∈ Src.c_filter_PUBKEY_SIZE, filterSize 0 1 0 0 = filterSize 0 0 0 0 + s) ∧
    (∀ s ∈ Src.c_filter_KIND_SIZE, filterSize 0 0 1 0 = filterSize 0 0 0 0 + s) ∧
    Src.c_filter_NUM_IDS_OFFSET = [4] ∧ Src.c_filter_NUM_AUTHORS_OFFSET = [6] ∧ Src.c_filter_NUM_KINDS_OFFSET = [8] ∧
    Src.c_filter_LIMIT_OFFSET = [12] ∧ Src.c_filter_SINCE_OFFSET = [16] ∧ Src.c_filter_UNTIL_OFFSET = [24] :=
  Pocket.filter_layout_from_source

theorem tag_table_from_source : Src.startTagsLen = 52 := Pocket.parser_bounds_from_source.2

/-- which members are tag constraints: the test on the byte after `#` in `parse_json_filter`, as the source spells it today,
is the model's "single ASCII letter" -/
theorem tag_member_letter_from_source (b : Nat) : Src.tagMemberLetter b = isLetter b := Pocket.tag_member_letter_from_source b

/-- the 32-byte header `Filter::from_parts` writes today (translated statement by statement on every run) is the head of the model's
encoding, and an absent limit / since / until is written as `u32::MAX` / `0` / `u64::MAX` -/
theorem filter_header_from_source (ids authors : List Bytes) (kinds : List Nat) (tagBytes : Bytes) (since «until» limit : Nat) (size a b c : Nat) :
    encodeFilterWith ids authors kinds tagBytes since «until» limit =
      Src.filterHeader (filterSize ids.length authors.length kinds.length tagBytes.length) ids.length authors.length kinds.length
        (some limit) (some since) (some «until») ++ (flat32 ids ++ flat32 authors ++ flatKinds kinds ++ tagBytes) ∧
    Src.filterHeader size a b c none none none = Src.filterHeader size a b c (some U32MAX) (some 0) (some U64MAX) :=
  ⟨Pocket.filter_header_from_source ids authors kinds tagBytes since «until» limit, filter_defaults_from_source size a b c⟩

/-- **the whole writer of `Filter::from_parts` as `filter.rs` spells it today**: the 32-byte header followed by the copy loops over ids,
authors and kinds and the tag section (both translated on every run; the loops as random-access writes through the moving `p`). On a
buffer that starts with the header, for all 32-byte ids and authors, all kinds and every tag section, the loops complete it to the
model's `encodeFilterWith` and leave the rest of the buffer alone -/
theorem filter_arrays_from_source (ids authors : List Bytes) (kinds : List Nat) (tagBytes Y : Bytes) (since «until» limit : Nat)
    (hi : ∀ x ∈ ids, x.length = 32) (ha : ∀ x ∈ authors, x.length = 32) :
    Src.filterArraysWrite ids authors kinds tagBytes
        (Src.filterHeader (filterSize ids.length authors.length kinds.length tagBytes.length) ids.length authors.length kinds.length
          (some limit) (some since) (some «until») ++ Y) =
      encodeFilterWith ids authors kinds tagBytes since «until» limit ++
        Y.drop (32 * ids.length + 32 * authors.length + 2 * kinds.length + tagBytes.length) := by
  rw [Pocket.filter_arrays_from_source ids authors kinds tagBytes _ Y hi ha (by simp [Src.filterHeader]),
    Pocket.filter_header_from_source ids authors kinds tagBytes since «until» limit]
  simp [List.append_assoc]

end Pocket.C07
