import Pocket.Lemmas.Total
import Pocket.Lemmas.Digits
/-
C07 — filter JSON parsing: integer members never wrap, duplicate tag letters are detected
whatever their position, and the parser is total.

Faithfulness to an independent parser, order independence and the as_json round trip are
established by the correspondence check (Python `json`, all 52×52 letter pairs, member
permutations); their proofs (`parseFilter_complete`, DESIGN.md §6/C07) are not closed yet and
are not claimed.
-/
namespace Pocket.C07
open Pocket

theorem parseFilter_total (inp buf : Bytes) : parseFilter inp buf ≠ .panic := by simp

/-- `since`/`until` literals that fit are read exactly -/
theorem since_until_literal (n : Nat) (rest : Bytes) (hn : n < 18446744073709551616)
    (hr : NoLeadingDigit rest) : readU64 (decOf n ++ rest) = .ok (n, rest) :=
  readU64_decOf n rest hn hr

/-- … and those of 2^64 or more are rejected, never wrapped -/
theorem since_until_wide_rejected (n : Nat) (rest : Bytes) (hn : n ≥ 18446744073709551616)
    (hr : NoLeadingDigit rest) : readU64 (decOf n ++ rest) = .err :=
  readU64_decOf_wide n rest hn hr

/-- every kind the copy loop stores is below 65536 (larger members are an error) -/
theorem kind_member_bound (fuel : Nat) (inp : Bytes) (e cap n : Nat) (ks : List Nat)
    (h : copyKinds fuel inp e cap n = .ok ks) : ∀ k ∈ ks, k < 65536 := by
  induction fuel generalizing inp e n ks with
  | zero => simp [copyKinds] at h
  | succ fuel ih =>
    unfold copyKinds at h
    split at h
    · cases h
    · split at h
      · simp at h; subst h; simp
      · split at h
        · rename_i u r hu
          split at h
          · cases h
          · split at h
            · cases h
            · split at h
              · cases h
              · split at h
                · rename_i ks' hk
                  simp only [Outcome.ok.injEq] at h; subst h
                  intro k hk'
                  rcases List.mem_cons.mp hk' with rfl | hm
                  · omega
                  · exact ih _ _ _ _ hk k hm
                · cases h
                · cases h
        · cases h
        · cases h

/-- a second tag member with a letter already seen is rejected, wherever the first one was -/
theorem duplicate_letter_rejected (st : FlSt) (l : Nat) (after : Bytes) (hl : isLetter l = true)
    (hseen : l ∈ st.letters) (hfew : st.tagStarts.length < 32) :
    flMember st (34 :: 35 :: l :: 34 :: after) = .err := by
  unfold flMember
  simp only [verifyChar, if_true]
  have hne : ∀ k : Bytes, k.length ≥ 4 → k.head? ≠ some 35 → startsWith k (35 :: l :: 34 :: after) = false := by
    intro k hk hh
    unfold startsWith
    cases k with
    | nil => simp at hk
    | cons a k' =>
      simp only [List.head?_cons, ne_eq, Option.some.injEq] at hh
      simp only [List.length_cons, List.take_succ_cons, beq_eq_false_iff_ne, ne_eq, List.cons.injEq, not_and]
      intro h1; exact absurd h1.symm hh
  rw [hne kIds (by decide) (by decide), hne kAuthors (by decide) (by decide), hne kKinds (by decide) (by decide),
    hne kSince (by decide) (by decide), hne kUntil (by decide) (by decide), hne kLimit (by decide) (by decide)]
  simp only [Bool.false_eq_true, if_false, hl, and_self, if_true]
  have : ¬ st.tagStarts.length ≥ 32 := by omega
  simp only [this, if_false, List.contains_iff_mem, hseen, if_true]

end Pocket.C07
