import Pocket.Lemmas.Total
import Pocket.Lemmas.Digits
import Pocket.Lemmas.FilterRT
import Pocket.Lemmas.Layout
import Pocket.Lemmas.ParseFilterWF
/-
C07 — filter JSON parsing: integer members never wrap, duplicate tag letters are detected
whatever their position, and the parser is total.

THE ROUND TRIP (`round_trip`, `round_trip_values`): for every canonical filter — any numbers of ids,
authors and kinds, tag constraints named by distinct letters (any number of them: all 52) with UTF-8 values, any
since/until/limit, members present or defaulted — `as_json` succeeds and `from_json` of its text
(with any trailing input, into any sufficient buffer with any prior contents) consumes exactly the
text and yields exactly the bytes of `from_parts`, whose accessors return the filter.  Both passes
of the parser are covered: the first records positions and skips values, the second copies.

Faithfulness to an independent parser on *arbitrary* texts and order independence are established
by the correspondence check (Python `json`, all 52×52 letter pairs, member permutations) and are
not claimed as theorems.
-/
namespace Pocket.C07
open Pocket

theorem parseFilter_total (inp buf : Bytes) : parseFilter inp buf ≠ .panic := by simp

/-- `since`/`until` literals that fit are read exactly -/
theorem since_until_literal (n : Nat) (rest : Bytes) (hn : n < 18446744073709551616)
    (hr : NoLeadingDigit rest) : readU64 (decOf n ++ rest) = .ok (n, rest) :=
  readU64_decOf n rest hn hr

/-- … and those of 2^64 or more are rejected, never wrapped -/
theorem since_until_wide_rejected (n : Nat) (rest : Bytes) (hn : n ≥ 18446744073709551616)
    (hr : NoLeadingDigit rest) : readU64 (decOf n ++ rest) = .err :=
  readU64_decOf_wide n rest hn hr

/-- every kind the copy loop stores is below 65536 (larger members are an error) -/
theorem kind_member_bound (fuel : Nat) (inp : Bytes) (e cap n : Nat) (ks : List Nat)
    (h : copyKinds fuel inp e cap n = .ok ks) : ∀ k ∈ ks, k < 65536 := by
  induction fuel generalizing inp e n ks with
  | zero => simp [copyKinds] at h
  | succ fuel ih =>
    unfold copyKinds at h
    split at h
    · cases h
    · split at h
      · simp at h; subst h; simp
      · split at h
        · rename_i u r hu
          split at h
          · cases h
          · split at h
            · cases h
            · split at h
              · cases h
              · split at h
                · rename_i ks' hk
                  simp only [Outcome.ok.injEq] at h; subst h
                  intro k hk'
                  rcases List.mem_cons.mp hk' with rfl | hm
                  · omega
                  · exact ih _ _ _ _ hk k hm
                · cases h
                · cases h
        · cases h
        · cases h

/-- a second tag member with a letter already seen is rejected, wherever the first one was -/
theorem duplicate_letter_rejected (st : FlSt) (l : Nat) (after : Bytes) (hl : isLetter l = true)
    (hseen : l ∈ st.letters) (hfew : st.tagStarts.length < 52) :
    flMember st (34 :: 35 :: l :: 34 :: after) = .err := by
  unfold flMember
  simp only [verifyChar, if_true]
  have hne : ∀ k : Bytes, k.length ≥ 4 → k.head? ≠ some 35 → startsWith k (35 :: l :: 34 :: after) = false := by
    intro k hk hh
    unfold startsWith
    cases k with
    | nil => simp at hk
    | cons a k' =>
      simp only [List.head?_cons, ne_eq, Option.some.injEq] at hh
      simp only [List.length_cons, List.take_succ_cons, beq_eq_false_iff_ne, ne_eq, List.cons.injEq, not_and]
      intro h1; exact absurd h1.symm hh
  rw [hne kIds (by decide) (by decide), hne kAuthors (by decide) (by decide), hne kKinds (by decide) (by decide),
    hne kSince (by decide) (by decide), hne kUntil (by decide) (by decide), hne kLimit (by decide) (by decide)]
  simp only [Bool.false_eq_true, if_false, hl, and_self, if_true]
  have : ¬ st.tagStarts.length ≥ 52 := by omega
  simp only [this, if_false, List.contains_iff_mem, hseen, if_true]

/-- whatever text is accepted, the result is exactly the encoding of a sized filter (what
`from_parts` writes for the values the accessors return), inside the buffer, rest untouched -/
theorem accepted_is_wellformed (inp buf : Bytes) (c n : Nat) (out : Bytes)
    (h : parseFilter inp buf = .ok (c, n, out)) :
    ∃ f, FilterSized f ∧ out = encodeFilter f ++ buf.drop n ∧ n = (encodeFilter f).length ∧
      filterDecode (out.take n) = .ok f ∧ c ≤ inp.length := by
  obtain ⟨f, hs, rfl, hn, _, hc⟩ := parseFilter_wf inp buf c n out h
  exact ⟨f, hs, rfl, hn, by rw [List.take_left' hn.symm]; exact filterDecode_encode f hs, hc⟩

/-- **the round trip**: `from_json (as_json f) = from_parts f`, byte for byte, consuming exactly the
text, for every canonical filter, every trailing input and every sufficient buffer -/
theorem round_trip (f : FilterRec) (hc : FilterCanon f) (rest buf : Bytes)
    (hbuf : (encodeFilter f).length ≤ buf.length) :
    ∃ txt, filterJson f = .ok txt ∧
      parseFilter (txt ++ rest) buf =
        .ok (txt.length, (encodeFilter f).length, encodeFilter f ++ buf.drop (encodeFilter f).length) := by
  obtain ⟨txt, ht⟩ := filterJson_ok f hc
  exact ⟨txt, ht, parseFilter_filterJson f hc txt ht rest buf hbuf⟩

/-- … and the accessors of the parsed value return the original filter -/
theorem round_trip_values (f : FilterRec) (hc : FilterCanon f) (rest buf : Bytes)
    (hbuf : (encodeFilter f).length ≤ buf.length) :
    ∃ txt c n out, filterJson f = .ok txt ∧ parseFilter (txt ++ rest) buf = .ok (c, n, out) ∧
      c = txt.length ∧ filterDecode (out.take n) = .ok f := by
  obtain ⟨txt, ht, hp⟩ := round_trip f hc rest buf hbuf
  refine ⟨txt, _, _, _, ht, hp, rfl, ?_⟩
  rw [List.take_left' rfl]
  exact filterDecode_encode f hc.sized

/-- the hypotheses are satisfiable: ids, a kind, two tag constraints, a limit -/
example : ∃ f : FilterRec, FilterCanon f ∧ f.tags.length = 2 ∧ f.ids ≠ [] := by
  refine ⟨{ ids := [List.replicate 32 7], authors := [], kinds := [1], tags := [[[101], utf8Of [97]], [[112], utf8Of [233], utf8Of [10]]],
            since := 0, «until» := U64MAX, limit := 10 }, ?_, rfl, by simp⟩
  refine ⟨?_, ?_, ?_, ?_, ?_⟩
  · constructor <;> simp [U64MAX] <;> decide
  · intro x hx b hb
    simp only [List.mem_singleton] at hx; subst hx
    simp only [List.mem_replicate] at hb; omega
  · intro x hx; cases hx
  · intro t ht
    simp only [List.mem_cons, List.not_mem_nil, or_false] at ht
    rcases ht with rfl | rfl
    · exact ⟨101, [utf8Of [97]], rfl, by decide, fun v hv => by
        simp only [List.mem_singleton] at hv; subst hv; exact ⟨[97], by decide, rfl⟩, by decide⟩
    · exact ⟨112, [utf8Of [233], utf8Of [10]], rfl, by decide, fun v hv => by
        simp only [List.mem_cons, List.not_mem_nil, or_false] at hv
        rcases hv with rfl | rfl
        · exact ⟨[233], by decide, rfl⟩
        · exact ⟨[10], by decide, rfl⟩, by decide⟩
  · decide

end Pocket.C07
