import Pocket.Thm.C09
import Pocket.Lemmas.Refine2
/- C09 on the specification; in a module of its own because the refinement lemmas import the query theorems (C05), which
import C09. -/
namespace Pocket.C09
open Pocket

/-! ### the property read on the specification (the abstract store of `Spec/AbsStore.lean`, which `full_history_refines` proves
the concrete model computes for every history) -/

/-- in every state the ABSTRACT store reaches, two retrievable events at one replaceable address are the same event -/
theorem spec_one_per_address (ops : List Op) (ht : ∀ op ∈ ops, opTimeOk op) (hlen : ops.length < U32MAX) :
    ∀ x ∈ (ops.foldl absOp {}).live, ∀ y ∈ (ops.foldl absOp {}).live, addrOf x = addrOf y → addrOf x ≠ none → x = y := by
  have href := full_history_refines ops ht hlen
  have hu := one_per_address ops
  have e0 : Abs.of ({} : Store) = ({} : Abs) := rfl
  rw [e0] at href
  rw [← href]
  intro x hx y hy hxy hn
  simp only [Abs.of, List.mem_map] at hx hy
  obtain ⟨x', hx', rfl⟩ := hx
  obtain ⟨y', hy', rfl⟩ := hy
  rw [hu x' hx' y' hy' hxy hn]

end Pocket.C09
