import Pocket.Lemmas.FromSourceLayout
import Pocket.Lemmas.FromSourceConsts
import Pocket.Lemmas.Layout
/-
C19 — constructors yield faithful well-formed values or an error, never truncation.
`tagsFromParts`/`eventFromRec`/`filterFromRec` model `Tags::from_parts`, `OwnedTags::new` +
`Event::from_parts`/`OwnedEvent::new`, `Filter::from_parts`/`OwnedFilter::new`; `tagsDecode`,
`eventDecode`, `filterDecode` model every accessor and iterator of the resulting value.
-/
namespace Pocket.C19
open Pocket

/-- what the Rust types guarantee about the fixed-width parts of an event -/
structure EventTyped (e : EventRec) : Prop where
  id : e.id.length = 32
  pk : e.pubkey.length = 32
  sig : e.sig.length = 64
  kind : e.kind < 65536
  t : e.createdAt < 18446744073709551616

structure FilterTyped (f : FilterRec) : Prop where
  ids : ∀ x ∈ f.ids, x.length = 32
  authors : ∀ x ∈ f.authors, x.length = 32
  kinds : ∀ k ∈ f.kinds, k < 65536
  since : f.since < 18446744073709551616
  «until» : f.until < 18446744073709551616
  limit : f.limit < 4294967296

/-! ### tags -/

/-- success ⇒ the accessors reproduce exactly the parts, the value is `tagsSize` bytes long and the
rest of the caller's buffer is untouched -/
theorem tags_faithful (ts : TagsRec) (buf out : Bytes) (h : tagsFromParts ts buf = .ok out) :
    tagsDecode (out.take (tagsSize ts)) = .ok ts ∧
    tagsDelineate out = .ok (out.take (tagsSize ts)) ∧
    out.drop (tagsSize ts) = buf.drop (tagsSize ts) ∧ out.length = buf.length := by
  unfold tagsFromParts at h
  by_cases h1 : tagsSize ts > 65535
  · simp [h1] at h
  by_cases h2 : buf.length < tagsSize ts
  · simp [h1, h2] at h
  simp only [h1, h2, if_false, Outcome.ok.injEq] at h
  subst h
  have hfit : tagsSize ts ≤ 65535 := by omega
  have hlen := encodeTags_length ts
  refine ⟨?_, ?_, ?_, ?_⟩
  · rw [List.take_left' hlen]
    have := tagsDecode_encode ts hfit []
    simpa using this
  · rw [List.take_left' hlen]
    exact tagsDelineate_encode ts hfit _
  · rw [List.drop_left' hlen]
  · simp [hlen]; omega

/-- a section that does not fit the `u16` length fields is refused, whatever the buffer -/
theorem tags_too_big_err (ts : TagsRec) (buf : Bytes) (h : tagsSize ts > 65535) :
    tagsFromParts ts buf = .err := by
  simp [tagsFromParts, h]

/-- a buffer that is too small is an error -/
theorem tags_small_buffer_err (ts : TagsRec) (buf : Bytes) (h : buf.length < tagsSize ts) :
    tagsFromParts ts buf = .err := by
  unfold tagsFromParts; dsimp only; repeat' split
  all_goals first | rfl | omega

theorem tags_never_panics (ts : TagsRec) (buf : Bytes) : tagsFromParts ts buf ≠ .panic := by
  unfold tagsFromParts; dsimp only; repeat' split
  all_goals simp

/-- more than 65,535 tags cannot fit -/
theorem tags_count_too_big_err (ts : TagsRec) (buf : Bytes) (h : ts.length > 65535) :
    tagsFromParts ts buf = .err :=
  tags_too_big_err ts buf (by unfold tagsSize; omega)

/-! ### events -/

theorem event_faithful (e : EventRec) (ht : EventTyped e) (buf out : Bytes)
    (h : eventFromRec e buf = .ok out) :
    let n := eventSize (tagsSize e.tags) e.content.length
    eventDecode (out.take n) = .ok e ∧ eventDelineate out = .ok (out.take n) ∧
    out.drop n = buf.drop n ∧ out.length = buf.length := by
  intro n
  unfold eventFromRec eventFromParts at h
  have hl := encodeTags_length e.tags
  by_cases h1 : tagsSize e.tags > 65535
  · simp [h1] at h
  rw [hl] at h
  dsimp only at h
  by_cases h2 : n > 4294967295
  · simp only [h1, if_false] at h; rw [if_pos h2] at h; cases h
  by_cases h3 : buf.length < n
  · simp only [h1, if_false] at h; rw [if_neg h2, if_pos h3] at h; cases h
  simp only [h1, if_false] at h; rw [if_neg h2, if_neg h3] at h
  simp only [Outcome.ok.injEq] at h
  subst h
  have hs : EventSized e := ⟨ht.id, ht.pk, ht.sig, ht.kind, ht.t, by omega, by omega⟩
  have hlen : (encodeEvent e).length = n := by
    have := encodeEventWith_length e.id e.pubkey e.sig e.kind e.createdAt (encodeTags e.tags) e.content
      ht.id ht.pk ht.sig
    rw [hl] at this; exact this
  have henc : encodeEventWith e.id e.pubkey e.sig e.kind e.createdAt (encodeTags e.tags) e.content
      = encodeEvent e := rfl
  rw [henc]
  refine ⟨?_, ?_, ?_, ?_⟩
  · rw [List.take_left' hlen]; exact eventDecode_encode e hs
  · rw [List.take_left' hlen]
    -- delineate: the length field is the event's own length
    have h0 : (encodeEvent e ++ buf.drop n).drop 0 = le32 n ++
        ((le16 e.kind ++ [0, 0] ++ le64 e.createdAt ++ e.id ++ e.pubkey ++ e.sig ++ encodeTags e.tags ++
          le32 e.content.length ++ e.content) ++ buf.drop n) := by
      simp [encodeEvent, encodeEventWith, hl, n, List.append_assoc]
    have r := rd32_of_drop _ 0 n _ h0
    rw [Nat.mod_eq_of_lt (by omega)] at r
    unfold eventDelineate
    have hn152 : 152 ≤ n := by simp only [n, eventSize, tagsSize]; omega
    have l1 : ¬ (encodeEvent e ++ buf.drop n).length < 152 := by simp [hlen]; omega
    have l2 : ¬ (encodeEvent e ++ buf.drop n).length < n := by simp [hlen]
    rw [if_neg l1, r]; dsimp only; rw [if_neg l2, List.take_left' hlen]
  · rw [List.drop_left' hlen]
  · simp [hlen]; omega

theorem event_tags_too_big_err (e : EventRec) (buf : Bytes) (h : tagsSize e.tags > 65535) :
    eventFromRec e buf = .err := by
  simp [eventFromRec, h]

theorem event_too_big_err (e : EventRec) (buf : Bytes)
    (h : eventSize (tagsSize e.tags) e.content.length > 4294967295) : eventFromRec e buf = .err := by
  unfold eventFromRec eventFromParts
  rw [encodeTags_length]; dsimp only; repeat' split
  all_goals first | rfl | omega

theorem event_small_buffer_err (e : EventRec) (buf : Bytes)
    (h : buf.length < eventSize (tagsSize e.tags) e.content.length) : eventFromRec e buf = .err := by
  unfold eventFromRec eventFromParts
  rw [encodeTags_length]; dsimp only; repeat' split
  all_goals first | rfl | omega

theorem event_never_panics (e : EventRec) (buf : Bytes) : eventFromRec e buf ≠ .panic := by
  unfold eventFromRec eventFromParts; dsimp only; repeat' split
  all_goals simp

/-! ### filters -/

theorem filter_faithful (f : FilterRec) (ht : FilterTyped f) (buf out : Bytes)
    (h : filterFromRec f buf = .ok out) :
    let n := filterSize f.ids.length f.authors.length f.kinds.length (tagsSize f.tags)
    filterDecode (out.take n) = .ok f ∧ out.drop n = buf.drop n ∧ out.length = buf.length := by
  intro n
  unfold filterFromRec filterFromParts at h
  have hl := encodeTags_length f.tags
  by_cases h1 : tagsSize f.tags > 65535
  · simp [h1] at h
  rw [hl] at h
  by_cases h0 : f.ids.length > 65535 ∨ f.authors.length > 65535 ∨ f.kinds.length > 65535
  · simp [h1, h0] at h
  by_cases h2 : n > 4294967295
  · simp [h1, h0, n, h2] at h
  by_cases h3 : buf.length < n
  · simp [h1, h0, n, h2, h3] at h
  simp only [h1, h0, n, h2, h3, if_false, Outcome.ok.injEq] at h
  subst h
  have hs : FilterSized f :=
    ⟨ht.ids, ht.authors, ht.kinds, by omega, by omega, by omega, by omega, ht.since, ht.until, ht.limit⟩
  have henc : encodeFilterWith f.ids f.authors f.kinds (encodeTags f.tags) f.since f.until f.limit
      = encodeFilter f := rfl
  have hlen : (encodeFilter f).length = n := by
    simp [encodeFilter, encodeFilterWith, flat32_length f.ids ht.ids, flat32_length f.authors ht.authors,
      flatKinds_length, hl, n, filterSize]; omega
  rw [henc]
  refine ⟨?_, ?_, ?_⟩
  · rw [List.take_left' hlen]; exact filterDecode_encode f hs
  · rw [List.drop_left' hlen]
  · simp [hlen]; omega

theorem filter_counts_too_big_err (f : FilterRec) (buf : Bytes)
    (h : f.ids.length > 65535 ∨ f.authors.length > 65535 ∨ f.kinds.length > 65535) :
    filterFromRec f buf = .err := by
  unfold filterFromRec filterFromParts; dsimp only; repeat' split
  all_goals first | rfl | (exfalso; omega)

theorem filter_tags_too_big_err (f : FilterRec) (buf : Bytes) (h : tagsSize f.tags > 65535) :
    filterFromRec f buf = .err := by
  simp [filterFromRec, h]

theorem filter_small_buffer_err (f : FilterRec) (buf : Bytes)
    (h : buf.length < filterSize f.ids.length f.authors.length f.kinds.length (tagsSize f.tags)) :
    filterFromRec f buf = .err := by
  unfold filterFromRec filterFromParts
  rw [encodeTags_length]; dsimp only; repeat' split
  all_goals first | rfl | omega

theorem filter_never_panics (f : FilterRec) (buf : Bytes) : filterFromRec f buf ≠ .panic := by
  unfold filterFromRec filterFromParts; dsimp only; repeat' split
  all_goals simp

/-- non-vacuity: a concrete event with an empty tag, an empty string and a multi-string tag is
accepted into an exactly-sized buffer and decodes to itself -/
example :
    let e : EventRec := ⟨List.replicate 32 1, List.replicate 32 2, List.replicate 64 3, 30000, 7,
      [[], [[]], [[100], [120, 0], []]], [104, 105]⟩
    (eventFromRec e (List.replicate 180 170)).isOk = true ∧ eventDecode (encodeEvent e) = .ok e := by
  decide +kernel

/-! ### tie to the source text: what /repo says now (translated on every run by `lib/srcfacts.py`) is what the model says -/

/-- `encode_utf8`'s length classes and tag bits as `utf8.rs` names them: at each class boundary the model's encoder changes
length, and the first code point of each class is written with exactly the source's tag bytes -/
theorem utf8_constants_from_source :
    (∀ m ∈ Src.c_utf8_MAX_ONE_B, (utf8Bytes (m - 1)).length = 1 ∧ ∀ t ∈ Src.c_utf8_TAG_TWO_B, ∀ c ∈ Src.c_utf8_TAG_CONT, utf8Bytes m = [t + 2, c]) ∧
    (∀ m ∈ Src.c_utf8_MAX_TWO_B, (utf8Bytes (m - 1)).length = 2 ∧ ∀ t ∈ Src.c_utf8_TAG_THREE_B, ∀ c ∈ Src.c_utf8_TAG_CONT, utf8Bytes m = [t, c + 32, c]) ∧
    (∀ m ∈ Src.c_utf8_MAX_THREE_B, (utf8Bytes (m - 1)).length = 3 ∧ ∀ t ∈ Src.c_utf8_TAG_FOUR_B, ∀ c ∈ Src.c_utf8_TAG_CONT, utf8Bytes m = [t, c + 16, c, c]) ∧
    Src.c_utf8_CONT_MASK = [63] := Pocket.utf8_constants_from_source

/-- the binary layout the theorems above are about is the one `event.rs` writes and reads today: the contiguous writes of
`Event::from_parts` (translated statement by statement on every run) are the model's encoding, `output_size_needed` its size, and
every accessor reads where the model's decoder reads -/
theorem event_layout_from_source (id pk sig : Bytes) (kind t : Nat) (tagBytes content b : Bytes) :
    Src.encodeEventWith id pk sig kind t tagBytes content = encodeEventWith id pk sig kind t tagBytes content ∧
    Src.eventSize tagBytes.length content.length = eventSize tagBytes.length content.length ∧
    eventDecodeAt Src.evReads b = eventDecode b :=
  ⟨event_writer_from_source id pk sig kind t tagBytes content, rfl, event_readers_from_source b⟩

/-- the tag section the theorems above are about is the one `tags.rs` writes and reads today: `Tags::output_size_needed` (its additions,
translated on every run) is the model's size for every list of tags; `Tags::from_parts` refuses exactly a section beyond `u16::MAX` or a
short buffer and otherwise starts the buffer with the source's header, the offset table from the source's first `p`, and the tags; and
`delineate` / `count` / `TagsIter::next` / `TagsStringIter::next` read where the model's decoder reads, on every input -/
theorem tags_layout_from_source (ts : TagsRec) (buf inp : Bytes) :
    Src.tagsSize ts = tagsSize ts ∧
    (tagsFromParts ts buf =
      if Src.tagsRejects (Src.tagsSize ts) buf.length then .err
      else .ok (Src.tagsHeader (Src.tagsSize ts) ts.length ++ encOffsets (Src.tagsBodyStart ts.length) ts ++ encTagsBody ts
                ++ buf.drop (Src.tagsSize ts))) ∧
    tagsReadAt Src.tagReads inp =
      (match tagsDelineate inp with
       | .ok sec => .ok (sec, tagsDecode sec)
       | .err => .err
       | .panic => .panic) :=
  ⟨tags_size_from_source ts, tags_from_parts_from_source ts buf, tag_readers_from_source inp⟩

/-- **`Tags::from_parts` as a whole, as `tags.rs` spells it today**: its two rejections, then the header writes and the two write loops
(translated statement by statement on every run into random-access writes `output[a..b].copy_from_slice(v)` through the moving `p`).
For every list of tags and every output buffer it is the model's `tagsFromParts`; past the rejections the loops produce exactly
`encodeTags ts` and leave the rest of the buffer alone -/
theorem tags_writer_from_source (ts : TagsRec) (buf : Bytes) :
    (tagsFromParts ts buf = if Src.tagsRejects (Src.tagsSize ts) buf.length then .err else .ok (Src.tagsWrite ts buf)) ∧
    (tagsSize ts ≤ buf.length → Src.tagsWrite ts buf = encodeTags ts ++ buf.drop (tagsSize ts)) :=
  ⟨Pocket.tags_from_parts_whole_from_source ts buf, Pocket.tags_writer_from_source ts buf⟩

/-- the 32-byte header `Filter::from_parts` writes today (translated statement by statement on every run) is the head of the model's
encoding, and an absent limit / since / until is written as `u32::MAX` / `0` / `u64::MAX` -/
theorem filter_header_from_source (ids authors : List Bytes) (kinds : List Nat) (tagBytes : Bytes) (since «until» limit : Nat) (size a b c : Nat) :
    encodeFilterWith ids authors kinds tagBytes since «until» limit =
      Src.filterHeader (filterSize ids.length authors.length kinds.length tagBytes.length) ids.length authors.length kinds.length
        (some limit) (some since) (some «until») ++ (flat32 ids ++ flat32 authors ++ flatKinds kinds ++ tagBytes) ∧
    Src.filterHeader size a b c none none none = Src.filterHeader size a b c (some U32MAX) (some 0) (some U64MAX) :=
  ⟨Pocket.filter_header_from_source ids authors kinds tagBytes since «until» limit, filter_defaults_from_source size a b c⟩

/-- **the whole writer of `Filter::from_parts` as `filter.rs` spells it today**: the 32-byte header followed by the copy loops over ids,
authors and kinds and the tag section (both translated on every run; the loops as random-access writes through the moving `p`). On a
buffer that starts with the header, for all 32-byte ids and authors, all kinds and every tag section, the loops complete it to the
model's `encodeFilterWith` and leave the rest of the buffer alone -/
theorem filter_arrays_from_source (ids authors : List Bytes) (kinds : List Nat) (tagBytes Y : Bytes) (since «until» limit : Nat)
    (hi : ∀ x ∈ ids, x.length = 32) (ha : ∀ x ∈ authors, x.length = 32) :
    Src.filterArraysWrite ids authors kinds tagBytes
        (Src.filterHeader (filterSize ids.length authors.length kinds.length tagBytes.length) ids.length authors.length kinds.length
          (some limit) (some since) (some «until») ++ Y) =
      encodeFilterWith ids authors kinds tagBytes since «until» limit ++
        Y.drop (32 * ids.length + 32 * authors.length + 2 * kinds.length + tagBytes.length) := by
  rw [Pocket.filter_arrays_from_source ids authors kinds tagBytes _ Y hi ha (by simp [Src.filterHeader]),
    Pocket.filter_header_from_source ids authors kinds tagBytes since «until» limit]
  simp [List.append_assoc]

/-- **what `Event::from_parts` and `Filter::from_parts` refuse**, read from the statements between the size computation and the first
write on every run: the model's constructors refuse exactly then (an event or filter beyond `u32::MAX`, a count beyond `u16::MAX`, a
buffer shorter than the value) and otherwise return the encoding followed by the untouched rest of the buffer -/
theorem rejections_from_source (id pk sig : Bytes) (kind t : Nat) (tagBytes content buf : Bytes)
    (ids authors : List Bytes) (kinds : List Nat) (since «until» limit : Nat) :
    (eventFromParts id pk sig kind t tagBytes content buf =
      if Src.eventRejects (Src.eventSize tagBytes.length content.length) buf.length then .err
      else .ok (Src.encodeEventWith id pk sig kind t tagBytes content ++ buf.drop (Src.eventSize tagBytes.length content.length))) ∧
    (filterFromParts ids authors kinds tagBytes since «until» limit buf =
      if Src.filterRejects ids.length authors.length kinds.length (filterSize ids.length authors.length kinds.length tagBytes.length) buf.length
      then .err
      else .ok (encodeFilterWith ids authors kinds tagBytes since «until» limit ++
                buf.drop (filterSize ids.length authors.length kinds.length tagBytes.length))) :=
  ⟨event_rejections_from_source id pk sig kind t tagBytes content buf,
   filter_rejections_from_source ids authors kinds tagBytes since «until» limit buf⟩

end Pocket.C19
