import Pocket.Lemmas.Hll
import Pocket.Model.JsonParse
/-
C20 — HyperLogLog sketches merge like sets and estimate without failing.
Registers are lists of 256 values; `hllMerge` is `+=`, `hllAdd` is `add_element`,
`hllFromHex`/`hllToHex` are the hex import/export.  The floating-point stage of
`estimate_count` is outside the kernel's reach (DESIGN.md §10) and is covered by the
correspondence check and a labelled statistical test only.
-/
namespace Pocket.C20
open Pocket

/-- merging is commutative (on sketches of the same size; every `Hll8` has 256 registers) -/
theorem merge_comm (a b : Regs) (h : a.length = b.length) : hllMerge a b = hllMerge b a :=
  hllMerge_comm a b h

theorem merge_assoc (a b c : Regs) (h1 : a.length = b.length) (h2 : b.length = c.length) :
    hllMerge (hllMerge a b) c = hllMerge a (hllMerge b c) := hllMerge_assoc a b c h1 h2

theorem merge_idem (a : Regs) : hllMerge a a = a := hllMerge_idem a

private theorem clz8_le (b : Nat) : clz8 b ≤ 8 := by
  unfold clz8; repeat' split
  all_goals omega

theorem countZeros_le (l : Bytes) : countZeros l ≤ 8 * l.length := by
  induction l with
  | nil => simp [countZeros]
  | cons b l ih =>
    simp only [countZeros, List.length_cons]
    have := clz8_le b
    split <;> omega

/-- the `(register, rho)` pair `add_element` derives from an element -/
def elemKey (input : Bytes) (offset : Nat) : Nat × Nat :=
  (input.getD offset 0, countZeros (input.drop (offset + 1)) + 1)

/-- `add_element` on a 32-byte element with an offset below 24 succeeds (its `u8` zero count
cannot overflow: rho ≤ 249) and is one register update -/
theorem add_ok (r : Regs) (input : Bytes) (offset : Nat) (hl : input.length = 32) (ho : offset < 24) :
    hllAdd r input offset = .ok (step r (elemKey input offset)) ∧ (elemKey input offset).2 ≤ 249 := by
  have hz := countZeros_le (input.drop (offset + 1))
  have hd : (input.drop (offset + 1)).length ≤ 31 := by simp [hl]
  have hb : countZeros (input.drop (offset + 1)) + 1 ≤ 249 := by omega
  refine ⟨?_, hb⟩
  unfold hllAdd
  have h1 : ¬ offset ≥ 24 := by omega
  have h2 : ¬ countZeros (input.drop (offset + 1)) + 1 > 255 := by omega
  simp only [h1, h2, if_false]
  rfl

/-- offsets of 24 and more are rejected -/
theorem add_rejects_offset_ge_24 (r : Regs) (input : Bytes) (offset : Nat) (ho : offset ≥ 24) :
    hllAdd r input offset = .err := by
  simp [hllAdd, ho]

/-- adding an element twice is the same as adding it once -/
theorem add_idem (r : Regs) (x : Nat × Nat) : step (step r x) x = step r x := step_idem r x

/-- the order of two insertions does not matter -/
theorem add_comm (r : Regs) (x y : Nat × Nat) : step (step r x) y = step (step r y) x :=
  step_comm r x y

/-- the sketch of a list of elements inserted into the empty sketch -/
def sketch (l : List (Nat × Nat)) : Regs := sketchFrom hllNew l

theorem hllNew_length : hllNew.length = 256 := by rw [hllNew, List.length_replicate]

theorem sketch_length (l : List (Nat × Nat)) : (sketch l).length = 256 := by
  rw [sketch, sketchFrom_length, hllNew_length]

private theorem hllNew_merge (b : Regs) (h : b.length = 256) : hllMerge hllNew b = b := by
  rw [hllMerge_comm _ _ (by rw [hllNew_length, h])]
  have := hllMerge_zeros b
  rw [h] at this
  exact this

theorem sketch_append (A B : List (Nat × Nat)) :
    sketch (A ++ B) = hllMerge (sketch A) (sketch B) := by
  have h : sketch (A ++ B) = sketchFrom (sketch A) B := by simp [sketch, sketchFrom, List.foldl_append]
  rw [h]
  have h2 : sketch A = hllMerge (sketch A) hllNew := by
    have := hllMerge_zeros (sketch A)
    rw [sketch_length] at this
    exact this.symm
  rw [h2, sketchFrom_merge _ _ _ (by rw [sketch_length, hllNew_length]), ← h2]
  rfl

/-- a sketch absorbs every element it already contains -/
private theorem absorb_list (A B : List (Nat × Nat)) (h : ∀ x ∈ B, x ∈ A) :
    sketchFrom (sketch A) B = sketch A := by
  induction B with
  | nil => rfl
  | cons x B ih =>
    simp only [sketchFrom, List.foldl_cons]
    have hx : step (sketch A) x = sketch A := sketchFrom_absorb hllNew A x (h x (by simp))
    rw [hx]
    exact ih (fun y hy => h y (by simp [hy]))

/-- **set semantics**: two element lists with the same members — whatever the order and the
multiplicities — have the same sketch -/
theorem sketch_set_ext (A B : List (Nat × Nat)) (h : ∀ x, x ∈ A ↔ x ∈ B) : sketch A = sketch B := by
  have h1 : sketch (A ++ B) = sketch A := by
    have : sketch (A ++ B) = sketchFrom (sketch A) B := by simp [sketch, sketchFrom, List.foldl_append]
    rw [this]; exact absorb_list A B (fun x hx => (h x).mpr hx)
  have h2 : sketch (B ++ A) = sketch B := by
    have : sketch (B ++ A) = sketchFrom (sketch B) A := by simp [sketch, sketchFrom, List.foldl_append]
    rw [this]; exact absorb_list B A (fun x hx => (h x).mp hx)
  rw [← h1, ← h2, sketch_append, sketch_append,
    hllMerge_comm _ _ (by rw [sketch_length, sketch_length])]

/-- **the sketch of a union is the merge of the sketches**, for any list `U` whose members are
exactly those of `A` or `B` -/
theorem sketch_union (A B U : List (Nat × Nat)) (h : ∀ x, x ∈ U ↔ x ∈ A ∨ x ∈ B) :
    sketch U = hllMerge (sketch A) (sketch B) := by
  rw [← sketch_append]
  exact sketch_set_ext U (A ++ B) (fun x => by rw [h x, List.mem_append])

/-! ### hex export / import -/

private theorem hexInv_digit (n : Nat) (h : n < 16) : hexInv (hexDigitLower n) = some n := by
  unfold hexInv hexDigitLower
  by_cases h10 : n < 10
  · simp only [h10, if_true]
    have : 48 ≤ 48 + n ∧ 48 + n ≤ 57 := by omega
    simp only [this, and_self, if_true]
    congr 1; omega
  · simp only [h10, if_false]
    have h1 : ¬ (48 ≤ 87 + n ∧ 87 + n ≤ 57) := by omega
    have h2 : ¬ (65 ≤ 87 + n ∧ 87 + n ≤ 70) := by omega
    have h3 : 97 ≤ 87 + n ∧ 87 + n ≤ 102 := by omega
    simp only [h1, h2, h3, and_self, if_true, if_false]
    congr 1; omega

private theorem unhex_hexOf (r : Bytes) (h : AllBytes r) : unhexPairs (hexOf r) = .ok r := by
  induction r with
  | nil => simp [hexOf, unhexPairs]
  | cons b r ih =>
    have hb : b < 256 := h b (by simp)
    have hr : AllBytes r := fun x hx => h x (by simp [hx])
    simp only [hexOf, unhexPairs]
    rw [hexInv_digit _ (Nat.mod_lt _ (by omega)), hexInv_digit _ (Nat.mod_lt _ (by omega)), ih hr]
    simp only
    congr 2
    omega

private theorem hexOf_length (r : Bytes) : (hexOf r).length = 2 * r.length := by
  induction r with
  | nil => simp [hexOf]
  | cons b r ih => simp [hexOf, ih]; omega

/-- export followed by import is the identity on every register state -/
theorem hex_roundtrip (r : Regs) (hl : r.length = 256) (hb : AllBytes r) :
    hllFromHex (hllToHex r) = .ok r := by
  unfold hllFromHex hllToHex readHex
  rw [hexOf_length, hl]
  simp [unhex_hexOf r hb]

/-- lower-casing of a hex character -/
def lowerHex (c : Nat) : Nat := if 65 ≤ c ∧ c ≤ 70 then c + 32 else c

private theorem hexInv_lower (c v : Nat) (h : hexInv c = some v) :
    v < 16 ∧ hexDigitLower v = lowerHex c := by
  unfold hexInv at h
  unfold hexDigitLower lowerHex
  split at h
  · cases h; constructor <;> (try split) <;> (try split) <;> omega
  · split at h
    · cases h; constructor <;> (try split) <;> (try split) <;> omega
    · split at h
      · cases h; constructor <;> (try split) <;> (try split) <;> omega
      · cases h

/-- import accepts both cases; exporting what was imported gives the lower-cased text -/
theorem hex_import_export : ∀ (s : Bytes) (r : Regs), unhexPairs s = .ok r →
    hexOf r = s.map lowerHex
  | [], r, h => by simp [unhexPairs] at h; subst h; simp [hexOf]
  | [_], r, h => by simp [unhexPairs] at h
  | hc :: lc :: rest, r, h => by
    simp only [unhexPairs] at h
    cases hh : hexInv hc with
    | none => rw [hh] at h; simp at h
    | some hv =>
      cases hl : hexInv lc with
      | none => rw [hh, hl] at h; simp at h
      | some lv =>
        rw [hh, hl] at h
        cases hr : unhexPairs rest with
        | ok r' =>
          rw [hr] at h; simp at h; subst h
          have ⟨hv16, hvd⟩ := hexInv_lower _ _ hh
          have ⟨lv16, lvd⟩ := hexInv_lower _ _ hl
          have e1 : (hv * 16 + lv) / 16 % 16 = hv := by omega
          have e2 : (hv * 16 + lv) % 16 = lv := by omega
          simp only [hexOf, List.map_cons, hex_import_export rest r' hr, e1, e2, hvd, lvd]
        | err => rw [hr] at h; simp at h
        | panic => rw [hr] at h; simp at h

/-- the empty sketch has all 256 registers zero (so the estimate takes the linear-counting
branch with `ln(256/256) = 0`) -/
theorem zeroCount_new : zeroCount hllNew = 256 := by
  have : ∀ n, zeroCount (List.replicate n 0) = n := by
    intro n
    induction n with
    | zero => rfl
    | succ n ih => simp_all [zeroCount, List.replicate_succ]
  exact this 256

/-- non-vacuity of the hypotheses above: a concrete non-trivial sketch and elements -/
example : (sketch [(3, 5), (200, 9), (3, 2)]).length = 256 ∧
    elemKey (List.replicate 16 0 ++ [7] ++ List.replicate 15 0) 16 = (7, 121) := by
  refine ⟨sketch_length _, by decide⟩

/-- the NIP-45 offset a count filter yields (`Filter::hyperloglog_offset`) is always one that
`add_element` accepts: between 8 and 23 — whatever byte stands at position 32 of the tag value
(a byte that is not a hex character, incl. bytes ≥ 0x80, yields no offset instead of a failure) -/
theorem filter_offset_in_range (f : FilterRec) (n : Nat) (h : hllOffset f = some n) : 8 ≤ n ∧ n ≤ 23 := by
  unfold hllOffset at h
  split at h
  · cases h
  · dsimp only at h
    split at h
    · split at h
      · cases h
      · split at h
        · split at h
          · cases h
          · split at h
            · rename_i v hv
              simp only [Option.some.injEq] at h
              subst h
              unfold hexInv at hv
              repeat' split at hv
              all_goals first
                | (cases hv; done)
                | (simp only [Option.some.injEq] at hv; omega)
            · cases h
        · cases h
    · cases h

end Pocket.C20
