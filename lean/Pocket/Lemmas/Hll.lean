import Pocket.Model.Hll
/- helper lemmas for C20: registers under register-wise maximum -/
namespace Pocket

theorem ite_gt_eq_max (a b : Nat) : (if b > a then b else a) = max a b := by
  by_cases h : b > a
  · simp [h]; omega
  · simp [h]; omega

theorem hllMerge_length (a b : Regs) : (hllMerge a b).length = a.length := by
  induction a generalizing b with
  | nil => cases b <;> simp [hllMerge]
  | cons x a ih => cases b <;> simp [hllMerge, ih]

theorem hllMerge_comm (a b : Regs) (h : a.length = b.length) : hllMerge a b = hllMerge b a := by
  induction a generalizing b with
  | nil => cases b <;> simp_all [hllMerge]
  | cons x a ih =>
    cases b with
    | nil => simp at h
    | cons y b =>
      simp only [hllMerge, ite_gt_eq_max]
      rw [ih b (by simpa using h), Nat.max_comm]

theorem hllMerge_assoc (a b c : Regs) (h1 : a.length = b.length) (h2 : b.length = c.length) :
    hllMerge (hllMerge a b) c = hllMerge a (hllMerge b c) := by
  induction a generalizing b c with
  | nil => cases b <;> cases c <;> simp_all [hllMerge]
  | cons x a ih =>
    cases b with
    | nil => simp at h1
    | cons y b =>
      cases c with
      | nil => simp at h2
      | cons z c =>
        simp only [hllMerge, ite_gt_eq_max]
        rw [ih b c (by simpa using h1) (by simpa using h2), Nat.max_assoc]

theorem hllMerge_idem (a : Regs) : hllMerge a a = a := by
  induction a with
  | nil => simp [hllMerge]
  | cons x a ih => simp [hllMerge, ih]

/-- the sketch holding just `v` in register `i` -/
def single : Nat → Nat → Nat → Regs
  | 0, _, _ => []
  | n + 1, 0, v => v :: List.replicate n 0
  | n + 1, i + 1, v => 0 :: single n i v

theorem single_length (n i v : Nat) : (single n i v).length = n := by
  induction n generalizing i with
  | zero => simp [single]
  | succ n ih => cases i <;> simp [single, ih]

theorem hllMerge_zeros (r : Regs) : hllMerge r (List.replicate r.length 0) = r := by
  induction r with
  | nil => simp [hllMerge]
  | cons x r ih => simp [List.replicate_succ, hllMerge, ih]

theorem setReg_eq_merge (r : Regs) (i v : Nat) : setReg r i v = hllMerge r (single r.length i v) := by
  induction r generalizing i with
  | nil => simp [setReg, single, hllMerge]
  | cons x r ih =>
    cases i with
    | zero => simp [setReg, single, hllMerge, hllMerge_zeros]
    | succ i => simp [setReg, single, hllMerge, ih]

theorem setReg_length (r : Regs) (i v : Nat) : (setReg r i v).length = r.length := by
  rw [setReg_eq_merge, hllMerge_length]

/-- one insertion, abstractly: `(register index, rho)` -/
def step (r : Regs) (x : Nat × Nat) : Regs := setReg r x.1 x.2

def sketchFrom (r : Regs) (l : List (Nat × Nat)) : Regs := l.foldl step r

theorem sketchFrom_length (r : Regs) (l : List (Nat × Nat)) : (sketchFrom r l).length = r.length := by
  induction l generalizing r with
  | nil => rfl
  | cons x l ih => simp only [sketchFrom, List.foldl_cons] at *; rw [ih, step, setReg_length]

theorem step_eq_merge (r : Regs) (x : Nat × Nat) :
    step r x = hllMerge r (single r.length x.1 x.2) := setReg_eq_merge r x.1 x.2

theorem step_merge (a b : Regs) (x : Nat × Nat) (h : a.length = b.length) :
    step (hllMerge a b) x = hllMerge a (step b x) := by
  rw [step_eq_merge, step_eq_merge, hllMerge_length, h,
    hllMerge_assoc a b _ h (by rw [single_length])]

theorem sketchFrom_merge (a b : Regs) (l : List (Nat × Nat)) (h : a.length = b.length) :
    sketchFrom (hllMerge a b) l = hllMerge a (sketchFrom b l) := by
  induction l generalizing b with
  | nil => rfl
  | cons x l ih =>
    simp only [sketchFrom, List.foldl_cons] at *
    rw [step_merge a b x h, ih (step b x) (by rw [step, setReg_length, h])]

theorem step_comm (r : Regs) (x y : Nat × Nat) : step (step r x) y = step (step r y) x := by
  have hl : ∀ z, (step r z).length = r.length := fun z => setReg_length r z.1 z.2
  rw [step_eq_merge (step r x), step_eq_merge (step r y), hl, hl, step_eq_merge r x, step_eq_merge r y,
    hllMerge_assoc _ _ _ (by rw [single_length]) (by rw [single_length, single_length]),
    hllMerge_assoc _ _ _ (by rw [single_length]) (by rw [single_length, single_length]),
    hllMerge_comm (single _ x.1 x.2) (single _ y.1 y.2) (by rw [single_length, single_length])]

theorem step_idem (r : Regs) (x : Nat × Nat) : step (step r x) x = step r x := by
  have hl : (step r x).length = r.length := setReg_length r x.1 x.2
  rw [step_eq_merge (step r x), hl, step_eq_merge r x,
    hllMerge_assoc _ _ _ (by rw [single_length]) rfl, hllMerge_idem]

theorem sketchFrom_step_comm (r : Regs) (l : List (Nat × Nat)) (x : Nat × Nat) :
    sketchFrom (step r x) l = step (sketchFrom r l) x := by
  induction l generalizing r with
  | nil => rfl
  | cons y l ih =>
    simp only [sketchFrom, List.foldl_cons] at *
    rw [step_comm r x y, ih]

theorem sketchFrom_absorb (r : Regs) (l : List (Nat × Nat)) (x : Nat × Nat) (hx : x ∈ l) :
    step (sketchFrom r l) x = sketchFrom r l := by
  induction l generalizing r with
  | nil => cases hx
  | cons y l ih =>
    simp only [sketchFrom, List.foldl_cons] at *
    rcases List.mem_cons.mp hx with h | h
    · subst h
      have := sketchFrom_step_comm r l x
      simp only [sketchFrom] at this
      rw [this, step_idem]
    · exact ih (step r y) h

end Pocket
