import Pocket.Thm.C05
/- exactness of `vanish` (C18) -/
namespace Pocket

theorem removeAll_mem (live evs : List SEv) (x : SEv) :
    x ∈ removeAll live evs ↔ (x ∈ live ∧ ∀ y ∈ evs, y.e.id ≠ x.e.id) := by
  unfold removeAll
  induction evs generalizing live with
  | nil => simp
  | cons a rest ih =>
    rw [List.foldl_cons, ih]
    simp only [removeId, List.mem_filter, bne_iff_ne, ne_eq, List.mem_cons, forall_eq_or_imp]
    constructor
    · rintro ⟨⟨h1, h2⟩, h3⟩; exact ⟨h1, fun h => h2 h.symm, h3⟩
    · rintro ⟨h1, h2, h3⟩; exact ⟨⟨h1, fun h => h2 h.symm⟩, h3⟩

/-- removing everything an unlimited, always-allowed query finds removes exactly what matches -/
theorem remove_found_exact (live : List SEv) (f : FilterRec) (hsl : SingleLetter f)
    (hids : (live.map (·.e.id)).Nodup) (hau : AddrUniq live) (hnl : live.length < f.limit) (x : SEv) :
    x ∈ removeFound live (findEvents live f true 0 0 0 (fun _ => Screen.match)) ↔
      (x ∈ live ∧ eventMatches f x.e = false) := by
  cases hf : findEvents live f true 0 0 0 (fun _ => Screen.match) with
  | scraper =>
    have := (C05.scrape_gate live f true 0 0 0 (fun _ => Screen.match)).mp hf
    exact absurd this.2.2.2.1 (by simp)
  | ok evs red =>
    simp only [removeFound]
    rw [removeAll_mem]
    have sound := (C05.findEvents_sound live f true 0 0 0 _ evs red hf).1
    constructor
    · rintro ⟨hx, hno⟩
      refine ⟨hx, ?_⟩
      cases hm : eventMatches f x.e with
      | false => rfl
      | true =>
        have := findEvents_complete live f true 0 0 0 _ evs red hids hau hnl hsl hf x hx hm rfl
        exact absurd rfl (hno x this)
    · rintro ⟨hx, hm⟩
      refine ⟨hx, fun z hz hid => ?_⟩
      obtain ⟨hzl, hzm, _⟩ := sound z hz
      have : z = x := nodup_ids_inj _ hids z hzl x hx hid
      subst this
      rw [hm] at hzm; cases hzm

/-- the filter `vanish` uses to find what a key authored matches exactly the events of that key -/
theorem authorFilter_matches (pk : Bytes) (e : EventRec) (ht : e.createdAt ≤ U64MAX) :
    eventMatches (authorFilter pk) e = true ↔ e.pubkey = pk := by
  unfold eventMatches authorFilter
  have : ¬ e.createdAt > U64MAX := by omega
  by_cases h : e.pubkey = pk
  · simp [h, this]
  · have : (pk == e.pubkey) = false := by simp; exact fun hh => h hh.symm
    simp [h, this]

/-- the gift-wrap filter matches exactly the kind-1059 events with a `p` tag whose value is the
key in lower-case hex -/
theorem wrapFilter_matches (pk : Bytes) (e : EventRec) (ht : e.createdAt ≤ U64MAX) :
    eventMatches (wrapFilter pk) e = true ↔
      (e.kind = 1059 ∧ tagsMatch e.tags KEY_P (hexOf pk) = true) := by
  unfold eventMatches wrapFilter
  have hgt : ¬ e.createdAt > U64MAX := by omega
  by_cases hk : e.kind = 1059
  · by_cases hte : e.tags = []
    · simp [hk, hgt, hte, tagsMatch]
    · simp [hk, hgt, hte, filterTagLoop]
  · have : (1059 == e.kind) = false := by simp; exact fun hh => hk hh.symm
    simp [hk, this]

/-- **`vanish` removes exactly the events authored by the key plus the gift wraps that `p`-tag it**
(in every state whose index has unique ids and addresses, fewer than 2^32−1 events and `u64`
timestamps — every reachable state of a real store) -/
theorem vanish_exact (s : Store) (hids : (s.db.live.map (·.e.id)).Nodup) (hau : AddrUniq s.db.live)
    (hlen : s.db.live.length < U32MAX) (ht : ∀ y ∈ s.db.live, y.e.createdAt ≤ U64MAX) (pk : Bytes) (x : SEv) :
    x ∈ (vanish s pk).db.live ↔
      (x ∈ s.db.live ∧ x.e.pubkey ≠ pk ∧ ¬ (x.e.kind = 1059 ∧ tagsMatch x.e.tags KEY_P (hexOf pk) = true)) := by
  have hsl1 : SingleLetter (authorFilter pk) := fun c hc => by simp [authorFilter] at hc
  have hsl2 : SingleLetter (wrapFilter pk) := by
    intro c hc
    simp only [wrapFilter, List.mem_singleton] at hc
    exact ⟨112, [hexOf pk], by rw [hc]; rfl⟩
  have h1 : ∀ y, y ∈ vanishAuthored s.db.live pk ↔ (y ∈ s.db.live ∧ y.e.pubkey ≠ pk) := by
    intro y
    unfold vanishAuthored
    rw [remove_found_exact s.db.live _ hsl1 hids hau (by simpa [authorFilter] using hlen) y]
    constructor
    · rintro ⟨hy, hm⟩
      refine ⟨hy, fun hpk => ?_⟩
      rw [(authorFilter_matches pk y.e (ht y hy)).mpr hpk] at hm; cases hm
    · rintro ⟨hy, hpk⟩
      refine ⟨hy, ?_⟩
      cases hm : eventMatches (authorFilter pk) y.e with
      | false => rfl
      | true => exact absurd ((authorFilter_matches pk y.e (ht y hy)).mp hm) hpk
  have hsub := vanishAuthored_sublist s.db.live pk
  have hids1 : ((vanishAuthored s.db.live pk).map (·.e.id)).Nodup := List.Pairwise.sublist (hsub.map _) hids
  have hau1 : AddrUniq (vanishAuthored s.db.live pk) := AddrUniq_subset _ _ hau (fun z hz => hsub.subset hz)
  have hlen1 : (vanishAuthored s.db.live pk).length < U32MAX := by have := hsub.length_le; omega
  show x ∈ vanishWraps (vanishAuthored s.db.live pk) pk ↔ _
  unfold vanishWraps
  rw [remove_found_exact _ _ hsl2 hids1 hau1 (by simpa [wrapFilter] using hlen1) x, h1 x]
  constructor
  · rintro ⟨⟨hx, hpk⟩, hm⟩
    refine ⟨hx, hpk, fun hw => ?_⟩
    rw [(wrapFilter_matches pk x.e (ht x hx)).mpr hw] at hm; cases hm
  · rintro ⟨hx, hpk, hw⟩
    refine ⟨⟨hx, hpk⟩, ?_⟩
    cases hm : eventMatches (wrapFilter pk) x.e with
    | false => rfl
    | true => exact absurd ((wrapFilter_matches pk x.e (ht x hx)).mp hm) hw

end Pocket
