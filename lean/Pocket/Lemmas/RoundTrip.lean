import Pocket.Lemmas.EscapeRT
import Pocket.Lemmas.Digits
import Pocket.Lemmas.ParseWF
/- `Event::from_json ∘ Event::as_json = id` (C02): the JSON text `as_json` writes for an event with
UTF-8 strings parses back to exactly the bytes `from_parts` writes for that event. -/
namespace Pocket

/-! ### hex -/

theorem hexInv_hexDigitLower (d : Nat) (h : d < 16) : hexInv (hexDigitLower d) = some d := by
  unfold hexDigitLower hexInv
  by_cases h10 : d < 10
  · have h1 : 48 ≤ 48 + d ∧ 48 + d ≤ 57 := by omega
    simp only [h10, if_true, h1, and_self]
    congr 1; omega
  · have h1 : ¬ (48 ≤ 87 + d ∧ 87 + d ≤ 57) := by omega
    have h2 : ¬ (65 ≤ 87 + d ∧ 87 + d ≤ 70) := by omega
    have h3 : 97 ≤ 87 + d ∧ 87 + d ≤ 102 := by omega
    simp only [h10, if_false, h1, h2, h3, and_self, if_true]
    congr 1; omega

theorem unhexPairs_hexOf (v : Bytes) (hb : ∀ b ∈ v, b < 256) : unhexPairs (hexOf v) = .ok v := by
  induction v with
  | nil => rfl
  | cons b rest ih =>
    have hb0 := hb b (by simp)
    unfold hexOf unhexPairs
    rw [hexInv_hexDigitLower _ (Nat.mod_lt _ (by omega)), hexInv_hexDigitLower _ (Nat.mod_lt _ (by omega))]
    simp only [ih (fun x hx => hb x (by simp [hx]))]
    congr 2; omega

theorem hexOf_length (v : Bytes) : (hexOf v).length = 2 * v.length := by
  induction v with
  | nil => rfl
  | cons b rest ih => simp [hexOf, ih]; omega

/-- a hex member value reads back -/
theorem readHexField_hexOf (n : Nat) (v rest : Bytes) (hn : v.length = n) (hb : ∀ b ∈ v, b < 256) :
    readHexField n (34 :: (hexOf v ++ 34 :: rest)) = .ok (v, rest) := by
  have hl := hexOf_length v
  unfold readHexField
  simp only [verifyChar, if_true]
  have h1 : ¬ (hexOf v ++ 34 :: rest).length ≤ 2 * n := by simp [hl, hn]
  rw [if_neg h1]
  have ht : (hexOf v ++ 34 :: rest).take (2 * n) = hexOf v := by
    rw [← hn, ← hl]; exact List.take_left' rfl
  have hd : (hexOf v ++ 34 :: rest).drop (2 * n) = 34 :: rest := by
    rw [← hn, ← hl]; exact List.drop_left' rfl
  rw [ht, hd]
  unfold readHex
  have h2 : ¬ (hexOf v).length ≠ 2 * n := by simp [hl, hn]
  rw [if_neg h2, unhexPairs_hexOf v hb]
  simp [verifyChar]

/-! ### strings -/

/-- the byte string is the UTF-8 encoding of some list of code points -/
def IsUtf8 (s : Bytes) : Prop := ∃ cps : List Nat, (∀ c ∈ cps, c < 1114112) ∧ s = utf8Of cps

theorem IsUtf8_escape (s : Bytes) (hu : IsUtf8 s) : ∃ t, jsonEscape s = .ok t := by
  obtain ⟨cps, hc, rfl⟩ := hu
  exact ⟨_, jsonEscape_utf8 cps hc⟩

/-- reading an escaped string back, up to its closing quote -/
theorem unescape_escape (s t rest : Bytes) (cap : Nat) (hu : IsUtf8 s) (he : jsonEscape s = .ok t)
    (hcap : s.length ≤ cap) : jsonUnescape (t ++ 34 :: rest) cap = .ok (t.length, s) := by
  obtain ⟨cps, hc, rfl⟩ := hu
  rw [jsonEscape_utf8 cps hc] at he
  simp only [Outcome.ok.injEq] at he
  subst he
  exact jsonUnescape_escText cps hc rest cap hcap

theorem burnString_skip (b : Nat) (tail : Bytes) (hb : b ≠ 34 ∧ b ≠ 92) (ht : tail ≠ []) :
    burnString (b :: tail) = burnString tail := by
  cases tail with
  | nil => exact absurd rfl ht
  | cons c r => simp [burnString, hb.1, hb.2]

theorem burnString_piece (c : Nat) (hc : c < 1114112) (tail : Bytes) (ht : tail ≠ []) :
    burnString (escOf c ++ tail) = burnString tail := by
  by_cases hs : isSafeChar c = true
  · have he : escOf c = utf8Bytes c := by simp [escOf, hs]
    rw [he]
    have h92 : c ≠ 92 ∧ c ≠ 34 := by
      constructor <;> (intro h; subst h; simp [isSafeChar] at hs)
    unfold utf8Bytes
    by_cases h1 : c < 128
    · simp only [h1, if_true, List.cons_append, List.nil_append]
      exact burnString_skip _ _ (by omega) ht
    · by_cases h2 : c < 2048
      · simp only [h1, h2, if_true, if_false, List.cons_append, List.nil_append]
        rw [burnString_skip _ _ (by omega) (by simp), burnString_skip _ _ (by omega) ht]
      · by_cases h3 : c < 65536
        · simp only [h1, h2, h3, if_true, if_false, List.cons_append, List.nil_append]
          rw [burnString_skip _ _ (by omega) (by simp), burnString_skip _ _ (by omega) (by simp),
            burnString_skip _ _ (by omega) ht]
        · simp only [h1, h2, h3, if_false, List.cons_append, List.nil_append]
          rw [burnString_skip _ _ (by omega) (by simp), burnString_skip _ _ (by omega) (by simp),
            burnString_skip _ _ (by omega) (by simp), burnString_skip _ _ (by omega) ht]
  · have hs' : isSafeChar c = false := by simpa using hs
    have hs2 := hs'
    unfold isSafeChar at hs2
    simp only [Bool.or_eq_false_iff, Bool.and_eq_false_iff, decide_eq_false_iff_not] at hs2
    have hsmall : c < 32 ∨ c = 34 ∨ c = 92 := by omega
    obtain ⟨p, hp⟩ := escapePiece_some c hs' hc
    have he : escOf c = p := by simp [escOf, hs', hp]
    rw [he]
    unfold escapePiece at hp
    have hx : ∀ d, d < 16 → hexDigitLower d ≠ 34 ∧ hexDigitLower d ≠ 92 := by
      intro d hd; unfold hexDigitLower; split <;> omega
    cases tail with
    | nil => exact absurd rfl ht
    | cons t0 tr =>
      have h1 := hx (c / 16 % 16) (Nat.mod_lt _ (by omega))
      have h2 := hx (c % 16) (Nat.mod_lt _ (by omega))
      repeat' split at hp
      all_goals first
        | (simp only [Option.some.injEq] at hp; subst hp; simp [burnString, h1.1, h1.2, h2.1, h2.2]; done)
        | omega

theorem burnString_escText (cps : List Nat) (hc : ∀ c ∈ cps, c < 1114112) (rest : Bytes) :
    burnString (escText cps ++ 34 :: rest) = .ok rest := by
  induction cps with
  | nil =>
    simp only [escText, List.flatMap_nil, List.nil_append]
    cases rest <;> simp [burnString]
  | cons c r ih =>
    have he : escText (c :: r) = escOf c ++ escText r := by simp [escText]
    rw [he, List.append_assoc, burnString_piece c (hc c (by simp)) _ (by simp)]
    exact ih (fun x hx => hc x (by simp [hx]))

/-- skipping an escaped string, from after its opening quote to after its closing quote -/
theorem burnString_escape (s t rest : Bytes) (hu : IsUtf8 s) (he : jsonEscape s = .ok t) :
    burnString (t ++ 34 :: rest) = .ok rest := by
  obtain ⟨cps, hc, rfl⟩ := hu
  rw [jsonEscape_utf8 cps hc] at he
  simp only [Outcome.ok.injEq] at he
  subst he
  exact burnString_escText cps hc rest

/-! ### tags -/

theorem eatWs_nonws (b : Nat) (r : Bytes) (h : isWs b = false) : eatWs (b :: r) = b :: r := by
  simp [eatWs, h]

theorem strsJson_cons_inv (s : Bytes) (ss : List Bytes) (first : Bool) (txt : Bytes)
    (h : strsJson (s :: ss) first = .ok txt) :
    ∃ e r, jsonEscape s = .ok e ∧ strsJson ss false = .ok r ∧
      txt = (if first then [] else [44]) ++ [34] ++ e ++ [34] ++ r := by
  unfold strsJson at h
  split at h
  · rename_i e he
    split at h
    · rename_i r hr
      simp only [Outcome.ok.injEq] at h
      exact ⟨e, r, he, hr, h.symm⟩
    · cases h
    · cases h
  · cases h
  · cases h

theorem tagsJsonBody_cons_inv (t : List Bytes) (ts : TagsRec) (first : Bool) (txt : Bytes)
    (h : tagsJsonBody (t :: ts) first = .ok txt) :
    ∃ sj r, strsJson t true = .ok sj ∧ tagsJsonBody ts false = .ok r ∧
      txt = (if first then [] else [44]) ++ [91] ++ sj ++ [93] ++ r := by
  unfold tagsJsonBody at h
  split at h
  · rename_i sj hsj
    split at h
    · rename_i r hr
      simp only [Outcome.ok.injEq] at h
      exact ⟨sj, r, hsj, hr, h.symm⟩
    · cases h
    · cases h
  · cases h
  · cases h

theorem strsJson_length (ss : List Bytes) (txt : Bytes) (h : strsJson ss false = .ok txt) :
    ss.length ≤ txt.length := by
  induction ss generalizing txt with
  | nil => simp
  | cons s ss ih =>
    obtain ⟨e, r, _, hr, rfl⟩ := strsJson_cons_inv s ss false txt h
    have := ih r hr
    simp; omega

theorem tagsJsonBody_length (ts : TagsRec) (txt : Bytes) (h : tagsJsonBody ts false = .ok txt) :
    ts.length ≤ txt.length := by
  induction ts generalizing txt with
  | nil => simp
  | cons t ts ih =>
    obtain ⟨sj, r, _, hr, rfl⟩ := tagsJsonBody_cons_inv t ts false txt h
    have := ih r hr
    simp; omega

theorem drop_len_succ (e x : Bytes) (b : Nat) : (e ++ b :: x).drop (e.length + 1) = x := by
  rw [show e ++ b :: x = (e ++ [b]) ++ x by simp]
  exact List.drop_left' (by simp)

/-- the strings of one tag, from after the first opening quote -/
theorem readTagStrs_strs (ss : List Bytes) (s e txt rest : Bytes) (hu : ∀ x ∈ s :: ss, IsUtf8 x)
    (he : jsonEscape s = .ok e) (ht : strsJson ss false = .ok txt) (outpos cap : Nat)
    (hcap : outpos + strsSize (s :: ss) ≤ cap) (fuel : Nat) (hf : ss.length + 1 ≤ fuel) :
    readTagStrs fuel (e ++ 34 :: (txt ++ 93 :: rest)) outpos cap = .ok (rest, s :: ss) := by
  induction ss generalizing s e txt outpos fuel with
  | nil =>
    obtain ⟨f, rfl⟩ : ∃ f, fuel = f + 1 := ⟨fuel - 1, by omega⟩
    simp only [strsJson, Outcome.ok.injEq] at ht
    subst ht
    simp only [strsSize] at hcap
    unfold readTagStrs
    rw [if_neg (by omega), unescape_escape s e _ _ (hu s (by simp)) he (by omega)]
    dsimp only
    rw [drop_len_succ]
    simp [eatWs, isWs]
  | cons s2 ss2 ih =>
    obtain ⟨f, rfl⟩ : ∃ f, fuel = f + 1 := ⟨fuel - 1, by omega⟩
    obtain ⟨e2, r2, he2, hr2, rfl⟩ := strsJson_cons_inv s2 ss2 false txt ht
    simp only [strsSize] at hcap
    unfold readTagStrs
    rw [if_neg (by omega), unescape_escape s e _ _ (hu s (by simp)) he (by omega)]
    dsimp only
    rw [drop_len_succ]
    have hshape : ((if false = true then [] else [44]) ++ [34] ++ e2 ++ [34] ++ r2) ++ 93 :: rest =
        44 :: 34 :: (e2 ++ 34 :: (r2 ++ 93 :: rest)) := by simp
    rw [hshape]
    have ih' := ih s2 e2 r2 (fun x hx => hu x (by simp at hx ⊢; right; exact hx)) he2 hr2
      (outpos + 2 + s.length) (by simp only [strsSize]; omega) f (by simp at hf; omega)
    simp [eatWs, isWs, verifyChar, ih']

theorem readTag_strs (t : List Bytes) (hu : ∀ x ∈ t, IsUtf8 x) (txt rest : Bytes)
    (ht : strsJson t true = .ok txt) (outpos cap : Nat) (hcap : outpos + tagSize t ≤ cap) :
    readTag (txt ++ 93 :: rest) outpos cap = .ok (rest, t) := by
  cases t with
  | nil =>
    simp only [strsJson, Outcome.ok.injEq] at ht
    subst ht
    simp only [tagSize, strsSize] at hcap
    simp [readTag]; omega
  | cons s ss =>
    obtain ⟨e, r, he, hr, rfl⟩ := strsJson_cons_inv s ss true txt ht
    have hshape : ((if true = true then [] else [44]) ++ [34] ++ e ++ [34] ++ r) ++ 93 :: rest =
        34 :: (e ++ 34 :: (r ++ 93 :: rest)) := by simp
    rw [hshape]
    simp only [tagSize] at hcap
    have hlen := strsJson_length ss r hr
    simp [readTag, verifyChar]
    exact readTagStrs_strs ss s e r rest hu he hr (outpos + 2) cap (by omega) _ (by omega)

theorem burnTagLoop_strs (ss : List Bytes) (hu : ∀ x ∈ ss, IsUtf8 x) (txt rest : Bytes)
    (ht : strsJson ss false = .ok txt) (fuel : Nat) (hf : ss.length + 1 ≤ fuel) :
    burnTagLoop fuel (txt ++ 93 :: rest) = .ok rest := by
  induction ss generalizing txt fuel with
  | nil =>
    obtain ⟨f, rfl⟩ : ∃ f, fuel = f + 1 := ⟨fuel - 1, by omega⟩
    simp only [strsJson, Outcome.ok.injEq] at ht
    subst ht
    simp [burnTagLoop, verifyChar]
  | cons s ss ih =>
    obtain ⟨f, rfl⟩ : ∃ f, fuel = f + 1 := ⟨fuel - 1, by omega⟩
    obtain ⟨e, r, he, hr, rfl⟩ := strsJson_cons_inv s ss false txt ht
    have hshape : ((if false = true then [] else [44]) ++ [34] ++ e ++ [34] ++ r) ++ 93 :: rest =
        44 :: 34 :: (e ++ 34 :: (r ++ 93 :: rest)) := by simp
    rw [hshape]
    have hb := burnString_escape s e (r ++ 93 :: rest) (hu s (by simp)) he
    have hnw : eatWs (r ++ 93 :: rest) = r ++ 93 :: rest := by
      cases ss with
      | nil => simp only [strsJson, Outcome.ok.injEq] at hr; subst hr; simp [eatWs, isWs]
      | cons s2 ss2 =>
        obtain ⟨e2, r2, _, _, rfl⟩ := strsJson_cons_inv s2 ss2 false r hr
        simp [eatWs, isWs]
    have ih' := ih (fun x hx => hu x (by simp [hx])) r hr f (by simp at hf; omega)
    simp [burnTagLoop, eatWs, isWs, verifyChar, hb, hnw, ih']

/-- skipping one tag, from after its `[` to after its `]` -/
theorem burnTag_strs (t : List Bytes) (hu : ∀ x ∈ t, IsUtf8 x) (txt rest : Bytes)
    (ht : strsJson t true = .ok txt) : burnTag (txt ++ 93 :: rest) = .ok rest := by
  cases t with
  | nil =>
    simp only [strsJson, Outcome.ok.injEq] at ht
    subst ht
    simp [burnTag, eatWs, isWs]
  | cons s ss =>
    obtain ⟨e, r, he, hr, rfl⟩ := strsJson_cons_inv s ss true txt ht
    have hshape : ((if true = true then [] else [44]) ++ [34] ++ e ++ [34] ++ r) ++ 93 :: rest =
        34 :: (e ++ 34 :: (r ++ 93 :: rest)) := by simp
    rw [hshape]
    have hb := burnString_escape s e (r ++ 93 :: rest) (hu s (by simp)) he
    have hnw : eatWs (r ++ 93 :: rest) = r ++ 93 :: rest := by
      cases ss with
      | nil => simp only [strsJson, Outcome.ok.injEq] at hr; subst hr; simp [eatWs, isWs]
      | cons s2 ss2 =>
        obtain ⟨e2, r2, _, _, rfl⟩ := strsJson_cons_inv s2 ss2 false r hr
        simp [eatWs, isWs]
    have hlen := strsJson_length ss r hr
    simp [burnTag, eatWs, isWs, verifyChar, hb, hnw]
    exact burnTagLoop_strs ss (fun x hx => hu x (by simp [hx])) r rest hr _ (by omega)

end Pocket
