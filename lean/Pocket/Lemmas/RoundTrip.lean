import Pocket.Lemmas.EscapeRT
import Pocket.Lemmas.Digits
import Pocket.Lemmas.ParseWF
/- `Event::from_json ∘ Event::as_json = id` (C02): the JSON text `as_json` writes for an event with
UTF-8 strings parses back to exactly the bytes `from_parts` writes for that event. -/
namespace Pocket

/-! ### hex -/

theorem hexInv_hexDigitLower (d : Nat) (h : d < 16) : hexInv (hexDigitLower d) = some d := by
  unfold hexDigitLower hexInv
  by_cases h10 : d < 10
  · have h1 : 48 ≤ 48 + d ∧ 48 + d ≤ 57 := by omega
    simp only [h10, if_true, h1, and_self]
    congr 1; omega
  · have h1 : ¬ (48 ≤ 87 + d ∧ 87 + d ≤ 57) := by omega
    have h2 : ¬ (65 ≤ 87 + d ∧ 87 + d ≤ 70) := by omega
    have h3 : 97 ≤ 87 + d ∧ 87 + d ≤ 102 := by omega
    simp only [h10, if_false, h1, h2, h3, and_self, if_true]
    congr 1; omega

theorem unhexPairs_hexOf (v : Bytes) (hb : ∀ b ∈ v, b < 256) : unhexPairs (hexOf v) = .ok v := by
  induction v with
  | nil => rfl
  | cons b rest ih =>
    have hb0 := hb b (by simp)
    unfold hexOf unhexPairs
    rw [hexInv_hexDigitLower _ (Nat.mod_lt _ (by omega)), hexInv_hexDigitLower _ (Nat.mod_lt _ (by omega))]
    simp only [ih (fun x hx => hb x (by simp [hx]))]
    congr 2; omega

theorem hexOf_length (v : Bytes) : (hexOf v).length = 2 * v.length := by
  induction v with
  | nil => rfl
  | cons b rest ih => simp [hexOf, ih]; omega

/-- a hex member value reads back -/
theorem readHexField_hexOf (n : Nat) (v rest : Bytes) (hn : v.length = n) (hb : ∀ b ∈ v, b < 256) :
    readHexField n (34 :: (hexOf v ++ 34 :: rest)) = .ok (v, rest) := by
  have hl := hexOf_length v
  unfold readHexField
  simp only [verifyChar, if_true]
  have h1 : ¬ (hexOf v ++ 34 :: rest).length ≤ 2 * n := by simp [hl, hn]
  rw [if_neg h1]
  have ht : (hexOf v ++ 34 :: rest).take (2 * n) = hexOf v := by
    rw [← hn, ← hl]; exact List.take_left' rfl
  have hd : (hexOf v ++ 34 :: rest).drop (2 * n) = 34 :: rest := by
    rw [← hn, ← hl]; exact List.drop_left' rfl
  rw [ht, hd]
  unfold readHex
  have h2 : ¬ (hexOf v).length ≠ 2 * n := by simp [hl, hn]
  rw [if_neg h2, unhexPairs_hexOf v hb]
  simp [verifyChar]

/-! ### strings -/

/-- the byte string is the UTF-8 encoding of some list of code points -/
def IsUtf8 (s : Bytes) : Prop := ∃ cps : List Nat, (∀ c ∈ cps, c < 1114112) ∧ s = utf8Of cps

theorem IsUtf8_escape (s : Bytes) (hu : IsUtf8 s) : ∃ t, jsonEscape s = .ok t := by
  obtain ⟨cps, hc, rfl⟩ := hu
  exact ⟨_, jsonEscape_utf8 cps hc⟩

/-- reading an escaped string back, up to its closing quote -/
theorem unescape_escape (s t rest : Bytes) (cap : Nat) (hu : IsUtf8 s) (he : jsonEscape s = .ok t)
    (hcap : s.length ≤ cap) : jsonUnescape (t ++ 34 :: rest) cap = .ok (t.length, s) := by
  obtain ⟨cps, hc, rfl⟩ := hu
  rw [jsonEscape_utf8 cps hc] at he
  simp only [Outcome.ok.injEq] at he
  subst he
  exact jsonUnescape_escText cps hc rest cap hcap

theorem burnString_skip (b : Nat) (tail : Bytes) (hb : b ≠ 34 ∧ b ≠ 92) (ht : tail ≠ []) :
    burnString (b :: tail) = burnString tail := by
  cases tail with
  | nil => exact absurd rfl ht
  | cons c r => simp [burnString, hb.1, hb.2]

theorem burnString_piece (c : Nat) (hc : c < 1114112) (tail : Bytes) (ht : tail ≠ []) :
    burnString (escOf c ++ tail) = burnString tail := by
  by_cases hs : isSafeChar c = true
  · have he : escOf c = utf8Bytes c := by simp [escOf, hs]
    rw [he]
    have h92 : c ≠ 92 ∧ c ≠ 34 := by
      constructor <;> (intro h; subst h; simp [isSafeChar] at hs)
    unfold utf8Bytes
    by_cases h1 : c < 128
    · simp only [h1, if_true, List.cons_append, List.nil_append]
      exact burnString_skip _ _ (by omega) ht
    · by_cases h2 : c < 2048
      · simp only [h1, h2, if_true, if_false, List.cons_append, List.nil_append]
        rw [burnString_skip _ _ (by omega) (by simp), burnString_skip _ _ (by omega) ht]
      · by_cases h3 : c < 65536
        · simp only [h1, h2, h3, if_true, if_false, List.cons_append, List.nil_append]
          rw [burnString_skip _ _ (by omega) (by simp), burnString_skip _ _ (by omega) (by simp),
            burnString_skip _ _ (by omega) ht]
        · simp only [h1, h2, h3, if_false, List.cons_append, List.nil_append]
          rw [burnString_skip _ _ (by omega) (by simp), burnString_skip _ _ (by omega) (by simp),
            burnString_skip _ _ (by omega) (by simp), burnString_skip _ _ (by omega) ht]
  · have hs' : isSafeChar c = false := by simpa using hs
    have hs2 := hs'
    unfold isSafeChar at hs2
    simp only [Bool.or_eq_false_iff, Bool.and_eq_false_iff, decide_eq_false_iff_not] at hs2
    have hsmall : c < 32 ∨ c = 34 ∨ c = 92 := by omega
    obtain ⟨p, hp⟩ := escapePiece_some c hs' hc
    have he : escOf c = p := by simp [escOf, hs', hp]
    rw [he]
    unfold escapePiece at hp
    have hx : ∀ d, d < 16 → hexDigitLower d ≠ 34 ∧ hexDigitLower d ≠ 92 := by
      intro d hd; unfold hexDigitLower; split <;> omega
    cases tail with
    | nil => exact absurd rfl ht
    | cons t0 tr =>
      have h1 := hx (c / 16 % 16) (Nat.mod_lt _ (by omega))
      have h2 := hx (c % 16) (Nat.mod_lt _ (by omega))
      repeat' split at hp
      all_goals first
        | (simp only [Option.some.injEq] at hp; subst hp; simp [burnString, h1.1, h1.2, h2.1, h2.2]; done)
        | omega

theorem burnString_escText (cps : List Nat) (hc : ∀ c ∈ cps, c < 1114112) (rest : Bytes) :
    burnString (escText cps ++ 34 :: rest) = .ok rest := by
  induction cps with
  | nil =>
    simp only [escText, List.flatMap_nil, List.nil_append]
    cases rest <;> simp [burnString]
  | cons c r ih =>
    have he : escText (c :: r) = escOf c ++ escText r := by simp [escText]
    rw [he, List.append_assoc, burnString_piece c (hc c (by simp)) _ (by simp)]
    exact ih (fun x hx => hc x (by simp [hx]))

/-- skipping an escaped string, from after its opening quote to after its closing quote -/
theorem burnString_escape (s t rest : Bytes) (hu : IsUtf8 s) (he : jsonEscape s = .ok t) :
    burnString (t ++ 34 :: rest) = .ok rest := by
  obtain ⟨cps, hc, rfl⟩ := hu
  rw [jsonEscape_utf8 cps hc] at he
  simp only [Outcome.ok.injEq] at he
  subst he
  exact burnString_escText cps hc rest

/-! ### tags -/

theorem eatWs_nonws (b : Nat) (r : Bytes) (h : isWs b = false) : eatWs (b :: r) = b :: r := by
  simp [eatWs, h]

theorem strsJson_cons_inv (s : Bytes) (ss : List Bytes) (first : Bool) (txt : Bytes)
    (h : strsJson (s :: ss) first = .ok txt) :
    ∃ e r, jsonEscape s = .ok e ∧ strsJson ss false = .ok r ∧
      txt = (if first then [] else [44]) ++ [34] ++ e ++ [34] ++ r := by
  unfold strsJson at h
  split at h
  · rename_i e he
    split at h
    · rename_i r hr
      simp only [Outcome.ok.injEq] at h
      exact ⟨e, r, he, hr, h.symm⟩
    · cases h
    · cases h
  · cases h
  · cases h

theorem tagsJsonBody_cons_inv (t : List Bytes) (ts : TagsRec) (first : Bool) (txt : Bytes)
    (h : tagsJsonBody (t :: ts) first = .ok txt) :
    ∃ sj r, strsJson t true = .ok sj ∧ tagsJsonBody ts false = .ok r ∧
      txt = (if first then [] else [44]) ++ [91] ++ sj ++ [93] ++ r := by
  unfold tagsJsonBody at h
  split at h
  · rename_i sj hsj
    split at h
    · rename_i r hr
      simp only [Outcome.ok.injEq] at h
      exact ⟨sj, r, hsj, hr, h.symm⟩
    · cases h
    · cases h
  · cases h
  · cases h

theorem strsJson_length (ss : List Bytes) (txt : Bytes) (h : strsJson ss false = .ok txt) :
    ss.length ≤ txt.length := by
  induction ss generalizing txt with
  | nil => simp
  | cons s ss ih =>
    obtain ⟨e, r, _, hr, rfl⟩ := strsJson_cons_inv s ss false txt h
    have := ih r hr
    simp; omega

theorem tagsJsonBody_length (ts : TagsRec) (txt : Bytes) (h : tagsJsonBody ts false = .ok txt) :
    ts.length ≤ txt.length := by
  induction ts generalizing txt with
  | nil => simp
  | cons t ts ih =>
    obtain ⟨sj, r, _, hr, rfl⟩ := tagsJsonBody_cons_inv t ts false txt h
    have := ih r hr
    simp; omega

theorem drop_len_succ (e x : Bytes) (b : Nat) : (e ++ b :: x).drop (e.length + 1) = x := by
  rw [show e ++ b :: x = (e ++ [b]) ++ x by simp]
  exact List.drop_left' (by simp)

/-- the strings of one tag, from after the first opening quote -/
theorem readTagStrs_strs (ss : List Bytes) (s e txt rest : Bytes) (hu : ∀ x ∈ s :: ss, IsUtf8 x)
    (he : jsonEscape s = .ok e) (ht : strsJson ss false = .ok txt) (outpos cap : Nat)
    (hcap : outpos + strsSize (s :: ss) ≤ cap) (fuel : Nat) (hf : ss.length + 1 ≤ fuel) :
    readTagStrs fuel (e ++ 34 :: (txt ++ 93 :: rest)) outpos cap = .ok (rest, s :: ss) := by
  induction ss generalizing s e txt outpos fuel with
  | nil =>
    obtain ⟨f, rfl⟩ : ∃ f, fuel = f + 1 := ⟨fuel - 1, by omega⟩
    simp only [strsJson, Outcome.ok.injEq] at ht
    subst ht
    simp only [strsSize] at hcap
    unfold readTagStrs
    rw [if_neg (by omega), unescape_escape s e _ _ (hu s (by simp)) he (by omega)]
    dsimp only
    rw [drop_len_succ]
    simp [eatWs, isWs]
  | cons s2 ss2 ih =>
    obtain ⟨f, rfl⟩ : ∃ f, fuel = f + 1 := ⟨fuel - 1, by omega⟩
    obtain ⟨e2, r2, he2, hr2, rfl⟩ := strsJson_cons_inv s2 ss2 false txt ht
    simp only [strsSize] at hcap
    unfold readTagStrs
    rw [if_neg (by omega), unescape_escape s e _ _ (hu s (by simp)) he (by omega)]
    dsimp only
    rw [drop_len_succ]
    have hshape : ((if false = true then [] else [44]) ++ [34] ++ e2 ++ [34] ++ r2) ++ 93 :: rest =
        44 :: 34 :: (e2 ++ 34 :: (r2 ++ 93 :: rest)) := by simp
    rw [hshape]
    have ih' := ih s2 e2 r2 (fun x hx => hu x (by simp at hx ⊢; right; exact hx)) he2 hr2
      (outpos + 2 + s.length) (by simp only [strsSize]; omega) f (by simp at hf; omega)
    simp [eatWs, isWs, verifyChar, ih']

theorem readTag_strs (t : List Bytes) (hu : ∀ x ∈ t, IsUtf8 x) (txt rest : Bytes)
    (ht : strsJson t true = .ok txt) (outpos cap : Nat) (hcap : outpos + tagSize t ≤ cap) :
    readTag (txt ++ 93 :: rest) outpos cap = .ok (rest, t) := by
  cases t with
  | nil =>
    simp only [strsJson, Outcome.ok.injEq] at ht
    subst ht
    simp only [tagSize, strsSize] at hcap
    simp [readTag]; omega
  | cons s ss =>
    obtain ⟨e, r, he, hr, rfl⟩ := strsJson_cons_inv s ss true txt ht
    have hshape : ((if true = true then [] else [44]) ++ [34] ++ e ++ [34] ++ r) ++ 93 :: rest =
        34 :: (e ++ 34 :: (r ++ 93 :: rest)) := by simp
    rw [hshape]
    simp only [tagSize] at hcap
    have hlen := strsJson_length ss r hr
    simp [readTag, verifyChar]
    exact readTagStrs_strs ss s e r rest hu he hr (outpos + 2) cap (by omega) _ (by omega)

theorem burnTagLoop_strs (ss : List Bytes) (hu : ∀ x ∈ ss, IsUtf8 x) (txt rest : Bytes)
    (ht : strsJson ss false = .ok txt) (fuel : Nat) (hf : ss.length + 1 ≤ fuel) :
    burnTagLoop fuel (txt ++ 93 :: rest) = .ok rest := by
  induction ss generalizing txt fuel with
  | nil =>
    obtain ⟨f, rfl⟩ : ∃ f, fuel = f + 1 := ⟨fuel - 1, by omega⟩
    simp only [strsJson, Outcome.ok.injEq] at ht
    subst ht
    simp [burnTagLoop, verifyChar]
  | cons s ss ih =>
    obtain ⟨f, rfl⟩ : ∃ f, fuel = f + 1 := ⟨fuel - 1, by omega⟩
    obtain ⟨e, r, he, hr, rfl⟩ := strsJson_cons_inv s ss false txt ht
    have hshape : ((if false = true then [] else [44]) ++ [34] ++ e ++ [34] ++ r) ++ 93 :: rest =
        44 :: 34 :: (e ++ 34 :: (r ++ 93 :: rest)) := by simp
    rw [hshape]
    have hb := burnString_escape s e (r ++ 93 :: rest) (hu s (by simp)) he
    have hnw : eatWs (r ++ 93 :: rest) = r ++ 93 :: rest := by
      cases ss with
      | nil => simp only [strsJson, Outcome.ok.injEq] at hr; subst hr; simp [eatWs, isWs]
      | cons s2 ss2 =>
        obtain ⟨e2, r2, _, _, rfl⟩ := strsJson_cons_inv s2 ss2 false r hr
        simp [eatWs, isWs]
    have ih' := ih (fun x hx => hu x (by simp [hx])) r hr f (by simp at hf; omega)
    simp [burnTagLoop, eatWs, isWs, verifyChar, hb, hnw, ih']

/-- skipping one tag, from after its `[` to after its `]` -/
theorem burnTag_strs (t : List Bytes) (hu : ∀ x ∈ t, IsUtf8 x) (txt rest : Bytes)
    (ht : strsJson t true = .ok txt) : burnTag (txt ++ 93 :: rest) = .ok rest := by
  cases t with
  | nil =>
    simp only [strsJson, Outcome.ok.injEq] at ht
    subst ht
    simp [burnTag, eatWs, isWs]
  | cons s ss =>
    obtain ⟨e, r, he, hr, rfl⟩ := strsJson_cons_inv s ss true txt ht
    have hshape : ((if true = true then [] else [44]) ++ [34] ++ e ++ [34] ++ r) ++ 93 :: rest =
        34 :: (e ++ 34 :: (r ++ 93 :: rest)) := by simp
    rw [hshape]
    have hb := burnString_escape s e (r ++ 93 :: rest) (hu s (by simp)) he
    have hnw : eatWs (r ++ 93 :: rest) = r ++ 93 :: rest := by
      cases ss with
      | nil => simp only [strsJson, Outcome.ok.injEq] at hr; subst hr; simp [eatWs, isWs]
      | cons s2 ss2 =>
        obtain ⟨e2, r2, _, _, rfl⟩ := strsJson_cons_inv s2 ss2 false r hr
        simp [eatWs, isWs]
    have hlen := strsJson_length ss r hr
    simp [burnTag, eatWs, isWs, verifyChar, hb, hnw]
    exact burnTagLoop_strs ss (fun x hx => hu x (by simp [hx])) r rest hr _ (by omega)

/-- every string of every tag is UTF-8 -/
def TagsUtf8 (ts : TagsRec) : Prop := ∀ t ∈ ts, ∀ s ∈ t, IsUtf8 s

theorem eatWs_strs (t : List Bytes) (sj rest : Bytes) (h : strsJson t true = .ok sj) :
    eatWs (sj ++ 93 :: rest) = sj ++ 93 :: rest := by
  cases t with
  | nil => simp only [strsJson, Outcome.ok.injEq] at h; subst h; simp [eatWs, isWs]
  | cons s ss =>
    obtain ⟨e, r, _, _, rfl⟩ := strsJson_cons_inv s ss true sj h
    simp [eatWs, isWs]

theorem eatWs_body (ts : TagsRec) (r rest : Bytes) (h : tagsJsonBody ts false = .ok r) :
    eatWs (r ++ 93 :: rest) = r ++ 93 :: rest := by
  cases ts with
  | nil => simp only [tagsJsonBody, Outcome.ok.injEq] at h; subst h; simp [eatWs, isWs]
  | cons t ts =>
    obtain ⟨sj, r', _, _, rfl⟩ := tagsJsonBody_cons_inv t ts false r h
    simp [eatWs, isWs]

theorem countTagsLoop_body (ts : TagsRec) (hu : TagsUtf8 ts) (r rest : Bytes)
    (hb : tagsJsonBody ts false = .ok r) (n fuel : Nat) (hf : ts.length + 1 ≤ fuel) :
    countTagsLoop fuel (r ++ 93 :: rest) n = .ok (n + ts.length) := by
  induction ts generalizing r n fuel with
  | nil =>
    obtain ⟨f, rfl⟩ : ∃ f, fuel = f + 1 := ⟨fuel - 1, by omega⟩
    simp only [tagsJsonBody, Outcome.ok.injEq] at hb
    subst hb
    simp [countTagsLoop]
  | cons t ts ih =>
    obtain ⟨f, rfl⟩ : ∃ f, fuel = f + 1 := ⟨fuel - 1, by omega⟩
    obtain ⟨sj, r', hsj, hr', rfl⟩ := tagsJsonBody_cons_inv t ts false r hb
    have hshape : ((if false = true then [] else [44]) ++ [91] ++ sj ++ [93] ++ r') ++ 93 :: rest =
        44 :: 91 :: (sj ++ 93 :: (r' ++ 93 :: rest)) := by simp
    rw [hshape]
    have hbt := burnTag_strs t (hu t (by simp)) sj (r' ++ 93 :: rest) hsj
    have hws := eatWs_body ts r' rest hr'
    have ih' := ih (fun t' ht' => hu t' (by simp [ht'])) r' hr' (n + 1) f (by simp at hf; omega)
    simp [countTagsLoop, eatWs, isWs, verifyChar, hbt, hws, ih']
    omega

theorem countTags_body (ts : TagsRec) (hu : TagsUtf8 ts) (body rest : Bytes)
    (hb : tagsJsonBody ts true = .ok body) : countTags (body ++ 93 :: rest) = .ok ts.length := by
  cases ts with
  | nil =>
    simp only [tagsJsonBody, Outcome.ok.injEq] at hb
    subst hb
    simp [countTags]
  | cons t ts =>
    obtain ⟨sj, r', hsj, hr', rfl⟩ := tagsJsonBody_cons_inv t ts true body hb
    have hshape : ((if true = true then [] else [44]) ++ [91] ++ sj ++ [93] ++ r') ++ 93 :: rest =
        91 :: (sj ++ 93 :: (r' ++ 93 :: rest)) := by simp
    rw [hshape]
    have hbt := burnTag_strs t (hu t (by simp)) sj (r' ++ 93 :: rest) hsj
    have hws := eatWs_body ts r' rest hr'
    have hlen := tagsJsonBody_length ts r' hr'
    simp [countTags, hbt, hws]
    rw [countTagsLoop_body ts (fun t' ht' => hu t' (by simp [ht'])) r' rest hr' 1 _ (by omega)]
    congr 1; omega

/-- the tag loop of `read_tags_array` over the text `as_json` wrote returns the tags themselves -/
theorem readTagsLoop_body (ts : TagsRec) (t : List Bytes) (hu : TagsUtf8 (t :: ts)) (sj r' rest : Bytes)
    (hsj : strsJson t true = .ok sj) (hr : tagsJsonBody ts false = .ok r') (k n : Nat)
    (hk : k + 1 + ts.length = n) (outpos cap : Nat) (hcap : outpos + tagsBodySize (t :: ts) ≤ cap)
    (h16 : outpos + tagsBodySize (t :: ts) ≤ 65535) (fuel : Nat) (hf : ts.length + 1 ≤ fuel) :
    ∃ offs, readTagsLoop fuel (sj ++ 93 :: (r' ++ 93 :: rest)) k n outpos cap = .ok (rest, offs, t :: ts) := by
  induction ts generalizing t sj r' k outpos fuel with
  | nil =>
    obtain ⟨f, rfl⟩ : ∃ f, fuel = f + 1 := ⟨fuel - 1, by omega⟩
    simp only [tagsJsonBody, Outcome.ok.injEq] at hr
    subst hr
    simp only [tagsBodySize] at hcap h16
    have hrt := readTag_strs t (hu t (by simp)) sj (([] : Bytes) ++ 93 :: rest) hsj outpos cap (by omega)
    refine ⟨[outpos], ?_⟩
    unfold readTagsLoop
    rw [if_neg (by omega), hrt]
    simp at hk
    simp [eatWs, isWs]
    omega
  | cons t2 ts2 ih =>
    obtain ⟨f, rfl⟩ : ∃ f, fuel = f + 1 := ⟨fuel - 1, by omega⟩
    obtain ⟨sj2, r2, hsj2, hr2, rfl⟩ := tagsJsonBody_cons_inv t2 ts2 false r' hr
    have hshape : ((if false = true then [] else [44]) ++ [91] ++ sj2 ++ [93] ++ r2) ++ 93 :: rest =
        44 :: 91 :: (sj2 ++ 93 :: (r2 ++ 93 :: rest)) := by simp
    rw [hshape]
    simp only [tagsBodySize] at hcap h16
    have hrt := readTag_strs t (hu t (by simp)) sj (44 :: 91 :: (sj2 ++ 93 :: (r2 ++ 93 :: rest))) hsj outpos cap (by omega)
    have hws := eatWs_strs t2 sj2 (r2 ++ 93 :: rest) hsj2
    obtain ⟨offs, ih'⟩ := ih t2 (fun t' ht' => hu t' (by simp at ht' ⊢; right; exact ht')) sj2 r2 hsj2 hr2 (k + 1)
      (by simp at hk ⊢; omega) (outpos + tagSize t) (by simp only [tagsBodySize]; omega)
      (by simp only [tagsBodySize]; omega) f (by simp at hf; omega)
    refine ⟨outpos :: offs, ?_⟩
    unfold readTagsLoop
    rw [if_neg (by omega), hrt]
    have hk2 : ¬ k + 1 ≥ n := by simp at hk; omega
    simp [eatWs, isWs, verifyChar, hk2, hws, ih']

theorem tagsBodySize_le (ts : TagsRec) : 4 + 2 * ts.length + tagsBodySize ts = tagsSize ts := rfl

/-- **the tags array `as_json` writes reads back as the tag section `from_parts` writes** -/
theorem readTagsArray_tagsJson (ts : TagsRec) (hu : TagsUtf8 ts) (tj rest : Bytes)
    (htj : tagsJson ts = .ok tj) (cap : Nat) (hfit : tagsSize ts ≤ 65535) (hcap : tagsSize ts ≤ cap) :
    readTagsArray (tj ++ rest) cap = .ok (rest, encodeTags ts) := by
  unfold tagsJson at htj
  split at htj
  · rename_i body hbody
    simp only [Outcome.ok.injEq] at htj
    subst htj
    have hsz := tagsBodySize_le ts
    have hshape : ([91] ++ body ++ [93]) ++ rest = 91 :: (body ++ 93 :: rest) := by simp
    rw [hshape]
    have hcount := countTags_body ts hu body rest hbody
    cases ts with
    | nil =>
      simp only [tagsJsonBody, Outcome.ok.injEq] at hbody
      subst hbody
      simp only [List.nil_append] at hcount ⊢
      have hcap4 : ¬ cap < 4 := by simp [tagsSize, tagsBodySize] at hcap; omega
      simp [readTagsArray, verifyChar, eatWs, isWs, hcap4, hcount, burnFuel, burnArray, eatWsC,
        encodeTags, tagsSize, tagsBodySize, encOffsets, encTagsBody]
    | cons t ts' =>
      obtain ⟨sj, r', hsj, hr', rfl⟩ := tagsJsonBody_cons_inv t ts' true body hbody
      have hshape2 : ((if true = true then [] else [44]) ++ [91] ++ sj ++ [93] ++ r') ++ 93 :: rest =
          91 :: (sj ++ 93 :: (r' ++ 93 :: rest)) := by simp
      rw [hshape2] at hcount ⊢
      have hlen := tagsJsonBody_length ts' r' hr'
      have hws := eatWs_strs t sj (r' ++ 93 :: rest) hsj
      simp only [List.length_cons] at hsz hcount
      obtain ⟨offs, hloop⟩ := readTagsLoop_body ts' t hu sj r' rest hsj hr' 0 (ts'.length + 1) (by omega)
        (4 + (ts'.length + 1) * 2) cap (by omega) (by omega)
        ((sj ++ 93 :: (r' ++ 93 :: rest)).length + 1) (by simp; omega)
      have hspec := (readTagsLoop_spec _ _ _ _ _ _ _ _ _ hloop (by omega)).2
      have hcap4 : ¬ cap < 4 := by omega
      have hn16 : ¬ ts'.length + 1 > 65535 := by omega
      have hcapo : ¬ cap < 4 + (ts'.length + 1) * 2 := by omega
      have htot : ¬ 4 + (ts'.length + 1) * 2 + tagsBodySize (t :: ts') > 65535 := by omega
      unfold readTagsArray
      simp only [verifyChar, if_true]
      try dsimp only
      rw [show eatWs (91 :: (sj ++ 93 :: (r' ++ 93 :: rest))) = 91 :: (sj ++ 93 :: (r' ++ 93 :: rest)) from by simp [eatWs, isWs]]
      rw [if_neg hcap4, hcount]
      try dsimp only
      rw [if_neg hn16, if_neg (by omega)]
      simp only [verifyChar, if_true]
      try dsimp only
      rw [if_neg hcapo, hws, hloop]
      try dsimp only
      rw [if_neg htot, hspec]
      unfold encodeTags
      simp only [List.length_cons]
      rw [← hsz]
      have e1 : 4 + (ts'.length + 1) * 2 = 4 + 2 * (ts'.length + 1) := by omega
      rw [e1]
  · cases htj
  · cases htj

/-! ### the event object -/

theorem decDigits_head (f n : Nat) (hf : n < f) :
    ∃ d ds, decDigits f n = d :: ds ∧ 48 ≤ d ∧ d ≤ 57 := by
  induction f generalizing n with
  | zero => omega
  | succ f ih =>
    unfold decDigits
    split
    · exact ⟨48 + n, [], rfl, by omega, by omega⟩
    · obtain ⟨d, ds, h, h1, h2⟩ := ih (n / 10) (by omega)
      exact ⟨d, ds ++ [48 + n % 10], by rw [h]; rfl, h1, h2⟩

theorem eatWs_decOf (n : Nat) (r : Bytes) : eatWs (decOf n ++ r) = decOf n ++ r := by
  obtain ⟨d, ds, h, h1, h2⟩ := decDigits_head (n + 1) n (by omega)
  unfold decOf
  rw [h]
  have : isWs d = false := by unfold isWs; simp; omega
  simp [eatWs, this]

theorem evLoop_more (f : Nat) (st st' : EvSt) (inp r : Bytes) (cap : Nat)
    (h : evMember st (eatWs inp) cap = .ok (st', 44 :: r)) :
    evLoop (f + 1) st inp cap = evLoop f st' r cap := by
  simp [evLoop, h, nextObjectField, eatWs, isWs]

theorem evLoop_last (f : Nat) (st st' : EvSt) (inp r : Bytes) (cap : Nat)
    (h : evMember st (eatWs inp) cap = .ok (st', 125 :: r)) :
    evLoop (f + 1) st inp cap = .ok (st', r) := by
  simp [evLoop, h, nextObjectField, eatWs, isWs]

theorem noLeadingDigit_44 (r : Bytes) : NoLeadingDigit (44 :: r) := by
  intro b r' h; simp only [List.cons.injEq] at h; rw [← h.1]; decide

theorem readContent_escape (c ec rest : Bytes) (cap a : Nat) (hu : IsUtf8 c) (he : jsonEscape c = .ok ec)
    (hcap : a + 4 + c.length ≤ cap) (h32 : a + 4 + c.length ≤ 4294967295) :
    readContent (34 :: (ec ++ 34 :: rest)) cap a = .ok (rest, c) := by
  unfold readContent
  simp only [verifyChar, if_true]
  rw [if_neg (by omega), unescape_escape c ec rest _ hu he (by omega)]
  dsimp only
  rw [if_neg (by unfold U32MAX; omega), drop_len_succ]

/-- **`Event::from_json ∘ Event::as_json`**: for every event whose fields fit the format and whose
strings are UTF-8, the text `as_json` writes parses back — into any buffer that is large enough,
whatever it held before, with anything following the text — to exactly the bytes `from_parts`
writes for that event, consuming exactly the text -/
theorem parseEvent_eventJson (e : EventRec) (hs : EventSized e)
    (hbid : ∀ b ∈ e.id, b < 256) (hbpk : ∀ b ∈ e.pubkey, b < 256) (hbsig : ∀ b ∈ e.sig, b < 256)
    (hut : TagsUtf8 e.tags) (huc : IsUtf8 e.content) (txt : Bytes) (ht : eventJson e = .ok txt)
    (rest buf : Bytes) (hbuf : (encodeEvent e).length ≤ buf.length) :
    parseEvent (txt ++ rest) buf =
      .ok (txt.length, (encodeEvent e).length, encodeEvent e ++ buf.drop (encodeEvent e).length) := by
  obtain ⟨s1, s2, s3, s4, s5, s6, s7⟩ := hs
  have hlen : (encodeEvent e).length = eventSize (tagsSize e.tags) e.content.length := by
    unfold encodeEvent
    rw [encodeEventWith_length _ _ _ _ _ _ _ s1 s2 s3, encodeTags_length]
  rw [hlen] at hbuf ⊢
  unfold eventSize at hbuf s7
  have htsz : 4 ≤ tagsSize e.tags := by unfold tagsSize; omega
  unfold eventJson at ht
  split at ht
  · rename_i tj htj
    split at ht
    · rename_i ec hec
      simp only [Outcome.ok.injEq] at ht
      subst ht
      have hid := readHexField_hexOf 32 e.id
      have hhid := hexOf_length e.id
      have hhpk := hexOf_length e.pubkey
      have hhsig := hexOf_length e.sig
      -- the seven members, one by one
      have m1 : ∀ (st : EvSt) (r : Bytes), st.id = none →
          evMember st (34 :: 105 :: 100 :: 34 :: 58 :: 34 :: (hexOf e.id ++ 34 :: r)) buf.length =
            .ok ({ st with id := some e.id }, r) := by
        intro st r h0
        simp [evMember, verifyChar, startsWith, kId, h0, eatColon, eatWs, isWs,
          readHexField_hexOf 32 e.id r s1 hbid]
      have m2 : ∀ (st : EvSt) (r : Bytes), st.pk = none →
          evMember st (34 :: 112 :: 117 :: 98 :: 107 :: 101 :: 121 :: 34 :: 58 :: 34 :: (hexOf e.pubkey ++ 34 :: r)) buf.length =
            .ok ({ st with pk := some e.pubkey }, r) := by
        intro st r h0
        simp [evMember, verifyChar, startsWith, kId, kSig, kKind, kTags, kPubkey, h0, eatColon, eatWs, isWs,
          readHexField_hexOf 32 e.pubkey r s2 hbpk]
      have m3 : ∀ (st : EvSt) (r : Bytes), st.kind = none →
          evMember st (34 :: 107 :: 105 :: 110 :: 100 :: 34 :: 58 :: (decOf e.kind ++ 44 :: r)) buf.length =
            .ok ({ st with kind := some e.kind }, 44 :: r) := by
        intro st r h0
        have hw := eatWs_decOf e.kind (44 :: r)
        simp [evMember, verifyChar, startsWith, kId, kSig, kKind, h0, eatColon, eatWs, isWs, hw,
          readKind_decOf e.kind (44 :: r) s4 (noLeadingDigit_44 r)]
      have m4 : ∀ (st : EvSt) (r : Bytes), st.t = none →
          evMember st (34 :: 99 :: 114 :: 101 :: 97 :: 116 :: 101 :: 100 :: 95 :: 97 :: 116 :: 34 :: 58 :: (decOf e.createdAt ++ 44 :: r)) buf.length =
            .ok ({ st with t := some e.createdAt }, 44 :: r) := by
        intro st r h0
        have hw := eatWs_decOf e.createdAt (44 :: r)
        simp [evMember, verifyChar, startsWith, kId, kSig, kKind, kTags, kPubkey, kContent, kCreatedAt, h0, eatColon, eatWs, isWs, hw,
          readU64_decOf e.createdAt (44 :: r) s5 (noLeadingDigit_44 r)]
      have hw5 : ∀ r : Bytes, eatWs (tj ++ r) = tj ++ r := by
        intro r
        unfold tagsJson at htj
        split at htj
        · simp only [Outcome.ok.injEq] at htj; subst htj; simp [eatWs, isWs]
        · cases htj
        · cases htj
      have m5 : ∀ (st : EvSt) (r : Bytes), st.tags = none → st.contentStart = none →
          evMember st (34 :: 116 :: 97 :: 103 :: 115 :: 34 :: 58 :: (tj ++ r)) buf.length =
            .ok ({ st with tags := some (encodeTags e.tags) }, r) := by
        intro st r h0 h1
        simp [evMember, verifyChar, startsWith, kId, kSig, kKind, kTags, h0, h1, eatColon, eatWs, isWs, hw5,
          readTagsArray_tagsJson e.tags hut tj r htj (buf.length - 144) s6 (by omega)]
      have m6 : ∀ (st : EvSt) (r : Bytes), st.content = none → st.tags = some (encodeTags e.tags) →
          evMember st (34 :: 99 :: 111 :: 110 :: 116 :: 101 :: 110 :: 116 :: 34 :: 58 :: 34 :: (ec ++ 34 :: r)) buf.length =
            .ok ({ st with content := some e.content }, r) := by
        intro st r h0 h1
        have hrc := readContent_escape e.content ec r buf.length (144 + (encodeTags e.tags).length) huc hec
          (by rw [encodeTags_length]; omega) (by rw [encodeTags_length]; omega)
        simp [evMember, verifyChar, startsWith, kId, kSig, kKind, kTags, kPubkey, kContent, h0, h1, eatColon, eatWs, isWs, hrc]
      have m7 : ∀ (st : EvSt) (r : Bytes), st.sig = none →
          evMember st (34 :: 115 :: 105 :: 103 :: 34 :: 58 :: 34 :: (hexOf e.sig ++ 34 :: r)) buf.length =
            .ok ({ st with sig := some e.sig }, r) := by
        intro st r h0
        simp [evMember, verifyChar, startsWith, kId, kSig, h0, eatColon, eatWs, isWs,
          readHexField_hexOf 64 e.sig r s3 hbsig]
      -- the text, as the suffixes the member loop sees
      obtain ⟨T7, hT7⟩ : ∃ x, x = 34 :: 115 :: 105 :: 103 :: 34 :: 58 :: 34 :: (hexOf e.sig ++ 34 :: 125 :: rest) := ⟨_, rfl⟩
      obtain ⟨T6, hT6⟩ : ∃ x, x = 34 :: 99 :: 111 :: 110 :: 116 :: 101 :: 110 :: 116 :: 34 :: 58 :: 34 :: (ec ++ 34 :: 44 :: T7) := ⟨_, rfl⟩
      obtain ⟨T5, hT5⟩ : ∃ x, x = 34 :: 116 :: 97 :: 103 :: 115 :: 34 :: 58 :: (tj ++ 44 :: T6) := ⟨_, rfl⟩
      obtain ⟨T4, hT4⟩ : ∃ x, x = 34 :: 99 :: 114 :: 101 :: 97 :: 116 :: 101 :: 100 :: 95 :: 97 :: 116 :: 34 :: 58 :: (decOf e.createdAt ++ 44 :: T5) := ⟨_, rfl⟩
      obtain ⟨T3, hT3⟩ : ∃ x, x = 34 :: 107 :: 105 :: 110 :: 100 :: 34 :: 58 :: (decOf e.kind ++ 44 :: T4) := ⟨_, rfl⟩
      obtain ⟨T2, hT2⟩ : ∃ x, x = 34 :: 112 :: 117 :: 98 :: 107 :: 101 :: 121 :: 34 :: 58 :: 34 :: (hexOf e.pubkey ++ 34 :: 44 :: T3) := ⟨_, rfl⟩
      obtain ⟨T1, hT1⟩ : ∃ x, x = 34 :: 105 :: 100 :: 34 :: 58 :: 34 :: (hexOf e.id ++ 34 :: 44 :: T2) := ⟨_, rfl⟩
      have hshape : ([123, 34, 105, 100, 34, 58, 34] ++ hexOf e.id ++ [34, 44, 34, 112, 117, 98, 107, 101, 121, 34, 58, 34] ++ hexOf e.pubkey ++
          [34, 44, 34, 107, 105, 110, 100, 34, 58] ++ decOf e.kind ++ [44, 34, 99, 114, 101, 97, 116, 101, 100, 95, 97, 116, 34, 58] ++ decOf e.createdAt ++
          [44, 34, 116, 97, 103, 115, 34, 58] ++ tj ++ [44, 34, 99, 111, 110, 116, 101, 110, 116, 34, 58, 34] ++ ec ++
          [34, 44, 34, 115, 105, 103, 34, 58, 34] ++ hexOf e.sig ++ [34, 125]) ++ rest = 123 :: T1 := by
        subst hT1 hT2 hT3 hT4 hT5 hT6 hT7
        simp
      have hlen1 : T1.length = 6 + 64 + 2 + T2.length := by
        rw [hT1]; simp only [List.length_cons, List.length_append, hhid, s1]; omega
      have htxtlen : ([123, 34, 105, 100, 34, 58, 34] ++ hexOf e.id ++ [34, 44, 34, 112, 117, 98, 107, 101, 121, 34, 58, 34] ++ hexOf e.pubkey ++
          [34, 44, 34, 107, 105, 110, 100, 34, 58] ++ decOf e.kind ++ [44, 34, 99, 114, 101, 97, 116, 101, 100, 95, 97, 116, 34, 58] ++ decOf e.createdAt ++
          [44, 34, 116, 97, 103, 115, 34, 58] ++ tj ++ [44, 34, 99, 111, 110, 116, 101, 110, 116, 34, 58, 34] ++ ec ++
          [34, 44, 34, 115, 105, 103, 34, 58, 34] ++ hexOf e.sig ++ [34, 125]).length + rest.length = (123 :: T1).length := by
        have := congrArg List.length hshape
        rw [List.length_append] at this
        exact this
      have hlen2 : T2.length = 10 + 64 + 2 + T3.length := by
        rw [hT2]; simp only [List.length_cons, List.length_append, hhpk, s2]; omega
      have hlen7 : T7.length ≥ 7 + 128 := by
        rw [hT7]; simp only [List.length_cons, List.length_append, hhsig, s3]; omega
      have hlen3 : T3.length ≥ T7.length := by
        rw [hT3, hT4, hT5, hT6]; simp only [List.length_cons, List.length_append]; omega
      rw [hshape]
      obtain ⟨f, hf⟩ : ∃ f, T1.length + 1 = f + 7 := ⟨T1.length + 1 - 7, by omega⟩
      have ws : ∀ x : Bytes, eatWs (34 :: x) = 34 :: x := fun x => by simp [eatWs, isWs]
      have loop : evLoop (T1.length + 1) {} T1 buf.length =
          .ok ({ id := some e.id, pk := some e.pubkey, sig := some e.sig, kind := some e.kind, t := some e.createdAt,
                 tags := some (encodeTags e.tags), content := some e.content, contentStart := none }, rest) := by
        rw [hf]
        rw [evLoop_more (f + 5 + 1) {} _ T1 T2 buf.length (by rw [hT1, ws]; exact m1 {} _ rfl)]
        rw [evLoop_more (f + 4 + 1) _ _ T2 T3 buf.length (by rw [hT2, ws]; exact m2 _ _ rfl)]
        rw [evLoop_more (f + 3 + 1) _ _ T3 T4 buf.length (by rw [hT3, ws]; exact m3 _ _ rfl)]
        rw [evLoop_more (f + 2 + 1) _ _ T4 T5 buf.length (by rw [hT4, ws]; exact m4 _ _ rfl)]
        rw [evLoop_more (f + 1 + 1) _ _ T5 T6 buf.length (by rw [hT5, ws]; exact m5 _ _ rfl rfl)]
        rw [evLoop_more (f + 1) _ _ T6 T7 buf.length (by rw [hT6, ws]; exact m6 _ _ rfl rfl)]
        rw [evLoop_last f _ _ T7 rest buf.length (by rw [hT7, ws]; exact m7 _ _ rfl)]
      unfold parseEvent
      rw [if_neg (by simp only [List.length_cons]; omega), if_neg (by omega)]
      rw [show eatWs (123 :: T1) = 123 :: T1 from by simp [eatWs, isWs]]
      simp only [verifyChar, if_true]
      rw [loop]
      dsimp only
      have henc : encodeEventWith e.id e.pubkey e.sig e.kind e.createdAt (encodeTags e.tags) e.content = encodeEvent e := rfl
      rw [henc, hlen]
      simp only [eventSize, List.length_cons] at *
      congr 2
      omega
    · cases ht
    · cases ht
  · cases ht
  · cases ht

/-! ### `as_json` succeeds on UTF-8 events -/

theorem strsJson_ok (ss : List Bytes) (hu : ∀ x ∈ ss, IsUtf8 x) (first : Bool) :
    ∃ txt, strsJson ss first = .ok txt := by
  induction ss generalizing first with
  | nil => exact ⟨[], rfl⟩
  | cons s ss ih =>
    obtain ⟨e, he⟩ := IsUtf8_escape s (hu s (by simp))
    obtain ⟨r, hr⟩ := ih (fun x hx => hu x (by simp [hx])) false
    simp only [strsJson, he, hr]
    exact ⟨_, rfl⟩

theorem tagsJsonBody_ok (ts : TagsRec) (hu : TagsUtf8 ts) (first : Bool) :
    ∃ txt, tagsJsonBody ts first = .ok txt := by
  induction ts generalizing first with
  | nil => exact ⟨[], rfl⟩
  | cons t ts ih =>
    obtain ⟨sj, hsj⟩ := strsJson_ok t (hu t (by simp)) true
    obtain ⟨r, hr⟩ := ih (fun t' ht' => hu t' (by simp [ht'])) false
    simp only [tagsJsonBody, hsj, hr]
    exact ⟨_, rfl⟩

theorem tagsJson_ok (ts : TagsRec) (hu : TagsUtf8 ts) : ∃ txt, tagsJson ts = .ok txt := by
  obtain ⟨b, hb⟩ := tagsJsonBody_ok ts hu true
  simp only [tagsJson, hb]
  exact ⟨_, rfl⟩

theorem eventJson_ok (e : EventRec) (hut : TagsUtf8 e.tags) (huc : IsUtf8 e.content) :
    ∃ txt, eventJson e = .ok txt := by
  obtain ⟨tj, htj⟩ := tagsJson_ok e.tags hut
  obtain ⟨ec, hec⟩ := IsUtf8_escape e.content huc
  simp only [eventJson, htj, hec]
  exact ⟨_, rfl⟩

end Pocket
