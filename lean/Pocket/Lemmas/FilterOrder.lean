import Pocket.Lemmas.EventOrder
/- Order independence, whitespace tolerance and unknown members of `Filter::from_json` (C07).

A filter text is a list of members in ANY order: the six NIP-01 members (values rendered as `as_json`
renders them), tag members `"#l":[…]` for letters `l`, and unknown members `"key":value` with any JSON
value nested at most 64 deep — separated by any mix of whitespace and commas, with any whitespace round
each colon.  Each NIP-01 member at most once, tag letters distinct.  The parser accepts every such text
and writes exactly `from_parts` of the filter the members denote; the tag constraints appear in the
order of the text. -/
namespace Pocket

inductive FMem where
  | ids (l : List Bytes)
  | authors (l : List Bytes)
  | kinds (l : List Nat)
  | since (n : Nat)
  | «until» (n : Nat)
  | limit (n : Nat)
  | tag (l : Nat) (vs : List Bytes) (vj : Bytes)
  | unknown (k v : Bytes)

def fKey : FMem → Bytes
  | .ids _ => [105, 100, 115]
  | .authors _ => [97, 117, 116, 104, 111, 114, 115]
  | .kinds _ => [107, 105, 110, 100, 115]
  | .since _ => [115, 105, 110, 99, 101]
  | .until _ => [117, 110, 116, 105, 108]
  | .limit _ => [108, 105, 109, 105, 116]
  | .tag l _ _ => [35, l]
  | .unknown k _ => k

def fVal : FMem → Bytes
  | .ids l => 91 :: (idsJson l true ++ [93])
  | .authors l => 91 :: (idsJson l true ++ [93])
  | .kinds l => 91 :: (kindsJson l true ++ [93])
  | .since n => decOf n
  | .until n => decOf n
  | .limit n => decOf n
  | .tag _ _ vj => 91 :: (vj ++ [93])
  | .unknown _ v => v

/-- `"key" ws : ws value` -/
def fmemText (m : FMem) (w1 w2 : Bytes) : Bytes := 34 :: (fKey m ++ 34 :: (w1 ++ 58 :: (w2 ++ fVal m)))

def knownFKeys : List Bytes :=
  [[105, 100, 115], [97, 117, 116, 104, 111, 114, 115], [107, 105, 110, 100, 115],
   [115, 105, 110, 99, 101], [117, 110, 116, 105, 108], [108, 105, 109, 105, 116]]

/-- what is assumed of each member's value -/
def FMemOk : FMem → Prop
  | .ids l => ∀ x ∈ l, x.length = 32 ∧ ∀ b ∈ x, b < 256
  | .authors l => ∀ x ∈ l, x.length = 32 ∧ ∀ b ∈ x, b < 256
  | .kinds l => ∀ k ∈ l, k < 65536
  | .since n => n < 18446744073709551616
  | .until n => n < 18446744073709551616
  | .limit n => n < 18446744073709551616
  | .tag l vs vj => isLetter l = true ∧ (∀ v ∈ vs, IsUtf8 v) ∧ ftagValuesJson vs true = .ok vj ∧ vs.length + 1 ≤ 65535
  | .unknown k v => StrBody k ∧ k ∉ knownFKeys ∧ (∀ l, isLetter l = true → k ≠ [35, l]) ∧ ∃ d, d ≤ 64 ∧ JT .val d v

/-- what may follow a member: whitespace, a comma, the next key's quote, or the closing brace -/
def After (X : Bytes) : Prop := ∃ b r, X = b :: r ∧ (isWs b = true ∨ b = 44 ∨ b = 34 ∨ b = 125)

theorem After.headOk {X : Bytes} (h : After X) : HeadOk X := by
  obtain ⟨b, r, rfl, hb⟩ := h
  refine ⟨b, r, rfl, ?_⟩
  unfold isDigit
  rcases hb with hb | rfl | rfl | rfl
  · unfold isWs at hb; simp at hb ⊢; omega
  · decide
  · decide
  · decide

theorem After.headNotNum {X : Bytes} (h : After X) : HeadNotNum X := by
  obtain ⟨b, r, rfl, hb⟩ := h
  intro c x hx
  simp only [List.cons.injEq] at hx
  obtain ⟨rfl, _⟩ := hx
  rcases hb with hb | rfl | rfl | rfl
  · unfold isWs at hb
    simp only [Bool.or_eq_true, beq_iff_eq] at hb
    rcases hb with ((rfl | rfl) | rfl) | rfl <;> decide
  · decide
  · decide
  · decide

/-- the state after a member (`X` = the text that follows it) -/
def fApply (st : FlSt) (m : FMem) (w1 w2 X : Bytes) : FlSt :=
  match m with
  | .ids l => { st with startIds := some (idsJson l true ++ 93 :: X) }
  | .authors l => { st with startAuthors := some (idsJson l true ++ 93 :: X) }
  | .kinds l => { st with startKinds := some (kindsJson l true ++ 93 :: X) }
  | .since n => { st with since := some n }
  | .until n => { st with «until» := some n }
  | .limit n => { st with limit := some (if n > U32MAX then U32MAX else n) }
  | .tag l _ vj => { st with tagStarts := st.tagStarts ++ [(l, 34 :: (w1 ++ 58 :: (w2 ++ 91 :: (vj ++ 93 :: X))))],
                             letters := l :: st.letters }
  | .unknown _ _ => st

def FFresh (st : FlSt) : FMem → Prop
  | .ids _ => st.startIds = none
  | .authors _ => st.startAuthors = none
  | .kinds _ => st.startKinds = none
  | .since _ => st.since = none
  | .until _ => st.until = none
  | .limit _ => st.limit = none
  | .tag l _ _ => st.tagStarts.length < 52 ∧ l ∉ st.letters
  | .unknown _ _ => True

theorem unknown_not_tag (k rest : Bytes) (hk : StrBody k) (hnt : ∀ l, isLetter l = true → k ≠ [35, l]) :
    ∀ h l qq after, k ++ 34 :: rest = h :: l :: qq :: after → ¬ (h = 35 ∧ isLetter l = true ∧ qq = 34) := by
  intro h l qq after heq ⟨h1, hl, h2⟩
  subst h1 h2
  match k, hk with
  | [], _ => simp at heq
  | [a], _ =>
    simp only [List.cons_append, List.nil_append, List.cons.injEq] at heq
    obtain ⟨_, rfl, _⟩ := heq
    simp [isLetter] at hl
  | [a, b], _ =>
    simp only [List.cons_append, List.nil_append, List.cons.injEq] at heq
    obtain ⟨rfl, rfl, _⟩ := heq
    exact hnt b hl rfl
  | a :: b :: c :: k', hk =>
    simp only [List.cons_append, List.cons.injEq] at heq
    obtain ⟨rfl, rfl, rfl, _⟩ := heq
    cases hk with
    | raw _ _ _ _ h2 =>
      cases h2 with
      | raw _ _ _ _ h3 =>
        cases h3 with
        | raw _ _ h34 _ _ => exact h34 rfl
      | esc _ _ _ => simp [isLetter] at hl

/-- an unknown member is handed to `burn_key_and_value` from its opening quote -/
theorem flMember_unknown_aux (st : FlSt) (field : Bytes)
    (h1 : startsWith kIds field = false) (h2 : startsWith kAuthors field = false)
    (h3 : startsWith kKinds field = false) (h4 : startsWith kSince field = false)
    (h5 : startsWith kUntil field = false) (h6 : startsWith kLimit field = false)
    (hnt : ∀ h l qq after, field = h :: l :: qq :: after → ¬ (h = 35 ∧ isLetter l = true ∧ qq = 34)) :
    flMember st (34 :: field) =
      match burnKeyValue (34 :: field) 0 with
      | .ok r' => .ok (st, r')
      | .err => .err
      | .panic => .panic := by
  unfold flMember
  simp only [verifyChar, if_true, h1, h2, h3, h4, h5, h6, Bool.false_eq_true, if_false]
  match field, hnt with
  | [], _ => rfl
  | [_], _ => rfl
  | [_, _], _ => rfl
  | h :: l :: qq :: after, hnt =>
    simp only [if_neg (hnt h l qq after rfl)]
    cases burnKeyValue (34 :: h :: l :: qq :: after) 0 <;> rfl

/-- one member, with any whitespace around its colon, whatever follows -/
theorem flMember_mem (st : FlSt) (m : FMem) (hok : FMemOk m) (hf : FFresh st m) (w1 w2 : Bytes)
    (hw1 : AllWs w1) (hw2 : AllWs w2) (X : Bytes) (hX : After X) :
    flMember st (fmemText m w1 w2 ++ X) = .ok (fApply st m w1 w2 X, X) := by
  cases m with
  | ids l =>
    simp only [FFresh] at hf
    have hcol := eatColon_ws w1 w2 91 (idsJson l true ++ 93 :: X) hw1 hw2 (by decide)
    have hs := skipToBracket_no93 (idsJson l true) (idsJson_no93 l true) X
    simp [fmemText, fKey, fVal, fApply, flMember, verifyChar, startsWith, kIds, hf, hcol, flArrayField, hs]
  | authors l =>
    simp only [FFresh] at hf
    have hcol := eatColon_ws w1 w2 91 (idsJson l true ++ 93 :: X) hw1 hw2 (by decide)
    have hs := skipToBracket_no93 (idsJson l true) (idsJson_no93 l true) X
    simp [fmemText, fKey, fVal, fApply, flMember, verifyChar, startsWith, kIds, kAuthors, hf, hcol, flArrayField, hs]
  | kinds l =>
    simp only [FFresh] at hf
    have hcol := eatColon_ws w1 w2 91 (kindsJson l true ++ 93 :: X) hw1 hw2 (by decide)
    have hs := skipToBracket_no93 (kindsJson l true) (kindsJson_no93 l true) X
    simp [fmemText, fKey, fVal, fApply, flMember, verifyChar, startsWith, kIds, kAuthors, kKinds, hf, hcol, flArrayField, hs]
  | since n =>
    simp only [FFresh] at hf
    simp only [FMemOk] at hok
    obtain ⟨d, ds, hd, hdw⟩ := decOf_head n
    have hcol := eatColon_ws w1 w2 d (ds ++ X) hw1 hw2 hdw
    obtain ⟨b, r, rfl, hb⟩ := hX.headOk
    have hrd := readU64_decOf n (b :: r) hok (noLeadingDigit_of b r hb)
    rw [hd] at hrd
    simp only [List.cons_append] at hrd
    simp [fmemText, fKey, fVal, fApply, flMember, verifyChar, startsWith, kIds, kAuthors, kKinds, kSince, hf, hd, hcol, hrd]
  | «until» n =>
    simp only [FFresh] at hf
    simp only [FMemOk] at hok
    obtain ⟨d, ds, hd, hdw⟩ := decOf_head n
    have hcol := eatColon_ws w1 w2 d (ds ++ X) hw1 hw2 hdw
    obtain ⟨b, r, rfl, hb⟩ := hX.headOk
    have hrd := readU64_decOf n (b :: r) hok (noLeadingDigit_of b r hb)
    rw [hd] at hrd
    simp only [List.cons_append] at hrd
    simp [fmemText, fKey, fVal, fApply, flMember, verifyChar, startsWith, kIds, kAuthors, kKinds, kSince, kUntil, hf, hd, hcol, hrd]
  | limit n =>
    simp only [FFresh] at hf
    simp only [FMemOk] at hok
    obtain ⟨d, ds, hd, hdw⟩ := decOf_head n
    have hcol := eatColon_ws w1 w2 d (ds ++ X) hw1 hw2 hdw
    obtain ⟨b, r, rfl, hb⟩ := hX.headOk
    have hrd := readU64_decOf n (b :: r) hok (noLeadingDigit_of b r hb)
    rw [hd] at hrd
    simp only [List.cons_append] at hrd
    simp [fmemText, fKey, fVal, fApply, flMember, verifyChar, startsWith, kIds, kAuthors, kKinds, kSince, kUntil, kLimit,
      hf, hd, hcol, hrd]
  | tag l vs vj =>
    simp only [FFresh] at hf
    obtain ⟨hl, hu, hv, hn⟩ := hok
    have hlen := ftagValuesJson_length vs true vj hv
    have hcol := eatColon_ws w1 w2 91 (vj ++ 93 :: X) hw1 hw2 (by decide)
    have hb := burnArray_values vs hu true vj X hv (burnFuel (vj ++ 93 :: X)) (by unfold burnFuel; simp; omega)
    have h52 : ¬ st.tagStarts.length ≥ 52 := by omega
    simp [fmemText, fKey, fVal, fApply, flMember, verifyChar, startsWith, kIds, kAuthors, kKinds, kSince, kUntil, kLimit,
      hl, h52, hf.2, hcol, hb]
  | unknown k v =>
    obtain ⟨hk, hnk, hnt, d, hd, hv⟩ := hok
    simp only [knownFKeys, List.mem_cons, List.not_mem_nil, or_false, not_or] at hnk
    obtain ⟨n1, n2, n3, n4, n5, n6⟩ := hnk
    have hshape : fmemText (.unknown k v) w1 w2 ++ X = 34 :: (k ++ 34 :: (w1 ++ 58 :: (w2 ++ (v ++ X)))) := by
      simp [fmemText, fKey, fVal]
    rw [hshape]
    have s1 := startsWith_other_key [105, 100, 115] k (w1 ++ 58 :: (w2 ++ (v ++ X))) (by decide) hk n1
    have s2 := startsWith_other_key [97, 117, 116, 104, 111, 114, 115] k (w1 ++ 58 :: (w2 ++ (v ++ X))) (by decide) hk n2
    have s3 := startsWith_other_key [107, 105, 110, 100, 115] k (w1 ++ 58 :: (w2 ++ (v ++ X))) (by decide) hk n3
    have s4 := startsWith_other_key [115, 105, 110, 99, 101] k (w1 ++ 58 :: (w2 ++ (v ++ X))) (by decide) hk n4
    have s5 := startsWith_other_key [117, 110, 116, 105, 108] k (w1 ++ 58 :: (w2 ++ (v ++ X))) (by decide) hk n5
    have s6 := startsWith_other_key [108, 105, 109, 105, 116] k (w1 ++ 58 :: (w2 ++ (v ++ X))) (by decide) hk n6
    rw [flMember_unknown_aux st _ s1 s2 s3 s4 s5 s6 (unknown_not_tag k _ hk hnt)]
    rw [burnKeyValue_json d k w1 w2 v X hk hw1 hw2 hv (by unfold MAX_BURN_DEPTH; omega) hX.headNotNum]
    rfl

/-! ### what the members denote -/

/-- the filter denoted by the members read so far -/
structure FAbs where
  ids : Option (List Bytes) := none
  authors : Option (List Bytes) := none
  kinds : Option (List Nat) := none
  since : Option Nat := none
  «until» : Option Nat := none
  limit : Option Nat := none
  /-- tag constraints in order of appearance: letter, values -/
  tags : List (Nat × List Bytes) := []

def FAbs.apply (A : FAbs) : FMem → FAbs
  | .ids l => { A with ids := some l }
  | .authors l => { A with authors := some l }
  | .kinds l => { A with kinds := some l }
  | .since n => { A with since := some n }
  | .until n => { A with «until» := some n }
  | .limit n => { A with limit := some n }
  | .tag l vs _ => { A with tags := A.tags ++ [(l, vs)] }
  | .unknown _ _ => A

/-- the member does not repeat one already read -/
def FAbs.fresh (A : FAbs) : FMem → Prop
  | .ids _ => A.ids = none
  | .authors _ => A.authors = none
  | .kinds _ => A.kinds = none
  | .since _ => A.since = none
  | .until _ => A.until = none
  | .limit _ => A.limit = none
  | .tag l _ _ => l ∉ A.tags.map Prod.fst
  | .unknown _ _ => True

/-- every member is well-formed and none repeats an earlier one -/
def FAbs.accepts (A : FAbs) : List FMem → Prop
  | [] => True
  | m :: ms => A.fresh m ∧ FMemOk m ∧ (A.apply m).accepts ms

def FAbs.run (A : FAbs) (ms : List FMem) : FAbs := ms.foldl FAbs.apply A

def satLimit (n : Nat) : Nat := if n > U32MAX then U32MAX else n

def FAbs.toFilter (A : FAbs) : FilterRec :=
  { ids := A.ids.getD [], authors := A.authors.getD [], kinds := A.kinds.getD [],
    tags := A.tags.map (fun t => [t.1] :: t.2),
    since := A.since.getD 0, «until» := A.until.getD U64MAX, limit := (A.limit.map satLimit).getD U32MAX }

/-- the saved positions are those of the tag members read so far, in order -/
def TagStarts : List (Nat × Bytes) → List (Nat × List Bytes) → Prop
  | [], [] => True
  | s :: ss, t :: ts =>
    (∃ w1 w2 vj X, AllWs w1 ∧ AllWs w2 ∧ s = (t.1, 34 :: (w1 ++ 58 :: (w2 ++ 91 :: (vj ++ 93 :: X)))) ∧
      ftagValuesJson t.2 true = .ok vj) ∧ TagStarts ss ts
  | _, _ => False

theorem TagStarts_snoc (ss : List (Nat × Bytes)) (ts : List (Nat × List Bytes)) (h : TagStarts ss ts)
    (s : Nat × Bytes) (t : Nat × List Bytes)
    (hst : ∃ w1 w2 vj X, AllWs w1 ∧ AllWs w2 ∧ s = (t.1, 34 :: (w1 ++ 58 :: (w2 ++ 91 :: (vj ++ 93 :: X)))) ∧
      ftagValuesJson t.2 true = .ok vj) : TagStarts (ss ++ [s]) (ts ++ [t]) := by
  induction ss generalizing ts with
  | nil =>
    cases ts with
    | nil => exact ⟨hst, trivial⟩
    | cons _ _ => exact absurd h (by simp [TagStarts])
  | cons a ss ih =>
    cases ts with
    | nil => exact absurd h (by simp [TagStarts])
    | cons b ts => exact ⟨h.1, ih ts h.2⟩

theorem TagStarts_length (ss : List (Nat × Bytes)) (ts : List (Nat × List Bytes)) (h : TagStarts ss ts) :
    ss.length = ts.length := by
  induction ss generalizing ts with
  | nil =>
    cases ts with
    | nil => rfl
    | cons _ _ => exact absurd h (by simp [TagStarts])
  | cons a ss ih =>
    cases ts with
    | nil => exact absurd h (by simp [TagStarts])
    | cons b ts => simp [ih ts h.2]

/-- the parser state records exactly the members read so far -/
structure FRel (A : FAbs) (st : FlSt) : Prop where
  ids0 : A.ids = none → st.startIds = none
  ids1 : ∀ l, A.ids = some l → ∃ X, st.startIds = some (idsJson l true ++ 93 :: X)
  au0 : A.authors = none → st.startAuthors = none
  au1 : ∀ l, A.authors = some l → ∃ X, st.startAuthors = some (idsJson l true ++ 93 :: X)
  ki0 : A.kinds = none → st.startKinds = none
  ki1 : ∀ l, A.kinds = some l → ∃ X, st.startKinds = some (kindsJson l true ++ 93 :: X)
  since : st.since = A.since
  «until» : st.until = A.until
  limit : st.limit = A.limit.map satLimit
  tags : TagStarts st.tagStarts A.tags
  letters : ∀ l, l ∈ st.letters ↔ l ∈ A.tags.map Prod.fst
  nodup : (A.tags.map Prod.fst).Nodup
  isl : ∀ l ∈ A.tags.map Prod.fst, isLetter l = true

theorem FRel_init : FRel {} {} := by
  constructor <;> simp [TagStarts]

theorem FRel_fresh (A : FAbs) (st : FlSt) (h : FRel A st) (m : FMem) (hf : A.fresh m) (hok : FMemOk m) :
    FFresh st m := by
  cases m with
  | ids l => exact h.ids0 hf
  | authors l => exact h.au0 hf
  | kinds l => exact h.ki0 hf
  | since n => simp only [FFresh, h.since]; exact hf
  | «until» n => simp only [FFresh, h.until]; exact hf
  | limit n => simp only [FFresh, h.limit]; simp only [FAbs.fresh] at hf; simp [hf]
  | tag l vs vj =>
    simp only [FAbs.fresh] at hf
    refine ⟨?_, fun hm => hf ((h.letters l).mp hm)⟩
    have hnd : (l :: A.tags.map Prod.fst).Nodup := List.nodup_cons.mpr ⟨hf, h.nodup⟩
    have := letters_le_52 (l :: A.tags.map Prod.fst) hnd (by
      intro x hx
      rcases List.mem_cons.mp hx with rfl | hx
      · exact hok.1
      · exact h.isl x hx)
    rw [TagStarts_length _ _ h.tags]
    simp at this
    omega
  | unknown k v => trivial

theorem FRel_step (A : FAbs) (st : FlSt) (h : FRel A st) (m : FMem) (hf : A.fresh m) (hok : FMemOk m)
    (w1 w2 X : Bytes) (hw1 : AllWs w1) (hw2 : AllWs w2) : FRel (A.apply m) (fApply st m w1 w2 X) := by
  obtain ⟨i1, i2, a1, a2, k1, k2, hs, hu, hl, ht, hle, hnd, hil⟩ := h
  cases m with
  | ids l =>
    refine ⟨by simp [FAbs.apply], ?_, a1, a2, k1, k2, hs, hu, hl, ht, hle, hnd, hil⟩
    intro l' hl'
    simp only [FAbs.apply, Option.some.injEq] at hl'
    subst hl'
    exact ⟨X, rfl⟩
  | authors l =>
    refine ⟨i1, i2, by simp [FAbs.apply], ?_, k1, k2, hs, hu, hl, ht, hle, hnd, hil⟩
    intro l' hl'
    simp only [FAbs.apply, Option.some.injEq] at hl'
    subst hl'
    exact ⟨X, rfl⟩
  | kinds l =>
    refine ⟨i1, i2, a1, a2, by simp [FAbs.apply], ?_, hs, hu, hl, ht, hle, hnd, hil⟩
    intro l' hl'
    simp only [FAbs.apply, Option.some.injEq] at hl'
    subst hl'
    exact ⟨X, rfl⟩
  | since n => exact ⟨i1, i2, a1, a2, k1, k2, rfl, hu, hl, ht, hle, hnd, hil⟩
  | «until» n => exact ⟨i1, i2, a1, a2, k1, k2, hs, rfl, hl, ht, hle, hnd, hil⟩
  | limit n => exact ⟨i1, i2, a1, a2, k1, k2, hs, hu, rfl, ht, hle, hnd, hil⟩
  | tag l vs vj =>
    simp only [FAbs.fresh] at hf
    obtain ⟨hlet, _, hv, _⟩ := hok
    refine ⟨i1, i2, a1, a2, k1, k2, hs, hu, hl, ?_, ?_, ?_, ?_⟩
    · exact TagStarts_snoc _ _ ht _ (l, vs) ⟨w1, w2, vj, X, hw1, hw2, rfl, hv⟩
    · intro x
      simp only [fApply, FAbs.apply, List.mem_cons, List.map_append, List.map_cons, List.map_nil, List.mem_append,
        List.not_mem_nil, or_false, hle x]
      constructor
      · rintro (h | h)
        · exact Or.inr h
        · exact Or.inl h
      · rintro (h | h)
        · exact Or.inr h
        · exact Or.inl h
    · simp only [FAbs.apply, List.map_append, List.map_cons, List.map_nil]
      rw [List.nodup_append]
      refine ⟨hnd, by simp, ?_⟩
      intro a ha b hb
      simp only [List.mem_singleton] at hb
      subst hb
      intro heq; subst heq
      exact hf ha
    · intro x hx
      simp only [FAbs.apply, List.map_append, List.map_cons, List.map_nil, List.mem_append, List.mem_singleton] at hx
      rcases hx with hx | rfl
      · exact hil x hx
      · exact hlet
  | unknown k v => exact ⟨i1, i2, a1, a2, k1, k2, hs, hu, hl, ht, hle, hnd, hil⟩

/-! ### the member loop over any order -/

/-- a member with its separators: before the key (whitespace and commas), before and after the colon -/
structure FSpec where
  w0 : Bytes
  w1 : Bytes
  w2 : Bytes
  m : FMem

def FSpec.WsOk (x : FSpec) : Prop := SepWs x.w0 ∧ AllWs x.w1 ∧ AllWs x.w2

/-- the text of a filter object after its `{`: the members in the given order, then `R` -/
def flText : List FSpec → Bytes → Bytes
  | [], R => R
  | x :: xs, R => x.w0 ++ (fmemText x.m x.w1 x.w2 ++ flText xs R)

theorem after_sepws (w : Bytes) (hw : SepWs w) (b : Nat) (r : Bytes) (hb : isWs b = true ∨ b = 44 ∨ b = 34 ∨ b = 125) :
    After (w ++ b :: r) := by
  cases w with
  | nil => exact ⟨b, r, rfl, hb⟩
  | cons c w =>
    refine ⟨c, w ++ b :: r, rfl, ?_⟩
    rcases hw c (by simp) with h | h
    · exact Or.inl h
    · exact Or.inr (Or.inl h)

theorem after_flText (xs : List FSpec) (hws : ∀ x ∈ xs, x.WsOk) (wEnd rest : Bytes) (hwe : SepWs wEnd) :
    After (flText xs (wEnd ++ 125 :: rest)) := by
  cases xs with
  | nil => exact after_sepws wEnd hwe 125 rest (Or.inr (Or.inr (Or.inr rfl)))
  | cons x xs =>
    simp only [flText, fmemText, List.cons_append]
    exact after_sepws x.w0 (hws x (by simp)).1 34 _ (Or.inr (Or.inr (Or.inl rfl)))

theorem flLoop_mems (ms : List FSpec) (hws : ∀ x ∈ ms, x.WsOk) (A : FAbs) (st : FlSt) (hrel : FRel A st)
    (hacc : A.accepts (ms.map (·.m))) (wEnd rest : Bytes) (hwe : SepWs wEnd) (fuel : Nat)
    (hf : ms.length + 1 ≤ fuel) :
    ∃ st', flLoop fuel st (flText ms (wEnd ++ 125 :: rest)) = .ok (st', rest) ∧
      FRel (A.run (ms.map (·.m))) st' := by
  induction ms generalizing A st fuel with
  | nil =>
    obtain ⟨f, rfl⟩ : ∃ f, fuel = f + 1 := ⟨fuel - 1, by simp at hf; omega⟩
    refine ⟨st, ?_, by simpa [FAbs.run] using hrel⟩
    simp only [flText, flLoop]
    rw [eatWsC_sepws wEnd 125 rest hwe (by decide) (by decide)]
    simp
  | cons x xs ih =>
    obtain ⟨f, rfl⟩ : ∃ f, fuel = f + 1 := ⟨fuel - 1, by simp at hf; omega⟩
    obtain ⟨hw0, hw1, hw2⟩ := hws x (by simp)
    simp only [List.map_cons, FAbs.accepts] at hacc
    obtain ⟨hfr, hok, hacc'⟩ := hacc
    have hX := after_flText xs (fun y hy => hws y (by simp [hy])) wEnd rest hwe
    have hmem := flMember_mem st x.m hok (FRel_fresh A st hrel x.m hfr hok) x.w1 x.w2 hw1 hw2 _ hX
    have hstep := FRel_step A st hrel x.m hfr hok x.w1 x.w2 (flText xs (wEnd ++ 125 :: rest)) hw1 hw2
    obtain ⟨st', hl, hr⟩ := ih (fun y hy => hws y (by simp [hy])) (A.apply x.m) _ hstep hacc' f (by simp at hf ⊢; omega)
    refine ⟨st', ?_, by simpa [FAbs.run] using hr⟩
    have hshape : flText (x :: xs) (wEnd ++ 125 :: rest) =
        x.w0 ++ 34 :: (fKey x.m ++ 34 :: (x.w1 ++ 58 :: (x.w2 ++ fVal x.m)) ++ flText xs (wEnd ++ 125 :: rest)) := by
      simp [flText, fmemText]
    rw [hshape, flLoop, eatWsC_sepws x.w0 34 _ hw0 (by decide) (by decide)]
    simp only [show (34 : Nat) ≠ 125 from by decide, if_false]
    have hm' : flMember st (34 :: (fKey x.m ++ 34 :: (x.w1 ++ 58 :: (x.w2 ++ fVal x.m)) ++ flText xs (wEnd ++ 125 :: rest))) =
        .ok (fApply st x.m x.w1 x.w2 (flText xs (wEnd ++ 125 :: rest)), flText xs (wEnd ++ 125 :: rest)) := by
      have := hmem
      simp only [fmemText, List.cons_append] at this
      exact this
    rw [hm']
    exact hl

/-! ### the second pass -/

def tagOf (t : Nat × List Bytes) : List Bytes := [t.1] :: t.2

/-- what the values read so far satisfy -/
structure FAbsOk (A : FAbs) : Prop where
  ids : ∀ l, A.ids = some l → ∀ x ∈ l, x.length = 32 ∧ ∀ b ∈ x, b < 256
  authors : ∀ l, A.authors = some l → ∀ x ∈ l, x.length = 32 ∧ ∀ b ∈ x, b < 256
  kinds : ∀ l, A.kinds = some l → ∀ k ∈ l, k < 65536
  tags : ∀ t ∈ A.tags, (∀ v ∈ t.2, IsUtf8 v) ∧ t.2.length + 1 ≤ 65535

theorem FAbsOk_run (ms : List FMem) (A : FAbs) (h : FAbsOk A) (hacc : A.accepts ms) : FAbsOk (A.run ms) := by
  induction ms generalizing A with
  | nil => simpa [FAbs.run] using h
  | cons m ms ih =>
    obtain ⟨_, hok, hacc'⟩ := hacc
    have hstep : FAbsOk (A.apply m) := by
      obtain ⟨h1, h2, h3, h4⟩ := h
      cases m with
      | ids l => exact ⟨by intro l' hl'; simp only [FAbs.apply, Option.some.injEq] at hl'; subst hl'; exact hok, h2, h3, h4⟩
      | authors l => exact ⟨h1, by intro l' hl'; simp only [FAbs.apply, Option.some.injEq] at hl'; subst hl'; exact hok, h3, h4⟩
      | kinds l => exact ⟨h1, h2, by intro l' hl'; simp only [FAbs.apply, Option.some.injEq] at hl'; subst hl'; exact hok, h4⟩
      | since n => exact ⟨h1, h2, h3, h4⟩
      | «until» n => exact ⟨h1, h2, h3, h4⟩
      | limit n => exact ⟨h1, h2, h3, h4⟩
      | tag l vs vj =>
        refine ⟨h1, h2, h3, ?_⟩
        intro t ht
        simp only [FAbs.apply, List.mem_append, List.mem_singleton] at ht
        rcases ht with ht | rfl
        · exact h4 t ht
        · exact ⟨hok.2.1, hok.2.2.2⟩
      | unknown k v => exact ⟨h1, h2, h3, h4⟩
    simpa [FAbs.run] using ih (A.apply m) hstep hacc'

theorem copyTagField_ws (l : Nat) (vs : List Bytes) (hu : ∀ v ∈ vs, IsUtf8 v) (w1 w2 vj R : Bytes)
    (hw1 : AllWs w1) (hw2 : AllWs w2)
    (h : ftagValuesJson vs true = .ok vj) (endPos cap : Nat)
    (hcap : endPos + tagSize ([l] :: vs) ≤ cap) (hn : vs.length + 1 ≤ 65535) :
    copyTagField (l, 34 :: (w1 ++ 58 :: (w2 ++ 91 :: (vj ++ 93 :: R)))) endPos cap = .ok ([l] :: vs) := by
  simp only [tagSize, strsSize, List.length_cons, List.length_nil] at hcap
  have hlen := ftagValuesJson_length vs true vj h
  have hv := copyTagValues_values vs hu true vj R h (endPos + 5) cap 1 (by omega) (by omega)
    ((vj ++ 93 :: R).length + 1) (by simp; omega)
  unfold copyTagField
  simp only []
  rw [if_neg (by omega), if_neg (by omega)]
  simp only [verifyChar, if_true]
  rw [eatColon_ws w1 w2 91 _ hw1 hw2 (by decide)]
  simp only [verifyChar, if_true, hv]

theorem copyTagFields_tagStarts (starts : List (Nat × Bytes)) (ts : List (Nat × List Bytes)) (hs : TagStarts starts ts)
    (hok : ∀ t ∈ ts, (∀ v ∈ t.2, IsUtf8 v) ∧ t.2.length + 1 ≤ 65535) (w wts endPos cap : Nat) (hge : wts ≤ endPos)
    (hcap : endPos + tagsBodySize (ts.map tagOf) ≤ cap) (hwc : wts + 4 + 2 * (w + ts.length) ≤ cap) :
    ∃ offs, copyTagFields starts w wts endPos cap = .ok (offs, ts.map tagOf) ∧
      encOffList offs = encOffsets (endPos - wts) (ts.map tagOf) := by
  induction ts generalizing starts w endPos with
  | nil =>
    cases starts with
    | nil => exact ⟨[], rfl, rfl⟩
    | cons s ss => exact absurd hs (by simp [TagStarts])
  | cons t ts ih =>
    cases starts with
    | nil => exact absurd hs (by simp [TagStarts])
    | cons s ss =>
      obtain ⟨⟨w1, w2, vj, R, hw1, hw2, rfl, hv⟩, hss⟩ := hs
      obtain ⟨hu, hn⟩ := hok t (by simp)
      simp only [List.map_cons, tagsBodySize, List.length_cons] at hcap hwc
      have hf := copyTagField_ws t.1 t.2 hu w1 w2 vj R hw1 hw2 hv endPos cap (by unfold tagOf at hcap; omega) hn
      obtain ⟨offs, hrec, henc⟩ := ih ss hss (fun t' ht' => hok t' (by simp [ht'])) (w + 1)
        (endPos + tagSize (tagOf t)) (by omega) (by omega) (by omega)
      refine ⟨(endPos - wts) % 65536 :: offs, ?_, ?_⟩
      · unfold copyTagFields
        rw [if_neg (by omega), hf]
        simp only [tagOf] at hrec ⊢
        simp only [hrec, List.map_cons]
        rfl
      · simp only [encOffList, List.map_cons, encOffsets, le16_mod, henc]
        congr 2
        omega

theorem flText_length (ms : List FSpec) (R : Bytes) : ms.length + R.length ≤ (flText ms R).length := by
  induction ms with
  | nil => simp [flText]
  | cons x xs ih => simp only [flText, fmemText, List.length_append, List.length_cons]; omega

/-- **order independence, whitespace tolerance, unknown members**: the members in ANY order, any
separators, any JSON value under an unknown key — the parser writes exactly `from_parts` of the
filter the members denote, consuming up to the closing brace -/
theorem parseFilter_any_order (ms : List FSpec) (hws : ∀ x ∈ ms, x.WsOk)
    (hacc : ({} : FAbs).accepts (ms.map (·.m)))
    (lead wEnd rest buf : Bytes) (hlead : AllWs lead) (hwe : SepWs wEnd)
    (hs : FilterSized (({} : FAbs).run (ms.map (·.m))).toFilter)
    (hbuf : (encodeFilter (({} : FAbs).run (ms.map (·.m))).toFilter).length ≤ buf.length) :
    parseFilter (lead ++ 123 :: flText ms (wEnd ++ 125 :: rest)) buf =
      .ok ((lead ++ 123 :: flText ms (wEnd ++ 125 :: rest)).length - rest.length,
        (encodeFilter (({} : FAbs).run (ms.map (·.m))).toFilter).length,
        encodeFilter (({} : FAbs).run (ms.map (·.m))).toFilter ++
          buf.drop (encodeFilter (({} : FAbs).run (ms.map (·.m))).toFilter).length) := by
  obtain ⟨B, hB⟩ : ∃ B, B = ({} : FAbs).run (ms.map (·.m)) := ⟨_, rfl⟩
  rw [← hB] at hs hbuf ⊢
  have hlenT := flText_length ms (wEnd ++ 125 :: rest)
  simp only [List.length_append, List.length_cons] at hlenT
  obtain ⟨st', hloop, hrel⟩ := flLoop_mems ms hws {} {} FRel_init hacc wEnd rest hwe
    ((flText ms (wEnd ++ 125 :: rest)).length + 1) (by omega)
  rw [← hB] at hrel
  have hBok : FAbsOk B := by
    rw [hB]; exact FAbsOk_run _ {} ⟨by simp, by simp, by simp, by simp⟩ hacc
  have hlenF := encodeFilter_length B.toFilter hs
  rw [hlenF] at hbuf ⊢
  unfold filterSize at hbuf
  have hTs := hs.tags
  have hnI := hs.nIds
  have hnA := hs.nAuthors
  have hnK := hs.nKinds
  have hfi : B.toFilter.ids = B.ids.getD [] := rfl
  have hfa : B.toFilter.authors = B.authors.getD [] := rfl
  have hfk : B.toFilter.kinds = B.kinds.getD [] := rfl
  have hft : B.toFilter.tags = B.tags.map tagOf := rfl
  have htsz : tagsSize B.toFilter.tags = 4 + 2 * B.tags.length + tagsBodySize (B.tags.map tagOf) := by
    rw [hft]; simp [tagsSize]
  have c1 : copyOpt32 st'.startIds 32 buf.length = .ok B.toFilter.ids := by
    rw [hfi]
    cases hI : B.ids with
    | none => rw [hrel.ids0 hI]; rfl
    | some l =>
      obtain ⟨X, hX⟩ := hrel.ids1 l hI
      rw [hX]
      rw [hfi, hI] at hbuf hnI
      simp only [Option.getD_some] at hbuf hnI ⊢
      have hl := idsJson_length l true
      exact copyHex32_idsJson l (hBok.ids l hI) true X 32 buf.length 0 (by omega) (by omega) _
        (by simp only [List.length_append, List.length_cons]; omega)
  have c2 : copyOpt32 st'.startAuthors (32 + 32 * B.toFilter.ids.length) buf.length = .ok B.toFilter.authors := by
    rw [hfa]
    cases hI : B.authors with
    | none => rw [hrel.au0 hI]; rfl
    | some l =>
      obtain ⟨X, hX⟩ := hrel.au1 l hI
      rw [hX]
      rw [hfa, hI] at hbuf hnA
      simp only [Option.getD_some] at hbuf hnA ⊢
      have hl := idsJson_length l true
      exact copyHex32_idsJson l (hBok.authors l hI) true X _ buf.length 0 (by omega) (by omega) _
        (by simp only [List.length_append, List.length_cons]; omega)
  have c3 : copyOptKinds st'.startKinds (32 + 32 * B.toFilter.ids.length + 32 * B.toFilter.authors.length) buf.length =
      .ok B.toFilter.kinds := by
    rw [hfk]
    cases hI : B.kinds with
    | none => rw [hrel.ki0 hI]; rfl
    | some l =>
      obtain ⟨X, hX⟩ := hrel.ki1 l hI
      rw [hX]
      rw [hfk, hI] at hbuf hnK
      simp only [Option.getD_some] at hbuf hnK ⊢
      have hl := kindsJson_length l true
      exact copyKinds_kindsJson l (hBok.kinds l hI) true X _ buf.length 0 (by omega) (by omega) _
        (by simp only [List.length_append, List.length_cons]; omega)
  have hsl := TagStarts_length _ _ hrel.tags
  obtain ⟨offs, c4, hoffs⟩ := copyTagFields_tagStarts st'.tagStarts B.tags hrel.tags hBok.tags 0
    (32 + 32 * B.toFilter.ids.length + 32 * B.toFilter.authors.length + 2 * B.toFilter.kinds.length)
    (32 + 32 * B.toFilter.ids.length + 32 * B.toFilter.authors.length + 2 * B.toFilter.kinds.length + 4 + 2 * B.tags.length)
    buf.length (by omega) (by omega) (by omega)
  have g5 : st'.limit.getD U32MAX = B.toFilter.limit := by rw [hrel.limit]; rfl
  have g6 : st'.since.getD 0 = B.toFilter.since := by rw [hrel.since]; rfl
  have g7 : st'.until.getD U64MAX = B.toFilter.until := by rw [hrel.until]; rfl
  unfold parseFilter
  simp only []
  rw [if_neg (by simp only [List.length_append, List.length_cons]; omega), if_neg (by omega)]
  rw [eatWs_ws_keep lead 123 _ hlead (by decide)]
  simp only [verifyChar, if_true]
  rw [hloop]
  simp only [c1]
  simp only [c2]
  simp only [c3]
  rw [if_neg (by omega)]
  simp only [hsl]
  rw [c4]
  simp only []
  rw [if_neg (by omega), if_neg (by unfold U32MAX; omega)]
  have hsub : 32 + 32 * B.toFilter.ids.length + 32 * B.toFilter.authors.length + 2 * B.toFilter.kinds.length + 4 + 2 * B.tags.length -
      (32 + 32 * B.toFilter.ids.length + 32 * B.toFilter.authors.length + 2 * B.toFilter.kinds.length) = 4 + 2 * B.tags.length := by omega
  rw [hsub] at hoffs
  have henc : le16 (4 + 2 * B.tags.length + tagsBodySize (B.tags.map tagOf)) ++ le16 B.tags.length ++ encOffList offs ++
      encTagsBody (B.tags.map tagOf) = encodeTags B.toFilter.tags := by
    rw [hoffs, hft]; simp [encodeTags, tagsSize]
  rw [henc, g5, g6, g7]
  have hfin : encodeFilterWith B.toFilter.ids B.toFilter.authors B.toFilter.kinds (encodeTags B.toFilter.tags)
      B.toFilter.since B.toFilter.until B.toFilter.limit = encodeFilter B.toFilter := rfl
  rw [hfin, hlenF]

/-! ### acceptance and meaning do not depend on the order of the members -/

/-- which NIP-01 member a member is (unknown members: none) -/
def slot : FMem → Option Nat
  | .ids _ => some 0
  | .authors _ => some 1
  | .kinds _ => some 2
  | .since _ => some 3
  | .until _ => some 4
  | .limit _ => some 5
  | .tag l _ _ => some (6 + l)
  | .unknown _ _ => none

theorem fresh_apply (A : FAbs) (m m' : FMem) :
    (A.apply m).fresh m' ↔ A.fresh m' ∧ (slot m' = none ∨ slot m' ≠ slot m) := by
  cases m <;> cases m' <;> simp [FAbs.apply, FAbs.fresh, slot] <;> omega

/-- acceptance is: every member well-formed, no NIP-01 member twice — nothing about positions -/
theorem accepts_iff (ms : List FMem) (A : FAbs) :
    A.accepts ms ↔ (∀ m ∈ ms, FMemOk m) ∧ (ms.filterMap slot).Nodup ∧ ∀ m ∈ ms, A.fresh m := by
  induction ms generalizing A with
  | nil => simp [FAbs.accepts]
  | cons m ms ih =>
    simp only [FAbs.accepts, ih (A.apply m), fresh_apply, List.mem_cons, forall_eq_or_imp]
    have hnd : (List.filterMap slot (m :: ms)).Nodup ↔
        (ms.filterMap slot).Nodup ∧ ∀ m' ∈ ms, (slot m' = none ∨ slot m' ≠ slot m) := by
      cases hs : slot m with
      | none =>
        simp only [List.filterMap_cons, hs]
        constructor
        · intro h; exact ⟨h, fun m' _ => by cases slot m' <;> simp⟩
        · intro h; exact h.1
      | some k =>
        simp only [List.filterMap_cons, hs, List.nodup_cons, List.mem_filterMap, not_exists, not_and]
        constructor
        · rintro ⟨h1, h2⟩
          refine ⟨h2, fun m' hm' => ?_⟩
          cases hs' : slot m' with
          | none => exact Or.inl rfl
          | some k' => exact Or.inr (fun heq => h1 m' hm' (by rw [hs', heq]))
        · rintro ⟨h1, h2⟩
          refine ⟨fun m' hm' heq => ?_, h1⟩
          rcases h2 m' hm' with h | h
          · rw [h] at heq; cases heq
          · exact h heq
    rw [hnd]
    constructor
    · rintro ⟨h1, h2, h3, h4, h5⟩
      exact ⟨⟨h2, h3⟩, ⟨h4, fun m' hm' => (h5 m' hm').2⟩, h1, fun m' hm' => (h5 m' hm').1⟩
    · rintro ⟨⟨h2, h3⟩, ⟨h4, h6⟩, h1, h5⟩
      exact ⟨h1, h2, h3, h4, fun m' hm' => ⟨h5 m' hm', h6 m' hm'⟩⟩

theorem accepts_perm (ms₁ ms₂ : List FMem) (hp : ms₁.Perm ms₂) (A : FAbs) (h : A.accepts ms₁) : A.accepts ms₂ := by
  rw [accepts_iff] at h ⊢
  obtain ⟨h1, h2, h3⟩ := h
  exact ⟨fun m hm => h1 m (hp.mem_iff.mpr hm), (hp.filterMap slot).nodup_iff.mp h2, fun m hm => h3 m (hp.mem_iff.mpr hm)⟩

/-- the same filter up to the order of its tag constraints -/
structure FAbs.Equiv (A B : FAbs) : Prop where
  ids : A.ids = B.ids
  authors : A.authors = B.authors
  kinds : A.kinds = B.kinds
  since : A.since = B.since
  «until» : A.until = B.until
  limit : A.limit = B.limit
  tags : A.tags.Perm B.tags

theorem Equiv_refl (A : FAbs) : A.Equiv A := ⟨rfl, rfl, rfl, rfl, rfl, rfl, List.Perm.refl _⟩

theorem Equiv_apply (A B : FAbs) (h : A.Equiv B) (m : FMem) : (A.apply m).Equiv (B.apply m) := by
  obtain ⟨h1, h2, h3, h4, h5, h6, h7⟩ := h
  cases m <;> first
    | exact ⟨h1, h2, h3, h4, h5, h6, h7⟩
    | exact ⟨rfl, h2, h3, h4, h5, h6, h7⟩
    | exact ⟨h1, rfl, h3, h4, h5, h6, h7⟩
    | exact ⟨h1, h2, rfl, h4, h5, h6, h7⟩
    | exact ⟨h1, h2, h3, rfl, h5, h6, h7⟩
    | exact ⟨h1, h2, h3, h4, rfl, h6, h7⟩
    | exact ⟨h1, h2, h3, h4, h5, rfl, h7⟩
    | exact ⟨h1, h2, h3, h4, h5, h6, List.Perm.append_right _ h7⟩

theorem Equiv_run (ms : List FMem) (A B : FAbs) (h : A.Equiv B) : (A.run ms).Equiv (B.run ms) := by
  induction ms generalizing A B with
  | nil => exact h
  | cons m ms ih => exact ih _ _ (Equiv_apply A B h m)

theorem Equiv_trans {A B C : FAbs} (h1 : A.Equiv B) (h2 : B.Equiv C) : A.Equiv C :=
  ⟨h1.ids.trans h2.ids, h1.authors.trans h2.authors, h1.kinds.trans h2.kinds, h1.since.trans h2.since,
   h1.until.trans h2.until, h1.limit.trans h2.limit, h1.tags.trans h2.tags⟩

theorem Equiv_swap (A : FAbs) (a b : FMem) (hab : slot a = none ∨ slot a ≠ slot b) :
    ((A.apply a).apply b).Equiv ((A.apply b).apply a) := by
  cases a <;> cases b <;> first
    | exact Equiv_refl _
    | exact ⟨rfl, rfl, rfl, rfl, rfl, rfl, by
        simp only [FAbs.apply, List.append_assoc]
        exact List.Perm.append_left _ (List.Perm.swap _ _ _)⟩
    | (simp [slot] at hab)

/-- the members denote the same filter in any order (tag constraints in the order of the text) -/
theorem run_perm (ms₁ ms₂ : List FMem) (hp : ms₁.Perm ms₂) (hnd : (ms₁.filterMap slot).Nodup) (A : FAbs) :
    (A.run ms₁).Equiv (A.run ms₂) := by
  induction hp generalizing A with
  | nil => exact Equiv_refl _
  | @cons m l₁ l₂ _ ih =>
    have hnd' : (List.filterMap slot l₁).Nodup := by
      cases hs : slot m with
      | none => simpa [List.filterMap_cons, hs] using hnd
      | some k => simp only [List.filterMap_cons, hs, List.nodup_cons] at hnd; exact hnd.2
    exact ih hnd' (A.apply m)
  | swap a b l =>
    have hab : slot b = none ∨ slot b ≠ slot a := by
      cases hb : slot b with
      | none => exact Or.inl rfl
      | some kb =>
        right
        cases ha : slot a with
        | none => simp
        | some ka =>
          simp only [List.filterMap_cons, hb, ha, List.nodup_cons, List.mem_cons, not_or] at hnd
          intro heq
          exact hnd.1.1 (by simpa using heq)
    exact Equiv_run l _ _ (Equiv_swap A b a hab)
  | trans h1 _ ih1 ih2 =>
    exact Equiv_trans (ih1 hnd A) (ih2 ((h1.filterMap slot).nodup_iff.mp hnd) A)

theorem tagsBodySize_perm (t₁ t₂ : TagsRec) (h : t₁.Perm t₂) : tagsBodySize t₁ = tagsBodySize t₂ := by
  induction h with
  | nil => rfl
  | cons _ _ ih => simp [tagsBodySize, ih]
  | swap _ _ _ => simp only [tagsBodySize]; omega
  | trans _ _ ih1 ih2 => exact ih1.trans ih2

theorem toFilter_equiv (A B : FAbs) (h : A.Equiv B) :
    A.toFilter.ids = B.toFilter.ids ∧ A.toFilter.authors = B.toFilter.authors ∧ A.toFilter.kinds = B.toFilter.kinds ∧
    A.toFilter.since = B.toFilter.since ∧ A.toFilter.until = B.toFilter.until ∧ A.toFilter.limit = B.toFilter.limit ∧
    A.toFilter.tags.Perm B.toFilter.tags := by
  obtain ⟨h1, h2, h3, h4, h5, h6, h7⟩ := h
  refine ⟨?_, ?_, ?_, ?_, ?_, ?_, h7.map _⟩ <;> simp only [FAbs.toFilter, h1, h2, h3, h4, h5, h6]

theorem sized_equiv (f g : FilterRec) (hs : FilterSized f) (h1 : f.ids = g.ids) (h2 : f.authors = g.authors)
    (h3 : f.kinds = g.kinds) (h4 : f.since = g.since) (h5 : f.until = g.until) (h6 : f.limit = g.limit)
    (h7 : f.tags.Perm g.tags) : FilterSized g ∧ (encodeFilter g).length = (encodeFilter f).length := by
  have hts : tagsSize g.tags = tagsSize f.tags := by
    unfold tagsSize; rw [tagsBodySize_perm _ _ h7, h7.length_eq]
  have hsg : FilterSized g := by
    obtain ⟨s1, s2, s3, s4, s5, s6, s7, s8, s9, s10⟩ := hs
    exact ⟨h1 ▸ s1, h2 ▸ s2, h3 ▸ s3, h1 ▸ s4, h2 ▸ s5, h3 ▸ s6, hts ▸ s7, h4 ▸ s8, h5 ▸ s9, h6 ▸ s10⟩
  refine ⟨hsg, ?_⟩
  rw [encodeFilter_length g hsg, encodeFilter_length f hs, hts, ← h1, ← h2, ← h3]

/-! ### a repeated member is refused wherever it stands -/

theorem flMember_dup (A : FAbs) (st : FlSt) (hrel : FRel A st) (m : FMem) (hok : FMemOk m) (hnf : ¬ A.fresh m)
    (w1 w2 : Bytes) (X : Bytes) : flMember st (fmemText m w1 w2 ++ X) = .err := by
  cases m with
  | ids l =>
    simp only [FAbs.fresh] at hnf
    obtain ⟨l', hl'⟩ := Option.ne_none_iff_exists'.mp hnf
    obtain ⟨Y, hY⟩ := hrel.ids1 l' hl'
    simp [fmemText, fKey, flMember, verifyChar, startsWith, kIds, hY]
  | authors l =>
    simp only [FAbs.fresh] at hnf
    obtain ⟨l', hl'⟩ := Option.ne_none_iff_exists'.mp hnf
    obtain ⟨Y, hY⟩ := hrel.au1 l' hl'
    simp [fmemText, fKey, flMember, verifyChar, startsWith, kIds, kAuthors, hY]
  | kinds l =>
    simp only [FAbs.fresh] at hnf
    obtain ⟨l', hl'⟩ := Option.ne_none_iff_exists'.mp hnf
    obtain ⟨Y, hY⟩ := hrel.ki1 l' hl'
    simp [fmemText, fKey, flMember, verifyChar, startsWith, kIds, kAuthors, kKinds, hY]
  | since n =>
    simp only [FAbs.fresh] at hnf
    obtain ⟨v, hv⟩ := Option.ne_none_iff_exists'.mp hnf
    have : st.since = some v := by rw [hrel.since, hv]
    simp [fmemText, fKey, flMember, verifyChar, startsWith, kIds, kAuthors, kKinds, kSince, this]
  | «until» n =>
    simp only [FAbs.fresh] at hnf
    obtain ⟨v, hv⟩ := Option.ne_none_iff_exists'.mp hnf
    have : st.until = some v := by rw [hrel.until, hv]
    simp [fmemText, fKey, flMember, verifyChar, startsWith, kIds, kAuthors, kKinds, kSince, kUntil, this]
  | limit n =>
    simp only [FAbs.fresh] at hnf
    obtain ⟨v, hv⟩ := Option.ne_none_iff_exists'.mp hnf
    have : st.limit = some (satLimit v) := by rw [hrel.limit, hv]; rfl
    simp [fmemText, fKey, flMember, verifyChar, startsWith, kIds, kAuthors, kKinds, kSince, kUntil, kLimit, this]
  | tag l vs vj =>
    simp only [FAbs.fresh] at hnf
    have hin : l ∈ st.letters := (hrel.letters l).mpr (Classical.not_not.mp hnf)
    have hl := hok.1
    simp [fmemText, fKey, flMember, verifyChar, startsWith, kIds, kAuthors, kKinds, kSince, kUntil, kLimit, hl, hin]
  | unknown k v => exact absurd trivial hnf

theorem flLoop_reject (ms : List FSpec) (hws : ∀ x ∈ ms, x.WsOk) (A : FAbs) (st : FlSt) (hrel : FRel A st)
    (hok : ∀ x ∈ ms, FMemOk x.m) (hrej : ¬ A.accepts (ms.map (·.m))) (wEnd rest : Bytes) (hwe : SepWs wEnd)
    (fuel : Nat) : flLoop fuel st (flText ms (wEnd ++ 125 :: rest)) = .err := by
  induction ms generalizing A st fuel with
  | nil => exact absurd trivial hrej
  | cons x xs ih =>
    cases fuel with
    | zero => rfl
    | succ f =>
      obtain ⟨hw0, hw1, hw2⟩ := hws x (by simp)
      have hokx := hok x (by simp)
      have hshape : flText (x :: xs) (wEnd ++ 125 :: rest) =
          x.w0 ++ 34 :: (fKey x.m ++ 34 :: (x.w1 ++ 58 :: (x.w2 ++ fVal x.m)) ++ flText xs (wEnd ++ 125 :: rest)) := by
        simp [flText, fmemText]
      rw [hshape, flLoop, eatWsC_sepws x.w0 34 _ hw0 (by decide) (by decide)]
      simp only [show (34 : Nat) ≠ 125 from by decide, if_false]
      by_cases hfr : A.fresh x.m
      · have hX := after_flText xs (fun y hy => hws y (by simp [hy])) wEnd rest hwe
        have hmem := flMember_mem st x.m hokx (FRel_fresh A st hrel x.m hfr hokx) x.w1 x.w2 hw1 hw2 _ hX
        simp only [fmemText, List.cons_append] at hmem
        rw [hmem]
        have hstep := FRel_step A st hrel x.m hfr hokx x.w1 x.w2 (flText xs (wEnd ++ 125 :: rest)) hw1 hw2
        exact ih (fun y hy => hws y (by simp [hy])) (A.apply x.m) _ hstep (fun y hy => hok y (by simp [hy]))
          (by
            intro hacc
            exact hrej (by simp only [List.map_cons, FAbs.accepts]; exact ⟨hfr, hokx, hacc⟩)) f
      · have hdup := flMember_dup A st hrel x.m hokx hfr x.w1 x.w2 (flText xs (wEnd ++ 125 :: rest))
        simp only [fmemText, List.cons_append] at hdup
        rw [hdup]

/-- a text whose members are well-formed but repeat a NIP-01 member or a tag letter is refused -/
theorem parseFilter_reject (ms : List FSpec) (hws : ∀ x ∈ ms, x.WsOk) (hok : ∀ x ∈ ms, FMemOk x.m)
    (hrej : ¬ ({} : FAbs).accepts (ms.map (·.m))) (lead wEnd rest buf : Bytes) (hlead : AllWs lead) (hwe : SepWs wEnd) :
    parseFilter (lead ++ 123 :: flText ms (wEnd ++ 125 :: rest)) buf = .err := by
  have hloop := flLoop_reject ms hws {} {} FRel_init hok hrej wEnd rest hwe
    ((flText ms (wEnd ++ 125 :: rest)).length + 1)
  unfold parseFilter
  simp only []
  split
  · rfl
  · split
    · rfl
    · rw [eatWs_ws_keep lead 123 _ hlead (by decide)]
      simp only [verifyChar, if_true, hloop]

end Pocket
