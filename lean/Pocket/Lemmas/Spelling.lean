import Pocket.Lemmas.Burn
/- JSON strings with ANY legal escape spelling (C01, C02): a code point may be written raw (UTF-8),
with a short escape (`\" \\ \/ \b \f \n \r \t`) or as `\uXXXX` with hex digits of either case (code
points below 0x10000 that are not surrogates).  `json_unescape` reads every such spelling back to the
UTF-8 bytes of the code points; `burn_string` skips it. -/
namespace Pocket

/-- `p` is a way to write the code point `c` inside a JSON string -/
inductive Spelling : Nat → Bytes → Prop
  | raw (c : Nat) : c < 1114112 → isSafeChar c = true → Spelling c (utf8Bytes c)
  | quote : Spelling 34 [92, 34]
  | backslash : Spelling 92 [92, 92]
  | slash : Spelling 47 [92, 47]
  | b : Spelling 8 [92, 98]
  | f : Spelling 12 [92, 102]
  | n : Spelling 10 [92, 110]
  | r : Spelling 13 [92, 114]
  | t : Spelling 9 [92, 116]
  | u (h3 h2 h1 h0 d3 d2 d1 d0 : Nat) : hexVal h3 = some d3 → hexVal h2 = some d2 → hexVal h1 = some d1 →
      hexVal h0 = some d0 →
      ¬ (55296 ≤ d3 * 4096 + d2 * 256 + d1 * 16 + d0 ∧ d3 * 4096 + d2 * 256 + d1 * 16 + d0 ≤ 57343) →
      Spelling (d3 * 4096 + d2 * 256 + d1 * 16 + d0) [92, 117, h3, h2, h1, h0]

/-- a string body: the spellings of a list of code points, one after the other -/
inductive SpelledL : List Nat → Bytes → Prop
  | nil : SpelledL [] []
  | cons (c : Nat) (cs : List Nat) (p t : Bytes) : Spelling c p → SpelledL cs t → SpelledL (c :: cs) (p ++ t)

/-- the JSON string body `txt` denotes the UTF-8 string `s` -/
def Spells (s txt : Bytes) : Prop := ∃ cps, SpelledL cps txt ∧ s = utf8Of cps

theorem hexVal_lt (h d : Nat) (hh : hexVal h = some d) : h < 128 ∧ d < 16 ∧ h ≠ 34 ∧ h ≠ 92 := by
  unfold hexVal at hh
  split at hh
  · simp only [Option.some.injEq] at hh; omega
  · split at hh
    · simp only [Option.some.injEq] at hh; omega
    · split at hh
      · simp only [Option.some.injEq] at hh; omega
      · cases hh

theorem Spelling.lt {c : Nat} {p : Bytes} (h : Spelling c p) : c < 1114112 := by
  cases h with
  | raw c hc _ => exact hc
  | u h3 h2 h1 h0 d3 d2 d1 d0 a3 a2 a1 a0 _ =>
    have := (hexVal_lt _ _ a3).2.1; have := (hexVal_lt _ _ a2).2.1
    have := (hexVal_lt _ _ a1).2.1; have := (hexVal_lt _ _ a0).2.1
    omega
  | _ => decide

theorem Spelling.length_pos {c : Nat} {p : Bytes} (h : Spelling c p) : 0 < p.length := by
  cases h with
  | raw c _ _ => exact utf8Bytes_length_pos c
  | _ => simp

theorem bump_bump (a b : Nat) (w v : Bytes) (x : Outcome (Nat × Bytes)) :
    bump a w (bump b v x) = bump (a + b) (w ++ v) x := by
  cases x with
  | ok r => obtain ⟨c, o⟩ := r; simp [bump]; omega
  | err => rfl
  | panic => rfl

theorem ncp_ascii (x : Nat) (r : Bytes) (h : x < 128) : nextCodePoint (x :: r) = .ok (some (x, 1)) := by
  simp [nextCodePoint, h]

theorem unescF_bs (f : Nat) (tail : Bytes) (pos cap : Nat) (hcap : pos ≤ cap) :
    unescF (f + 1) (92 :: tail) .normal pos cap = bump 1 [] (unescF f tail .inesc pos cap) := by
  have hnc : ¬ cap < pos := by omega
  rw [unescF, ncp_ascii 92 tail (by omega)]
  simp [hnc]
  cases unescF f tail EscSt.inesc pos cap with
  | ok r => obtain ⟨c, o⟩ := r; simp [bump]
  | err => rfl
  | panic => rfl

/-- the character after a backslash: what is written and the state afterwards -/
inductive InEsc : Nat → Bytes → EscSt → Prop
  | quote : InEsc 34 [34] .normal
  | backslash : InEsc 92 [92] .normal
  | slash : InEsc 47 [47] .normal
  | b : InEsc 98 [8] .normal
  | f : InEsc 102 [12] .normal
  | n : InEsc 110 [10] .normal
  | r : InEsc 114 [13] .normal
  | t : InEsc 116 [9] .normal
  | u : InEsc 117 [] (.uesc 0 0)

theorem unescF_inesc (f : Nat) (e : Nat) (w : Bytes) (st' : EscSt) (h : InEsc e w st') (tail : Bytes) (pos cap : Nat)
    (hcap : pos + w.length ≤ cap) :
    unescF (f + 1) (e :: tail) .inesc pos cap = bump 1 w (unescF f tail st' (pos + w.length) cap) := by
  cases h <;>
    (simp only [List.length_cons, List.length_nil] at hcap
     first
       | (have hnc : ¬ cap < pos + 1 := by omega
          rw [unescF, ncp_ascii _ tail (by omega)]
          simp [hnc]
          cases unescF f tail EscSt.normal (pos + 1) cap with
          | ok r => obtain ⟨c, o⟩ := r; simp [bump]
          | err => rfl
          | panic => rfl)
       | (have hnc : ¬ cap < pos := by omega
          rw [unescF, ncp_ascii _ tail (by omega)]
          simp [hnc]
          cases unescF f tail (EscSt.uesc 0 0) pos cap with
          | ok r => obtain ⟨c, o⟩ := r; simp [bump]
          | err => rfl
          | panic => rfl))

theorem unescF_uesc (f : Nat) (h d : Nat) (hh : hexVal h = some d) (tail : Bytes) (digit total pos cap : Nat)
    (hd : digit < 3) (hcap : pos ≤ cap) :
    unescF (f + 1) (h :: tail) (.uesc digit total) pos cap =
      bump 1 [] (unescF f tail (.uesc (digit + 1) (total + d * 16 ^ (3 - digit))) pos cap) := by
  have hnc : ¬ cap < pos := by omega
  have hd3 : ¬ digit ≥ 3 := by omega
  rw [unescF, ncp_ascii h tail (hexVal_lt h d hh).1]
  simp [hh, hnc, hd3]
  cases unescF f tail (EscSt.uesc (digit + 1) (total + d * 16 ^ (3 - digit))) pos cap with
  | ok r => obtain ⟨c, o⟩ := r; simp [bump]
  | err => rfl
  | panic => rfl

theorem unescF_uesc_last (f : Nat) (h d : Nat) (hh : hexVal h = some d) (tail : Bytes) (total pos cap : Nat)
    (hns : ¬ (55296 ≤ total + d ∧ total + d ≤ 57343)) (hcap : pos + (utf8Bytes (total + d)).length ≤ cap) :
    unescF (f + 1) (h :: tail) (.uesc 3 total) pos cap =
      bump 1 (utf8Bytes (total + d)) (unescF f tail .normal (pos + (utf8Bytes (total + d)).length) cap) := by
  have hnc : ¬ cap < pos + (utf8Bytes (total + d)).length := by omega
  rw [unescF, ncp_ascii h tail (hexVal_lt h d hh).1]
  simp [hh, hnc, hns]
  cases unescF f tail EscSt.normal (pos + (utf8Bytes (total + d)).length) cap with
  | ok r => obtain ⟨c, o⟩ := r; simp [bump]
  | err => rfl
  | panic => rfl

/-- one spelled code point read back: the loop consumes the spelling, writes the code point's UTF-8
bytes and goes on in the normal state -/
theorem unescF_spelling (c : Nat) (p : Bytes) (h : Spelling c p) (tail : Bytes) (pos cap : Nat)
    (hcap : pos + (utf8Bytes c).length ≤ cap) (fuel : Nat) (hf : p.length ≤ fuel) :
    ∃ fuel', fuel' < fuel ∧ fuel - p.length ≤ fuel' ∧
      unescF fuel (p ++ tail) .normal pos cap =
        bump p.length (utf8Bytes c) (unescF fuel' tail .normal (pos + (utf8Bytes c).length) cap) := by
  have hpos0 : pos ≤ cap := by omega
  have short : ∀ (e v : Nat), InEsc e [v] .normal → utf8Bytes c = [v] → p = [92, e] →
      ∃ fuel', fuel' < fuel ∧ fuel - p.length ≤ fuel' ∧
        unescF fuel (p ++ tail) .normal pos cap =
          bump p.length (utf8Bytes c) (unescF fuel' tail .normal (pos + (utf8Bytes c).length) cap) := by
    intro e v hie hu hp
    subst hp
    simp only [List.length_cons, List.length_nil] at hf
    obtain ⟨f, rfl⟩ : ∃ f, fuel = f + 2 := ⟨fuel - 2, by omega⟩
    refine ⟨f, by omega, by simp, ?_⟩
    rw [hu] at hcap ⊢
    simp only [List.length_cons, List.length_nil] at hcap ⊢
    have s1 := unescF_bs (f + 1) (e :: tail) pos cap hpos0
    have s2 := unescF_inesc f e [v] .normal hie tail pos cap (by simpa using hcap)
    simp only [List.cons_append, List.nil_append, List.length_cons, List.length_nil] at s2 ⊢
    rw [s1, s2, bump_bump]
    simp
  cases h with
  | raw c hc hs =>
    have hpos := utf8Bytes_length_pos c
    obtain ⟨f, rfl⟩ : ∃ f, fuel = f + 1 := ⟨fuel - 1, by omega⟩
    refine ⟨f, by omega, by omega, ?_⟩
    have h92 : c ≠ 92 := by
      intro h; subst h; simp [isSafeChar] at hs
    have hnc : ¬ cap < pos + (utf8Bytes c).length := by omega
    rw [unescF, ncp_utf8 c hc]
    simp only [h92, if_false, hs, if_true, List.take_left' rfl, List.drop_left' rfl, hnc]
    cases unescF f tail EscSt.normal (pos + (utf8Bytes c).length) cap <;> simp [bump]
  | quote => exact short 34 34 .quote (by decide) rfl
  | backslash => exact short 92 92 .backslash (by decide) rfl
  | slash => exact short 47 47 .slash (by decide) rfl
  | b => exact short 98 8 .b (by decide) rfl
  | f => exact short 102 12 .f (by decide) rfl
  | n => exact short 110 10 .n (by decide) rfl
  | r => exact short 114 13 .r (by decide) rfl
  | t => exact short 116 9 .t (by decide) rfl
  | u h3 h2 h1 h0 d3 d2 d1 d0 a3 a2 a1 a0 hns =>
    simp only [List.length_cons, List.length_nil] at hf
    obtain ⟨f, rfl⟩ : ∃ f, fuel = f + 6 := ⟨fuel - 6, by omega⟩
    refine ⟨f, by omega, by simp, ?_⟩
    have s1 := unescF_bs (f + 5) (117 :: h3 :: h2 :: h1 :: h0 :: tail) pos cap hpos0
    have s2 := unescF_inesc (f + 4) 117 [] (.uesc 0 0) .u (h3 :: h2 :: h1 :: h0 :: tail) pos cap (by simpa using hpos0)
    have s3 := unescF_uesc (f + 3) h3 d3 a3 (h2 :: h1 :: h0 :: tail) 0 0 pos cap (by omega) hpos0
    have s4 := unescF_uesc (f + 2) h2 d2 a2 (h1 :: h0 :: tail) 1 (0 + d3 * 16 ^ (3 - 0)) pos cap (by omega) hpos0
    have s5 := unescF_uesc (f + 1) h1 d1 a1 (h0 :: tail) 2 (0 + d3 * 16 ^ (3 - 0) + d2 * 16 ^ (3 - 1)) pos cap (by omega) hpos0
    have hval : 0 + d3 * 16 ^ (3 - 0) + d2 * 16 ^ (3 - 1) + d1 * 16 ^ (3 - 2) + d0 = d3 * 4096 + d2 * 256 + d1 * 16 + d0 := by
      simp
    have s6 := unescF_uesc_last f h0 d0 a0 tail (0 + d3 * 16 ^ (3 - 0) + d2 * 16 ^ (3 - 1) + d1 * 16 ^ (3 - 2)) pos cap
      (by rw [hval]; exact hns) (by rw [hval]; exact hcap)
    rw [hval] at s6
    simp only [List.length_nil, Nat.add_zero] at s2
    simp only [List.cons_append, List.nil_append]
    rw [s1, s2, s3, s4, s5, s6]
    simp only [bump_bump, List.nil_append, List.length_cons, List.length_nil]

theorem SpelledL.lt {cps : List Nat} {t : Bytes} (h : SpelledL cps t) : ∀ c ∈ cps, c < 1114112 := by
  induction h with
  | nil => intro c hc; cases hc
  | cons c cs p t hp _ ih =>
    intro x hx
    rcases List.mem_cons.mp hx with rfl | hx
    · exact hp.lt
    · exact ih x hx

/-- **`json_unescape` on any spelling**: a string body written with any legal escapes, followed by
the closing quote and anything else, reads back as the UTF-8 bytes of its code points; the reader
stops at the quote having consumed exactly the body -/
theorem unescF_spelled (cps : List Nat) (txt : Bytes) (h : SpelledL cps txt) (rest : Bytes) (pos cap : Nat)
    (hcap : pos + (utf8Of cps).length ≤ cap) (fuel : Nat) (hf : (txt ++ 34 :: rest).length ≤ fuel) :
    unescF fuel (txt ++ 34 :: rest) .normal pos cap = .ok (txt.length, utf8Of cps) := by
  induction h generalizing fuel pos with
  | nil =>
    simp only [List.nil_append, List.length_cons] at hf ⊢
    obtain ⟨f, rfl⟩ : ∃ f, fuel = f + 1 := ⟨fuel - 1, by omega⟩
    simp [unescF, nextCodePoint, isSafeChar, utf8Of]
  | cons c cs p t hp _ ih =>
    have hu : utf8Of (c :: cs) = utf8Bytes c ++ utf8Of cs := by simp [utf8Of]
    rw [hu, List.length_append] at hcap
    rw [List.append_assoc] at hf ⊢
    rw [List.length_append] at hf
    obtain ⟨fuel', _, hge, hstep⟩ := unescF_spelling c p hp (t ++ 34 :: rest) pos cap (by omega) fuel (by omega)
    rw [hstep, ih (pos + (utf8Bytes c).length) (by omega) fuel' (by omega)]
    simp [bump, hu]

theorem jsonUnescape_spells (s txt rest : Bytes) (cap : Nat) (h : Spells s txt) (hcap : s.length ≤ cap) :
    jsonUnescape (txt ++ 34 :: rest) cap = .ok (txt.length, s) := by
  obtain ⟨cps, hs, rfl⟩ := h
  exact unescF_spelled cps txt hs rest 0 cap (by omega) _ (Nat.le_refl _)

/-! ### skipping -/

theorem StrBody_append (a b : Bytes) (ha : StrBody a) (hb : StrBody b) : StrBody (a ++ b) := by
  induction ha with
  | nil => exact hb
  | raw x r h1 h2 _ ih => exact .raw x _ h1 h2 ih
  | esc c r _ ih => exact .esc c _ ih

theorem Spelling.strBody {c : Nat} {p : Bytes} (h : Spelling c p) : StrBody p := by
  cases h with
  | raw c hc hs =>
    have h92 : c ≠ 92 ∧ c ≠ 34 := by
      constructor <;> (intro h; subst h; simp [isSafeChar] at hs)
    unfold utf8Bytes
    by_cases h1 : c < 128
    · simp only [h1, if_true]
      exact .raw _ _ (by omega) (by omega) .nil
    · by_cases h2 : c < 2048
      · simp only [h1, h2, if_true, if_false]
        exact .raw _ _ (by omega) (by omega) (.raw _ _ (by omega) (by omega) .nil)
      · by_cases h3 : c < 65536
        · simp only [h1, h2, h3, if_true, if_false]
          exact .raw _ _ (by omega) (by omega) (.raw _ _ (by omega) (by omega) (.raw _ _ (by omega) (by omega) .nil))
        · simp only [h1, h2, h3, if_false]
          exact .raw _ _ (by omega) (by omega) (.raw _ _ (by omega) (by omega)
            (.raw _ _ (by omega) (by omega) (.raw _ _ (by omega) (by omega) .nil)))
  | u h3 h2 h1 h0 d3 d2 d1 d0 a3 a2 a1 a0 _ =>
    have b3 := hexVal_lt _ _ a3; have b2 := hexVal_lt _ _ a2
    have b1 := hexVal_lt _ _ a1; have b0 := hexVal_lt _ _ a0
    exact .esc 117 _ (.raw _ _ b3.2.2.1 b3.2.2.2 (.raw _ _ b2.2.2.1 b2.2.2.2
      (.raw _ _ b1.2.2.1 b1.2.2.2 (.raw _ _ b0.2.2.1 b0.2.2.2 .nil))))
  | _ => exact .esc _ _ .nil

theorem SpelledL.strBody {cps : List Nat} {t : Bytes} (h : SpelledL cps t) : StrBody t := by
  induction h with
  | nil => exact .nil
  | cons c cs p t hp _ ih => exact StrBody_append p t hp.strBody ih

theorem burnString_spells (s txt rest : Bytes) (h : Spells s txt) : burnString (txt ++ 34 :: rest) = .ok rest := by
  obtain ⟨cps, hs, _⟩ := h
  exact burnString_body txt rest hs.strBody

/-! ### what `json_escape` writes is one of the spellings -/

theorem hexVal_hexDigitLower (d : Nat) (h : d < 16) : hexVal (hexDigitLower d) = some d := by
  unfold hexDigitLower hexVal
  split
  · have h1 : 48 ≤ 48 + d ∧ 48 + d ≤ 57 := by omega
    simp only [h1, and_self, if_true]; congr 1; omega
  · have h1 : ¬ (48 ≤ 87 + d ∧ 87 + d ≤ 57) := by omega
    have h2 : ¬ (65 ≤ 87 + d ∧ 87 + d ≤ 70) := by omega
    have h3 : 97 ≤ 87 + d ∧ 87 + d ≤ 102 := by omega
    simp only [h1, h2, h3, and_self, if_true, if_false]; congr 1; omega

theorem escOf_spelling (c : Nat) (hc : c < 1114112) : Spelling c (escOf c) := by
  by_cases hs : isSafeChar c = true
  · have he : escOf c = utf8Bytes c := by simp [escOf, hs]
    rw [he]; exact .raw c hc hs
  · have hs' : isSafeChar c = false := by simpa using hs
    have hs2 := hs'
    unfold isSafeChar at hs2
    simp only [Bool.or_eq_false_iff, Bool.and_eq_false_iff, decide_eq_false_iff_not] at hs2
    have hsmall : c < 32 ∨ c = 34 ∨ c = 92 := by omega
    rcases hsmall with h32 | rfl | rfl
    · by_cases h8 : c = 8
      · subst h8; exact .b
      · by_cases h9 : c = 9
        · subst h9; exact .t
        · by_cases h10 : c = 10
          · subst h10; exact .n
          · by_cases h12 : c = 12
            · subst h12; exact .f
            · by_cases h13 : c = 13
              · subst h13; exact .r
              · have he : escOf c = [92, 117, 48, 48, hexDigitLower (c / 16 % 16), hexDigitLower (c % 16)] := by
                  have n34 : c ≠ 34 := by omega
                  have n92 : c ≠ 92 := by omega
                  have n32 : ¬ c > 32 := by omega
                  simp [escOf, hs', escapePiece, h8, h9, h10, h12, h13, n34, n92, n32]
                rw [he]
                have := Spelling.u 48 48 (hexDigitLower (c / 16 % 16)) (hexDigitLower (c % 16)) 0 0 (c / 16 % 16) (c % 16)
                  (by decide) (by decide) (hexVal_hexDigitLower _ (Nat.mod_lt _ (by omega)))
                  (hexVal_hexDigitLower _ (Nat.mod_lt _ (by omega))) (by omega)
                have hcc : 0 * 4096 + 0 * 256 + c / 16 % 16 * 16 + c % 16 = c := by omega
                rw [hcc] at this
                exact this
    · simp only [escOf, isSafeChar, escapePiece]; simp; exact .quote
    · simp only [escOf, isSafeChar, escapePiece]; simp; exact .backslash

theorem escText_spelled (cps : List Nat) (hc : ∀ c ∈ cps, c < 1114112) : SpelledL cps (escText cps) := by
  induction cps with
  | nil => exact .nil
  | cons c r ih =>
    have he : escText (c :: r) = escOf c ++ escText r := by simp [escText]
    rw [he]
    exact .cons c r _ _ (escOf_spelling c (hc c (by simp))) (ih (fun x hx => hc x (by simp [hx])))

/-- the text `json_escape` writes for a UTF-8 string is one of its spellings -/
theorem jsonEscape_spells (s t : Bytes) (hu : IsUtf8 s) (he : jsonEscape s = .ok t) : Spells s t := by
  obtain ⟨cps, hc, rfl⟩ := hu
  rw [jsonEscape_utf8 cps hc] at he
  simp only [Outcome.ok.injEq] at he
  subst he
  exact ⟨cps, escText_spelled cps hc, rfl⟩

theorem Spells.isUtf8 {s txt : Bytes} (h : Spells s txt) : IsUtf8 s := by
  obtain ⟨cps, hs, rfl⟩ := h
  exact ⟨cps, hs.lt, rfl⟩

end Pocket
